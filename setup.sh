#!/bin/bash
# Builds everything the checks need, offline, from files on disk only.
set -e
cd "$(dirname "$0")"
exec ./vcheck setup

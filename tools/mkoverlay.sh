#!/bin/bash
# mkoverlay.sh <patch.diff> <outdir>  — applies a patch (relative to /repo) to copies of the touched files
# and writes <outdir>/overlay.json for VERIF_OVERLAY, leaving /repo untouched.
set -e
patch="$(readlink -f "$1")"; out="$2"; mkdir -p "$out"
files=$(grep '^+++ b/' "$patch" | sed 's#^+++ b/##')
echo '{"Replace": {' > "$out/overlay.json"; first=1
for f in $files; do
  mkdir -p "$out/$(dirname "$f")"; cp "/repo/$f" "$out/$f" 2>/dev/null || : > "$out/$f"
done
( cd "$out" && patch -p1 -s < "$patch" )
for f in $files; do
  [ $first = 1 ] || echo ',' >> "$out/overlay.json"; first=0
  printf '  "%s": "%s"' "/repo/$f" "$(readlink -f "$out/$f")" >> "$out/overlay.json"
done
echo '}}' >> "$out/overlay.json"
echo "$out/overlay.json"

#!/usr/bin/env python3
"""manifest_add.py ID category engine 'technique' 'level text' 'level note'  — adds/replaces a check entry, removes the id from not_applicable, validates."""
import json, sys, subprocess
id_, cat, engine, tech, text, note = sys.argv[1:7]
m = json.load(open('/verif/MANIFEST.json'))
m['checks'] = [c for c in m['checks'] if c['property_id'] != id_]
m['checks'].append({"property_id": id_, "quick_cmd": f"./vcheck {id_} quick", "thorough_cmd": f"./vcheck {id_} thorough",
  "evidence_file": f"evidence/{id_}.json", "replay_cmd_template": f"./vcheck {id_} --replay {{path}}", "engine": engine,
  "level_claimed": {"category": cat, "text": text, "design_ref": f"DESIGN.md section 4 {id_}"}, "level_note": note, "technique": tech})
m['checks'].sort(key=lambda c: c['property_id'])
m['not_applicable'] = [x for x in m.get('not_applicable', []) if x['property_id'] != id_]
for e in m['engines']:
    pass
json.dump(m, open('/verif/MANIFEST.json', 'w'), indent=1)
print(subprocess.run(['python3-vt', '-c', "import json,jsonschema;jsonschema.validate(json.load(open('/verif/MANIFEST.json')),json.load(open('/root/.vp/MANIFEST.schema.json')));print('manifest ok')"], capture_output=True, text=True).stdout)

#!/usr/bin/env python3
"""Run the repository's pinned test suite (guard off, no overlay) on a tree and compare with BASELINE.json.
usage: baseline.py [repo_root=/repo] [packages...]   -> exit 0 iff every stable_pass test (of the packages run) passed."""
import json, subprocess, sys, os
root = sys.argv[1] if len(sys.argv) > 1 else "/repo"
pkgs = sys.argv[2:] or ["./..."]
base = json.load(open("/root/.vp/BASELINE.json"))
stable = set(base["stable_pass"])
env = dict(os.environ, GOFLAGS="-mod=mod", GOPROXY="off")
env.pop("GOTOOLCHAIN", None)
p = subprocess.Popen(["go", "test", "-json", "-vet=off", "-count=1", "-timeout", "25m"] + pkgs, cwd=os.path.join(root, "utils"), env=env, stdout=subprocess.PIPE, stderr=subprocess.STDOUT, text=True)
status = {}
pk_seen = set()
for line in p.stdout:
    try:
        e = json.loads(line)
    except Exception:
        continue
    if e.get("Test") and e.get("Action") in ("pass", "fail", "skip"):
        status[e["Package"] + "::" + e["Test"]] = e["Action"]
    if e.get("Package"):
        pk_seen.add(e["Package"])
p.wait()
relevant = [t for t in stable if t.split("::")[0] in pk_seen]
bad = sorted(t for t in relevant if status.get(t) != "pass")
print(f"packages={len(pk_seen)} stable_pass_in_scope={len(relevant)} passed={len(relevant)-len(bad)} not_passed={len(bad)}")
for t in bad[:40]:
    print("  NOT-PASSED", t, status.get(t))
sys.exit(1 if bad else 0)

#!/usr/bin/env python3
"""seed_eval.py <cNN> <mK> [check ids...]
Confirms a seeded property-breaking change delivered by an independent sub-agent in /tmp/seed/out/<cNN>/<mK>/
(patch.diff, demo/RUN.md + test file, meta.json), in a scratch worktree:
  demo passes without the patch; patch applies and builds; the repository's baseline tests of the touched packages
  pass with the patch; demo fails with the patch.
Then applies the patch to /repo, runs the quick tier of the property's check (and of any extra check ids given),
undoes the patch, and stores everything under /verif/seeded/<CNN>-<mK>/ (meta.json records what was run and seen).
"""
import json, os, re, shutil, subprocess, sys, time

cid, mid = sys.argv[1], sys.argv[2]
extra = sys.argv[3:]
rnd = os.environ.get("SEED_ROUND", "1")
src = f"/tmp/seed/out{'' if rnd == '1' else rnd}/{cid}/{mid}"
wt = f"/tmp/seed/eval-{cid}-{mid}"
env = dict(os.environ, GOFLAGS="-mod=mod", GOPROXY="off")
env.pop("GOTOOLCHAIN", None)
ran = []

def sh(cmd, cwd=None, timeout=1800):
    p = subprocess.run(cmd, shell=True, cwd=cwd, env=env, capture_output=True, text=True, timeout=timeout)
    return p.returncode, (p.stdout + p.stderr)

def note(s):
    print(s, flush=True)
    ran.append(s)

run_md = open(f"{src}/demo/RUN.md").read()
tests = [f for f in os.listdir(f"{src}/demo") if f.endswith(".go") and os.path.isfile(f"{src}/demo/{f}")]
line = next((l for l in run_md.splitlines() if "go test" in l), "")
mp = re.search(r"-run[ =]+'?\"?([^'\"\s]+)", line)
mk = re.search(r"(\./[\w/]+)", line)
if not mk:
    sys.exit("cannot parse RUN.md: " + run_md[:400])
pattern, pkg = (mp.group(1) if mp else "."), mk.group(1).rstrip("/")
demo_tree = None
if not tests:  # the demonstration is a directory (a package of its own, possibly with helper packages below it)
    subs = [d for d in os.listdir(f"{src}/demo") if os.path.isdir(f"{src}/demo/{d}")]
    if len(subs) == 1:
        demo_tree = f"{src}/demo/{subs[0]}"
race = "-race" if "-race" in run_md else ""
pkgdir = pkg[2:]
patch = f"{src}/patch.diff"
touched = sorted({os.path.dirname(l[6:].strip()) for l in open(patch) if l.startswith("+++ b/")})
pkgs = sorted({"./" + t[len("utils/"):] + "/..." for t in touched if t.startswith("utils/")})

sh(f"git -C /repo worktree remove --force {wt}")
rc, out = sh(f"git -C /repo worktree add -q --detach {wt} HEAD")
if rc:
    sys.exit(out)
try:
    def put_demo():
        if demo_tree:
            shutil.rmtree(f"{wt}/utils/{pkgdir}", ignore_errors=True)
            shutil.copytree(demo_tree, f"{wt}/utils/{pkgdir}")
            return
        os.makedirs(f"{wt}/utils/{pkgdir}", exist_ok=True)
        for t in tests:
            shutil.copy(f"{src}/demo/{t}", f"{wt}/utils/{pkgdir}/{t}")
    put_demo()
    demo = f"go test {race} -vet=off -count=1 -run '{pattern}' {pkg}/"
    rc0, out0 = sh(demo, cwd=f"{wt}/utils", timeout=900)
    note(f"demo without the change: `{demo}` -> {'PASS' if rc0 == 0 else 'FAIL rc=%d' % rc0}")
    if rc0 != 0:
        print(out0[-1500:])
    rc, out = sh(f"git apply {patch}", cwd=wt)
    note(f"git apply patch.diff -> rc={rc}")
    if rc:
        sys.exit("patch does not apply: " + out)
    rcb, outb = sh("go build ./...", cwd=f"{wt}/utils")
    note(f"go build ./... with the change -> rc={rcb}")
    for t in tests:  # the demonstration is not part of the repository's suite (a failing demo may leave processes behind)
        os.remove(f"{wt}/utils/{pkgdir}/{t}")
    demo_dir_own = demo_tree is not None or not any(f.endswith(".go") for f in os.listdir(f"{wt}/utils/{pkgdir}"))
    if demo_dir_own:  # the demonstration lives in a package of its own
        shutil.rmtree(f"{wt}/utils/{pkgdir}")
    rct, outt = sh(f"python3 /verif/tools/baseline.py {wt} {' '.join(pkgs)}")
    if rct != 0:  # timing-sensitive tests under load: once more
        rct, outt = sh(f"python3 /verif/tools/baseline.py {wt} {' '.join(pkgs)}")
    note(f"repository baseline tests {' '.join(pkgs)} with the change -> {outt.strip().splitlines()[0] if outt.strip() else ''} rc={rct}")
    put_demo()
    rc1, out1 = sh(demo, cwd=f"{wt}/utils", timeout=900)
    note(f"demo with the change -> {'PASS' if rc1 == 0 else 'FAIL'}")
    confirmed = rc0 == 0 and rcb == 0 and rct == 0 and rc1 != 0
finally:
    sh(f"git -C /repo worktree remove --force {wt}")

verdicts = {}
prop = cid.upper()
if confirmed:
    rc, out = sh("git status --porcelain --untracked-files=no", cwd="/repo")
    if out.strip():
        sys.exit("/repo is not clean: " + out)
    rc, out = sh(f"git apply {patch}", cwd="/repo")
    try:
        for chk in [prop] + extra:
            t0 = time.time()
            rcv, outv = sh(f"./vcheck {chk} quick", cwd="/verif", timeout=3600)
            sigs = re.findall(r"^VIOLATION property=\S+ replay=\S+ signature=(\S+)", outv, re.M)
            verdicts[chk] = {"exit": rcv, "violations": sigs[:12], "n_signatures": len(sigs), "wall_s": round(time.time() - t0)}
            note(f"./vcheck {chk} quick with the change applied to /repo -> exit {rcv}, {len(sigs)} new signature(s): {sigs[:4]}")
    finally:
        sh("git checkout -- .", cwd="/repo")
        sh("rm -rf /verif/replays/" + prop, cwd="/verif")

dst = f"/verif/seeded/{prop}-{mid}" if rnd == "1" else f"/verif/seeded/{prop}-r{rnd}{mid}"
shutil.rmtree(dst, ignore_errors=True)
os.makedirs(dst + "/demo")
shutil.copy(patch, dst + "/patch.diff")
shutil.rmtree(dst + "/demo")
shutil.copytree(f"{src}/demo", f"{dst}/demo")
meta = {}
try:
    meta = json.load(open(f"{src}/meta.json"))
except Exception as e:
    meta = {"agent_meta_unreadable": str(e)}
meta.update({"property": prop, "confirmed_in_scratch_worktree": confirmed, "what_was_run": ran, "check_verdicts": verdicts,
             "detected": any(v["exit"] == 1 and v["n_signatures"] > 0 for v in verdicts.values())})
json.dump(meta, open(dst + "/meta.json", "w"), indent=1)
print("RESULT", prop, mid, "confirmed=%s" % confirmed, "detected=%s" % meta["detected"], json.dumps(verdicts))

#!/bin/bash
# run_all.sh [quick|thorough] [ids...] — runs the registered checks one after the other and prints a summary.
cd "$(dirname "$(readlink -f "$0")")/.."
tier="${1:-quick}"; shift || true
ids=("$@"); [ ${#ids[@]} -eq 0 ] && ids=($(jq -r '.checks[].property_id' MANIFEST.json))
mkdir -p .build/logs
for id in "${ids[@]}"; do
  s=$(date +%s)
  ./vcheck "$id" "$tier" > ".build/logs/$id.$tier.log" 2>&1; rc=$?
  e=$(( $(date +%s) - s ))
  printf "%-4s rc=%d %4ds  %s\n" "$id" "$rc" "$e" "$(grep '^RESULT' ".build/logs/$id.$tier.log" | tail -1)"
done

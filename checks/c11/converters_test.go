// C11, last clause: "the filesystem, I/O and process error converters map each backend condition to one stable kind".
//
// Enumerated: every backend error value the converters mention (by identifier, by text, or through os.IsExist /
// os.IsNotExist / os.IsPermission / os.IsTimeout), for each of the converters
//
//	filesystem.ConvertFileSystemError, safeio.ConvertIOError, proc.ConvertProcessError, commonerrors.ConvertContextError
//
// in the forms {bare, inside *os.PathError, inside *os.LinkError, inside *os.SyscallError, %w-wrapped}.
//
// Readings (weakest):
//
//	CV1 "one kind": the result is recognised (errors.Is) as AT MOST one of the 30 kinds.
//	CV2 "stable": (a) converting an equal input twice gives the same kind; (b) converting the result again does
//	    not change its kind (idempotence); (c) the three os wrapper types — the forms in which the os/afero
//	    backends really report a condition — do not change the kind of the condition they carry. The %w form is
//	    held to CV1, CV2a, CV2b and CV3 only: whether an arbitrary fmt.Errorf wrapper is "the same backend
//	    condition" is not something the sentence settles (os.IsTimeout & co do not look through such
//	    wrappers); differences are counted under "percent_w_changes_kind", not reported.
//	CV3 a context cancellation / deadline (bare or wrapped, any form) comes out as cancelled / timeout — first
//	    sentence of the property.
//	CV4 "map each backend condition": a value that a converter names explicitly (bare form) must be MAPPED:
//	    its result is recognised as exactly one kind, or is a deliberate translation (nil, or an error that is
//	    not the input, e.g. os.ErrProcessDone). A named value that comes back untouched and kind-less was not
//	    mapped at all. Values that are not named by a converter (the "unrelated" control value, io.EOF for the
//	    filesystem converter, …) may come back unchanged.
//	CV5 nil stays nil.
package c11

import (
	"context"
	"errors"
	"fmt"
	"io"
	"os"
	"os/exec"
	"sort"
	"syscall"

	ce "github.com/ARM-software/golang-utils/utils/commonerrors"
	"github.com/ARM-software/golang-utils/utils/filesystem"
	"github.com/ARM-software/golang-utils/utils/proc"
	"github.com/ARM-software/golang-utils/utils/safeio"
	"github.com/shirou/gopsutil/v4/process"
	"github.com/spf13/afero"
)

type backendValue struct {
	id    string
	mk    func() error // a fresh, equal value each time (sentinels return themselves)
	named map[string]bool
}

// commonKindOf: backend value id -> index into kinds, for the values that are the bare sentinel of a common kind (see init)
var commonKindOf = map[string]int{}

func init() {
	// every common kind as a backend value of its own (the ones the table names already are found and marked)
	for k, kind := range kinds {
		found := false
		for i := range backendValues {
			if e := backendValues[i].mk(); e == kind {
				commonKindOf[backendValues[i].id], found = k, true
			}
		}
		if !found {
			kind := kind
			id := "commonerrors:" + kind.Error()
			backendValues = append(backendValues, backendValue{id, func() error { return kind }, named()})
			commonKindOf[id] = k
		}
	}
}

// timeoutErr is what net/os hand out for an expired I/O deadline: Timeout() is true.
type timeoutErr struct{}

func (timeoutErr) Error() string { return "i/o timeout" }
func (timeoutErr) Timeout() bool { return true }

const (
	cvFS  = "ConvertFileSystemError"
	cvIO  = "ConvertIOError"
	cvPR  = "ConvertProcessError"
	cvCTX = "ConvertContextError"
)

var converters = map[string]func(error) error{
	cvFS:  filesystem.ConvertFileSystemError,
	cvIO:  safeio.ConvertIOError,
	cvPR:  proc.ConvertProcessError,
	cvCTX: ce.ConvertContextError,
}
var converterOrder = []string{cvFS, cvIO, cvPR, cvCTX}

func named(cs ...string) map[string]bool {
	m := map[string]bool{}
	for _, c := range cs {
		m[c] = true
	}
	return m
}

func sentinel(e error) func() error { return func() error { return e } }
func text(s string) func() error    { return func() error { return errors.New(s) } }

var backendValues = []backendValue{
	{"context.Canceled", sentinel(context.Canceled), named(cvFS, cvIO, cvPR, cvCTX)},
	{"context.DeadlineExceeded", sentinel(context.DeadlineExceeded), named(cvFS, cvIO, cvPR, cvCTX)},
	{"commonerrors.ErrTimeout", sentinel(ce.ErrTimeout), named(cvFS)},
	{"commonerrors.ErrCancelled", sentinel(ce.ErrCancelled), named(cvFS)},
	{"commonerrors.ErrNotImplemented", sentinel(ce.ErrNotImplemented), named(cvFS)},
	{"commonerrors.ErrUnsupported", sentinel(ce.ErrUnsupported), named(cvFS)},
	{"commonerrors.ErrEOF", sentinel(ce.ErrEOF), named(cvIO)},
	{"text:not supported", text("operation not supported"), named(cvFS)},
	{"os.ErrDeadlineExceeded", sentinel(os.ErrDeadlineExceeded), named(cvFS)},
	{"text:i/o timeout", text("read tcp 10.0.0.1:80: i/o timeout"), named(cvFS)},
	{"timeoutErr{Timeout()=true}", func() error { return timeoutErr{} }, named(cvFS)},
	{"syscall.ETIMEDOUT", sentinel(syscall.ETIMEDOUT), named(cvFS)},
	{"syscall.EAGAIN", sentinel(syscall.EAGAIN), named(cvFS)},
	{"os.ErrExist", sentinel(os.ErrExist), named(cvFS)},
	{"afero.ErrFileExists", sentinel(afero.ErrFileExists), named(cvFS)},
	{"afero.ErrDestinationExists", sentinel(afero.ErrDestinationExists), named(cvFS)},
	{"syscall.EEXIST", sentinel(syscall.EEXIST), named(cvFS)},
	{"syscall.ENOTEMPTY", sentinel(syscall.ENOTEMPTY), named(cvFS)},
	{"text:file exists", text("mkdir x: file exists"), named(cvFS)},
	{"text:file already exists", text("file already exists"), named(cvFS)},
	{"text:bad file descriptor", text("read x: bad file descriptor"), named(cvFS)},
	{"syscall.EBADF", sentinel(syscall.EBADF), named(cvFS)},
	{"os.ErrPermission", sentinel(os.ErrPermission), named(cvFS)},
	{"syscall.EACCES", sentinel(syscall.EACCES), named(cvFS)},
	{"syscall.EPERM", sentinel(syscall.EPERM), named(cvFS)},
	{"os.ErrClosed", sentinel(os.ErrClosed), named(cvFS)},
	{"afero.ErrFileClosed", sentinel(afero.ErrFileClosed), named(cvFS)},
	{"filesystem.ErrPathNotExist", sentinel(filesystem.ErrPathNotExist), named(cvFS)},
	{"io.ErrClosedPipe", sentinel(io.ErrClosedPipe), named(cvFS)},
	{"os.ErrNotExist", sentinel(os.ErrNotExist), named(cvFS)},
	{"afero.ErrFileNotFound", sentinel(afero.ErrFileNotFound), named(cvFS)},
	{"syscall.ENOENT", sentinel(syscall.ENOENT), named(cvFS)},
	{"os.ErrNoDeadline", sentinel(os.ErrNoDeadline), named(cvFS)},
	{"os.ErrInvalid", sentinel(os.ErrInvalid), named(cvFS)},
	{"afero.ErrOutOfRange", sentinel(afero.ErrOutOfRange), named(cvFS)},
	{"afero.ErrTooLarge", sentinel(afero.ErrTooLarge), named(cvFS)},
	{"filesystem.ErrChownNotImplemented", sentinel(filesystem.ErrChownNotImplemented), named(cvFS)},
	{"filesystem.ErrLinkNotImplemented", sentinel(filesystem.ErrLinkNotImplemented), named(cvFS)},
	{"io.ErrUnexpectedEOF", sentinel(io.ErrUnexpectedEOF), named(cvFS, cvIO)},
	{"io.EOF", sentinel(io.EOF), named(cvIO)},
	{"text:signal: killed", text("signal: killed"), named(cvPR)},
	{"text:signal: terminated", text("signal: terminated"), named(cvPR)},
	{"syscall.ESRCH", sentinel(syscall.ESRCH), named(cvPR)},
	{"exec.ErrWaitDelay", sentinel(exec.ErrWaitDelay), named(cvPR)},
	{"exec.ErrDot", sentinel(exec.ErrDot), named(cvPR)},
	{"exec.ErrNotFound", sentinel(exec.ErrNotFound), named(cvPR)},
	{"exec.Error{ErrNotFound}", func() error { return &exec.Error{Name: "tool", Err: exec.ErrNotFound} }, named(cvPR)},
	{"process.ErrorNotPermitted", sentinel(process.ErrorNotPermitted), named(cvPR)},
	{"process.ErrorProcessNotRunning", sentinel(process.ErrorProcessNotRunning), named(cvPR)},
	{"text:Access is denied", text("OpenProcess: Access is denied."), named(cvPR)},
	{"text:not implemented", text("not implemented yet"), named(cvPR)},
	{"unrelated", text("something else went wrong"), named()},
}

const (
	fBare = iota
	fPathError
	fLinkError
	fSyscallError
	fPercentW
	nForms
)

var formNames = []string{"bare", "*os.PathError", "*os.LinkError", "*os.SyscallError", "%w"}

func inForm(e error, f int) error {
	switch f {
	case fPathError:
		return &os.PathError{Op: "open", Path: "/p/a", Err: e}
	case fLinkError:
		return &os.LinkError{Op: "rename", Old: "/p/a", New: "/p/b", Err: e}
	case fSyscallError:
		return os.NewSyscallError("read", e)
	case fPercentW:
		return fmt.Errorf("doing something: %w", e)
	}
	return e
}

type cvResult struct {
	evals, distinct int64
	outcomeClasses  int
	table           map[string]map[string]string
	values          int
	samples         []spec
}

func kindSetName(r error) string {
	if r == nil {
		return "<nil>"
	}
	m, _ := recognised(r)
	l := maskNames(m)
	if len(l) == 0 {
		return "<no kind>"
	}
	sort.Strings(l)
	s := l[0]
	for _, x := range l[1:] {
		s += "+" + x
	}
	return s
}

// evalConversion checks one (converter, value, form). It returns the name of the resulting kind.
func evalConversion(rep sink, conv string, v backendValue, form int, bareKind string, verbose bool) (kind string, percentWDiffers bool) {
	f := converters[conv]
	sp := spec{Family: "CV", Converter: conv, Value: v.id, Form: formNames[form]}
	defer func() {
		if p := recover(); p != nil {
			sp.Note = fmt.Sprintf("panic: %v", p)
			rep.Violation(fmt.Sprintf("convert:%s:panic:%s", conv, v.id), sp)
		}
	}()
	in := inForm(v.mk(), form)
	r := f(in)
	kind = kindSetName(r)
	sp.Text = in.Error()
	sp.Back = fmt.Sprint(r)
	if verbose {
		fmt.Printf("REPLAY %s(%s in form %s = %q) = %q  kinds=%s\n", conv, v.id, formNames[form], in, fmt.Sprint(r), kind)
	}
	// the form is part of the signature only where the form is what the clause is about
	sig := func(clause string) string {
		if clause == "wrapper-changes-kind" {
			return fmt.Sprintf("convert:%s:%s:%s:%s", conv, clause, v.id, formNames[form])
		}
		return fmt.Sprintf("convert:%s:%s:%s", conv, clause, v.id)
	}
	mask, n := recognised(r)
	// CV1
	if n > 1 {
		sp.Note = "the result is recognised as several kinds: " + kind
		rep.Violation(sig("several-kinds"), sp)
	}
	// CV2a
	if k2 := kindSetName(f(inForm(v.mk(), form))); k2 != kind {
		sp.Note = fmt.Sprintf("two conversions of equal inputs: %s and %s", kind, k2)
		rep.Violation(sig("not-deterministic"), sp)
	}
	// CV2b
	if r != nil {
		if k2 := kindSetName(f(r)); k2 != kind {
			sp.Note = fmt.Sprintf("converted once: %s, converted twice: %s (%q)", kind, k2, fmt.Sprint(f(r)))
			rep.Violation(sig("not-idempotent"), sp)
		}
	}
	// CV3
	var want int = -1
	switch v.id {
	case "context.Canceled":
		want = idxCancelled
	case "context.DeadlineExceeded":
		want = idxTimeout
	}
	if want >= 0 && mask&(1<<uint(want)) == 0 {
		sp.Note = "a context error came out as " + kind
		rep.Violation(sig("context-error-reclassified"), sp)
	}
	// CV2c
	if form >= fPathError && form <= fSyscallError && kind != bareKind {
		sp.Note = fmt.Sprintf("bare: %s, in this form: %s", bareKind, kind)
		rep.Violation(sig("wrapper-changes-kind"), sp)
	}
	if form == fPercentW && kind != bareKind {
		percentWDiffers = true
	}
	// CV6 (first sentence of the property, chain of length 0): an error that already IS one of the common kinds keeps it
	if ck, isCommon := commonKindOf[v.id]; isCommon && (form == fBare || form == fPercentW) && mask&(1<<uint(ck)) == 0 {
		sp.Note = "an error of a common kind came out as " + kind
		rep.Violation(sig("common-kind-reclassified"), sp)
	}
	// CV4
	if form == fBare && v.named[conv] && n != 1 && r != nil && r == in {
		sp.Note = "a value the converter names explicitly came back untouched, with no kind"
		rep.Violation(sig("named-value-not-mapped"), sp)
	}
	return
}

// evalJoinedContext is CV3 for a context error that comes together with another backend condition — what a caller gets
// when an operation is abandoned because its context ended (ctx.Err() joined with, or wrapping, the backend's own error):
// the cancellation / deadline must not be reclassified as the other condition's kind.
func evalJoinedContext(rep sink, conv string, ctxID string, ctxErr error, v backendValue, shape int, verbose bool) {
	f := converters[conv]
	var in error
	switch shape {
	case 0:
		in = errors.Join(ctxErr, v.mk())
	case 1:
		in = errors.Join(v.mk(), ctxErr)
	default:
		in = fmt.Errorf("%w: %w", ctxErr, v.mk())
	}
	shapeName := []string{"Join(ctx,value)", "Join(value,ctx)", "%w: %w"}[shape]
	sp := spec{Family: "CVJ", Converter: conv, Value: ctxID + "+" + v.id, Form: shapeName, Text: in.Error()}
	defer func() {
		if p := recover(); p != nil {
			sp.Note = fmt.Sprintf("panic: %v", p)
			rep.Violation(fmt.Sprintf("convert:%s:panic:%s+%s", conv, ctxID, v.id), sp)
		}
	}()
	r := f(in)
	sp.Back = fmt.Sprint(r)
	want := idxCancelled
	if ctxID == "context.DeadlineExceeded" {
		want = idxTimeout
	}
	mask, _ := recognised(r)
	if verbose {
		fmt.Printf("REPLAY %s(%s of %s and %s = %q) = %q  kinds=%s\n", conv, shapeName, ctxID, v.id, in, fmt.Sprint(r), kindSetName(r))
	}
	if r == nil || mask&(1<<uint(want)) == 0 {
		sp.Note = "a context error that comes together with another condition came out as " + kindSetName(r)
		rep.Violation(fmt.Sprintf("convert:%s:context-error-reclassified:%s+%s", conv, ctxID, v.id), sp)
	}
}

func runConverters(rep sink) cvResult {
	res := cvResult{table: map[string]map[string]string{}, values: len(backendValues)}
	classes := map[string]bool{}
	var pw []string
	for _, conv := range converterOrder {
		res.table[conv] = map[string]string{}
		// CV5
		res.evals++
		if r := converters[conv](nil); r != nil {
			rep.Violation(fmt.Sprintf("convert:%s:nil-not-nil", conv), spec{Family: "CV", Converter: conv, Value: "nil", Form: "bare", Back: fmt.Sprint(r)})
		}
		for _, v := range backendValues {
			bare := ""
			for form := 0; form < nForms; form++ {
				res.evals++
				res.distinct++
				k, d := evalConversion(rep, conv, v, form, bare, false)
				if form == fBare {
					bare = k
					res.table[conv][v.id] = k
				}
				if d {
					pw = append(pw, fmt.Sprintf("%s:%s bare=%s %%w=%s", conv, v.id, bare, k))
				}
				classes[conv+"/"+k] = true
			}
		}
	}
	// CV3 for joined values
	for _, conv := range converterOrder {
		for _, cx := range []struct {
			id string
			e  error
		}{{"context.Canceled", context.Canceled}, {"context.DeadlineExceeded", context.DeadlineExceeded}} {
			for _, v := range backendValues {
				if v.id == "context.Canceled" || v.id == "context.DeadlineExceeded" {
					continue
				}
				for shape := 0; shape < 3; shape++ {
					res.evals++
					res.distinct++
					evalJoinedContext(rep, conv, cx.id, cx.e, v, shape, false)
				}
			}
		}
	}
	res.table["percent_w_changes_kind"] = map[string]string{}
	for _, s := range pw {
		res.table["percent_w_changes_kind"][s] = "observed, not a violation (CV2)"
	}
	res.outcomeClasses = len(classes)
	res.samples = []spec{
		{Family: "CV", Converter: cvFS, Value: "syscall.ENOENT", Form: "*os.PathError", Back: fmt.Sprint(filesystem.ConvertFileSystemError(&os.PathError{Op: "open", Path: "/p/a", Err: syscall.ENOENT}))},
		{Family: "CV", Converter: cvIO, Value: "io.ErrUnexpectedEOF", Form: "%w", Back: fmt.Sprint(safeio.ConvertIOError(fmt.Errorf("doing something: %w", io.ErrUnexpectedEOF)))},
	}
	return res
}

func replayConverter(rep sink, sp spec) {
	if _, ok := converters[sp.Converter]; !ok {
		rep.EngineError("unknown converter %q", sp.Converter)
		return
	}
	if sp.Family == "CVJ" {
		for shape, n := range []string{"Join(ctx,value)", "Join(value,ctx)", "%w: %w"} {
			for _, cx := range []struct {
				id string
				e  error
			}{{"context.Canceled", context.Canceled}, {"context.DeadlineExceeded", context.DeadlineExceeded}} {
				for _, v := range backendValues {
					if n == sp.Form && cx.id+"+"+v.id == sp.Value {
						evalJoinedContext(rep, sp.Converter, cx.id, cx.e, v, shape, true)
						return
					}
				}
			}
		}
		rep.EngineError("unknown joined value/form %q/%q", sp.Value, sp.Form)
		return
	}
	form := -1
	for i := range formNames {
		if formNames[i] == sp.Form {
			form = i
		}
	}
	for _, v := range backendValues {
		if v.id == sp.Value && form >= 0 {
			bare, _ := evalConversion(rep, sp.Converter, v, fBare, "", form == fBare)
			if form != fBare {
				evalConversion(rep, sp.Converter, v, form, bare, true)
			}
			return
		}
	}
	rep.EngineError("unknown value/form %q/%q", sp.Value, sp.Form)
}

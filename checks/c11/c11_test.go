// C11 — error kinds survive wrapping and serialisation.
//
// Bounded-exhaustive enumeration (level: exploration) executed on the real code of
// utils/commonerrors (+ the converters of utils/filesystem, utils/safeio, utils/proc):
//
//	F0  the 30 bare kinds (chains of length 0)
//	F1  every chain of length 1..L over the 8 constructor forms, one kind K (30 kinds + "no kind given"),
//	    one message m of the FULL message set used at every step, every cause            (L = 3 quick / 4 thorough)
//	F2  every chain of length 1..L2 in which EVERY step picks its own kind (31 choices), m in {"m","a: b"},
//	    every cause                                                                     (L2 = 2 quick / 3 thorough)
//	F3  every chain of length 1..L2 in which EVERY step picks its own message out of the core message set,
//	    one kind K, every cause                                                         (L2 = 2 quick / 3 thorough)
//	J   every ordered join (errors.Join) of 1..4 errors out of fixed pools of built errors
//	CV  every backend error value the converters mention x {bare, *os.PathError, *os.LinkError,
//	    *os.SyscallError, %w-wrapped}                                                   (converters_test.go)
//
// ORACLE — derived from the property statement only; where the sentence is ambiguous the WEAKEST reading is
// taken (readings R1..R7):
//
//	R1 "is recognised by Any / errors.Is as the kind it was given": errors.Is(e, K) and Any(e, K) for the kind K
//	   handed to the OUTERMOST constructor (New/Newf/Errorf: the kind of their target error). It is not asked
//	   that e is recognised as no other kind, nor that kinds of inner errors stay visible.
//	R2 "a cause that is a cancellation or a deadline is never reclassified": when the cause (or target) is, or
//	   %w-wraps, context.Canceled / context.DeadlineExceeded — or was built from such an error by the library's
//	   constructors — the result must be recognised as cancelled / timeout (recognition as the context
//	   sentinel itself would also be accepted), whatever kind was given.
//	R3 a cause that is only the LIBRARY's kind ErrTimeout/ErrCancelled (not a context error): both clauses of
//	   the sentence apply ("the kind it was given" and "not reclassified"), so either kind is accepted.
//	R4 WrapIfNotCommonError(K, cause) with a cause that already is a common error: the sentence does not say
//	   whether "the kind it was given" is K or the cause's kind — either is accepted.
//	R5 "yields an error of the same kind": the deserialised error d is non-nil and errors.Is(d, K) / Any(d, K)
//	   for the kind K that e was recognised as; for a join, for every element's kind. The sentence does not
//	   forbid d being recognised as additional kinds (this happens for multi-line messages whose second line
//	   is parsed as an error of its own); those cases are counted ("extra_kinds_after_roundtrip"), not reported.
//	R6 "the same reason up to whitespace around colons", single errors whose messages and causes are all
//	   single-line: reason(x) = text of x after the leading "<kind>:"; two reasons are the same when they are
//	   equal after splitting on ':' and trimming white space around every segment (so white space at the two
//	   ends of the reason is ignored as well). Joins and multi-line messages are exempt (the sentence says so).
//	R7 "serialising to text and deserialising" = commonerrors.SerialiseError followed by DeserialiseError.
//
// No wall clock, no randomness: verdict and counts are identical on every run.
package c11

import (
	"context"
	"encoding/json"
	"errors"
	"fmt"
	"hash/fnv"
	"os"
	"runtime"
	"sort"
	"strings"
	"sync"
	"testing"

	ce "github.com/ARM-software/golang-utils/utils/commonerrors"

	ev "verif/engine/evidence"
)

func TestMain(m *testing.M) { ev.Main(m) }

// ---- alphabet --------------------------------------------------------------------------------

var kinds = []error{
	ce.ErrNotImplemented, ce.ErrNoExtension, ce.ErrNoLogger, ce.ErrNoLoggerSource, ce.ErrNoLogSource,
	ce.ErrUndefined, ce.ErrInvalidDestination, ce.ErrTimeout, ce.ErrLocked, ce.ErrStaleLock,
	ce.ErrExists, ce.ErrNotFound, ce.ErrUnsupported, ce.ErrUnavailable, ce.ErrWrongUser,
	ce.ErrUnauthorised, ce.ErrUnknown, ce.ErrInvalid, ce.ErrConflict, ce.ErrMarshalling,
	ce.ErrCancelled, ce.ErrEmpty, ce.ErrUnexpected, ce.ErrTooLarge, ce.ErrForbidden,
	ce.ErrCondition, ce.ErrEOF, ce.ErrMalicious, ce.ErrOutOfRange, ce.ErrWarning,
}

const (
	nKinds = 30
	kNil   = 30 // "no kind given" (nil target): the library promises ErrUnknown
)

var idxTimeout, idxCancelled, idxUnknown = kindIndex(ce.ErrTimeout), kindIndex(ce.ErrCancelled), kindIndex(ce.ErrUnknown)

func kindIndex(e error) int {
	for i, k := range kinds {
		if k == e {
			return i
		}
	}
	panic("not a kind")
}

func kindName(i int) string {
	if i == kNil {
		return "nil"
	}
	if i < 0 {
		return "none"
	}
	return kinds[i].Error()
}

func kindErr(i int) error {
	if i == kNil {
		return nil
	}
	return kinds[i]
}

func kindByName(s string) (int, bool) {
	if s == "nil" {
		return kNil, true
	}
	for i := range kinds {
		if kinds[i].Error() == s {
			return i, true
		}
	}
	return -1, false
}

// constructor forms
const (
	cNew = iota
	cNewf
	cErrorf0 // Errorf(target, msg)           (no arguments: msg is used verbatim)
	cErrorfA // Errorf(target, "%v", msg)
	cWrap
	cWrapf
	cWinc
	cWincf
	nCtors
)

var ctorNames = [nCtors]string{"New", "Newf", "Errorf", "Errorf%v", "WrapError", "WrapErrorf", "WrapIfNotCommonError", "WrapIfNotCommonErrorf"}

func isTargetCtor(c int) bool { return c <= cErrorfA }

// causes ("seeds": what is at the bottom of a chain)
const (
	sNil = iota // no cause; for New/Newf/Errorf: the target is the kind itself
	sPlain
	sOtherKind // another (non-context) kind, as a bare sentinel
	sLibTimeout
	sLibCancelled
	sCanceled
	sDeadline
	sWrappedCanceled
	sWrappedDeadline
	nSeeds
)

var seedNames = [nSeeds]string{"nil", "plain error", "another kind", "ErrTimeout", "ErrCancelled", "context.Canceled", "context.DeadlineExceeded", "%w(context.Canceled)", "%w(context.DeadlineExceeded)"}

func seedIsTargetable(s int) bool { return s == sNil || s >= sCanceled }

// messages
var (
	coreMsgs = []string{"m", "", "a: b", ":", " : x ", "timeout", "é: ü — ☃", "line one\nline two", "not found"}
	fullMsgs = func() []string {
		l := append([]string{}, coreMsgs...)
		l = append(l, "100% sure %v %d", "ends with colon:", "tab\tand  two spaces", " leading and trailing ", "NOT FOUND", "Missing Logger", "first\ntimeout: second", "::")
		for _, k := range kinds {
			if k.Error() != "timeout" && k.Error() != "not found" {
				l = append(l, k.Error())
			}
		}
		return l
	}()
	f2Msgs = []string{"m", "a: b"}
)

// ---- model value -----------------------------------------------------------------------------

type mval struct {
	err    error
	accept uint32 // bit i set: being recognised as kind i satisfies the statement (alternatives, see R3/R4)
	hard   uint8  // 1: is a cancellation, 2: is a deadline — derives from a real context error (R2)
	multi  bool   // a message of the chain has more than one line
}

func bit(i int) uint32 {
	if i == kNil {
		return 1 << uint(idxUnknown)
	}
	return 1 << uint(i)
}

var ctxBits = bit(idxTimeout) | bit(idxCancelled)

func otherKind(k int) int {
	o := 0
	if k != kNil {
		o = (k + 7) % nKinds
	}
	for o == k || o == idxTimeout || o == idxCancelled {
		o = (o + 1) % nKinds
	}
	return o
}

func seedVal(seed, k int) mval {
	switch seed {
	case sNil:
		return mval{}
	case sPlain:
		return mval{err: errors.New("boom")}
	case sOtherKind:
		o := otherKind(k)
		return mval{err: kinds[o], accept: bit(o)}
	case sLibTimeout:
		return mval{err: ce.ErrTimeout, accept: bit(idxTimeout)}
	case sLibCancelled:
		return mval{err: ce.ErrCancelled, accept: bit(idxCancelled)}
	case sCanceled:
		return mval{err: context.Canceled, accept: bit(idxCancelled), hard: 1}
	case sDeadline:
		return mval{err: context.DeadlineExceeded, accept: bit(idxTimeout), hard: 2}
	case sWrappedCanceled:
		return mval{err: fmt.Errorf("operation stopped: %w", context.Canceled), accept: bit(idxCancelled), hard: 1}
	case sWrappedDeadline:
		return mval{err: fmt.Errorf("operation stopped: %w", context.DeadlineExceeded), accept: bit(idxTimeout), hard: 2}
	}
	panic("seed")
}

type step struct{ ctor, kind, msg int } // msg: index into the message list of the run (allMsgs)

var allMsgs = fullMsgs // every message list used is a subset; indices refer to this list

func msgIndex(s string) int {
	for i := range allMsgs {
		if allMsgs[i] == s {
			return i
		}
	}
	panic("message not in the list: " + s)
}

// apply executes ONE constructor of the library on the real code and computes what the statement allows.
// first: prev is the seed (cause); for New/Newf/Errorf with the nil seed the target is the kind itself.
func apply(prev mval, s step, first bool) mval {
	msg := allMsgs[s.msg]
	out := mval{multi: prev.multi || strings.Contains(msg, "\n")}
	if isTargetCtor(s.ctor) {
		target := prev
		if first && prev.err == nil {
			target = mval{err: kindErr(s.kind), accept: bit(s.kind)}
		}
		switch s.ctor {
		case cNew:
			out.err = ce.New(target.err, msg)
		case cNewf:
			out.err = ce.Newf(target.err, "%v", msg)
		case cErrorf0:
			out.err = ce.Errorf(target.err, msg)
		case cErrorfA:
			out.err = ce.Errorf(target.err, "%v", msg)
		}
		out.accept, out.hard = target.accept, target.hard
		if target.err == nil {
			out.accept = bit(idxUnknown)
		}
		return out
	}
	k := kindErr(s.kind)
	switch s.ctor {
	case cWrap:
		out.err = ce.WrapError(k, prev.err, msg)
	case cWrapf:
		out.err = ce.WrapErrorf(k, prev.err, "%v", msg)
	case cWinc:
		out.err = ce.WrapIfNotCommonError(k, prev.err, msg)
	case cWincf:
		out.err = ce.WrapIfNotCommonErrorf(k, prev.err, "%v", msg)
	}
	switch {
	case prev.hard != 0: // R2
		out.accept, out.hard = prev.accept, prev.hard
	case s.ctor == cWrap || s.ctor == cWrapf: // R1 + R3
		out.accept = bit(s.kind) | (prev.accept & ctxBits)
	default: // R1 + R3 + R4
		out.accept = bit(s.kind) | prev.accept
	}
	return out
}

// ---- replay specifications -------------------------------------------------------------------

type stepSpec struct {
	Ctor string `json:"ctor"`
	Kind string `json:"kind,omitempty"`
	Msg  string `json:"msg"`
}

type spec struct {
	Family    string     `json:"family"`
	Seed      string     `json:"cause,omitempty"`
	SeedKind  string     `json:"cause_relative_to_kind,omitempty"`
	Steps     []stepSpec `json:"steps,omitempty"`
	Elems     []spec     `json:"join_of,omitempty"`
	Converter string     `json:"converter,omitempty"`
	Value     string     `json:"value,omitempty"`
	Form      string     `json:"form,omitempty"`
	// informative
	Text       string `json:"error_text,omitempty"`
	Serialised string `json:"serialised,omitempty"`
	Back       string `json:"deserialised_text,omitempty"`
	Note       string `json:"note,omitempty"`
}

type chain struct {
	seed, seedKind int
	steps          [4]step
	n              int
}

func (c *chain) spec(family string) spec {
	s := spec{Family: family, Seed: seedNames[c.seed], SeedKind: kindName(c.seedKind)}
	for i := 0; i < c.n; i++ {
		st := c.steps[i]
		ss := stepSpec{Ctor: ctorNames[st.ctor], Msg: allMsgs[st.msg]}
		if !isTargetCtor(st.ctor) || (i == 0 && c.seed == sNil) {
			ss.Kind = kindName(st.kind)
		}
		s.Steps = append(s.Steps, ss)
	}
	return s
}

func buildChain(s spec) (mval, *chain, error) {
	c := &chain{seed: -1}
	for i := range seedNames {
		if seedNames[i] == s.Seed {
			c.seed = i
		}
	}
	if c.seed < 0 {
		return mval{}, nil, fmt.Errorf("unknown cause %q", s.Seed)
	}
	k, ok := kindByName(s.SeedKind)
	if !ok {
		return mval{}, nil, fmt.Errorf("unknown kind %q", s.SeedKind)
	}
	c.seedKind = k
	if len(s.Steps) == 0 { // F0
		return mval{err: kindErr(k), accept: bit(k)}, c, nil
	}
	cur := seedVal(c.seed, c.seedKind)
	for i, ss := range s.Steps {
		st := step{ctor: -1, kind: kNil}
		for j := range ctorNames {
			if ctorNames[j] == ss.Ctor {
				st.ctor = j
			}
		}
		if st.ctor < 0 {
			return mval{}, nil, fmt.Errorf("unknown constructor %q", ss.Ctor)
		}
		if ss.Kind != "" {
			if st.kind, ok = kindByName(ss.Kind); !ok {
				return mval{}, nil, fmt.Errorf("unknown kind %q", ss.Kind)
			}
		}
		found := false
		for j := range allMsgs {
			if allMsgs[j] == ss.Msg {
				st.msg, found = j, true
			}
		}
		if !found {
			allMsgs = append(allMsgs, ss.Msg)
			st.msg = len(allMsgs) - 1
		}
		c.steps[i] = st
		c.n++
		cur = apply(cur, st, i == 0)
	}
	return cur, c, nil
}

// ---- oracle ----------------------------------------------------------------------------------

type outcome struct {
	Family  string
	Want    int8 // kind e was recognised as (-1: none)
	Got     int8 // same kind found after the round trip: Want; otherwise first kind d is recognised as (-1 none, -2 d==nil)
	Reason  int8 // 0 not compared, 1 same, 2 differs
	NKindsE int8
	NKindsD int8
}

// sink is what a violation is reported to: the evidence reporter, or the replay printer.
type sink interface {
	Violation(sig string, replay any)
	EngineError(format string, a ...any)
}

type worker struct {
	rep      sink
	evals    int64
	distinct int64
	rtOK     bool  // set by evalSingle: the round trip of the last error kept its kind
	pruned   int64 // chains not extended because their kind was already lost (only when a violation is reported)
	extra    int64 // R5: d recognised as a kind e was not recognised as (not a violation)
	outcomes map[outcome]int64
	seen     map[uint64]struct{}
	samples  []spec
	viols    map[string]*violAgg
}

// violAgg aggregates the violations of one signature inside a worker: a count, and the SMALLEST violating case
// (shortest chain first, then the enumeration order) so that the stored replay is the same on every run.
type violAgg struct {
	n   int64
	key []int
	obj spec
}

func keyLess(a, b []int) bool {
	if len(a) != len(b) {
		return len(a) < len(b)
	}
	for i := range a {
		if a[i] != b[i] {
			return a[i] < b[i]
		}
	}
	return false
}

// violate records a violation; the replay object is only built when the case is smaller than the one kept.
func (w *worker) violate(sig string, key []int, mk func() spec) {
	a := w.viols[sig]
	if a == nil {
		w.viols[sig] = &violAgg{n: 1, key: key, obj: mk()}
		return
	}
	a.n++
	if keyLess(key, a.key) {
		a.key, a.obj = key, mk()
	}
}

// flush hands the aggregated violations of all workers to the reporter.
func flush(rep sink, ws []*worker) {
	all := map[string]*violAgg{}
	for _, w := range ws {
		for sig, a := range w.viols {
			b := all[sig]
			if b == nil {
				all[sig] = a
				continue
			}
			b.n += a.n
			if keyLess(a.key, b.key) {
				b.key, b.obj = a.key, a.obj
			}
		}
	}
	for sig, a := range all {
		if r, ok := rep.(*ev.Reporter); ok {
			r.ViolationN(sig, a.obj, a.n)
		} else {
			rep.Violation(sig, a.obj)
		}
	}
}

func (c *chain) key(fam string) []int {
	k := []int{int(fam[len(fam)-1]), c.seed, c.seedKind}
	for i := 0; i < c.n; i++ {
		k = append(k, c.steps[i].ctor, c.steps[i].kind, c.steps[i].msg)
	}
	return k
}

func newWorker(rep sink) *worker {
	return &worker{rep: rep, outcomes: map[outcome]int64{}, seen: map[uint64]struct{}{}, viols: map[string]*violAgg{}}
}

func recognised(e error) (mask uint32, n int8) {
	if e == nil {
		return 0, 0
	}
	for i, k := range kinds {
		if errors.Is(e, k) {
			mask |= 1 << uint(i)
			n++
		}
	}
	return
}

func firstBit(m uint32) int {
	for i := 0; i < nKinds; i++ {
		if m&(1<<uint(i)) != 0 {
			return i
		}
	}
	return -1
}

func reasonOf(text string, kind int) string {
	kt := kinds[kind].Error()
	if text == kt {
		return ""
	}
	if strings.HasPrefix(text, kt+":") {
		return text[len(kt)+1:]
	}
	return text
}

func normReason(r string) string { // R6
	segs := strings.Split(r, ":")
	for i := range segs {
		segs[i] = strings.TrimSpace(segs[i])
	}
	return strings.Join(segs, ":")
}

func wrapsWhat(e error) string {
	u := errors.Unwrap(e)
	if u == nil {
		return "nothing"
	}
	for _, k := range kinds {
		if u == k {
			return "sentinel"
		}
	}
	return "built"
}

func causeClass(c *chain) string {
	if c.n <= 1 {
		switch {
		case c.seed == sNil || c.seed == sPlain:
			return seedNames[c.seed]
		case c.seed <= sLibCancelled:
			return "kind"
		default:
			return "context"
		}
	}
	return "built"
}

// outerCtor names the outermost constructor for signatures; a constructor and its f-variant share a name
// (they share their implementation, one defect would otherwise appear under two signatures).
func outerCtor(c *chain) string {
	if c.n == 0 {
		return "sentinel"
	}
	return [nCtors]string{"New", "New", "Errorf", "Errorf", "WrapError", "WrapError", "WrapIfNotCommonError", "WrapIfNotCommonError"}[c.steps[c.n-1].ctor]
}

func diffClass(re, rd string) string {
	switch {
	case len(rd) > len(re):
		return "longer"
	case len(rd) < len(re):
		return "shorter"
	}
	return "other"
}

// evalSingle evaluates every clause on one built error. It returns the kind e was recognised as (-1: none).
func (w *worker) evalSingle(family string, v mval, c *chain, verbose bool) (rec int) {
	w.evals++
	rec = -1
	w.rtOK = false
	defer func() {
		if p := recover(); p != nil {
			w.violate(fmt.Sprintf("panic:outer=%s:cause=%s", outerCtor(c), causeClass(c)), c.key(family), func() spec {
				sp := c.spec(family)
				sp.Note = fmt.Sprintf("panic: %v", p)
				return sp
			})
		}
	}()
	e := v.err
	viol := func(sig string, note func() string, ser []byte, d error) {
		w.violate(sig, c.key(family), func() spec {
			sp := c.spec(family)
			sp.Text, sp.Serialised, sp.Note = fmt.Sprint(e), string(ser), note()
			if d != nil {
				sp.Back = d.Error()
			}
			return sp
		})
	}
	say := func(s string) func() string { return func() string { return s } }
	if e == nil {
		viol(fmt.Sprintf("constructor-returned-nil:outer=%s", outerCtor(c)), say("a constructor returned nil"), nil, nil)
		return
	}
	// clause 1 (R1–R4): recognition of the kind
	eMask, eN := recognised(e)
	if m := eMask & v.accept; m != 0 {
		rec = firstBit(m)
	}
	out := outcome{Family: family, Want: int8(rec), NKindsE: eN}
	if rec < 0 {
		if v.hard != 0 && (errors.Is(e, context.Canceled) || errors.Is(e, context.DeadlineExceeded)) {
			// R2: still recognised as the context sentinel; its library kind is what must survive the round trip
			rec = firstBit(v.accept)
			out.Want = int8(rec)
		} else {
			clause := "kind-not-recognised"
			if v.hard != 0 {
				clause = "context-cause-reclassified"
			}
			as := "no-kind"
			switch {
			case eMask&ctxBits != 0:
				as = "the-other-context-kind"
			case eMask != 0:
				as = "a-non-context-kind"
			}
			viol(fmt.Sprintf("wrap:%s:outer=%s:cause=%s:recognised-as=%s", clause, outerCtor(c), causeClass(c), as),
				func() string {
					return fmt.Sprintf("expected one of the kinds %v, errors.Is recognises %v", maskNames(v.accept), maskNames(eMask))
				}, nil, nil)
			out.Got = -1
			w.outcomes[out]++
			return
		}
	} else if !ce.Any(e, kinds[rec]) {
		viol(fmt.Sprintf("wrap:Any-disagrees-with-errors.Is:outer=%s", outerCtor(c)), say("errors.Is recognises the kind, Any does not"), nil, nil)
	}
	// clause 2 (R5, R7): round trip
	ser, serr := ce.SerialiseError(e)
	if serr != nil {
		viol(fmt.Sprintf("roundtrip:serialise-failed:outer=%s", outerCtor(c)), say("SerialiseError: "+serr.Error()), ser, nil)
		return
	}
	d, derr := ce.DeserialiseError(ser)
	if verbose {
		fmt.Printf("REPLAY error=%q\n       expected-kinds=%v recognised=%v\n       serialised=%q\n       deserialised=%q (err=%v) recognised=%v\n", e, maskNames(v.accept), maskNames(eMask), ser, fmt.Sprint(d), derr, maskNames(first(recognised(d))))
	}
	if derr != nil || d == nil {
		out.Got = -2
		w.outcomes[out]++
		viol(fmt.Sprintf("roundtrip:no-error-back:want=%s", kindName(rec)), func() string { return fmt.Sprintf("DeserialiseError returned (%v, %v)", d, derr) }, ser, d)
		return
	}
	dMask, dN := recognised(d)
	out.NKindsD = dN
	if dMask&^eMask != 0 {
		w.extra++
	}
	if dMask&(1<<uint(rec)) == 0 || !ce.Any(d, kinds[rec]) {
		out.Got = int8(firstBit(dMask))
		w.outcomes[out]++
		viol(fmt.Sprintf("roundtrip:kind-changed:want=%s:got=%s", kindName(rec), kindName(firstBit(dMask))), say("the deserialised error is not recognised as the kind of the original"), ser, d)
		return
	}
	out.Got = int8(rec)
	w.rtOK = true
	// clause 3 (R6): reason
	if !v.multi {
		re, rd := normReason(reasonOf(e.Error(), rec)), normReason(reasonOf(d.Error(), rec))
		if re == rd {
			out.Reason = 1
		} else {
			out.Reason = 2
			viol("roundtrip:reason-changed:outer="+outerCtor(c)+":wraps="+wrapsWhat(e)+":diff="+diffClass(re, rd),
				func() string { return fmt.Sprintf("reason before %q, after %q", re, rd) }, ser, d)
		}
	}
	w.outcomes[out]++
	if c.n > 0 {
		h := fnv.New64a()
		h.Write([]byte(e.Error()))
		h.Write([]byte{0})
		if u := errors.Unwrap(e); u != nil {
			h.Write([]byte(u.Error()))
		}
		key := h.Sum64()
		if _, ok := w.seen[key]; !ok {
			w.seen[key] = struct{}{}
			w.distinct++
		}
	}
	return
}

func first(m uint32, _ int8) uint32 { return m }

func kindNames(l []int) []string {
	var out []string
	for _, k := range l {
		out = append(out, kindName(k))
	}
	return out
}

func maskNames(m uint32) []string {
	var l []string
	for i := 0; i < nKinds; i++ {
		if m&(1<<uint(i)) != 0 {
			l = append(l, kinds[i].Error())
		}
	}
	return l
}

// ---- chain families ----------------------------------------------------------------------------

type family struct {
	name      string
	kinds     []int // kinds of the blocks (nil: all 30 + nil)
	depth     int
	mixKinds  bool
	mixMsgs   bool
	only      int // when > 0: only chains of exactly this length are evaluated (shorter ones belong to another family entry)
	firstMsgs []string
}

type task struct {
	fam  *family
	k, m int // kind and message (index) of the block
	seed int
}

func (w *worker) runTask(t task) {
	w.seen = map[uint64]struct{}{} // distinctness is counted per block (family, kind, message, cause): see "rule"
	c := &chain{seed: t.seed, seedKind: t.k}
	nextKinds := []int{t.k}
	if t.fam.mixKinds {
		nextKinds = nextKinds[:0]
		for i := 0; i <= kNil; i++ {
			nextKinds = append(nextKinds, i)
		}
	}
	nextMsgs := []int{t.m}
	if t.fam.mixMsgs {
		nextMsgs = nextMsgs[:0]
		for _, s := range coreMsgs {
			nextMsgs = append(nextMsgs, msgIndex(s))
		}
	}
	// samples: a fixed choice of nodes of fixed blocks (the same on every run)
	sampleEvery, node := 0, 0
	if t.seed == sWrappedCanceled && t.k == kindIndex(ce.ErrNotFound) && allMsgs[t.m] == "a: b" {
		sampleEvery = 97
	}
	var rec func(cur mval, depth int)
	rec = func(cur mval, depth int) {
		if depth > 0 && t.fam.only > 0 && depth < t.fam.only {
			// evaluated (and, if its kind is lost, reported) by the family entry that owns this length
			if m, _ := recognised(cur.err); m&cur.accept == 0 && !(cur.hard != 0 && (errors.Is(cur.err, context.Canceled) || errors.Is(cur.err, context.DeadlineExceeded))) {
				return
			}
		} else if depth > 0 {
			if w.evalSingle(t.fam.name, cur, c, false) < 0 {
				// the kind is already lost here: what is built on top of this error inherits the loss and would only
				// repeat the same violation under other signatures — the shortest chain is the counterexample
				w.pruned++
				return
			}
			node++
			if sampleEvery > 0 && node%sampleEvery == 0 && node <= 2*sampleEvery {
				sp := c.spec(t.fam.name)
				sp.Text = cur.err.Error()
				if b, err := ce.SerialiseError(cur.err); err == nil {
					sp.Serialised = string(b)
				}
				w.samples = append(w.samples, sp)
			}
		}
		if depth == t.fam.depth {
			return
		}
		for ctor := 0; ctor < nCtors; ctor++ {
			tgt := isTargetCtor(ctor)
			if depth == 0 && tgt && !seedIsTargetable(t.seed) {
				continue // New(plain error, …) is not "built with a kind"; New(kind, …) is enumerated with the nil cause
			}
			ks := nextKinds
			if depth == 0 || (tgt && depth > 0) {
				ks = []int{t.k} // first step: the block's kind; later New/Newf/Errorf take the previous error as target (kind unused)
			}
			ms := nextMsgs
			if depth == 0 {
				ms = []int{t.m}
			}
			for _, k := range ks {
				for _, m := range ms {
					st := step{ctor: ctor, kind: k, msg: m}
					c.steps[depth] = st
					c.n = depth + 1
					rec(apply(cur, st, depth == 0), depth+1)
				}
			}
		}
		c.n = depth
	}
	rec(seedVal(t.seed, t.k), 0)
}

// ---- joins -------------------------------------------------------------------------------------

type poolElem struct {
	v   mval
	sp  spec
	rec  int
	rtOK bool // alone, the element keeps its kind over the round trip
	idx  int  // position in the list of all pool elements (orders replays)
}

func (w *worker) evalJoin(elems []*poolElem, verbose bool) {
	w.evals++
	errs := make([]error, len(elems))
	multi := false
	for i, p := range elems {
		errs[i] = p.v.err
		multi = multi || p.v.multi
	}
	viol := func(sig string, note string, e error, ser []byte, d error) {
		key := []int{'J'}
		for _, p := range elems {
			key = append(key, p.idx)
		}
		w.violate(sig, key, func() spec {
			sp := spec{Family: "J", Note: note, Text: fmt.Sprint(e), Serialised: string(ser)}
			for _, p := range elems {
				sp.Elems = append(sp.Elems, p.sp)
			}
			if d != nil {
				sp.Back = d.Error()
			}
			return sp
		})
	}
	defer func() {
		if p := recover(); p != nil {
			viol("panic:join", fmt.Sprintf("panic: %v", p), nil, nil, nil)
		}
	}()
	e := errors.Join(errs...)
	eMask, eN := recognised(e)
	out := outcome{Family: "J", NKindsE: eN, Want: int8(len(elems))}
	for _, p := range elems {
		if eMask&(1<<uint(p.rec)) == 0 || !ce.Any(e, kinds[p.rec]) {
			viol("join:kind-not-recognised:want="+kindName(p.rec), "the join is not recognised as the kind of one of its elements", e, nil, nil)
			return
		}
	}
	ser, serr := ce.SerialiseError(e)
	if serr != nil {
		viol("join:serialise-failed", "SerialiseError: "+serr.Error(), e, ser, nil)
		return
	}
	d, derr := ce.DeserialiseError(ser)
	if verbose {
		fmt.Printf("REPLAY join=%q\n       recognised=%v\n       serialised=%q\n       deserialised=%q (err=%v) recognised=%v\n", e, maskNames(eMask), ser, fmt.Sprint(d), derr, maskNames(first(recognised(d))))
	}
	if derr != nil || d == nil {
		out.Got = -2
		w.outcomes[out]++
		viol("join:no-error-back", fmt.Sprintf("DeserialiseError returned (%v, %v)", d, derr), e, ser, d)
		return
	}
	dMask, dN := recognised(d)
	out.NKindsD = dN
	if dMask&^eMask != 0 {
		w.extra++
	}
	for i, p := range elems {
		if dMask&(1<<uint(p.rec)) == 0 || !ce.Any(d, kinds[p.rec]) {
			out.Got = -1
			w.outcomes[out]++
			// a kind that is also lost when the element is serialised alone is a consequence of that defect (one
			// signature per kind, like the single errors'); otherwise the defect is in the handling of joins
			sig := "join:roundtrip-kind-lost:element-alone-also-fails:want=" + kindName(p.rec)
			if p.rtOK {
				sig = "join:roundtrip-kind-lost:element-alone-is-fine:position=later"
				if i == 0 {
					sig = "join:roundtrip-kind-lost:element-alone-is-fine:position=first"
				}
			}
			viol(sig, "a kind of the join is not recognised after the round trip", e, ser, d)
			return
		}
	}
	out.Got = 1
	w.outcomes[out]++
	h := fnv.New64a()
	h.Write([]byte(e.Error()))
	for _, p := range elems { // the same text can be joined from elements that wrap different things
		h.Write([]byte{0})
		if u := errors.Unwrap(p.v.err); u != nil {
			h.Write([]byte(u.Error()))
		}
	}
	key := h.Sum64()
	if _, ok := w.seen[key]; !ok {
		w.seen[key] = struct{}{}
		w.distinct++
	}
}

// pools of join elements. Every element is a single error built with the library's constructors.
func buildPools(w *worker) (big, mid, small []*poolElem) {
	nextIdx := 0
	add := func(l *[]*poolElem, sp spec) {
		v, c, err := buildChain(sp)
		if err != nil {
			w.rep.EngineError("pool element does not build: %v", err)
			return
		}
		rec := w.evalSingle("J-pool", v, c, false)
		if rec < 0 {
			return // reported by evalSingle; not usable as an element with a known kind
		}
		nextIdx++
		*l = append(*l, &poolElem{v: v, sp: c.spec("J-pool"), rec: rec, rtOK: w.rtOK, idx: nextIdx})
	}
	nm := func(i int) string { return kindName(i) }
	chainSpec := func(seed int, k int, steps ...stepSpec) spec {
		return spec{Seed: seedNames[seed], SeedKind: nm(k), Steps: steps}
	}
	specials := []spec{
		chainSpec(sNil, kindIndex(ce.ErrNotFound), stepSpec{"New", "not found", "line one\nline two"}),
		chainSpec(sCanceled, kindIndex(ce.ErrInvalid), stepSpec{"WrapError", "invalid", "m"}),
		chainSpec(sNil, kindIndex(ce.ErrNotFound), stepSpec{"New", "not found", "a: b"}, stepSpec{"New", "", "m"}),
		chainSpec(sNil, kindIndex(ce.ErrExists), stepSpec{"New", "already exists", "m"}, stepSpec{"WrapIfNotCommonError", "unexpected", "a: b"}),
		chainSpec(sDeadline, kNil, stepSpec{"Errorf", "", "m"}),
		// a single-line reason longer than any line-oriented reader's default token (70 400 bytes: embedded command output)
		chainSpec(sNil, kindIndex(ce.ErrConflict), stepSpec{"New", "conflict", strings.Repeat("0123456789abcdef", 4400)}),
	}
	for k := 0; k < nKinds; k++ {
		sent := chainSpec(sNil, k)
		newM := chainSpec(sNil, k, stepSpec{"New", nm(k), "m"})
		newE := chainSpec(sNil, k, stepSpec{"Newf", nm(k), ""})
		wrapP := chainSpec(sPlain, k, stepSpec{"WrapError", nm(k), "a: b"})
		for _, sp := range []spec{sent, newM, newE, wrapP} {
			add(&big, sp)
		}
		add(&mid, sent)
		add(&mid, newM)
	}
	for _, sp := range specials {
		add(&big, sp)
		add(&mid, sp)
		add(&small, sp)
	}
	for _, k := range []error{ce.ErrNoLogger, ce.ErrNoLoggerSource, ce.ErrInvalid, ce.ErrInvalidDestination, ce.ErrTimeout, ce.ErrNotFound, ce.ErrWarning} {
		add(&small, chainSpec(sNil, kindIndex(k)))
	}
	return
}

func (w *worker) runJoins(pool []*poolElem, n int, firstIdx int) {
	w.seen = map[uint64]struct{}{}
	sel := make([]*poolElem, n)
	sel[0] = pool[firstIdx]
	var rec func(pos int)
	rec = func(pos int) {
		if pos == n {
			w.evalJoin(sel, false)
			return
		}
		for _, p := range pool {
			sel[pos] = p
			rec(pos + 1)
		}
	}
	rec(1)
}

// ---- the test ------------------------------------------------------------------------------------

func TestC11(t *testing.T) {
	rep := ev.NewReporter("C11", "exploration")
	if p := os.Getenv("VERIF_REPLAY"); p != "" {
		replay(rep, p)
		return
	}
	thorough := ev.Thorough()
	L, L2 := 3, 2
	if thorough {
		L, L2 = 4, 3
	}
	// kinds that matter to the mechanism (context kinds, "no kind", kinds whose text is part of another kind's text)
	f3Kinds := []int{idxTimeout, idxCancelled, kNil, idxUnknown, kindIndex(ce.ErrNotFound), kindIndex(ce.ErrInvalid), kindIndex(ce.ErrInvalidDestination),
		kindIndex(ce.ErrNoLogger), kindIndex(ce.ErrNoLoggerSource), kindIndex(ce.ErrWarning)}
	fams := []*family{
		{name: "F1", depth: L, firstMsgs: fullMsgs},
		{name: "F2", depth: L2, mixKinds: true, firstMsgs: f2Msgs},
		{name: "F3", depth: 2, mixMsgs: true, firstMsgs: coreMsgs},
	}
	f3Bound := "1..2, every step its own message (core set), one kind per chain (all 31)"
	if thorough {
		fams = append(fams, &family{name: "F3", depth: 3, mixMsgs: true, firstMsgs: coreMsgs, kinds: f3Kinds, only: 3})
		f3Bound += "; length 3 for the kinds " + fmt.Sprint(kindNames(f3Kinds))
	}
	type job func(w *worker)
	var jobs []job
	for _, f := range fams {
		f := f
		ks := f.kinds
		if ks == nil {
			for k := 0; k <= kNil; k++ {
				ks = append(ks, k)
			}
		}
		for _, k := range ks {
			for _, ms := range f.firstMsgs {
				for seed := 0; seed < nSeeds; seed++ {
					tk := task{fam: f, k: k, m: msgIndex(ms), seed: seed}
					jobs = append(jobs, func(w *worker) { w.runTask(tk) })
				}
			}
		}
	}
	// F0 and the pools (one job, sequential)
	main := newWorker(rep)
	for k := 0; k < nKinds; k++ {
		c := &chain{seed: sNil, seedKind: k}
		main.evalSingle("F0", mval{err: kinds[k], accept: bit(k)}, c, false)
	}
	big, mid, small := buildPools(main)
	type joinPlan struct {
		pool []*poolElem
		n    int
		name string
	}
	var plans []joinPlan
	if thorough {
		plans = []joinPlan{{big, 1, "big"}, {big, 2, "big"}, {big, 3, "big"}, {mid, 4, "mid"}}
	} else {
		plans = []joinPlan{{big, 1, "big"}, {big, 2, "big"}, {mid, 3, "mid"}, {small, 4, "small"}}
	}
	var joinBound []string
	for _, p := range plans {
		p := p
		joinBound = append(joinBound, fmt.Sprintf("n=%d over pool %q (%d errors)", p.n, p.name, len(p.pool)))
		for i := range p.pool {
			i := i
			jobs = append(jobs, func(w *worker) { w.runJoins(p.pool, p.n, i) })
		}
	}

	nw := runtime.GOMAXPROCS(0)
	workers := make([]*worker, nw)
	ch := make(chan job, 256)
	var wg sync.WaitGroup
	for i := range workers {
		workers[i] = newWorker(rep)
		wg.Add(1)
		go func(w *worker) {
			defer wg.Done()
			for j := range ch {
				j(w)
			}
		}(workers[i])
	}
	for _, j := range jobs {
		ch <- j
	}
	close(ch)
	wg.Wait()

	cv := runConverters(rep)
	flush(rep, append(append([]*worker{}, workers...), main))

	// merge
	total := map[string]int64{}
	outc := map[outcome]int64{}
	var evals, distinct, extra, pruned int64
	var samples []any
	for _, w := range append(workers, main) {
		evals += w.evals
		distinct += w.distinct
		extra += w.extra
		pruned += w.pruned
		for o, n := range w.outcomes {
			outc[o] += n
			total[o.Family] += n
		}
		for _, s := range w.samples {
			samples = append(samples, s)
		}
	}
	sort.Slice(samples, func(i, j int) bool { return fmt.Sprint(samples[i]) < fmt.Sprint(samples[j]) })
	for _, s := range cv.samples {
		samples = append(samples, s)
	}
	// outcome classes, written out (vacuity check): per family, how many kinds were kept, reasons compared …
	type oc struct {
		Family           string `json:"family"`
		Cases            int64  `json:"cases"`
		KindKept         int64  `json:"kind_recognised_and_kept_by_round_trip"`
		KindsSeen        int    `json:"distinct_kinds_seen"`
		ReasonCompared   int64  `json:"reasons_compared"`
		ReasonSame       int64  `json:"reasons_same"`
		MultiKindAfterRT int64  `json:"deserialised_recognised_as_more_than_one_kind"`
	}
	per := map[string]*oc{}
	kindsSeen := map[string]map[int8]bool{}
	for o, n := range outc {
		p := per[o.Family]
		if p == nil {
			p = &oc{Family: o.Family}
			per[o.Family] = p
			kindsSeen[o.Family] = map[int8]bool{}
		}
		p.Cases += n
		if o.Family == "J" {
			if o.Got == 1 {
				p.KindKept += n
			}
		} else {
			if o.Want >= 0 && o.Got == o.Want {
				p.KindKept += n
			}
			kindsSeen[o.Family][o.Want] = true
		}
		if o.Reason != 0 {
			p.ReasonCompared += n
		}
		if o.Reason == 1 {
			p.ReasonSame += n
		}
		if o.NKindsD > 1 && o.Family != "J" {
			p.MultiKindAfterRT += n
		}
	}
	var ocl []*oc
	for f, p := range per {
		p.KindsSeen = len(kindsSeen[f])
		ocl = append(ocl, p)
	}
	sort.Slice(ocl, func(i, j int) bool { return ocl[i].Family < ocl[j].Family })

	rep.Coverage["evaluations"] = evals + cv.evals
	rep.Coverage["distinct_nontrivial"] = distinct + cv.distinct
	rep.Coverage["rule"] = "chains/joins: distinct (family, kind, first message, cause, error text, text of the %w target) tuples of length >= 1 that were recognised as their kind, serialised by SerialiseError and parsed back by DeserialiseError (the 30-way parser); converters: distinct (converter, value, form) triples whose input was not nil"
	rep.Coverage["evaluations_by_family"] = total
	rep.Coverage["converter_evaluations"] = cv.evals
	rep.Coverage["distinct_outcome_classes"] = len(outc) + cv.outcomeClasses
	rep.Coverage["outcomes"] = ocl
	rep.Coverage["converter_outcomes"] = cv.table
	rep.Coverage["extra_kinds_after_roundtrip"] = extra
	rep.Coverage["chains_not_extended_because_kind_already_lost"] = pruned
	rep.Coverage["samples"] = samples
	rep.Coverage["exhaustive"] = true
	rep.Coverage["bound"] = map[string]any{
		"kinds":                 "30 kinds + 'no kind given' (nil)",
		"constructors":          ctorNames[:],
		"causes":                seedNames[:],
		"messages_full":         len(fullMsgs),
		"messages_core":         coreMsgs,
		"F1_chain_length":       fmt.Sprintf("1..%d, one kind and one message (full set) per chain", L),
		"F2_chain_length":       fmt.Sprintf("1..%d, every step its own kind, message in %q", L2, f2Msgs),
		"F3_chain_length":       f3Bound,
		"joins":                 joinBound,
		"converter_values":      cv.values,
		"converter_value_forms": formNames,
	}
	rep.Assume = []string{
		"serialisation across a process boundary = commonerrors.SerialiseError / DeserialiseError (R7)",
		"weakest readings R1..R7 and CV1..CV5 written at the top of c11_test.go and converters_test.go",
		"enumeration is complete inside the stated bound; a defect that needs two different kinds AND two different messages in one chain beyond F2/F3's message/kind sets, chains longer than the bound, or causes outside the list is not reached",
	}
	rep.Finish()
}

// ---- replay ----------------------------------------------------------------------------------------

// replaySink prints what the replayed case violates; it writes neither evidence nor replay files.
type replaySink struct {
	rep  *ev.Reporter
	path string
	n    int
}

func (r *replaySink) Violation(sig string, obj any) {
	r.n++
	b, _ := json.MarshalIndent(obj, "", " ")
	if r.rep.IsKnown(sig) {
		fmt.Printf("KNOWN-FINDING: property=C11 signature=%s\n%s\n", sig, b)
		return
	}
	fmt.Printf("VIOLATION property=C11 replay=%s signature=%s\n%s\n", r.path, sig, b)
	ev.ExitCode = 1
}

func (r *replaySink) EngineError(format string, a ...any) {
	fmt.Printf("ENGINE-ERROR: property=C11 "+format+"\n", a...)
	ev.ExitCode = 2
}

func replay(rep *ev.Reporter, path string) {
	rs := &replaySink{rep: rep, path: path}
	b, err := os.ReadFile(path)
	if err != nil {
		rs.EngineError("cannot read replay: %v", err)
		return
	}
	var file struct {
		Signature string `json:"signature"`
		Replay    spec   `json:"replay"`
	}
	if err := json.Unmarshal(b, &file); err != nil {
		rs.EngineError("replay does not parse: %v", err)
		return
	}
	w := newWorker(rs)
	sp := file.Replay
	fmt.Printf("REPLAY stored signature=%s\n", file.Signature)
	switch {
	case sp.Converter != "":
		replayConverter(rs, sp)
	case len(sp.Elems) > 0:
		var elems []*poolElem
		for _, es := range sp.Elems {
			v, c, err := buildChain(es)
			if err != nil {
				rs.EngineError("replay element: %v", err)
				return
			}
			rec := w.evalSingle("J-pool", v, c, false)
			if rec < 0 {
				return
			}
			elems = append(elems, &poolElem{v: v, sp: c.spec("J-pool"), rec: rec, rtOK: w.rtOK})
		}
		w.evalJoin(elems, true)
	default:
		v, c, err := buildChain(sp)
		if err != nil {
			rs.EngineError("replay: %v", err)
			return
		}
		w.evalSingle(sp.Family, v, c, true)
	}
	flush(rs, []*worker{w})
	if rs.n == 0 {
		fmt.Println("replay: no violation")
	}
}

// C10 — numeric conversions saturate: never wrap, never panic, monotonic.
//
// Bounded-exhaustive enumeration on the real generic functions safecast.ToInt … safecast.ToUint64:
//
//	sources : int8 int16 int32 int64 int uint8 uint16 uint32 uint64 uint float32 float64 and one named type
//	          over each of them (type MyI8 int8 … type MyF64 float64)                       = 24 source types
//	targets : int uint int8 uint8 int16 uint16 int32 uint32 int64 uint64                     = 10 functions
//	values  : quick    — EVERY value of the 8- and 16-bit sources; for the 32- and 64-bit integer sources every
//	                     value within 2^12 of 0, of the source's own extremes and of the minimum / maximum of every
//	                     target, and ±2^k with both neighbours; for the float sources (enumerated by bit pattern in
//	                     value order) every integer and every integer+½ within 2^12 of those boundaries (rounded to
//	                     the format), every float within 2^12 ULPs of every boundary, of ±0 and of ±Inf, ±2^k for
//	                     every exponent of the format with both neighbours, subnormals, and 2·2^12 NaN bit patterns
//	                     at each end of both NaN ranges;
//	          thorough — additionally ALL 2^32 values of int32, uint32 and float32 (every bit pattern, the 2^24-2
//	                     NaNs included) and of the named types over them, and radius 2^16 instead of 2^12 for the
//	                     64-bit sources.
//
// Oracle, evaluated on every (source type, value, target):
//
//	value : exact value of the source as a math/big integer after dropping the fraction (big.Float.Int truncates
//	        toward zero), clamped into [min,max] of the target with big.Int comparisons; ±Inf clamp to max/min.
//	        The function's result must be equal to it.
//	panic : no conversion panics (NaN included).
//	mono  : along every ascending run of source values the results are non-decreasing.
//
// Readings taken (weakest ones):
//   - "whichever is nearer": a value above the range is nearer to the maximum, below it to the minimum; there is no tie.
//   - NaN is not a "value" with a nearer boundary: for NaN only "does not panic" is asserted, and a NaN breaks
//     the monotonicity chain (no order relation).
//   - -0 and +0 are equal inputs; both must give 0, which the value clause already says.
//   - "named types over them": one defined type per kind; aliases are the same type and need no separate case.
//   - int / uint have the width of the platform the check runs on (64 bits here, asserted at start).
//
// No random values are used (the family is enumeration): the "plus random values" clause of the quantifier is
// replaced by the complete 32-bit sweeps.
package c10

import (
	"bytes"
	"encoding/json"
	"fmt"
	"math"
	"math/big"
	"os"
	"os/exec"
	"sort"
	"strconv"
	"strings"
	"sync"
	"testing"

	"github.com/ARM-software/golang-utils/utils/safecast"

	ev "verif/engine/evidence"
)

func TestMain(m *testing.M) { ev.Main(m) }

// ---- named source types ----------------------------------------------------------------------

type (
	MyI8  int8
	MyI16 int16
	MyI32 int32
	MyI64 int64
	MyI   int
	MyU8  uint8
	MyU16 uint16
	MyU32 uint32
	MyU64 uint64
	MyU   uint
	MyF32 float32
	MyF64 float64
)

// ---- targets -----------------------------------------------------------------------------------

const nT = 10

const (
	tInt = iota
	tUint
	tInt8
	tUint8
	tInt16
	tUint16
	tInt32
	tUint32
	tInt64
	tUint64
)

type target struct {
	name           string
	signed         bool
	bits           int
	min, max       *big.Int
	nearLo, nearHi *big.Int // min+2^12, max-2^12: "near a boundary" for the non-triviality rule
	minBits        uint64   // result bit patterns of the two clamps (signed results sign-extended to 64 bits)
	maxBits        uint64
	// the same bounds for the int64 shortcut of the reference (only used when the truncated value fits an int64;
	// a bound above MaxInt64 is then never exceeded and is stored as MaxInt64)
	loI, hiI, nearLoI, nearHiI int64
	monoMask                   uint64 // 2^63 for signed targets: x^monoMask orders sign-extended results as unsigned numbers
}

var targets [nT]target

func pow2(k int) *big.Int { return new(big.Int).Lsh(big.NewInt(1), uint(k)) }

func mkTarget(name string, signed bool, bits int) target {
	t := target{name: name, signed: signed, bits: bits}
	if signed {
		t.min = new(big.Int).Neg(pow2(bits - 1))
		t.max = new(big.Int).Sub(pow2(bits-1), big.NewInt(1))
		t.minBits = uint64(t.min.Int64())
		t.maxBits = uint64(t.max.Int64())
	} else {
		t.min = big.NewInt(0)
		t.max = new(big.Int).Sub(pow2(bits), big.NewInt(1))
		t.minBits = 0
		t.maxBits = t.max.Uint64()
	}
	t.nearLo = new(big.Int).Add(t.min, big.NewInt(1<<12))
	t.nearHi = new(big.Int).Sub(t.max, big.NewInt(1<<12))
	clip := func(x *big.Int) int64 {
		if x.IsInt64() {
			return x.Int64()
		}
		return math.MaxInt64 // only maxima of the 64-bit unsigned targets get here
	}
	t.loI, t.hiI, t.nearLoI, t.nearHiI = clip(t.min), clip(t.max), clip(t.nearLo), clip(t.nearHi)
	if signed {
		t.monoMask = signBit
	}
	return t
}

func init() {
	targets = [nT]target{
		mkTarget("int", true, strconv.IntSize), mkTarget("uint", false, strconv.IntSize),
		mkTarget("int8", true, 8), mkTarget("uint8", false, 8),
		mkTarget("int16", true, 16), mkTarget("uint16", false, 16),
		mkTarget("int32", true, 32), mkTarget("uint32", false, 32),
		mkTarget("int64", true, 64), mkTarget("uint64", false, 64),
	}
	for i := range targets {
		monoMask[i] = targets[i].monoMask
	}
}

// convAll calls the ten real conversions on one value. Signed results are sign-extended so that one uint64 per
// target holds the result without loss.
func convAll[S safecast.IConvertable](v S, out *[nT]uint64) {
	out[tInt] = uint64(int64(safecast.ToInt(v)))
	out[tUint] = uint64(safecast.ToUint(v))
	out[tInt8] = uint64(int64(safecast.ToInt8(v)))
	out[tUint8] = uint64(safecast.ToUint8(v))
	out[tInt16] = uint64(int64(safecast.ToInt16(v)))
	out[tUint16] = uint64(safecast.ToUint16(v))
	out[tInt32] = uint64(int64(safecast.ToInt32(v)))
	out[tUint32] = uint64(safecast.ToUint32(v))
	out[tInt64] = uint64(safecast.ToInt64(v))
	out[tUint64] = safecast.ToUint64(v)
}

// convOne is the slow path used after a panic (to find which function panicked) and by replays.
func convOne[S safecast.IConvertable](v S, t int) (r uint64, panicked any) {
	defer func() { panicked = recover() }()
	switch t {
	case tInt:
		r = uint64(int64(safecast.ToInt(v)))
	case tUint:
		r = uint64(safecast.ToUint(v))
	case tInt8:
		r = uint64(int64(safecast.ToInt8(v)))
	case tUint8:
		r = uint64(safecast.ToUint8(v))
	case tInt16:
		r = uint64(int64(safecast.ToInt16(v)))
	case tUint16:
		r = uint64(safecast.ToUint16(v))
	case tInt32:
		r = uint64(int64(safecast.ToInt32(v)))
	case tUint32:
		r = uint64(safecast.ToUint32(v))
	case tInt64:
		r = uint64(safecast.ToInt64(v))
	case tUint64:
		r = safecast.ToUint64(v)
	}
	return
}

// ---- source values as keys -----------------------------------------------------------------------
//
// Every source value is addressed by a uint64 key that is monotone in the value, so that an interval of keys is an
// ascending run of values:
//	signed   : key = uint64(v) ^ 2^63
//	unsigned : key = v
//	float32  : key = bits^0xFFFFFFFF if the sign bit is set, else bits|0x80000000   (NaNs: keys below -Inf / above +Inf)
//	float64  : the same on 64 bits

type family int

const (
	famSigned family = iota
	famUnsigned
	famF32
	famF64
)

const signBit = uint64(1) << 63

func keyF32(f float32) uint64 {
	b := math.Float32bits(f)
	if b&0x80000000 != 0 {
		return uint64(^b)
	}
	return uint64(b | 0x80000000)
}

func f32Key(k uint64) float32 {
	b := uint32(k)
	if b&0x80000000 != 0 {
		return math.Float32frombits(b &^ 0x80000000)
	}
	return math.Float32frombits(^b)
}

func keyF64(f float64) uint64 {
	b := math.Float64bits(f)
	if b&signBit != 0 {
		return ^b
	}
	return b | signBit
}

func f64Key(k uint64) float64 {
	if k&signBit != 0 {
		return math.Float64frombits(k &^ signBit)
	}
	return math.Float64frombits(^k)
}

// srcInfo describes one source type; pair = a kind and the named type over it (they share values and reference).
type srcInfo struct {
	idx   int
	name  string
	group string // signature component: widths of the integer kinds collapsed
}

type pair struct {
	idx          int
	plain, named srcInfo
	fam          family
	bits         int
	loKey, hiKey uint64 // whole key range of the kind (for floats: NaN keys included)
	run          func(w *worker, lo, hi uint64)
	prime        func(w *worker, k uint64)
	one          func(named bool, k uint64, t int) (uint64, any)
}

var pairs []*pair

func mk[S, N safecast.IConvertable](plain, named string, fam family, bits int) {
	p := &pair{idx: len(pairs), fam: fam, bits: bits}
	var g, ng string
	switch fam {
	case famSigned:
		g, ng = "signed", "named-signed"
		p.loKey = uint64(-(int64(1) << (bits - 1))) ^ signBit
		p.hiKey = uint64(int64(1)<<(bits-1)-1) ^ signBit
	case famUnsigned:
		g, ng = "unsigned", "named-unsigned"
		p.loKey = 0
		p.hiKey = math.MaxUint64 >> (64 - bits)
	case famF32:
		g, ng = "float32", "named-float32"
		p.loKey, p.hiKey = 0, math.MaxUint32
	case famF64:
		g, ng = "float64", "named-float64"
		p.loKey, p.hiKey = 0, math.MaxUint64
	}
	p.plain = srcInfo{idx: 2 * p.idx, name: plain, group: g}
	p.named = srcInfo{idx: 2*p.idx + 1, name: named, group: ng}
	p.run = func(w *worker, lo, hi uint64) { sweep[S, N](w, p, lo, hi) }
	p.prime = func(w *worker, k uint64) { primeKey[S, N](w, p, k) }
	p.one = func(nm bool, k uint64, t int) (uint64, any) {
		s, n := decode[S, N](p.fam, k)
		if nm {
			return convOne(n, t)
		}
		return convOne(s, t)
	}
	pairs = append(pairs, p)
}

func init() {
	is := strconv.IntSize
	mk[int8, MyI8]("int8", "MyI8", famSigned, 8)
	mk[int16, MyI16]("int16", "MyI16", famSigned, 16)
	mk[int32, MyI32]("int32", "MyI32", famSigned, 32)
	mk[int64, MyI64]("int64", "MyI64", famSigned, 64)
	mk[int, MyI]("int", "MyI", famSigned, is)
	mk[uint8, MyU8]("uint8", "MyU8", famUnsigned, 8)
	mk[uint16, MyU16]("uint16", "MyU16", famUnsigned, 16)
	mk[uint32, MyU32]("uint32", "MyU32", famUnsigned, 32)
	mk[uint64, MyU64]("uint64", "MyU64", famUnsigned, 64)
	mk[uint, MyU]("uint", "MyU", famUnsigned, is)
	mk[float32, MyF32]("float32", "MyF32", famF32, 32)
	mk[float64, MyF64]("float64", "MyF64", famF64, 64)
}

const (
	nPair = 12
	nSrc  = 2 * nPair
)

var monoMask [nT]uint64

func srcByIdx(i int) srcInfo {
	p := pairs[i/2]
	if i%2 == 1 {
		return p.named
	}
	return p.plain
}

// decode turns a key into the value of the plain and of the named type. The conversions from int64 / uint64 /
// float32 / float64 are exact because the key lies in the range of the kind.
func decode[S, N safecast.IConvertable](fam family, k uint64) (S, N) {
	switch fam {
	case famSigned:
		x := int64(k ^ signBit)
		return S(x), N(x)
	case famUnsigned:
		return S(k), N(k)
	case famF32:
		f := f32Key(k)
		return S(f), N(f)
	default:
		f := f64Key(k)
		return S(f), N(f)
	}
}

// ---- reference -------------------------------------------------------------------------------------

const (
	kindFinite = iota
	kindPosInf
	kindNegInf
	kindNaN
)

const (
	clsBelow = iota // exact value below the target's minimum  -> minimum expected
	clsIn           // in range                                -> the truncated value expected
	clsAbove        // above the maximum                       -> maximum expected
	clsNaN          // only used in signatures of panics
)

var clsName = [4]string{"below-min", "in-range", "above-max", "nan"}

const (
	clValue = iota
	clMono
	clPanic
)

var clauseName = [3]string{"value", "mono", "panic"}

type violRec struct {
	n        int64
	set      bool
	key      uint64
	prevKey  uint64
	got      uint64
	want     uint64
	panicMsg string
}

type worker struct {
	T big.Int
	F big.Float

	// fast: complete 2^32 sweeps. The clamp of a truncated value that fits an int64 is then done with int64
	// comparisons only; everywhere else (all 8/16-bit values, every boundary neighbourhood) both clamps are computed
	// and must agree, which is what justifies the shortcut.
	fast bool

	cur      uint64
	havePrev bool
	prevKey  uint64
	prevS    [nT]uint64
	prevN    [nT]uint64

	wantB [nT]uint64
	cls   [nT]uint8
	nt    [nT]bool

	keys       [nPair]int64 // source values evaluated with the value oracle, per pair
	nanKeys    [nPair]int64
	ntTriples  int64 // (value, target) with the non-triviality rule true, per source type of the pair
	crossCheck int64
	sum        uint64
	classCnt   [nPair][nT][3]int64
	viol       [3][nSrc][nT][4]violRec
	engineErrs []string
}

// exact puts the source value with its fraction dropped into w.T (math/big) and tells the kind of the value.
func (w *worker) exact(fam family, k uint64) int {
	switch fam {
	case famSigned:
		w.T.SetInt64(int64(k ^ signBit))
		return kindFinite
	case famUnsigned:
		w.T.SetUint64(k)
		return kindFinite
	}
	var f float64
	if fam == famF32 {
		f = float64(f32Key(k)) // exact
	} else {
		f = f64Key(k)
	}
	switch {
	case f != f:
		return kindNaN
	case math.IsInf(f, 1):
		return kindPosInf
	case math.IsInf(f, -1):
		return kindNegInf
	}
	w.F.SetFloat64(f) // exact: precision 53
	w.F.Int(&w.T)     // truncation toward zero
	return kindFinite
}

// reference fills wantB / cls / nt for the ten targets from w.T.
func (w *worker) reference(kind int) {
	if kind == kindFinite && w.T.IsInt64() {
		w.referenceInt64(w.T.Int64())
		if !w.fast {
			a, b, c := w.wantB, w.cls, w.nt
			w.referenceBig(kind)
			w.crossCheck++
			if (a != w.wantB || b != w.cls || c != w.nt) && len(w.engineErrs) < 3 {
				w.engineErrs = append(w.engineErrs, fmt.Sprintf("int64 shortcut of the reference disagrees with the math/big clamp for %s", w.T.String()))
			}
		}
		return
	}
	w.referenceBig(kind)
}

// referenceBig: clamp with big.Int comparisons.
func (w *worker) referenceBig(kind int) {
	for t := 0; t < nT; t++ {
		tg := &targets[t]
		switch {
		case kind == kindPosInf || (kind == kindFinite && w.T.Cmp(tg.max) > 0):
			w.wantB[t], w.cls[t], w.nt[t] = tg.maxBits, clsAbove, true
		case kind == kindNegInf || (kind == kindFinite && w.T.Cmp(tg.min) < 0):
			w.wantB[t], w.cls[t], w.nt[t] = tg.minBits, clsBelow, true
		default:
			if tg.signed {
				w.wantB[t] = uint64(w.T.Int64())
			} else {
				w.wantB[t] = w.T.Uint64()
			}
			w.cls[t] = clsIn
			w.nt[t] = w.T.Cmp(tg.nearLo) < 0 || w.T.Cmp(tg.nearHi) > 0
		}
	}
}

// referenceInt64: the same clamp for a truncated value x that fits an int64 (see target.loI …).
func (w *worker) referenceInt64(x int64) {
	for t := 0; t < nT; t++ {
		tg := &targets[t]
		switch {
		case x > tg.hiI:
			w.wantB[t], w.cls[t], w.nt[t] = tg.maxBits, clsAbove, true
		case x < tg.loI:
			w.wantB[t], w.cls[t], w.nt[t] = tg.minBits, clsBelow, true
		default:
			w.wantB[t], w.cls[t] = uint64(x), clsIn // sign-extended for signed targets; x >= 0 for unsigned ones
			w.nt[t] = x < tg.nearLoI || x > tg.nearHiI
		}
	}
}

func (w *worker) record(clause, src, t, cls int, key, prevKey, got, want uint64, msg string) {
	r := &w.viol[clause][src][t][cls]
	r.n++
	if !r.set || key < r.key {
		r.set, r.key, r.prevKey, r.got, r.want, r.panicMsg = true, key, prevKey, got, want, msg
	}
}

// count books the key once for the pair (classes are a function of the value, not of the source type).
func (w *worker) count(pi int) {
	w.keys[pi]++
	for t := 0; t < nT; t++ {
		w.classCnt[pi][t][w.cls[t]]++
		if w.nt[t] {
			w.ntTriples++
		}
	}
}

func (w *worker) check(src int, k uint64, out, prev *[nT]uint64) {
	if *out != w.wantB {
		for t := 0; t < nT; t++ {
			if out[t] != w.wantB[t] {
				w.record(clValue, src, t, int(w.cls[t]), k, 0, out[t], w.wantB[t], "")
			}
		}
	}
	var sum uint64
	if w.havePrev {
		for t := 0; t < nT; t++ {
			o := out[t]
			sum += o
			if o^monoMask[t] < prev[t]^monoMask[t] {
				w.record(clMono, src, t, int(w.cls[t]), k, w.prevKey, o, prev[t], "")
			}
		}
	} else {
		for t := 0; t < nT; t++ {
			sum += out[t]
		}
	}
	w.sum += sum
}

// sweep evaluates the ascending run of keys lo..hi (inclusive) for the plain and the named type of a pair.
func sweep[S, N safecast.IConvertable](w *worker, p *pair, lo, hi uint64) {
	k := lo
	for {
		next, done := sweepSeg[S, N](w, p, k, hi)
		if done {
			return
		}
		k = next
	}
}

func sweepSeg[S, N safecast.IConvertable](w *worker, p *pair, lo, hi uint64) (next uint64, done bool) {
	defer func() {
		if r := recover(); r != nil {
			w.onPanic(p, w.cur, r)
			w.havePrev = false
			if w.cur == hi {
				done = true
			} else {
				next = w.cur + 1
			}
		}
	}()
	var outS, outN [nT]uint64
	for k := lo; ; k++ {
		w.cur = k
		s, n := decode[S, N](p.fam, k)
		kind := w.exact(p.fam, k)
		convAll(s, &outS)
		convAll(n, &outN)
		if kind == kindNaN {
			// only "does not panic"; no order relation with the neighbours
			w.nanKeys[p.idx]++
			w.havePrev = false
		} else {
			w.reference(kind)
			w.count(p.idx)
			w.check(p.plain.idx, k, &outS, &w.prevS)
			w.check(p.named.idx, k, &outN, &w.prevN)
			w.prevS, w.prevN, w.prevKey, w.havePrev = outS, outN, k, true
		}
		if k == hi {
			return 0, true
		}
	}
}

// primeKey loads the results for the key that precedes a chunk so that monotonicity is also checked across chunk
// borders. Nothing is counted here: the key belongs to the previous chunk.
func primeKey[S, N safecast.IConvertable](w *worker, p *pair, k uint64) {
	defer func() {
		if recover() != nil {
			w.havePrev = false
		}
	}()
	w.havePrev = false
	if w.exact(p.fam, k) == kindNaN {
		return
	}
	s, n := decode[S, N](p.fam, k)
	convAll(s, &w.prevS)
	convAll(n, &w.prevN)
	w.prevKey, w.havePrev = k, true
}

// onPanic finds out which conversion(s) of which type panicked on the key and records them.
func (w *worker) onPanic(p *pair, k uint64, r any) {
	kind := w.exact(p.fam, k)
	if kind != kindNaN {
		w.reference(kind)
	}
	found := false
	for _, nm := range []bool{false, true} {
		src := p.plain.idx
		if nm {
			src = p.named.idx
		}
		for t := 0; t < nT; t++ {
			if _, pv := p.one(nm, k, t); pv != nil {
				found = true
				c := clsNaN
				if kind != kindNaN {
					c = int(w.cls[t])
				}
				w.record(clPanic, src, t, c, k, 0, 0, 0, fmt.Sprint(pv))
			}
		}
	}
	if !found {
		w.engineErrs = append(w.engineErrs, fmt.Sprintf("panic in the harness (not in a conversion) at %s key %#x: %v", p.plain.name, k, r))
	}
}

// ---- value sets --------------------------------------------------------------------------------------

type ival struct{ lo, hi uint64 }

func mergeIvals(a []ival) []ival {
	sort.Slice(a, func(i, j int) bool {
		if a[i].lo != a[j].lo {
			return a[i].lo < a[j].lo
		}
		return a[i].hi < a[j].hi
	})
	var out []ival
	for _, iv := range a {
		if n := len(out); n > 0 && (iv.lo <= out[n-1].hi || iv.lo == out[n-1].hi+1) {
			if iv.hi > out[n-1].hi {
				out[n-1].hi = iv.hi
			}
			continue
		}
		out = append(out, iv)
	}
	return out
}

func ivalCount(a []ival) uint64 {
	var n uint64
	for _, iv := range a {
		n += iv.hi - iv.lo + 1 // a single full 64-bit interval never occurs
	}
	return n
}

// boundaryPoints: 0, the minimum and maximum of every target.
func boundaryPoints() []*big.Int {
	seen := map[string]bool{}
	var out []*big.Int
	add := func(x *big.Int) {
		if !seen[x.String()] {
			seen[x.String()] = true
			out = append(out, x)
		}
	}
	add(big.NewInt(0))
	for i := range targets {
		add(targets[i].min)
		add(targets[i].max)
	}
	return out
}

func keyToBig(fam family, k uint64) *big.Int {
	if fam == famSigned {
		return big.NewInt(int64(k ^ signBit))
	}
	return new(big.Int).SetUint64(k)
}

// valueSet returns the merged key intervals to evaluate for a pair.
func valueSet(p *pair, thorough bool) []ival {
	if p.bits <= 16 || (thorough && p.bits == 32) {
		return []ival{{p.loKey, p.hiKey}} // every value (floats: every bit pattern)
	}
	radius := int64(1) << 12
	if thorough && p.bits == 64 {
		radius = 1 << 16
	}
	var iv []ival
	switch p.fam {
	case famSigned, famUnsigned:
		smin, smax := keyToBig(p.fam, p.loKey), keyToBig(p.fam, p.hiKey)
		toKey := func(x *big.Int) uint64 {
			if p.fam == famSigned {
				return uint64(x.Int64()) ^ signBit
			}
			return x.Uint64()
		}
		addRange := func(lo, hi *big.Int) {
			if lo.Cmp(smin) < 0 {
				lo = smin
			}
			if hi.Cmp(smax) > 0 {
				hi = smax
			}
			if lo.Cmp(hi) > 0 {
				return
			}
			iv = append(iv, ival{toKey(lo), toKey(hi)})
		}
		r := big.NewInt(radius)
		pts := append(boundaryPoints(), smin, smax)
		for _, b := range pts {
			addRange(new(big.Int).Sub(b, r), new(big.Int).Add(b, r))
		}
		one := big.NewInt(1)
		for k := 0; k <= 64; k++ {
			q := pow2(k)
			addRange(new(big.Int).Sub(q, one), new(big.Int).Add(q, one))
			q = new(big.Int).Neg(q)
			addRange(new(big.Int).Sub(q, one), new(big.Int).Add(q, one))
		}
	default:
		maxKey := p.hiKey
		key := func(f float64) uint64 {
			if p.fam == famF32 {
				return keyF32(float32(f)) // rounds to the format; overflow gives ±Inf, which is a member of the set anyway
			}
			return keyF64(f)
		}
		addKeys := func(c uint64, r uint64) {
			lo, hi := c-r, c+r
			if c < r {
				lo = 0
			}
			if hi < c || hi > maxKey {
				hi = maxKey
			}
			iv = append(iv, ival{lo, hi})
		}
		half := new(big.Float).SetPrec(256).SetFloat64(0.5)
		for _, b := range boundaryPoints() {
			bf, _ := new(big.Float).SetPrec(256).SetInt(b).Float64()
			addKeys(key(bf), uint64(radius)) // every float within `radius` ULPs of the boundary
			for d := -radius; d <= radius; d++ {
				x := new(big.Float).SetPrec(256).SetInt(new(big.Int).Add(b, big.NewInt(d)))
				f, _ := x.Float64() // integer b+d rounded to nearest
				addKeys(key(f), 0)
				f, _ = x.Add(x, half).Float64() // b+d+½
				addKeys(key(f), 0)
			}
		}
		// ±2^k for every exponent of the format (subnormals included) with both neighbours
		minExp, maxExp := -1074, 1023
		if p.fam == famF32 {
			minExp, maxExp = -149, 127
		}
		for e := minExp; e <= maxExp; e++ {
			f := math.Ldexp(1, e)
			addKeys(key(f), 1)
			addKeys(key(-f), 1)
		}
		// ±Inf and the 2·radius patterns on both sides of them (largest finite values, first NaNs), and the far ends
		// of the two NaN ranges
		addKeys(key(math.Inf(1)), uint64(radius))
		addKeys(key(math.Inf(-1)), uint64(radius))
		addKeys(0, uint64(radius))
		addKeys(maxKey, uint64(radius))
		addKeys(key(math.NaN()), 1)
		if p.fam == famF64 {
			// the float32 extremes seen from float64
			addKeys(key(math.MaxFloat32), uint64(radius))
			addKeys(key(-math.MaxFloat32), uint64(radius))
			addKeys(key(math.SmallestNonzeroFloat32), 1)
		}
	}
	return mergeIvals(iv)
}

// ---- tasks ----------------------------------------------------------------------------------------------

type task struct {
	p        *pair
	fast     bool   // part of a complete 2^32 sweep (see worker.fast)
	ivals    []ival // ascending, disjoint
	hasPrime bool
	primeKey uint64
}

const chunk = uint64(1) << 22

// makeTasks cuts the value set of a pair into tasks of about 2^22 keys. Every task but the first is primed with
// the key that precedes it in the set, so that monotonicity is checked along the whole ascending sequence.
func makeTasks(p *pair, set []ival, fast bool) []task {
	var tasks []task
	cur := task{p: p, fast: fast}
	var n uint64
	var last uint64
	haveLast := false
	flush := func() {
		if len(cur.ivals) > 0 {
			tasks = append(tasks, cur)
		}
		cur = task{p: p, fast: fast, hasPrime: haveLast, primeKey: last}
		n = 0
	}
	for _, iv := range set {
		lo := iv.lo
		for {
			room := chunk - n
			hi := iv.hi
			if hi-lo >= room {
				hi = lo + room - 1
			}
			cur.ivals = append(cur.ivals, ival{lo, hi})
			n += hi - lo + 1
			last, haveLast = hi, true
			if n >= chunk {
				flush()
			}
			if hi == iv.hi {
				break
			}
			lo = hi + 1
		}
	}
	flush()
	return tasks
}

func (w *worker) runTask(t task) {
	w.havePrev = false
	w.fast = t.fast
	if t.hasPrime {
		t.p.prime(w, t.primeKey)
	}
	for _, iv := range t.ivals {
		t.p.run(w, iv.lo, iv.hi)
	}
}

// ---- rendering -------------------------------------------------------------------------------------------

func renderValue(p *pair, k uint64) string {
	switch p.fam {
	case famSigned:
		return strconv.FormatInt(int64(k^signBit), 10)
	case famUnsigned:
		return strconv.FormatUint(k, 10)
	case famF32:
		f := f32Key(k)
		return fmt.Sprintf("%s (bits %#08x)", strconv.FormatFloat(float64(f), 'g', -1, 32), math.Float32bits(f))
	default:
		f := f64Key(k)
		return fmt.Sprintf("%s (bits %#016x)", strconv.FormatFloat(f, 'g', -1, 64), math.Float64bits(f))
	}
}

func renderResult(t int, bits uint64) string {
	if targets[t].signed {
		return strconv.FormatInt(int64(bits), 10)
	}
	return strconv.FormatUint(bits, 10)
}

type replayCase struct {
	Clause     string `json:"clause"`
	SourceType string `json:"source_type"`
	Key        string `json:"key"`
	Value      string `json:"value"`
	Target     string `json:"target"`
	Got        string `json:"got"`
	Want       string `json:"want,omitempty"`
	PrevKey    string `json:"prev_key,omitempty"`
	PrevValue  string `json:"prev_value,omitempty"`
	PrevGot    string `json:"prev_got,omitempty"`
	Panic      string `json:"panic,omitempty"`
	Call       string `json:"call"`
}

func signature(clause int, s srcInfo, t, cls int) string {
	if clause == clMono {
		return fmt.Sprintf("mono:src=%s:to=%s", s.group, targets[t].name)
	}
	return fmt.Sprintf("%s:src=%s:to=%s:input=%s", clauseName[clause], s.group, targets[t].name, clsName[cls])
}

func fnName(t int) string {
	n := targets[t].name
	return "safecast.To" + string(n[0]-32) + n[1:]
}

func mkReplay(clause int, s srcInfo, t int, r *violRec) replayCase {
	p := pairs[s.idx/2]
	rc := replayCase{Clause: clauseName[clause], SourceType: s.name, Key: fmt.Sprintf("%#x", r.key), Value: renderValue(p, r.key),
		Target: targets[t].name, Call: fmt.Sprintf("%s(%s(%s))", fnName(t), s.name, renderValue(p, r.key))}
	switch clause {
	case clValue:
		rc.Got, rc.Want = renderResult(t, r.got), renderResult(t, r.want)
	case clMono:
		rc.Got = renderResult(t, r.got)
		rc.PrevKey, rc.PrevValue, rc.PrevGot = fmt.Sprintf("%#x", r.prevKey), renderValue(p, r.prevKey), renderResult(t, r.want)
	case clPanic:
		rc.Panic = r.panicMsg
	}
	return rc
}

// ---- the check --------------------------------------------------------------------------------------------

// homonyms: two DIFFERENT defined types that print alike (function-local types of the same name; two packages each with a
// type Size would do the same), one over an integer kind and one over a float kind, converted one after the other in one
// process, in both orders. Each must convert exactly like its underlying kind does (which the sweeps judge).
func sameAsKind[N, K safecast.IConvertable](rep *ev.Reporter, what string, n N, k K, evals *int64) {
	var a, b [nT]uint64
	var panicked any
	func() {
		defer func() { panicked = recover() }()
		convAll(n, &a)
	}()
	convAll(k, &b)
	*evals += nT
	if panicked != nil {
		rep.Violation("homonym-type:panic:"+what, map[string]any{"value": fmt.Sprint(k), "panic": fmt.Sprint(panicked)})
		return
	}
	for t := 0; t < nT; t++ {
		if a[t] != b[t] {
			rep.Violation(fmt.Sprintf("homonym-type:differs-from-its-kind:%s:target=%s", what, targets[t].name), map[string]any{"value": fmt.Sprint(k), "as_defined_type": renderResult(t, a[t]), "as_its_kind": renderResult(t, b[t])})
		}
	}
}

func homonyms(rep *ev.Reporter) (evals int64) {
	us := []uint64{0, 1, 255, 1 << 31, 1<<63 - 1, 1 << 63, 1<<64 - 2, 1<<64 - 1}
	is := []int64{-1 << 63, -1<<63 + 1, -1, 0, 1, 1<<63 - 2, 1<<63 - 1}
	fs := []float64{math.Inf(-1), -1e30, -1 << 63, -1.5, 0, 0.5, 1 << 31, 1 << 63, 1.8e19, 1 << 64, 1e30, math.Inf(1)}
	func() { // integer kind first ...
		type Level uint64
		for _, v := range us {
			sameAsKind(rep, "first-met=integer:this=integer", Level(v), v, &evals)
		}
	}()
	func() { // ... then the float type of the same name
		type Level float64
		for _, v := range fs {
			sameAsKind(rep, "first-met=integer:this=float", Level(v), v, &evals)
		}
	}()
	func() { // float kind first ...
		type Grade float32
		for _, v := range fs {
			sameAsKind(rep, "first-met=float:this=float", Grade(float32(v)), float32(v), &evals)
		}
	}()
	func() { // ... then the integer type of the same name
		type Grade int64
		for _, v := range is {
			sameAsKind(rep, "first-met=float:this=integer", Grade(v), v, &evals)
		}
	}()
	func() {
		type Grade uint64 // a third type of that name
		for _, v := range us {
			sameAsKind(rep, "first-met=float:this=integer", Grade(v), v, &evals)
		}
	}()
	return
}

func TestC10(t *testing.T) {
	if strconv.IntSize != 64 {
		fmt.Println("ENGINE-ERROR: property=C10 the check expects a 64-bit platform")
		ev.ExitCode = 2
		return
	}
	if p := os.Getenv("VERIF_REPLAY"); p != "" {
		if b, err := os.ReadFile(p); err == nil && strings.Contains(string(b), "\"signature\": \"conversion-kills-the-process:") {
			_ = os.Unsetenv("VERIF_REPLAY") // no single case to replay: the sweep is run again
		} else {
			replay(t, p)
			return
		}
	}
	// The sweep runs in a child process: the workers convert in parallel, and a conversion that corrupts shared state of
	// the package can end the process with a Go runtime "fatal error" that nothing recovers. "Conversions never panic":
	// such a death is reported as a violation of its own, not as a failure of the machinery.
	if os.Getenv("VERIF_C10_CHILD") == "" {
		cmd := exec.Command(os.Args[0], "-test.run=^TestC10$", "-test.timeout=0", "-test.count=1")
		cmd.Env = append(os.Environ(), "VERIF_C10_CHILD=1")
		cmd.Stdout = os.Stdout
		var errBuf bytes.Buffer
		cmd.Stderr = &errBuf
		err := cmd.Run()
		tail := errBuf.String()
		for _, fatal := range []string{"fatal error: concurrent map writes", "fatal error: concurrent map read and map write", "fatal error: concurrent map iteration and map write"} {
			if strings.Contains(tail, fatal) {
				if len(tail) > 6000 {
					tail = tail[:6000]
				}
				rep := ev.NewReporter("C10", "exploration")
				rep.Violation("conversion-kills-the-process:"+strings.ReplaceAll(strings.TrimPrefix(fatal, "fatal error: "), " ", "-"), map[string]any{"what": "the sweep (" + fmt.Sprint(ev.Workers()) + " workers converting in parallel) ended with a Go runtime fatal error inside the package", "stderr": tail})
				rep.Coverage["exhaustive"] = false
				n := homonyms(rep) // what can still be evaluated in this process, sequentially
				rep.Coverage["homonym_type_evaluations"] = n
				rep.Coverage["evaluations"] = n
				rep.Coverage["distinct_nontrivial"] = n
				rep.Coverage["rule"] = "none: the sweep did not finish, the process running it was ended by the Go runtime"
				rep.Coverage["samples"] = []any{map[string]any{"stderr_of_the_sweep": tail}}
				rep.Finish()
				return
			}
		}
		os.Stderr.WriteString(tail)
		if ee, ok := err.(*exec.ExitError); ok {
			ev.ExitCode = ee.ExitCode()
			if ev.ExitCode != 1 {
				ev.ExitCode = 2
			}
		} else if err != nil {
			fmt.Println("ENGINE-ERROR: property=C10 cannot run the sweep in a child process:", err)
			ev.ExitCode = 2
		}
		return
	}
	rep := ev.NewReporter("C10", "exploration")
	thorough := ev.Thorough()
	rep.Coverage["homonym_type_evaluations"] = homonyms(rep)

	var tasks []task
	setSizes := map[string]any{}
	var totalKeys uint64
	sets := make([][]ival, len(pairs))
	var swg sync.WaitGroup
	for i, p := range pairs {
		swg.Add(1)
		go func() {
			defer swg.Done()
			sets[i] = valueSet(p, thorough)
		}()
	}
	swg.Wait()
	for i, p := range pairs {
		set := sets[i]
		n := ivalCount(set)
		totalKeys += n
		complete := len(set) == 1 && set[0].lo == p.loKey && set[0].hi == p.hiKey
		setSizes[p.plain.name+"|"+p.named.name] = map[string]any{"values": n, "ascending_runs": len(set), "every_value_of_the_type": complete}
		tasks = append(tasks, makeTasks(p, set, complete && p.bits == 32)...)
	}
	nw := ev.Workers() // min(NumCPU, 16) unless VERIF_WORKERS says otherwise; the result does not depend on it
	ch := make(chan task, len(tasks))
	for _, tk := range tasks {
		ch <- tk
	}
	close(ch)
	ws := make([]*worker, nw)
	var wg sync.WaitGroup
	for i := range ws {
		ws[i] = &worker{}
		wg.Add(1)
		go func(w *worker) {
			defer wg.Done()
			for tk := range ch {
				w.runTask(tk)
			}
		}(ws[i])
	}
	wg.Wait()

	// merge
	var evals, nontrivial, nanEvals, crossChecked int64
	var sum uint64
	var perSrc [nSrc]int64
	var classCnt [nSrc][nT][3]int64
	type agg struct {
		n      int64
		src, t int
		clause int
		rec    violRec
	}
	viol := map[string]*agg{}
	for _, w := range ws {
		nontrivial += 2 * w.ntTriples // the plain and the named type are two source types
		crossChecked += w.crossCheck
		sum += w.sum
		for _, e := range w.engineErrs {
			rep.EngineError("%s", e)
		}
		for pi := 0; pi < nPair; pi++ {
			evals += 2 * nT * w.keys[pi]
			nanEvals += 2 * nT * w.nanKeys[pi]
			for _, s := range []int{2 * pi, 2*pi + 1} {
				perSrc[s] += nT * (w.keys[pi] + w.nanKeys[pi])
				for tg := 0; tg < nT; tg++ {
					for c := 0; c < 3; c++ {
						classCnt[s][tg][c] += w.classCnt[pi][tg][c]
					}
				}
			}
		}
	}
	for cl := 0; cl < 3; cl++ {
		for s := 0; s < nSrc; s++ {
			for tg := 0; tg < nT; tg++ {
				for c := 0; c < 4; c++ {
					for _, w := range ws {
						r := &w.viol[cl][s][tg][c]
						if !r.set {
							continue
						}
						sig := signature(cl, srcByIdx(s), tg, c)
						a := viol[sig]
						if a == nil {
							a = &agg{src: s, t: tg, clause: cl, rec: *r}
							a.rec.n = 0
							viol[sig] = a
						} else if s == a.src && r.key < a.rec.key { // the case kept is the smallest key of the first source type (loop order): deterministic
							n := a.rec.n
							a.rec = *r
							a.rec.n = n
						}
						a.rec.n += r.n
					}
				}
			}
		}
	}
	for sig, a := range viol {
		rep.ViolationN(sig, mkReplay(a.clause, srcByIdx(a.src), a.t, &a.rec), a.rec.n)
	}

	// evidence
	perSource := map[string]int64{}
	for s := 0; s < nSrc; s++ {
		perSource[srcByIdx(s).name] = perSrc[s]
	}
	outcomes := map[string]any{}
	distinctOutcomeClasses := 0
	for tg := 0; tg < nT; tg++ {
		var c [3]int64
		for s := 0; s < nSrc; s++ {
			for k := 0; k < 3; k++ {
				c[k] += classCnt[s][tg][k]
				if classCnt[s][tg][k] > 0 {
					distinctOutcomeClasses++
				}
			}
		}
		outcomes[fnName(tg)] = map[string]int64{"clamped_to_min": c[clsBelow], "in_range": c[clsIn], "clamped_to_max": c[clsAbove]}
	}
	rep.Coverage["evaluations"] = evals + nanEvals
	rep.Coverage["evaluations_with_value_oracle"] = evals
	rep.Coverage["nan_evaluations_no_panic_only"] = nanEvals
	rep.Coverage["source_values"] = totalKeys
	rep.Coverage["distinct_nontrivial"] = nontrivial
	rep.Coverage["rule"] = "distinct (source type, value, target) triples — distinct by construction: the key intervals of a source are merged and disjoint — whose exact value lies outside the target's range (a guard of the conversion must fire; ±Inf included) or within 2^12 of the target's minimum or maximum; NaN cases are not counted"
	rep.Coverage["exhaustive"] = true
	rep.Coverage["exhaustive_note"] = "no cap, no deadline: every member of the stated value sets was evaluated; 'every_value_of_the_type' in value_sets tells for which sources the set is the whole type"
	rep.Coverage["value_sets"] = setSizes
	rep.Coverage["evaluations_per_source_type"] = perSource
	rep.Coverage["expected_outcome_per_target"] = outcomes
	rep.Coverage["distinct_outcome_classes_observed"] = fmt.Sprintf("%d of the (source type, target, {clamped-to-min, in-range, clamped-to-max}) combinations occurred", distinctOutcomeClasses)
	rep.Coverage["reference_cross_checked_values"] = fmt.Sprintf("%d source values had the math/big clamp and its int64 shortcut (used alone in the complete 2^32 sweeps, for truncated values that fit an int64) computed side by side; they agreed on all of them", crossChecked)
	rep.Coverage["results_sum64"] = fmt.Sprintf("%#016x", sum)
	rep.Coverage["workers"] = nw
	rep.Coverage["bound"] = map[string]any{
		"source_types": nSrc, "targets": nT,
		"quick":    "all values of the 8/16-bit sources; radius 2^12 around 0, source extremes and every target boundary, ±2^k±1 for the 32/64-bit integer sources; for floats every integer and integer+1/2 within 2^12 of each boundary, 2^12 ULPs around each boundary / ±Inf / both ends of both NaN ranges, ±2^k with neighbours for every exponent",
		"thorough": "additionally all 2^32 values / bit patterns of int32, uint32, float32 and of the named types over them; radius 2^16 for the 64-bit sources",
	}
	rep.Coverage["samples"] = samples()
	rep.Assume = []string{
		"reference: math/big (big.Float.SetFloat64 is exact, big.Float.Int truncates toward zero, big.Int.Cmp clamps); in the complete 2^32 sweeps the clamp of a truncated value that fits an int64 uses int64 comparisons, cross-checked against the big.Int clamp on every value of every other set",
		"int and uint are 64 bits wide on the platform of the run",
		"NaN: only 'does not panic' is asserted",
		"one defined type per kind stands for 'named types over them'",
	}
	rep.Finish()
}

// samples writes a few members of the enumerated sets out, evaluated through the same path.
func samples() []any {
	w := &worker{}
	type sc struct {
		pair  string
		named bool
		key   uint64
		t     int
	}
	cases := []sc{
		{"int16", false, uint64(128) ^ signBit, tInt8},
		{"int16", true, uint64(0xFFFFFFFFFFFFFF7F) ^ signBit, tInt8}, // -129
		{"uint16", false, 65535, tInt16},
		{"int64", false, uint64(math.MaxInt64) ^ signBit, tUint32},
		{"uint64", true, math.MaxUint64, tInt64},
		{"float32", false, keyF32(-0.75), tUint8},
		{"float32", false, keyF32(2147483648), tInt32},
		{"float64", false, keyF64(18446744073709549568), tUint64},
		{"float64", false, keyF64(math.Inf(-1)), tInt},
		{"float64", true, keyF64(255.5), tUint8},
	}
	var out []any
	for _, c := range cases {
		for _, p := range pairs {
			if p.plain.name != c.pair {
				continue
			}
			s := p.plain
			if c.named {
				s = p.named
			}
			got, pv := p.one(c.named, c.key, c.t)
			kind := w.exact(p.fam, c.key)
			w.reference(kind)
			m := map[string]any{"call": fmt.Sprintf("%s(%s(%s))", fnName(c.t), s.name, renderValue(p, c.key)), "got": renderResult(c.t, got), "reference": renderResult(c.t, w.wantB[c.t])}
			if pv != nil {
				m["panic"] = fmt.Sprint(pv)
			}
			out = append(out, m)
		}
	}
	return out
}

// replay re-evaluates the case stored in a replay file (VERIF_REPLAY=<path>).
func replay(t *testing.T, path string) {
	b, err := os.ReadFile(path)
	if err != nil {
		t.Fatal(err)
	}
	var f struct {
		Signature string     `json:"signature"`
		Replay    replayCase `json:"replay"`
	}
	if err := json.Unmarshal(b, &f); err != nil {
		t.Fatal(err)
	}
	if strings.HasPrefix(f.Signature, "homonym-type:") { // the whole (tiny) family is run again: its verdict depends on the order of the conversions
		rep := ev.NewReporter("C10", "exploration")
		rep.Coverage["homonym_type_evaluations"] = homonyms(rep)
		rep.Coverage["exhaustive"] = false
		rep.Finish()
		return
	}
	rc := f.Replay
	key, err := strconv.ParseUint(rc.Key, 0, 64)
	if err != nil {
		t.Fatalf("bad key %q", rc.Key)
	}
	for _, p := range pairs {
		for _, nm := range []bool{false, true} {
			s := p.plain
			if nm {
				s = p.named
			}
			if s.name != rc.SourceType {
				continue
			}
			w := &worker{}
			if rc.PrevKey != "" {
				pk, err := strconv.ParseUint(rc.PrevKey, 0, 64)
				if err != nil {
					t.Fatalf("bad prev_key %q", rc.PrevKey)
				}
				p.prime(w, pk)
			}
			p.run(w, key, key)
			found := false
			for cl := 0; cl < 3; cl++ {
				for tg := 0; tg < nT; tg++ {
					for c := 0; c < 4; c++ {
						r := &w.viol[cl][s.idx][tg][c]
						if !r.set {
							continue
						}
						sig := signature(cl, s, tg, c)
						if f.Signature != "" && sig != f.Signature {
							continue
						}
						found = true
						d, _ := json.Marshal(mkReplay(cl, s, tg, r))
						fmt.Printf("VIOLATION property=C10 replay=%s signature=%s\n%s\n", path, sig, d)
					}
				}
			}
			if found {
				ev.ExitCode = 1
			} else {
				fmt.Printf("replay: no violation (%s)\n", rc.Call)
			}
			return
		}
	}
	t.Fatalf("source type %q not found", rc.SourceType)
}

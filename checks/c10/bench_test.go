package c10

import (
	"fmt"
	"os"
	"syscall"
	"testing"
)

func cpuNow() float64 {
	var ru syscall.Rusage
	_ = syscall.Getrusage(syscall.RUSAGE_SELF, &ru)
	return float64(ru.Utime.Sec) + float64(ru.Utime.Usec)/1e6 + float64(ru.Stime.Sec) + float64(ru.Stime.Usec)/1e6
}

// TestBench is a development aid (VERIF_C10_BENCH=1): CPU cost per source value of one chunk of each 32-bit pair,
// measured in process CPU time so that a loaded machine does not distort it.
func TestBench(t *testing.T) {
	if os.Getenv("VERIF_C10_BENCH") == "" {
		t.Skip()
	}
	for _, p := range pairs {
		if p.bits != 32 {
			continue
		}
		for _, start := range []uint64{p.loKey + 5*chunk, p.loKey + (p.hiKey-p.loKey)/2 + 7*chunk, p.hiKey - 9*chunk} {
			w := &worker{fast: true}
			c0 := cpuNow()
			p.run(w, start, start+chunk-1)
			c := cpuNow() - c0
			fmt.Printf("%s start=%#x: %.1f ns/key cpu (%d evals)\n", p.plain.name, start, c/float64(chunk)*1e9, w.keys[p.idx]+w.nanKeys[p.idx])
		}
	}
}

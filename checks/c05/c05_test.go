// C05 — cancelling a subprocess terminates its whole process tree, promptly.
//
// Bounded-exhaustive enumeration of CONFIGURATIONS (DESIGN.md §4 C05, engine E6), each run for real against the real
// library and the real kernel:
//
//	tree shape   single, chain:2, chain:3, fan:3, bg-holder, ignore-term, parent-exits-first (descendant keeps the
//	             pipes), parent-exits-first:detached, setsid-escapee
//	start        Execute | Start | supervisor (supervisor.Run -> Execute)
//	stop         ctx-cancel | deadline | Cancel | Stop | Restart      (supervisor: ctx-cancel | deadline | Cancel)
//	instant      at-start (Start returned / Execute under way / post-start hook ran, and IsOn() seen true), root (the direct child exists,
//	             no descendant yet), desc-k for every k (descendants 1..k exist, k+1.. do not), parent-exited
//
// The tree is built by the helper `procgrid` (checks/c05/procgrid), which the Subprocess object runs as its command.
// Every process of the tree writes itself into a ledger and waits at gates the harness opens one at a time, so the
// set of processes that exist when the stop is requested is fixed by EVENTS (never by a sleep) and is the same on
// every run. What the kernel does inside one configuration (signal delivery order, scheduling of the library's
// goroutines) is NOT controlled: that is why the level claimed is "exploration" over configurations.
//
// One schedule of the library's own goroutines IS controlled, in the cells "sched=monitor-late": package subprocess spawns
// exactly one goroutine (monitoring.go), whose `go` statement is hooked through an instrumented copy of that file
// (prebuild.sh, generated from /repo's working tree; without a hook installed it behaves like the original). In those
// cells the goroutine waits before its first statement until the stop call has returned (Stop, Restart) or been made
// (the other stops) — a schedule the Go runtime is free to produce and does produce under load. The command counts as
// running by its announcement in the ledger; IsOn() is recorded, not required. These cells run one at a time.
//
// Oracle (reading taken = the weakest one):
//   - survivor: every ledger process of the stopped generation that is in the direct child's process group (as the
//     process itself reported it; a setsid-escapee is therefore excluded, as the statement excludes it) is gone from
//     /proc, a zombie, or its pid belongs to another process, at the latest 10 s after the stop request. A zombie
//     counts as terminated. Polled every 50 ms.
//   - return: Execute() (or supervisor.Run for the two context stops) and Stop()/Restart() have returned at the
//     latest 10 s after the stop request — every process of the tree would otherwise live for 120 s.
//   - ison: IsOn() is false at the latest 10 s after the stop request (not asked after Restart, which starts again).
//
// The 10 s are guards against failure modes of two minutes, not timing oracles. A cell in which the command had
// already ended by itself before the stop request is "not applicable" (nothing running to cancel) and is counted
// apart. Execute x Stop / Execute x Restart are inside the statement ("by Stop()", "Execute() / Stop() return") and
// are evaluated like every other cell; the source comment of Stop ("should be used in combination with Start") is
// noted in the replay object of those cells.
//
// Cleanup: at the end of EVERY cell each ledger pid, and every process whose command line names the cell's
// directory, gets SIGKILL; nothing outlives the check.
package c05

import (
	"context"
	"encoding/json"
	"errors"
	"fmt"
	"os"
	"path/filepath"
	"runtime"
	"sort"
	"strconv"
	"strings"
	"sync"
	"sync/atomic"
	"syscall"
	"testing"
	"time"

	"github.com/ARM-software/golang-utils/utils/logs"
	"github.com/ARM-software/golang-utils/utils/subprocess"
	commandUtils "github.com/ARM-software/golang-utils/utils/subprocess/command"
	"github.com/ARM-software/golang-utils/utils/subprocess/supervisor"
	"github.com/ARM-software/golang-utils/utils/verifrt"
	deadlock "github.com/sasha-s/go-deadlock"

	ev "verif/engine/evidence"
)

var potentialDeadlocks atomic.Int64

func TestMain(m *testing.M) {
	// go-deadlock's default reaction to a lock wait of 30 s is os.Exit(2) of the whole harness; count instead.
	// Its lock-ORDER heuristic keys on lock addresses, which the hundreds of short-lived Subprocess objects of this
	// harness recycle (258 bogus "inconsistent locking" reports in one quick run): switched off.
	deadlock.Opts.DisableLockOrderDetection = true
	deadlock.Opts.OnPotentialDeadlock = func() { potentialDeadlocks.Add(1) }
	deadlock.Opts.LogBuf = discard{}
	if f := os.Getenv("VERIF_C05_DEADLOCK_LOG"); f != "" {
		if w, err := os.Create(f); err == nil {
			deadlock.Opts.LogBuf = w
		}
	}
	installHold()
	ev.Main(m)
}

type discard struct{}

func (discard) Write(p []byte) (int, error) { return len(p), nil }

const (
	bound       = 10 * time.Second      // guard, see the header
	pollEvery   = 50 * time.Millisecond // /proc polling period of the oracle
	reachWithin = 30 * time.Second      // machinery: an announced phase must be reached within this, else ENGINE-ERROR
)

// ---- the grid -------------------------------------------------------------------------------------

type shapeInfo struct {
	Name      string
	Desc      int  // number of descendants
	PEF       bool // parent exits first
	StartOnly bool // the command ends by itself once the parent exited: only Start keeps it "running" (IsOn)
}

var shapes = []shapeInfo{
	{"single", 0, false, false},
	{"chain:2", 2, false, false},
	{"chain:3", 3, false, false},
	{"fan:3", 3, false, false},
	{"bg-holder", 1, false, false},
	{"ignore-term", 1, false, false},
	{"parent-exits-first", 1, true, false},
	{"parent-exits-first:detached", 1, true, true},
	{"setsid-escapee", 2, false, false},
}

func shapeByName(n string) (shapeInfo, bool) {
	for _, s := range shapes {
		if s.Name == n {
			return s, true
		}
	}
	return shapeInfo{}, false
}

var starts = []string{"Execute", "Start", "supervisor"}

func stopsOf(start string) []string {
	if start == "supervisor" {
		// the supervisor's interface is Run(ctx); Cancel() of the supervised command makes the supervisor restart it
		return []string{"ctx-cancel", "deadline", "Cancel"}
	}
	return []string{"ctx-cancel", "deadline", "Cancel", "Stop", "Restart"}
}

func instantsOf(s shapeInfo, thorough bool) []string {
	var all []string
	all = append(all, "at-start", "root")
	for k := 1; k <= s.Desc; k++ {
		all = append(all, fmt.Sprintf("desc-%d", k))
	}
	if s.PEF {
		all = append(all, "parent-exited")
	}
	if thorough {
		return all
	}
	return all[len(all)-1:] // quick: the complete tree
}

func instantClass(s shapeInfo, instant string) string {
	switch {
	case instant == "at-start", instant == "parent-exited":
		return instant
	case instant == "root":
		return "root-only"
	case instant == fmt.Sprintf("desc-%d", s.Desc):
		return "desc-all"
	default:
		return "desc-partial"
	}
}

type Cell struct {
	Shape   string `json:"shape"`
	Start   string `json:"start"`
	Stop    string `json:"stop"`
	Instant string `json:"instant"`
	// As: "" = the command is run directly; "env" = through a command translator (SetupAs with
	// NewCommandAsDifferentUser("env"): `env <command>` execs the command, the way gosu / sudo / nice are used)
	As string `json:"as,omitempty"`
	// Reuse: "" = a fresh Subprocess object; "re-setup" = the object was created with another (never ending) context and is
	// set up again with the cell's context before the run; "second-run" = the object already went through a run of the same
	// command that was stopped with Stop() (its group killed) before the cell's run starts; "after-two-restarts" = the same,
	// the earlier run having been restarted twice before it was stopped
	Reuse string `json:"reuse,omitempty"`
	// Sched: "" = the library's goroutines are scheduled by the Go runtime; "monitor-late" = the goroutine that
	// subprocess/monitoring.go spawns (hooked through the instrumented copy of that file) does not get to run its first
	// statement until the stop call of the cell has returned (Stop, Restart) or been made (the other stops): a legal
	// schedule of the Go runtime, which promises no bound on when a new goroutine first runs. These cells run one at a time.
	// "stop-during-start-message" (Start only) = the sink of the library's "Started process [pid]" message is slow: the stop
	// request is made while Start() is still inside that log call (the process exists, Start() has not returned), and the sink
	// lets go once the stop call has returned or the tree is gone (or, failing both, after 2 s).
	Sched string `json:"sched,omitempty"`
}

// ---- holding the monitoring goroutine back ----------------------------------------------------------

var (
	holdMu sync.Mutex
	holdCh chan struct{} // non-nil: a goroutine spawned by subprocess/monitoring.go waits here before its first statement
	heldN  atomic.Int64
)

func installHold() {
	verifrt.GateHook = func(label string) {
		if !strings.HasPrefix(label, "start ") {
			return
		}
		holdMu.Lock()
		ch := holdCh
		holdMu.Unlock()
		if ch != nil {
			heldN.Add(1)
			<-ch
		}
	}
}

// gateLoggers hands everything to the wrapped loggers and calls onStarted (which may block: a slow sink) when the library
// logs that the process has started — at that moment the process exists and Start() has not returned yet.
type gateLoggers struct {
	logs.Loggers
	onStarted func()
}

func (g *gateLoggers) Log(o ...interface{}) {
	if len(o) == 1 && g.onStarted != nil {
		if m, ok := o[0].(string); ok && strings.HasPrefix(m, "Started process [") {
			g.onStarted()
		}
	}
	g.Loggers.Log(o...)
}

// holdMonitors makes every monitoring goroutine spawned from now on wait; the returned function lets them all go.
func holdMonitors() (release func()) {
	ch := make(chan struct{})
	holdMu.Lock()
	holdCh = ch
	holdMu.Unlock()
	var once sync.Once
	return func() {
		once.Do(func() {
			holdMu.Lock()
			holdCh = nil
			holdMu.Unlock()
			close(ch)
		})
	}
}

func (c Cell) String() string {
	s := c.Shape + "|" + c.Start + "|" + c.Stop + "|" + c.Instant
	if c.As != "" {
		s += "|as=" + c.As
	}
	if c.Reuse != "" {
		s += "|reuse=" + c.Reuse
	}
	if c.Sched != "" {
		s += "|sched=" + c.Sched
	}
	return s
}

// newSubprocess creates the command of a cell, directly or through the translator.
func newSubprocess(ctx context.Context, c Cell, loggers logs.Loggers, binPath string, args ...string) (*subprocess.Subprocess, error) {
	switch c.Reuse {
	case "re-setup":
		p, err := subprocess.New(context.Background(), loggers, "", "", "", binPath, args...)
		if err != nil {
			return nil, err
		}
		return p, p.Setup(ctx, loggers, "", "", "", binPath, args...)
	case "second-run", "after-two-restarts":
		p, err := subprocess.New(ctx, loggers, "", "", "", binPath, args...)
		if err != nil {
			return nil, err
		}
		if err = p.Start(); err != nil {
			return nil, fmt.Errorf("first run: %w", err)
		}
		time.Sleep(150 * time.Millisecond)
		if c.Reuse == "after-two-restarts" {
			for i := 0; i < 2; i++ {
				if err = p.Restart(); err != nil {
					return nil, fmt.Errorf("first run, Restart #%d: %w", i+1, err)
				}
				time.Sleep(150 * time.Millisecond)
			}
		}
		if err = p.Stop(); err != nil {
			return nil, fmt.Errorf("first run, Stop: %w", err)
		}
		// nothing of the first run may be left for the cell's own ledger: args[1] is the cell directory
		killEverything(args[1])
		if es, e := os.ReadDir(args[1]); e == nil {
			for _, f := range es {
				_ = os.RemoveAll(filepath.Join(args[1], f.Name()))
			}
		}
		return p, nil
	}
	if c.As == "" {
		return subprocess.New(ctx, loggers, "", "", "", binPath, args...)
	}
	p := new(subprocess.Subprocess)
	err := p.SetupAs(ctx, loggers, "", "", "", commandUtils.NewCommandAsDifferentUser(c.As), binPath, args...)
	return p, err
}

func grid(thorough bool) []Cell {
	var cells []Cell
	for _, s := range shapes {
		for _, st := range starts {
			if s.StartOnly && st != "Start" {
				continue
			}
			for _, sp := range stopsOf(st) {
				for _, in := range instantsOf(s, thorough) {
					cells = append(cells, Cell{s.Name, st, sp, in, "", "", ""})
				}
			}
		}
	}
	// the same command run through a translator: trees whose descendants hold the output pipes or not, every way of stopping
	for _, name := range []string{"fan:3", "bg-holder", "chain:2"} {
		s, _ := shapeByName(name)
		for _, st := range starts {
			for _, sp := range stopsOf(st) {
				ins := instantsOf(s, thorough)
				cells = append(cells, Cell{s.Name, st, sp, ins[len(ins)-1], "env", "", ""})
			}
		}
	}
	// a Subprocess object that is not fresh
	for _, name := range []string{"fan:3", "bg-holder"} {
		s, _ := shapeByName(name)
		for _, st := range []string{"Execute", "Start"} {
			for _, sp := range stopsOf(st) {
				ins := instantsOf(s, thorough)
				for _, re := range []string{"re-setup", "second-run", "after-two-restarts"} {
					cells = append(cells, Cell{s.Name, st, sp, ins[len(ins)-1], "", re, ""})
				}
			}
		}
	}
	// the monitoring goroutine of the run gets to run late (see Cell.Sched)
	lateShapes, lateStops := []string{"fan:3", "bg-holder"}, []string{"Cancel", "Stop", "Restart"}
	if thorough {
		lateShapes, lateStops = []string{"single", "fan:3", "bg-holder"}, stopsOf("Execute")
	}
	for _, name := range lateShapes {
		s, _ := shapeByName(name)
		for _, st := range []string{"Execute", "Start"} {
			for _, sp := range lateStops {
				ins := instantsOf(s, thorough)
				cells = append(cells, Cell{s.Name, st, sp, ins[len(ins)-1], "", "", "monitor-late"})
			}
		}
	}
	for _, name := range lateShapes {
		s, _ := shapeByName(name)
		for _, sp := range lateStops {
			ins := instantsOf(s, thorough)
			cells = append(cells, Cell{s.Name, "Start", sp, ins[len(ins)-1], "", "", "stop-during-start-message"})
		}
	}
	return cells
}

// ---- ledger and /proc -----------------------------------------------------------------------------

type proc struct {
	Node  string `json:"node"`
	Pid   int    `json:"pid"`
	PPid  int    `json:"ppid"`
	Pgrp  int    `json:"pgrp"`
	Start string `json:"starttime"`
	Gen   int    `json:"gen"`
}

type ledger struct {
	Procs  []proc
	Forked map[int]int // pid -> gen, recorded by the parent
	Exits  map[string]bool
	Errs   []string
}

func readLedger(dir string) ledger {
	l := ledger{Forked: map[int]int{}, Exits: map[string]bool{}}
	b, err := os.ReadFile(filepath.Join(dir, "ledger"))
	if err != nil {
		return l
	}
	for _, line := range strings.Split(string(b), "\n") {
		f := strings.Fields(line)
		if len(f) == 0 {
			continue
		}
		switch {
		case f[0] == "A" && len(f) == 7:
			p := proc{Node: f[1], Start: f[5]}
			p.Pid, _ = strconv.Atoi(f[2])
			p.PPid, _ = strconv.Atoi(f[3])
			p.Pgrp, _ = strconv.Atoi(f[4])
			p.Gen, _ = strconv.Atoi(f[6])
			l.Procs = append(l.Procs, p)
		case f[0] == "F" && len(f) == 4:
			pid, _ := strconv.Atoi(f[2])
			g, _ := strconv.Atoi(f[3])
			l.Forked[pid] = g
		case f[0] == "X" && len(f) == 4:
			l.Exits[f[1]+"/"+f[3]] = true
		case f[0] == "E":
			l.Errs = append(l.Errs, line)
		}
	}
	return l
}

func (l ledger) find(node string, gen int) (proc, bool) {
	for _, p := range l.Procs {
		if p.Node == node && p.Gen == gen {
			return p, true
		}
	}
	return proc{}, false
}

// statOf reads state, pgrp and starttime of a pid; ok=false when the pid does not exist.
func statOf(pid int) (state string, pgrp int, start string, ok bool) {
	b, err := os.ReadFile(fmt.Sprintf("/proc/%d/stat", pid))
	if err != nil {
		return
	}
	s := string(b)
	i := strings.LastIndexByte(s, ')')
	if i < 0 || i+2 >= len(s) {
		return
	}
	f := strings.Fields(s[i+2:])
	if len(f) < 20 {
		return
	}
	pgrp, _ = strconv.Atoi(f[2])
	return f[0], pgrp, f[19], true
}

// running: the process recorded in the ledger still exists and is neither a zombie nor dead.
func running(p proc) bool {
	state, _, start, ok := statOf(p.Pid)
	if !ok || state == "Z" || state == "X" || state == "x" {
		return false
	}
	if p.Start != "" && p.Start != "0" && start != p.Start {
		return false // the pid was reused by another process
	}
	return true
}

func cmdlineNames(pid int, dir string) bool {
	b, err := os.ReadFile(fmt.Sprintf("/proc/%d/cmdline", pid))
	return err == nil && strings.Contains(string(b), dir)
}

// membersOf returns the processes of generation gen the oracle speaks about: announced ones that reported the
// root's process group, plus forked-but-not-yet-announced ones that are (now) in that group.
func membersOf(dir string, gen int) (members []proc, rootPgrp int) {
	l := readLedger(dir)
	root, ok := l.find("root", gen)
	if !ok {
		return nil, 0
	}
	rootPgrp = root.Pgrp
	seen := map[int]bool{}
	for _, p := range l.Procs {
		if p.Gen == gen && p.Pgrp == rootPgrp {
			members = append(members, p)
		}
		seen[p.Pid] = true
	}
	for pid, g := range l.Forked {
		if g != gen || seen[pid] {
			continue
		}
		if _, pgrp, start, ok := statOf(pid); ok && pgrp == rootPgrp && cmdlineNames(pid, dir) {
			members = append(members, proc{Node: "unannounced", Pid: pid, Pgrp: pgrp, Start: start, Gen: gen})
		}
	}
	return
}

func survivorsOf(dir string, gen int) []proc {
	var out []proc
	ms, _ := membersOf(dir, gen)
	for _, p := range ms {
		if running(p) {
			out = append(out, p)
		}
	}
	return out
}

// killEverything: SIGKILL to every ledger pid that still is a procgrid of this cell, and to every process whose
// command line names the cell directory (catches escapees and unannounced children). Returns how many it hit.
func killEverything(dir string) int {
	n := 0
	for round := 0; round < 3; round++ {
		pids := map[int]bool{}
		l := readLedger(dir)
		for _, p := range l.Procs {
			pids[p.Pid] = true
		}
		for pid := range l.Forked {
			pids[pid] = true
		}
		if ents, err := os.ReadDir("/proc"); err == nil {
			for _, e := range ents {
				if pid, err := strconv.Atoi(e.Name()); err == nil {
					pids[pid] = true
				}
			}
		}
		hit := 0
		for pid := range pids {
			if pid == os.Getpid() || !cmdlineNames(pid, dir) {
				continue
			}
			if state, _, _, ok := statOf(pid); ok && state != "Z" {
				if syscall.Kill(pid, syscall.SIGKILL) == nil {
					hit++
				}
			}
		}
		n += hit
		if hit == 0 && round > 0 {
			break
		}
		time.Sleep(5 * time.Millisecond)
	}
	return n
}

// ---- a context whose expiry is an event ----------------------------------------------------------------

// eventDeadlineCtx is a context.Context that "times out" when the harness says so: Done() closes and Err() is
// context.DeadlineExceeded, exactly what a context.WithDeadline reports, without a timer deciding the instant.
type eventDeadlineCtx struct {
	done chan struct{}
	once sync.Once
	mu   sync.Mutex
	err  error
	at   time.Time
}

func newEventDeadlineCtx() *eventDeadlineCtx {
	return &eventDeadlineCtx{done: make(chan struct{}), at: time.Now().Add(time.Hour)}
}
func (c *eventDeadlineCtx) Deadline() (time.Time, bool) { return c.at, true }
func (c *eventDeadlineCtx) Done() <-chan struct{}       { return c.done }
func (c *eventDeadlineCtx) Value(any) any               { return nil }
func (c *eventDeadlineCtx) Err() error {
	c.mu.Lock()
	defer c.mu.Unlock()
	return c.err
}
func (c *eventDeadlineCtx) expire(err error) {
	c.once.Do(func() {
		c.mu.Lock()
		c.err = err
		c.mu.Unlock()
		close(c.done)
	})
}

// ---- one cell ------------------------------------------------------------------------------------------

type Result struct {
	Cell          Cell     `json:"cell"`
	Class         string   `json:"instant_class"`
	Outcome       string   `json:"outcome"` // held | held-nothing-alive-at-stop | not-applicable:<why> | failed=<clauses>
	Failed        []string `json:"failed_clauses,omitempty"`
	AliveAtStop   []string `json:"alive_at_stop"`
	Survivors     []string `json:"survivors_at_bound,omitempty"`
	Excluded      []string `json:"excluded_not_in_group,omitempty"`
	RunReturned   string   `json:"run_returned,omitempty"`  // Execute / supervisor.Run: "<ms> ms: <error>" or "not within bound"
	StopReturned  string   `json:"stop_returned,omitempty"` // Stop / Restart
	IsOnAfter     *bool    `json:"ison_at_bound,omitempty"`
	IsOnAtStop    *bool    `json:"ison_at_stop_request,omitempty"` // sched=monitor-late only
	AllGoneAfter  string   `json:"tree_gone_after,omitempty"`
	Gen2Started   *bool    `json:"second_generation_started,omitempty"`
	KilledAtClean int      `json:"killed_by_cleanup"`
	Note          string   `json:"note,omitempty"`
	Engine        string   `json:"engine_error,omitempty"`
	nontrivial    bool
}

var (
	baseDir string
	binPath string
	cellSeq atomic.Int64
)

func names(ps []proc) []string {
	out := []string{}
	for _, p := range ps {
		out = append(out, p.Node)
	}
	sort.Strings(out)
	return out
}

func touch(p string) { _ = os.WriteFile(p, nil, 0o644) }

func waitUntil(timeout time.Duration, cond func() bool) bool {
	end := time.Now().Add(timeout)
	for {
		if cond() {
			return true
		}
		if time.Now().After(end) {
			return false
		}
		time.Sleep(time.Millisecond)
	}
}

type callResult struct {
	err error
	at  time.Time
}

func runCell(c Cell) (res Result) {
	s, _ := shapeByName(c.Shape)
	res.Cell = c
	res.Class = instantClass(s, c.Instant)
	dir := filepath.Join(baseDir, fmt.Sprintf("cell%05d", cellSeq.Add(1)))
	if err := os.MkdirAll(dir, 0o755); err != nil {
		res.Engine = "mkdir: " + err.Error()
		return
	}
	loggers, err := logs.NewNoopLogger("c05")
	if err != nil {
		res.Engine = "logger: " + err.Error()
		return
	}
	args := []string{"-dir", dir, "-shape", c.Shape}

	// the context the library is given
	var ctx context.Context
	var requestCtxEnd func() // ends the context the way the cell says (or plainly cancels, for cleanup)
	switch c.Stop {
	case "deadline":
		ectx := newEventDeadlineCtx()
		ctx = ectx
		requestCtxEnd = func() { ectx.expire(context.DeadlineExceeded) }
	default:
		cctx, cancel := context.WithCancel(context.Background())
		ctx = cctx
		requestCtxEnd = cancel
	}

	var (
		subMu      sync.Mutex
		subs       []*subprocess.Subprocess
		runCh      = make(chan callResult, 1) // Execute / supervisor.Run
		stopCh     = make(chan callResult, 1) // Stop / Restart
		runStarted bool
		stopIssued bool
		postStart  = make(chan struct{})
		postOnce   sync.Once
		early      *callResult // the command ended by itself before the stop was requested
	)
	current := func(i int) *subprocess.Subprocess {
		subMu.Lock()
		defer subMu.Unlock()
		if i < len(subs) {
			return subs[i]
		}
		return nil
	}

	release := func() {}
	if c.Sched == "monitor-late" {
		release = holdMonitors()
	}
	inStartMessage, startReturned := make(chan struct{}), make(chan struct{})
	var startErr error
	if c.Sched == "stop-during-start-message" {
		letGo := make(chan struct{})
		var once, onceIn sync.Once
		release = func() { once.Do(func() { close(letGo) }) }
		loggers = &gateLoggers{Loggers: loggers, onStarted: func() {
			first := false
			onceIn.Do(func() { first = true; close(inStartMessage) })
			if first {
				<-letGo
			}
		}}
	}

	// ALWAYS clean up, whatever happens below.
	defer func() {
		release()
		requestCtxEnd()
		if p := current(0); p != nil {
			p.Cancel()
		}
		if p := current(1); p != nil {
			p.Cancel()
		}
		res.KilledAtClean = killEverything(dir)
		// with every process dead each pending call of the library must come back
		if runStarted && early == nil {
			select {
			case <-runCh:
			case <-time.After(20 * time.Second):
				if res.Engine == "" {
					res.Engine = "Execute/Run did not return although every process of the cell was killed"
				}
			}
		}
		if stopIssued {
			select {
			case <-stopCh:
			case <-time.After(20 * time.Second):
				if res.Engine == "" {
					res.Engine = "Stop/Restart did not return although every process of the cell was killed"
				}
			}
		}
		if c.Start == "Start" {
			if p := current(0); p != nil {
				done := make(chan struct{})
				go func() { _ = p.Stop(); close(done) }() // reaps the direct child; may have started generation 2 (Restart)
				select {
				case <-done:
				case <-time.After(20 * time.Second):
				}
			}
		}
		res.KilledAtClean += killEverything(dir)
		_ = os.RemoveAll(dir)
	}()

	// ---- start
	switch c.Start {
	case "Execute", "Start":
		p, err := newSubprocess(ctx, c, loggers, binPath, args...)
		if err != nil {
			res.Engine = "subprocess.New: " + err.Error()
			return
		}
		subs = append(subs, p)
		if c.Start == "Execute" {
			runStarted = true
			go func() { err := p.Execute(); runCh <- callResult{err, time.Now()} }()
		} else if c.Sched == "stop-during-start-message" {
			go func() { startErr = p.Start(); close(startReturned) }()
			select {
			case <-inStartMessage:
			case <-startReturned:
				res.Engine = fmt.Sprintf("Start returned (%v) without logging that the process started", startErr)
				return
			case <-time.After(reachWithin):
				res.Engine = "Start did not reach its start message within " + reachWithin.String()
				return
			}
			defer func() { release(); <-startReturned }() // registered after the clean-up: runs before it
		} else if err := p.Start(); err != nil {
			res.Engine = "Start: " + err.Error()
			return
		}
	case "supervisor":
		sup := supervisor.NewSupervisor(func(sctx context.Context) (*subprocess.Subprocess, error) {
			subMu.Lock()
			defer subMu.Unlock()
			if len(subs) >= 2 {
				return nil, errors.New("c05: no third generation") // ends Run, never a spin of forks
			}
			p, err := newSubprocess(sctx, c, loggers, binPath, args...)
			if err == nil {
				subs = append(subs, p)
			}
			return p, err
		}, supervisor.WithPostStart(func(context.Context) error {
			postOnce.Do(func() { close(postStart) })
			return nil
		}))
		runStarted = true
		go func() { err := sup.Run(ctx); runCh <- callResult{err, time.Now()} }()
	}

	// ---- reach the instant
	runEnded := func() bool {
		if early != nil {
			return true
		}
		select {
		case r := <-runCh:
			early = &r
			return true
		default:
			return false
		}
	}
	announced := func(node string) bool {
		_, ok := readLedger(dir).find(node, 1)
		return ok
	}
	reach := func(what string, cond func() bool) bool {
		if !waitUntil(reachWithin, func() bool { return cond() || (runStarted && runEnded()) }) {
			res.Engine = "phase not reached within " + reachWithin.String() + ": " + what
			return false
		}
		return cond()
	}
	// at-start = the start call returned (Start) / is under way (Execute) / the post-start hook ran (supervisor) AND
	// IsOn() has been seen true: the monitoring flag IsOn() depends on is raised by a goroutine, so IsOn() may still
	// be false right after Start() returned, and the statement is about a RUNNING subprocess.
	ok := true
	switch c.Start {
	case "Execute", "Start":
		if c.Sched == "" { // in the other cells what makes the command a running one is its announcement in the ledger
			ok = reach("IsOn() true", func() bool { return subs[0].IsOn() })
		}
	case "supervisor":
		ok = reach("post-start hook", func() bool {
			select {
			case <-postStart:
				return true
			default:
				return false
			}
		})
		if ok {
			ok = reach("IsOn() true", func() bool { p := current(0); return p != nil && p.IsOn() })
		}
	}
	if ok && c.Instant != "at-start" {
		ok = reach("root announced", func() bool { return announced("root") })
		k := 0
		switch {
		case strings.HasPrefix(c.Instant, "desc-"):
			k, _ = strconv.Atoi(strings.TrimPrefix(c.Instant, "desc-"))
		case c.Instant == "parent-exited":
			k = s.Desc
		}
		for j := 1; ok && j <= k; j++ {
			touch(filepath.Join(dir, fmt.Sprintf("go-%d", j)))
			node := fmt.Sprintf("d%d", j)
			ok = reach(node+" announced", func() bool { return announced(node) })
		}
		if ok && c.Instant == "parent-exited" {
			touch(filepath.Join(dir, "go-exit"))
			ok = reach("parent exited", func() bool {
				l := readLedger(dir)
				root, found := l.find("root", 1)
				return found && l.Exits["root/1"] && !running(root)
			})
		}
	}
	if res.Engine != "" {
		return
	}
	if !ok || (runStarted && runEnded()) {
		why := "command ended by itself before the stop request"
		if early != nil {
			why += fmt.Sprintf(" (%v)", early.err)
		}
		res.Outcome = "not-applicable:" + why
		runStarted = false // already consumed
		return
	}
	if c.Sched != "" {
		on := subs[0].IsOn()
		res.IsOnAtStop = &on
	} else if c.Start != "supervisor" && !subs[0].IsOn() {
		// Start-ed command whose IsOn() is already false: nothing the library calls running
		res.Outcome = "not-applicable:IsOn() false before the stop request"
		return
	}

	// ---- what exists at the stop instant (gated: nothing else is being forked)
	// Restart and the supervisor's restart after Cancel legitimately start the command again. The helper numbers its
	// generations itself, and a root killed before it took its number leaves that number to its successor: in those
	// cells only a generation whose root HAD announced itself when the stop was requested is the stopped one.
	restarts := c.Stop == "Restart" || (c.Start == "supervisor" && c.Stop == "Cancel")
	judged := 1
	if restarts {
		if _, found := readLedger(dir).find("root", 1); !found {
			judged = 0 // no generation is known to be the old one; nothing to judge (at-start only)
		}
	}
	alive := survivorsOf(dir, judged)
	res.AliveAtStop = names(alive)
	res.nontrivial = c.Instant != "at-start" && len(alive) > 0
	{
		l := readLedger(dir)
		if root, found := l.find("root", 1); found {
			for _, p := range l.Procs {
				if p.Gen == 1 && p.Pgrp != root.Pgrp {
					res.Excluded = append(res.Excluded, p.Node)
				}
			}
		}
	}

	// ---- the stop request
	sub := current(0)
	t0 := time.Now()
	switch c.Stop {
	case "ctx-cancel", "deadline":
		requestCtxEnd()
		release()
	case "Cancel":
		sub.Cancel()
		release()
	case "Stop":
		stopIssued = true
		go func() { err := sub.Stop(); release(); stopCh <- callResult{err, time.Now()} }()
	case "Restart":
		stopIssued = true
		go func() { err := sub.Restart(); release(); stopCh <- callResult{err, time.Now()} }()
	}
	if c.Sched == "stop-during-start-message" {
		// the sink lets go once the stop call has returned or the tree is gone; 2 s is a fall-back, not an oracle
		var early *callResult
		waitUntil(2*time.Second, func() bool {
			if stopIssued && early == nil {
				select {
				case r := <-stopCh:
					early = &r
				default:
				}
			}
			return early != nil || len(survivorsOf(dir, judged)) == 0
		})
		if early != nil {
			stopCh <- *early // put back for the clause below
		}
		release()
		<-startReturned
		res.Note = fmt.Sprintf("Start() returned %v after the sink let go", startErr)
	}
	deadline := t0.Add(bound)
	ms := func(t time.Time) string { return fmt.Sprintf("%d ms", t.Sub(t0).Milliseconds()) }

	// clause "return"
	expectRun := c.Start == "Execute" || (c.Start == "supervisor" && c.Stop != "Cancel")
	if expectRun {
		select {
		case r := <-runCh:
			runStarted = false
			res.RunReturned = fmt.Sprintf("%s: %v", ms(r.at), r.err)
		case <-time.After(time.Until(deadline)):
			res.RunReturned = "not within bound"
			res.Failed = append(res.Failed, map[string]string{"Execute": "execute-return", "supervisor": "run-return"}[c.Start])
		}
	}
	if stopIssued {
		var got *callResult
		select { // a call that has already returned is seen even when the bound was used up waiting for Execute
		case r := <-stopCh:
			got = &r
		default:
			select {
			case r := <-stopCh:
				got = &r
			case <-time.After(time.Until(deadline)):
			}
		}
		if got != nil && !got.at.After(deadline) {
			stopIssued = false
			res.StopReturned = fmt.Sprintf("%s: %v", ms(got.at), got.err)
		} else {
			if got != nil {
				stopIssued = false
			}
			res.StopReturned = "not within bound"
			res.Failed = append(res.Failed, strings.ToLower(c.Stop)+"-return")
		}
	}
	// clause "survivor": poll /proc every 50 ms up to the bound
	var surv []proc
	for {
		surv = survivorsOf(dir, judged)
		if len(surv) == 0 {
			res.AllGoneAfter = ms(time.Now())
			break
		}
		if !time.Now().Before(deadline) {
			break
		}
		time.Sleep(pollEvery)
	}
	if len(surv) > 0 {
		res.Survivors = names(surv)
		res.Failed = append(res.Failed, "survivor")
	}
	// clause "ison"
	if c.Stop != "Restart" {
		on := true
		for {
			on = sub.IsOn()
			if !on || !time.Now().Before(deadline) {
				break
			}
			time.Sleep(pollEvery)
		}
		res.IsOnAfter = &on
		if on {
			res.Failed = append(res.Failed, "ison")
		}
	}
	// Restart / supervised restart: let the second generation appear (observed, not judged), then clean up
	if len(res.Failed) == 0 && (c.Stop == "Restart" || (c.Start == "supervisor" && c.Stop == "Cancel")) {
		started := waitUntil(bound, func() bool { _, ok := readLedger(dir).find("root", 2); return ok })
		res.Gen2Started = &started
	}
	if c.Start == "Execute" && (c.Stop == "Stop" || c.Stop == "Restart") {
		res.Note = "source comment of Stop: 'should be used in combination with Start ... to interrupt a process however it was started prefer Cancel'"
	}
	sort.Strings(res.Failed)
	switch {
	case len(res.Failed) > 0:
		res.Outcome = "failed=" + strings.Join(res.Failed, "+")
	case len(alive) == 0:
		res.Outcome = "held-nothing-alive-at-stop"
	default:
		res.Outcome = "held"
	}
	return
}

func signature(r Result) string {
	as := ""
	if r.Cell.As != "" {
		as = "|as=" + r.Cell.As
	}
	if r.Cell.Reuse != "" {
		as += "|reuse=" + r.Cell.Reuse
	}
	if r.Cell.Sched != "" {
		as += "|sched=" + r.Cell.Sched
	}
	return fmt.Sprintf("shape=%s|start=%s|stop=%s|instant=%s%s|failed=%s", r.Cell.Shape, r.Cell.Start, r.Cell.Stop, r.Class, as, strings.Join(r.Failed, "+"))
}

// ---- the test ------------------------------------------------------------------------------------------

func TestC05(t *testing.T) {
	rep := ev.NewReporter("C05", "exploration")
	defer rep.Finish()

	binPath = filepath.Join(ev.Root(), ".build", "bin", "procgrid")
	if _, err := os.Stat(binPath); err != nil {
		rep.EngineError("helper binary missing (checks/c05/prebuild.sh builds it): %v", err)
		return
	}
	var err error
	baseDir, err = os.MkdirTemp("/dev/shm", fmt.Sprintf("verif-c05-%d-", os.Getpid()))
	if err != nil {
		rep.EngineError("no temp dir under /dev/shm: %v", err)
		return
	}
	defer func() {
		killEverything(baseDir) // nothing may outlive the check
		_ = os.RemoveAll(baseDir)
	}()

	var cells []Cell
	replay := os.Getenv("VERIF_REPLAY")
	if replay != "" {
		b, err := os.ReadFile(replay)
		if err != nil {
			rep.EngineError("replay file: %v", err)
			return
		}
		var obj struct {
			Replay Result `json:"replay"`
		}
		if err := json.Unmarshal(b, &obj); err != nil || obj.Replay.Cell.Shape == "" {
			rep.EngineError("replay file does not hold a cell: %v", err)
			return
		}
		if _, ok := shapeByName(obj.Replay.Cell.Shape); !ok {
			rep.EngineError("replay: unknown shape %q", obj.Replay.Cell.Shape)
			return
		}
		// a stored case is re-run 5 times (DESIGN.md §3: a violation is believed after 5 identical replays)
		times := 5
		if n, _ := strconv.Atoi(os.Getenv("VERIF_C05_REPEAT")); n > 0 {
			times = n
		}
		for i := 0; i < times; i++ {
			cells = append(cells, obj.Replay.Cell)
		}
	} else {
		cells = grid(ev.Thorough())
		if f := os.Getenv("VERIF_C05_FILTER"); f != "" { // debugging aid: only the cells whose name contains f
			var keep []Cell
			for _, c := range cells {
				if strings.Contains(c.String(), f) {
					keep = append(keep, c)
				}
			}
			cells = keep
		}
	}

	workers := 2 * runtime.NumCPU()
	if workers > 32 {
		workers = 32
	}
	if n, _ := strconv.Atoi(os.Getenv("VERIF_C05_PARALLEL")); n > 0 {
		workers = n
	}
	results := make([]Result, len(cells))
	var wg sync.WaitGroup
	next := atomic.Int64{}
	for w := 0; w < workers; w++ {
		wg.Add(1)
		go func() {
			defer wg.Done()
			for {
				i := int(next.Add(1)) - 1
				if i >= len(cells) {
					return
				}
				if cells[i].Sched == "" {
					results[i] = runCell(cells[i])
				}
			}
		}()
	}
	wg.Wait()
	// the cells that hold goroutines of the library back share one hook: one at a time, nothing else running
	lateCells := 0
	for i := range cells {
		if cells[i].Sched != "" {
			results[i] = runCell(cells[i])
			lateCells++
		}
	}

	outcomes := map[string]int{}
	perStartStop := map[string]map[string]int{}
	nontrivial, notApplicable, killed := 0, 0, 0
	var samples []any
	sampled := map[string]bool{}
	for _, r := range results {
		if r.Engine != "" {
			rep.EngineError("cell %s: %s", r.Cell, r.Engine)
			continue
		}
		outcomes[r.Outcome]++
		key := r.Cell.Start + " x " + r.Cell.Stop
		if perStartStop[key] == nil {
			perStartStop[key] = map[string]int{}
		}
		verdict := "held"
		if len(r.Failed) > 0 {
			verdict = "failed"
		} else if strings.HasPrefix(r.Outcome, "not-applicable") {
			verdict = "not-applicable"
			notApplicable++
		}
		perStartStop[key][verdict]++
		if r.nontrivial {
			nontrivial++
		}
		killed += r.KilledAtClean
		if len(r.Failed) > 0 {
			rep.Violation(signature(r), r)
		}
		sk := r.Cell.Start + "/" + r.Cell.Stop + "/" + verdict
		if !sampled[sk] && len(samples) < 12 && r.nontrivial {
			sampled[sk] = true
			samples = append(samples, r)
		}
	}
	if len(samples) == 0 {
		for _, r := range results {
			samples = append(samples, r)
			if len(samples) >= 3 {
				break
			}
		}
	}
	leftovers := killEverything(baseDir)

	rep.Coverage["evaluations"] = len(results)
	rep.Coverage["distinct_nontrivial"] = nontrivial
	rep.Coverage["rule"] = "a cell counts when its stop instant is fixed by an announced event (every instant but at-start) and at least one process of the tree, in the direct child's process group, was running in /proc when the stop was requested"
	rep.Coverage["samples"] = samples
	rep.Coverage["exhaustive"] = replay == ""
	rep.Coverage["bound"] = map[string]any{
		"shapes": len(shapes), "starts": starts, "stops": "ctx-cancel deadline Cancel Stop Restart (supervisor: ctx-cancel deadline Cancel)",
		"instants":                  map[bool]string{true: "at-start, root, desc-k for every k, parent-exited", false: "the complete tree only (desc-n / parent-exited / root for single)"}[ev.Thorough()],
		"max_processes_per_tree":    4,
		"guard_seconds":             bound.Seconds(),
		"descendant_lifetime_s":     120,
		"proc_poll_ms":              pollEvery.Milliseconds(),
		"runs_per_cell":             1,
		"parallel_cells":            workers,
		"kernel_scheduling_in_cell": "not controlled",
	}
	rep.Coverage["cells_with_the_monitoring_goroutine_held_back"] = lateCells
	rep.Coverage["monitoring_goroutines_held_back"] = heldN.Load()
	rep.Coverage["distinct_outcomes"] = len(outcomes)
	rep.Coverage["outcomes"] = outcomes
	rep.Coverage["verdicts_by_start_x_stop"] = perStartStop
	rep.Coverage["not_applicable_cells"] = notApplicable
	rep.Coverage["processes_killed_by_cleanup"] = killed
	rep.Coverage["processes_left_after_all_cells"] = leftovers
	rep.Coverage["go_deadlock_lock_waits_over_30s"] = potentialDeadlocks.Load()
	rep.Assume = []string{
		"configurations (shape x start x stop x event-defined instant) are enumerated completely and each is run once for real; the kernel's scheduling and signal-delivery order inside one configuration, and the interleaving of the library's goroutines, are NOT controlled or enumerated",
		"the tree is gated: at the stop instant no process of the tree is in the middle of a fork; a stop racing a fork is not explored",
		"Linux only (/proc, process groups, SIGKILL); the windows and darwin wrappers are not run",
		"a zombie counts as terminated; a descendant that left the direct child's process group (setsid) is outside the statement",
		"the 10 s bounds are guards against descendants that live for 120 s, not timing oracles",
		"output handling (loggers) is a no-op logger; C18 is about output",
	}
	if leftovers > 0 {
		rep.EngineError("%d helper processes were still alive after every cell cleaned up", leftovers)
	}
}

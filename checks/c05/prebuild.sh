#!/bin/bash
# Builds the E6 helper (procgrid) that check C05 makes the library run, and writes the (empty) overlay the driver
# expects from a prebuild step. Run by ./vcheck before the test binary is built.
set -e
here="$(dirname "$(readlink -f "$0")")"
root="$(readlink -f "$here/../..")"
export GOFLAGS=-mod=mod GOPROXY=off GOTOOLCHAIN=local
mkdir -p "$root/.build/bin"
( cd "$root" && CGO_ENABLED=0 go1.26 build -o "$root/.build/bin/procgrid.tmp.$$" ./checks/c05/procgrid && mv -f "$root/.build/bin/procgrid.tmp.$$" "$root/.build/bin/procgrid" )
echo '{"Replace": {}}' > "$root/.build/overlay-C05.json"

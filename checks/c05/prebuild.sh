#!/bin/bash
# Builds the E6 helper (procgrid) that check C05 makes the library run, and regenerates (from /repo's working tree)
# the instrumented copy of subprocess/monitoring.go: its `go` statement becomes a hooked spawn, so that the cells
# "sched=monitor-late" can hold the monitoring goroutine back until the stop call has been made. Without a hook
# installed the instrumented file behaves exactly like the original. Run by ./vcheck before the test binary is built.
set -e
here="$(dirname "$(readlink -f "$0")")"
root="$(readlink -f "$here/../..")"
export GOFLAGS=-mod=mod GOPROXY=off GOTOOLCHAIN=local
mkdir -p "$root/.build/bin"
( cd "$root" && CGO_ENABLED=0 go1.26 build -o "$root/.build/bin/procgrid.tmp.$$" ./checks/c05/procgrid && mv -f "$root/.build/bin/procgrid.tmp.$$" "$root/.build/bin/procgrid" )
( cd "$root" && go1.26 build -o .build/bin/instr-C05 ./engine/instr && \
  VERIF_ROOT="$root" .build/bin/instr-C05 -id C05 -out "$root/.build/instr-C05" -chan subprocess/monitoring.go )

// procgrid — helper of check C05 (DESIGN.md §2 E6): forks a DESCRIBED process tree out of re-executions of itself,
// records every process in a ledger file and waits for the harness at GATES, so that the shape of the tree at the
// instant the harness requests the stop is defined by events, never by a sleep.
//
//	procgrid -dir D -shape S            (root; this is the command the Subprocess object under test runs)
//	procgrid -dir D -shape S -node dK   (descendant K; started by a procgrid process, never by the harness)
//
// Shapes (root = the direct child of the library; dK = K-th descendant):
//
//	single                      root
//	chain:N                     root -> d1 -> ... -> dN            descendants detached from the inherited pipes
//	fan:N                       root -> d1, ..., dN                 descendants detached
//	bg-holder                   root -> d1                          d1 KEEPS the inherited stdout/stderr (sh -c 'sleep 120 & wait')
//	ignore-term                 root -> d1                          d1 ignores SIGTERM, detached
//	parent-exits-first          root -> d1, then root exits         d1 keeps the pipes (sh -c 'sleep 120 &')
//	parent-exits-first:detached root -> d1, then root exits         d1 detached
//	setsid-escapee              root -> d1 (own session), d2        both detached; d1 has left the process group
//
// Ledger ($D/ledger, one line per write, O_APPEND, each < PIPE_BUF so atomic):
//
//	A <node> <pid> <ppid> <pgrp> <starttime> <gen>    written by the process itself once it is set up ("exists")
//	F <node-of-parent> <childpid> <gen>               written by the parent right after the fork returned
//	X <node> <pid> <gen>                              written right before a voluntary exit (parent-exits-first)
//
// Gates: before forking descendant K the forking process waits for the file $D/go-K; the root of a
// parent-exits-first shape waits for $D/go-exit before exiting. The generation (how many times the command was
// started in this directory: Restart, supervisor) is taken by the root from the exclusive creation of $D/gen-<n>.
//
// Every process lives for at most 120 s (so that a survivor is unmistakable) and then exits by itself.
package main

import (
	"flag"
	"fmt"
	"os"
	"os/exec"
	"os/signal"
	"path/filepath"
	"strconv"
	"strings"
	"syscall"
	"time"
)

const lifetime = 120 * time.Second

var (
	dir   = flag.String("dir", "", "cell directory (ledger, gates)")
	shape = flag.String("shape", "single", "tree shape")
	node  = flag.String("node", "root", "which node of the tree this process is")
	gen   = flag.Int("gen", 0, "generation (descendants only; the root determines it)")
	born  = time.Now()
)

func appendLedger(line string) {
	f, err := os.OpenFile(filepath.Join(*dir, "ledger"), os.O_WRONLY|os.O_APPEND|os.O_CREATE, 0o644)
	if err != nil {
		return
	}
	_, _ = f.WriteString(line + "\n")
	_ = f.Close()
}

// fields of /proc/self/stat after the command name
func selfStat() (pgrp int, starttime string) {
	b, err := os.ReadFile("/proc/self/stat")
	if err != nil {
		return syscall.Getpgrp(), "0"
	}
	s := string(b)
	s = s[strings.LastIndexByte(s, ')')+2:]
	f := strings.Fields(s)
	// f[0]=state f[1]=ppid f[2]=pgrp ... f[19]=starttime
	pgrp, _ = strconv.Atoi(f[2])
	return pgrp, f[19]
}

func remaining() time.Duration { return lifetime - time.Since(born) }

// waitGate blocks until the gate file exists; false when the lifetime is over.
func waitGate(name string) bool {
	p := filepath.Join(*dir, name)
	for remaining() > 0 {
		if _, err := os.Stat(p); err == nil {
			return true
		}
		time.Sleep(time.Millisecond)
	}
	return false
}

func sleepOut() {
	for remaining() > 0 {
		time.Sleep(remaining())
	}
	os.Exit(0)
}

func detach() {
	null, err := os.OpenFile(os.DevNull, os.O_RDWR, 0)
	if err != nil {
		return
	}
	_ = syscall.Dup3(int(null.Fd()), 1, 0)
	_ = syscall.Dup3(int(null.Fd()), 2, 0)
	_ = null.Close()
}

// spawn starts descendant k of the shape (after its gate opened) and records the fork.
func spawn(k int, setsid bool) {
	if !waitGate(fmt.Sprintf("go-%d", k)) {
		os.Exit(0)
	}
	self, err := os.Executable()
	if err != nil {
		self = os.Args[0]
	}
	cmd := exec.Command(self, "-dir", *dir, "-shape", *shape, "-node", fmt.Sprintf("d%d", k), "-gen", strconv.Itoa(*gen))
	cmd.Stdin = nil
	cmd.Stdout = os.Stdout // the child inherits the pipes; it detaches itself if its role says so
	cmd.Stderr = os.Stderr
	if setsid {
		cmd.SysProcAttr = &syscall.SysProcAttr{Setsid: true}
	}
	if err := cmd.Start(); err != nil {
		appendLedger(fmt.Sprintf("E %s cannot-fork-d%d %v", *node, k, err))
		return
	}
	appendLedger(fmt.Sprintf("F %s %d %d", *node, cmd.Process.Pid, *gen))
	go func() { _ = cmd.Wait() }() // reap it should it die first
}

func main() {
	flag.Parse()
	if *dir == "" {
		fmt.Fprintln(os.Stderr, "procgrid: -dir required")
		os.Exit(64)
	}
	kind, arg := *shape, 0
	if i := strings.IndexByte(kind, ':'); i >= 0 && (strings.HasPrefix(kind, "chain:") || strings.HasPrefix(kind, "fan:")) {
		arg, _ = strconv.Atoi(kind[i+1:])
		kind = kind[:i]
	}
	isRoot := *node == "root"
	k := 0
	if !isRoot {
		k, _ = strconv.Atoi(strings.TrimPrefix(*node, "d"))
	}

	// role-specific set-up, BEFORE announcing
	if isRoot {
		for n := 1; ; n++ {
			f, err := os.OpenFile(filepath.Join(*dir, fmt.Sprintf("gen-%d", n)), os.O_CREATE|os.O_EXCL|os.O_WRONLY, 0o644)
			if err == nil {
				_ = f.Close()
				*gen = n
				break
			}
			if !os.IsExist(err) || n > 1000 {
				os.Exit(65)
			}
		}
	} else {
		holdsPipes := kind == "bg-holder" || *shape == "parent-exits-first"
		if !holdsPipes {
			detach()
		}
		if kind == "ignore-term" {
			signal.Ignore(syscall.SIGTERM)
		}
	}

	pgrp, st := selfStat()
	appendLedger(fmt.Sprintf("A %s %d %d %d %s %d", *node, os.Getpid(), os.Getppid(), pgrp, st, *gen))

	switch {
	case kind == "single":
	case kind == "chain":
		if k < arg {
			spawn(k+1, false)
		}
	case kind == "fan":
		if isRoot {
			for i := 1; i <= arg; i++ {
				spawn(i, false)
			}
		}
	case kind == "bg-holder", kind == "ignore-term":
		if isRoot {
			spawn(1, false)
		}
	case strings.HasPrefix(kind, "parent-exits-first"):
		if isRoot {
			spawn(1, false)
			if waitGate("go-exit") {
				appendLedger(fmt.Sprintf("X %s %d %d", *node, os.Getpid(), *gen))
			}
			os.Exit(0)
		}
	case kind == "setsid-escapee":
		if isRoot {
			spawn(1, true)
			spawn(2, false)
		}
	default:
		appendLedger(fmt.Sprintf("E %s unknown-shape %s", *node, *shape))
		os.Exit(66)
	}
	sleepOut()
}

// Package script is shared by the C18 check and its helper child: the program a child executes (a list of ops
// given on the command line) and the deterministic content of generated streams, so that the parent can compute
// what the child wrote without any channel other than the one under test.
package script

import (
	"encoding/hex"
	"fmt"
	"strconv"
	"strings"
)

// Op is one step of a child program.
//
//	o=<hex>  one write(2) of these bytes to stdout          e=<hex>  same to stderr
//	p=<ms>   pause                                          env=<NAME> one write "env NAME=<value>\n" to stdout
//	g=<gen>  write a generated stream (see Gen)             j=<gen>|<gen>  two generated streams concurrently
//	x=<code> exit with this status                          s=<signo> die from this signal (default disposition)
type Op struct {
	Kind string
	Arg  string
}

func (o Op) String() string { return o.Kind + "=" + o.Arg }

func Out(b string) Op      { return Op{"o", hex.EncodeToString([]byte(b))} }
func Err(b string) Op      { return Op{"e", hex.EncodeToString([]byte(b))} }
func Pause(ms int) Op      { return Op{"p", strconv.Itoa(ms)} }
func Env(name string) Op   { return Op{"env", name} }
func Exit(code int) Op     { return Op{"x", strconv.Itoa(code)} }
func Signal(sig int) Op    { return Op{"s", strconv.Itoa(sig)} }
func Generate(g Gen) Op    { return Op{"g", g.String()} }
func Together(a, b Gen) Op { return Op{"j", a.String() + "|" + b.String()} }

func Args(ops []Op) []string {
	out := make([]string, len(ops))
	for i, o := range ops {
		out[i] = o.String()
	}
	return out
}

func Parse(args []string) ([]Op, error) {
	var ops []Op
	for _, a := range args {
		k, v, ok := strings.Cut(a, "=")
		if !ok {
			return nil, fmt.Errorf("bad op %q", a)
		}
		ops = append(ops, Op{k, v})
	}
	return ops, nil
}

// Gen describes a generated stream: NLines lines of LineLen bytes each (without the newline), every line followed
// by "\n" except the last one when FinalNL is false; written to Stream ('o' | 'e') in write(2) calls of WriteSize
// bytes (0 = the whole stream in one Write call), pausing PauseMs every PauseEvery writes (0 = never).
type Gen struct {
	Stream     byte
	LineLen    int
	NLines     int
	WriteSize  int
	FinalNL    bool
	Salt       int
	PauseEvery int
	PauseMs    int
}

func (g Gen) String() string {
	nl := 0
	if g.FinalNL {
		nl = 1
	}
	return fmt.Sprintf("%c,%d,%d,%d,%d,%d,%d,%d", g.Stream, g.LineLen, g.NLines, g.WriteSize, nl, g.Salt, g.PauseEvery, g.PauseMs)
}

func ParseGen(s string) (g Gen, err error) {
	f := strings.Split(s, ",")
	if len(f) != 8 || len(f[0]) != 1 {
		return g, fmt.Errorf("bad gen %q", s)
	}
	g.Stream = f[0][0]
	n := make([]int, 8)
	for i := 1; i < 8; i++ {
		n[i], err = strconv.Atoi(f[i])
		if err != nil {
			return g, err
		}
	}
	g.LineLen, g.NLines, g.WriteSize, g.FinalNL, g.Salt, g.PauseEvery, g.PauseMs = n[1], n[2], n[3], n[4] == 1, n[5], n[6], n[7]
	return g, nil
}

// Line i of a generated stream: starts with the stream marker ('O' / 'E') and the line number, then an aperiodic
// pattern, so that a lost, duplicated, reordered or foreign piece always changes the line.
func (g Gen) Line(i int) []byte {
	marker := byte('O')
	if g.Stream == 'e' {
		marker = 'E'
	}
	b := make([]byte, 0, g.LineLen+16)
	b = append(b, marker)
	b = append(b, fmt.Sprintf("%07d:", i)...)
	x := uint32(i*2654435761+g.Salt*40503) | 1
	for j := len(b); j < g.LineLen; j++ {
		x ^= x << 13
		x ^= x >> 17
		x ^= x << 5
		b = append(b, 'a'+byte(x%26))
	}
	return b[:g.LineLen]
}

// Lines is what the loggers must receive for this stream.
func (g Gen) Lines() []string {
	out := make([]string, g.NLines)
	for i := range out {
		out[i] = string(g.Line(i))
	}
	return out
}

// Bytes is the whole stream.
func (g Gen) Bytes() []byte {
	b := make([]byte, 0, (g.LineLen+1)*g.NLines)
	for i := 0; i < g.NLines; i++ {
		b = append(b, g.Line(i)...)
		if i < g.NLines-1 || g.FinalNL {
			b = append(b, '\n')
		}
	}
	return b
}

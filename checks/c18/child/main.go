// c18child: helper child of the C18 check. Executes the program given on its command line (see package script):
// writes to stdout / stderr with explicit write(2) boundaries (os.File.Write on an unbuffered descriptor is one
// write(2) per call, looping only on a short write), pauses, then exits with a status or dies from a signal.
package main

import (
	"encoding/hex"
	"fmt"
	"os"
	"strconv"
	"sync"
	"syscall"
	"time"

	"verif/checks/c18/script"
)

func fail(format string, a ...any) {
	// exit status 99 with a marker on stderr: the parent reports it as an engine error, never as a verdict
	fmt.Fprintf(os.Stderr, "C18CHILD-PROTOCOL-ERROR "+format+"\n", a...)
	os.Exit(99)
}

func stream(s byte) *os.File {
	if s == 'e' {
		return os.Stderr
	}
	return os.Stdout
}

func write(f *os.File, b []byte) {
	if len(b) == 0 {
		return
	}
	if _, err := f.Write(b); err != nil {
		// the reader went away (cancelled parent): nothing to report to
		os.Exit(98)
	}
}

func generate(g script.Gen) {
	data := g.Bytes()
	f := stream(g.Stream)
	size := g.WriteSize
	if size <= 0 {
		size = len(data)
	}
	writes := 0
	for off := 0; off < len(data); off += size {
		end := off + size
		if end > len(data) {
			end = len(data)
		}
		write(f, data[off:end])
		writes++
		if g.PauseEvery > 0 && writes%g.PauseEvery == 0 {
			time.Sleep(time.Duration(g.PauseMs) * time.Millisecond)
		}
	}
}

func main() {
	ops, err := script.Parse(os.Args[1:])
	if err != nil {
		fail("%v", err)
	}
	for _, op := range ops {
		switch op.Kind {
		case "o", "e":
			b, err := hex.DecodeString(op.Arg)
			if err != nil {
				fail("%v", err)
			}
			write(stream(op.Kind[0]), b)
		case "p":
			ms, err := strconv.Atoi(op.Arg)
			if err != nil {
				fail("%v", err)
			}
			time.Sleep(time.Duration(ms) * time.Millisecond)
		case "env":
			write(os.Stdout, []byte("env "+op.Arg+"="+os.Getenv(op.Arg)+"\n"))
		case "g":
			g, err := script.ParseGen(op.Arg)
			if err != nil {
				fail("%v", err)
			}
			generate(g)
		case "j":
			var wg sync.WaitGroup
			start := 0
			for i := 0; i <= len(op.Arg); i++ {
				if i == len(op.Arg) || op.Arg[i] == '|' {
					g, err := script.ParseGen(op.Arg[start:i])
					if err != nil {
						fail("%v", err)
					}
					start = i + 1
					wg.Add(1)
					go func() { defer wg.Done(); generate(g) }()
				}
			}
			wg.Wait()
		case "x":
			code, err := strconv.Atoi(op.Arg)
			if err != nil {
				fail("%v", err)
			}
			os.Exit(code)
		case "s":
			sig, err := strconv.Atoi(op.Arg)
			if err != nil {
				fail("%v", err)
			}
			// The Go runtime catches SIGSEGV & co; replace the process image by a shell (signal dispositions go
			// back to default, same pid, same descriptors) that kills itself: a genuine death by signal.
			// (Should the signal have been inherited as ignored, the child exits with status 97: still "not status 0".)
			err = syscall.Exec("/bin/sh", []string{"sh", "-c", "kill -" + strconv.Itoa(sig) + " $$; exit 97"}, os.Environ())
			fail("exec: %v", err)
		default:
			fail("unknown op %q", op.Kind)
		}
	}
}

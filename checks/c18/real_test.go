package c18

import (
	"context"
	"encoding/hex"
	"errors"
	"fmt"
	"os"
	"path/filepath"
	"runtime"
	"sort"
	"strings"
	"sync"
	"sync/atomic"
	"time"

	"github.com/ARM-software/golang-utils/utils/commonerrors"
	"github.com/ARM-software/golang-utils/utils/subprocess"

	"verif/checks/c18/script"
	ev "verif/engine/evidence"
)

const (
	msgStart   = "C18-START-MESSAGE"
	msgSuccess = "C18-SUCCESS-MESSAGE"
	msgFailure = "C18-FAILURE-MESSAGE"
	readyLine  = "O-ready"
	// hangGuard only catches hangs; expiry is an ENGINE-ERROR, never a verdict. Generous because the machine is shared: a
	// run that is merely slow must complete (its oracle does not depend on time). After maxHangs expiries the real-process
	// half stops (exhaustive=false) instead of waiting 3 minutes for each of the remaining cases.
	hangGuard = 180 * time.Second
	maxHangs  = 6
)

// extra variables: one whose name extends another extra variable's name and is given BEFORE it, and (see init) one of the
// parent's own variables whose name extends an extra variable's name: each keeps its own value in the child
var extraEnv = []string{"C18_EXTRA_LONGER=kept as it is", "C18_EXTRA=some value with spaces", "C18_SECOND=2"}

func init() { _ = os.Setenv("C18_SECOND_INHERITED", "from the parent") }

// realCase is one run of a real child through the subprocess API.
type realCase struct {
	Family string      `json:"family"` // exit | signal | script | volume | cancel
	API    string      `json:"api"`    // execute | execute-env | output | output-env | new-execute
	Ops    []script.Op `json:"program"`
	Exit   int         `json:"expected_exit_status"` // -1: the child does not exit by itself with a status (signal / cancelled)
	Cancel string      `json:"cancel,omitempty"`     // "" | ctx-cancel | ctx-deadline | method-cancel
	// SlowSinkMs: the logger takes that long, once, over its third message (the child has long exited by then and what it wrote
	// sits in the pipe): a slow consumer loses nothing and changes no result
	SlowSinkMs int `json:"sink_slow_once_ms,omitempty"`
}

func (c realCase) withEnv() bool { return strings.HasSuffix(c.API, "-env") }
func (c realCase) withMessages() bool {
	return strings.HasPrefix(c.API, "execute") || strings.HasPrefix(c.API, "new-execute")
}

// expected computes what the child writes to each stream (the reference; the child does the same independently).
func (c realCase) expected() (out, errb []byte) {
	for _, op := range c.Ops {
		switch op.Kind {
		case "o":
			b, _ := hex.DecodeString(op.Arg)
			out = append(out, b...)
		case "e":
			b, _ := hex.DecodeString(op.Arg)
			errb = append(errb, b...)
		case "env":
			val := os.Getenv(op.Arg)
			if c.withEnv() {
				for _, kv := range extraEnv {
					if k, v, _ := strings.Cut(kv, "="); k == op.Arg {
						val = v
					}
				}
			}
			out = append(out, "env "+op.Arg+"="+val+"\n"...)
		case "g", "j":
			for _, gs := range strings.Split(op.Arg, "|") {
				g, _ := script.ParseGen(gs)
				if g.Stream == 'e' {
					errb = append(errb, g.Bytes()...)
				} else {
					out = append(out, g.Bytes()...)
				}
			}
		case "x", "s":
			return
		}
	}
	return
}

func childPath() string { return filepath.Join(ev.Root(), ".build", "bin", "c18child") }

func isContextKind(err error) bool {
	return commonerrors.Any(err, commonerrors.ErrCancelled, commonerrors.ErrTimeout) || errors.Is(err, context.Canceled) || errors.Is(err, context.DeadlineExceeded)
}

func errClass(err error) string {
	if err == nil {
		return "nil"
	}
	s := err.Error()
	if len(s) > 60 {
		s = s[:60]
	}
	return s
}

// evalReal runs the case once and evaluates every clause. engineErr != "" means the machinery failed (hang guard,
// child protocol error): no verdict.
func evalReal(c realCase) (vs []viol, engineErr string) {
	vs, engineErr, _ = evalRealX(c)
	return
}

func evalRealX(c realCase) (vs []viol, engineErr string, outcome string) {
	rec := newRecorder()
	if c.SlowSinkMs > 0 {
		rec.stallAt, rec.stall = 3, time.Duration(c.SlowSinkMs)*time.Millisecond
	}
	ready := rec.expect(readyLine)
	parent, cancelParent := context.WithCancel(context.Background())
	if c.Cancel == "ctx-cancel-cause" {
		// ended with a recorded cause: ctx.Err() is context.Canceled, context.Cause(ctx) an application error of no common kind
		var cancelCause context.CancelCauseFunc
		parent, cancelCause = context.WithCancelCause(context.Background())
		cancelParent = func() { cancelCause(errors.New("node is being drained")) }
	}
	defer cancelParent()
	ctx := parent
	if c.Cancel == "ctx-deadline" {
		var cancelD context.CancelFunc
		ctx, cancelD = context.WithTimeout(parent, time.Second)
		defer cancelD()
	}
	if c.Cancel == "ctx-deadline-cause" {
		var cancelD context.CancelFunc
		ctx, cancelD = context.WithTimeoutCause(parent, time.Second, errors.New("budget of the job used up"))
		defer cancelD()
	}
	args := script.Args(c.Ops)
	var env []string
	if c.withEnv() {
		env = extraEnv
	}
	var runErr error
	var output string
	var proc *subprocess.Subprocess
	if strings.HasPrefix(c.API, "new-execute") {
		var err error
		proc, err = subprocess.New(ctx, rec, msgStart, msgSuccess, msgFailure, childPath(), args...)
		if err != nil {
			return nil, fmt.Sprintf("subprocess.New failed: %v", err), ""
		}
		if c.API == "new-execute-2nd" {
			// the object has already been through one complete run: what is judged is its second Execute
			_ = proc.Execute()
			time.Sleep(300 * time.Millisecond)
			rec.mu.Lock()
			rec.events = nil
			rec.mu.Unlock()
		}
	}
	done := make(chan struct{})
	go func() {
		defer close(done)
		switch c.API {
		case "execute":
			runErr = subprocess.Execute(ctx, rec, msgStart, msgSuccess, msgFailure, childPath(), args...)
		case "execute-env":
			runErr = subprocess.ExecuteWithEnvironment(ctx, rec, env, msgStart, msgSuccess, msgFailure, childPath(), args...)
		case "output":
			output, runErr = subprocess.Output(ctx, rec, childPath(), args...)
		case "output-env":
			output, runErr = subprocess.OutputWithEnvironment(ctx, rec, env, childPath(), args...)
		case "new-execute", "new-execute-2nd":
			runErr = proc.Execute()
		}
	}()
	guard := time.NewTimer(hangGuard)
	defer guard.Stop()
	switch c.Cancel {
	case "ctx-cancel", "ctx-cancel-cause", "method-cancel", "method-stop":
		// event-defined instant: the logger received the child's announcement; the child now sleeps for 100 s
		select {
		case <-ready:
		case <-done:
			return nil, fmt.Sprintf("the child of a cancel case ended before announcing itself (err=%v)", runErr), ""
		case <-guard.C:
			return nil, "hang guard expired while waiting for the child's announcement", ""
		}
		switch c.Cancel {
		case "ctx-cancel", "ctx-cancel-cause":
			cancelParent()
		case "method-cancel":
			proc.Cancel()
		default: // method-stop: Stop() arrives while Execute() is running
			stopped := make(chan struct{})
			go func() { defer close(stopped); _ = proc.Stop() }()
			defer func() {
				select {
				case <-stopped:
				case <-time.After(hangGuard):
				}
			}()
		}
	}
	select {
	case <-done:
	case <-guard.C:
		cancelParent()
		return nil, fmt.Sprintf("hang guard (%v) expired: %s %s did not return%s", hangGuard, c.API, c.Family, stacksOnce()), ""
	}
	if c.Cancel != "" {
		// whatever the interruption set in motion asynchronously (the monitoring goroutine, a concurrent Stop) may
		// still log after Execute returned: give it time to land before the messages are read. A wait that is too
		// short can only hide a late message, never invent one.
		time.Sleep(400 * time.Millisecond)
	}
	outcome = errClass(runErr)
	events := rec.snapshot()
	for _, e := range events {
		if e.Err && strings.Contains(strings.Join(e.Args, " "), "C18CHILD-PROTOCOL-ERROR") {
			return nil, "child protocol error: " + strings.Join(e.Args, " "), outcome
		}
	}

	sig := func(part, clause string) string {
		fam := c.Family
		if c.Cancel != "" {
			fam += ":" + c.Cancel
		}
		return fmt.Sprintf("real:%s:%s:%s:%s", fam, c.API, part, clause)
	}
	add := func(part, clause string, want, got []string, detail string) {
		cc := c
		vs = append(vs, viol{Sig: sig(part, clause), Replay: replayCase{Half: "real", Real: &cc, Want: showLines(want), Got: showLines(got), Detail: detail}})
	}

	// --- the result
	switch {
	case c.Cancel != "":
		if runErr == nil {
			add("result", "nil-although-cancelled", nil, nil, "")
		} else if !isContextKind(runErr) {
			add("result", "error-not-of-context-kind", nil, nil, "returned: "+runErr.Error())
		}
	case c.Exit == 0 && runErr != nil:
		add("result", "error-for-status-0", nil, nil, "returned: "+runErr.Error())
	case c.Exit != 0 && runErr == nil:
		add("result", "nil-for-failed-child", nil, nil, fmt.Sprintf("expected exit status %d (-1 = death by signal)", c.Exit))
	}

	// --- the messages
	middle := events
	if c.withMessages() {
		isStart := func(e event) bool { return !e.Err && len(e.Args) == 1 && e.Args[0] == msgStart }
		isOK := func(e event) bool { return !e.Err && len(e.Args) >= 1 && e.Args[0] == msgSuccess }
		isKO := func(e event) bool { return e.Err && len(e.Args) >= 1 && e.Args[0] == msgFailure }
		nStart, nOK, nKO, lastEnd := 0, 0, 0, -1
		middle = nil
		for i, e := range events {
			switch {
			case isStart(e):
				nStart++
			case isOK(e):
				nOK++
				lastEnd = i
			case isKO(e):
				nKO++
				lastEnd = i
			default:
				middle = append(middle, e)
			}
		}
		switch {
		case nStart == 0:
			add("messages", "start-message-missing", nil, nil, "")
		case nStart > 1:
			add("messages", "start-message-repeated", nil, nil, "")
		case !isStart(events[0]):
			add("messages", "start-message-not-first", nil, nil, "")
		}
		switch {
		case nOK+nKO == 0:
			add("messages", "end-message-missing", nil, nil, "")
		case nOK+nKO > 1:
			add("messages", "end-message-repeated", nil, nil, fmt.Sprintf("success x%d, failure x%d", nOK, nKO))
		case lastEnd != len(events)-1:
			add("messages", "output-after-end-message", nil, nil, "")
		case (nOK == 1) != (runErr == nil):
			add("messages", "end-message-contradicts-result", nil, nil, fmt.Sprintf("success x%d, failure x%d, returned %v", nOK, nKO, runErr))
		}
	}
	var gotO, gotE []string
	for _, e := range middle {
		m := strings.Join(e.Args, "\x00")
		if len(e.Args) != 1 {
			add("messages", "message-shape", nil, []string{m}, "")
		}
		if e.Err {
			gotE = append(gotE, m)
		} else {
			gotO = append(gotO, m)
		}
	}

	// --- the child's output (not for cancelled children beyond the announcement, see the readings)
	wo, we := c.expected()
	wantO, wantE := nonEmptyLines(string(wo)), nonEmptyLines(string(we))
	if c.Cancel == "" {
		okO, okE := true, true
		if cl := classify(gotO, wantO, len(wo) > 0 && wo[len(wo)-1] != '\n'); cl != "" {
			add("stdout", cl, wantO, gotO, "")
			okO = false
		}
		if cl := classify(gotE, wantE, len(we) > 0 && we[len(we)-1] != '\n'); cl != "" {
			add("stderr", cl, wantE, gotE, "")
			okE = false
		}
		if strings.HasPrefix(c.API, "output") {
			// Output() "returns all of it": per stream, the lines of the returned string (told apart by their first
			// byte: stdout lines start with one of O a b e, stderr lines with one of E x y)
			var outO, outE []string
			for _, l := range strings.Split(output, "\n") {
				if l == "" {
					continue
				}
				switch l[0] {
				case 'E', 'x', 'y':
					outE = append(outE, l)
				default:
					outO = append(outO, l)
				}
			}
			// (evaluated only when the messages of both streams were right: otherwise it is the same failure seen twice, and pieces of a broken line cannot be attributed to a stream)
			if cl := classify(outO, wantO, len(wo) > 0 && wo[len(wo)-1] != '\n'); cl != "" && okO && okE {
				add("stdout", "output-string:"+cl, wantO, outO, "")
			}
			if cl := classify(outE, wantE, len(we) > 0 && we[len(we)-1] != '\n'); cl != "" && okO && okE {
				add("stderr", "output-string:"+cl, wantE, outE, "")
			}
		}
	} else if c.Cancel != "ctx-deadline" {
		if len(gotO) == 0 || gotO[0] != readyLine {
			add("stdout", "announcement-missing", []string{readyLine}, gotO, "")
		}
	}
	return vs, "", outcome
}

// ---- the cases ------------------------------------------------------------------------------------------

type realBound struct {
	ExitCodes        string   `json:"exit_codes"`
	Signals          []int    `json:"signals"`
	ScriptSymbols    int      `json:"script_max_symbols"`
	ScriptPausesMs   []int    `json:"script_pause_between_writes_ms"`
	VolumeLineLens   []int    `json:"volume_line_lengths"`
	VolumeWriteSizes []int    `json:"volume_write_sizes"`
	VolumeBytes      []int    `json:"volume_bytes_per_stream"`
	CancelKinds      []string `json:"cancel_kinds"`
	CancelRepeats    int      `json:"cancel_repeats"`
}

func realCases(thorough bool) ([]realCase, realBound) {
	var cases []realCase
	var b realBound

	// exit family: every status, with and without extra environment variables, Execute and Output
	var codes []int
	if thorough {
		for i := 0; i < 256; i++ {
			codes = append(codes, i)
		}
		b.ExitCodes = "0..255 (all)"
	} else {
		codes = []int{0, 1, 2, 3, 64, 125, 126, 127, 128, 129, 137, 139, 143, 254, 255}
		b.ExitCodes = fmt.Sprint(codes)
	}
	for _, code := range codes {
		for _, api := range []string{"execute", "execute-env", "output", "output-env"} {
			cases = append(cases, realCase{Family: "exit", API: api, Exit: code, Ops: []script.Op{
				script.Out("Oa\nOb"), script.Err("Ex\n"), script.Out("\n"), script.Env("C18_EXTRA"), script.Env("C18_SECOND"), script.Env("C18_EXTRA_LONGER"), script.Env("C18_SECOND_INHERITED"), script.Err("Ey"), script.Exit(code)}})
		}
	}
	// a Subprocess object that has already run once
	cases = append(cases, realCase{Family: "exit", API: "new-execute-2nd", Exit: 0, Ops: []script.Op{script.Out("Oa\n"), script.Err("Ea\n"), script.Exit(0)}},
		realCase{Family: "exit", API: "new-execute-2nd", Exit: 3, Ops: []script.Op{script.Out("Oa\n"), script.Exit(3)}})
	// lines that end with white space, lines of white space only, carriage returns (exact content through Execute and Output)
	for _, api := range []string{"execute", "output"} {
		for _, code := range []int{0, 1} {
			cases = append(cases, realCase{Family: "exit", API: api, Exit: code, Ops: []script.Op{
				script.Out("Okey: \n"), script.Out("Otab\t\n"), script.Out("Ocrlf\r\n"), script.Out("O   \n"), script.Err("E e \n"), script.Err("E\t\n"), script.Out("Olast "), script.Exit(code)}})
		}
	}
	cases = append(cases, realCase{Family: "exit", API: "new-execute", Exit: 0, Ops: []script.Op{script.Out("Oa\n"), script.Exit(0)}},
		realCase{Family: "exit", API: "new-execute", Exit: 3, Ops: []script.Op{script.Out("Oa\n"), script.Exit(3)}},
		// a child that writes nothing at all
		realCase{Family: "exit", API: "execute", Exit: 0, Ops: []script.Op{script.Exit(0)}},
		realCase{Family: "exit", API: "execute", Exit: 1, Ops: []script.Op{script.Exit(1)}},
		realCase{Family: "exit", API: "output", Exit: 0, Ops: []script.Op{script.Exit(0)}})

	// signal family
	b.Signals = []int{15, 9, 11}
	if thorough {
		b.Signals = []int{15, 9, 11, 1, 2, 3, 6, 13, 14}
	}
	for _, s := range b.Signals {
		for _, api := range []string{"execute", "output", "new-execute"} {
			cases = append(cases, realCase{Family: "signal", API: api, Exit: -1, Ops: []script.Op{script.Out("Oa\n"), script.Err("Ex\n"), script.Signal(s)}})
		}
	}

	// script family: every string over {a,b,\n}, every composition into write(2) calls, with and without pauses
	b.ScriptSymbols = 4
	if thorough {
		b.ScriptSymbols = 5
	}
	b.ScriptPausesMs = []int{0, 25}
	sym := []byte{'a', 'b', '\n'}
	for n := 1; n <= b.ScriptSymbols; n++ {
		for idx := 0; idx < pow(3, n); idx++ {
			s := make([]byte, n)
			x := idx
			for i := n - 1; i >= 0; i-- {
				s[i] = sym[x%3]
				x /= 3
			}
			for mask := uint64(0); mask < 1<<uint(n-1); mask++ {
				chunks := chunksOf(s, cutsOfMask(n, mask))
				for _, pause := range b.ScriptPausesMs {
					if pause > 0 && len(chunks) < 2 {
						continue
					}
					for _, stream := range []byte{'o', 'e'} {
						for _, api := range []string{"execute", "output"} {
							var ops []script.Op
							for i, ch := range chunks {
								if i > 0 && pause > 0 {
									ops = append(ops, script.Pause(pause))
								}
								if stream == 'o' {
									ops = append(ops, script.Out(string(ch)))
								} else {
									ops = append(ops, script.Err(strings.NewReplacer("a", "x", "b", "y").Replace(string(ch))))
								}
							}
							ops = append(ops, script.Exit(0))
							cases = append(cases, realCase{Family: "script", API: api, Exit: 0, Ops: ops})
						}
					}
				}
			}
		}
	}

	// volume family: line lengths up to 10^5, volumes up to 10^6 bytes per stream, write sizes around the buffers
	type vol struct{ lineLen, bytes, write int }
	var vols []vol
	if thorough {
		b.VolumeLineLens = []int{1, 2, 79, 4095, 4096, 4097, 32767, 32768, 32769, 65535, 65536, 65537, 100000}
		b.VolumeWriteSizes = []int{0, 1, 7, 4096, 32768, 65536, 100000}
		b.VolumeBytes = []int{100000, 1000000}
		for _, l := range b.VolumeLineLens {
			for _, w := range b.VolumeWriteSizes {
				for _, v := range b.VolumeBytes {
					if (w == 1 || w == 7) && v > 200000 {
						continue
					}
					vols = append(vols, vol{l, v, w})
				}
			}
		}
	} else {
		b.VolumeLineLens = []int{1, 79, 4096, 32768, 65536, 100000}
		b.VolumeWriteSizes = []int{0, 1, 4096, 65536}
		b.VolumeBytes = []int{20000, 200000, 1000000}
		vols = []vol{{1, 20000, 1}, {1, 200000, 4096}, {79, 1000000, 65536}, {79, 200000, 0}, {4096, 200000, 4096}, {32768, 200000, 4096},
			{65536, 200000, 65536}, {100000, 200000, 0}, {100000, 1000000, 4096}, {100000, 200000, 65536}, {100000, 20000 * 10, 1}}
	}
	salt := 0
	for _, v := range vols {
		nLines := v.bytes / (v.lineLen + 1)
		if nLines < 2 {
			nLines = 2
		}
		for _, final := range []bool{true, false} {
			for _, streams := range []string{"o", "e", "oe"} {
				for _, api := range []string{"execute", "output"} {
					salt++
					mk := func(st byte) script.Gen {
						g := script.Gen{Stream: st, LineLen: v.lineLen, NLines: nLines, WriteSize: v.write, FinalNL: final, Salt: salt}
						if salt%3 == 0 && v.write >= 4096 { // "with and without pauses"
							g.PauseEvery, g.PauseMs = 8, 5
						}
						return g
					}
					var ops []script.Op
					switch streams {
					case "o":
						ops = []script.Op{script.Generate(mk('o'))}
					case "e":
						ops = []script.Op{script.Generate(mk('e'))}
					default:
						ops = []script.Op{script.Together(mk('o'), mk('e'))}
					}
					ops = append(ops, script.Exit(0))
					cases = append(cases, realCase{Family: "volume", API: api, Exit: 0, Ops: ops})
				}
			}
		}
	}

	// a sink that is slow once (1.5 s), the child writing ~60 KB (less than a pipe holds) in one go and exiting at once
	for _, api := range []string{"execute", "output", "new-execute"} {
		for _, streams := range []string{"o", "oe"} {
			salt++
			g := func(st byte) script.Gen {
				return script.Gen{Stream: st, LineLen: 99, NLines: 300, WriteSize: 0, FinalNL: true, Salt: salt}
			}
			ops := []script.Op{script.Generate(g('o'))}
			if streams == "oe" {
				ops = []script.Op{script.Together(g('o'), g('e'))}
			}
			ops = append(ops, script.Exit(0))
			cases = append(cases, realCase{Family: "slow-sink", API: api, Exit: 0, Ops: ops, SlowSinkMs: 1500})
		}
	}

	// cancel family: the child announces itself, then sleeps for 100 s
	b.CancelKinds = []string{"ctx-cancel", "ctx-deadline", "ctx-cancel-cause", "ctx-deadline-cause", "method-cancel", "method-stop"}
	b.CancelRepeats = 3
	if thorough {
		b.CancelRepeats = 10
	}
	for r := 0; r < b.CancelRepeats; r++ {
		ops := []script.Op{script.Out(readyLine + "\n"), script.Pause(100000), script.Exit(0)}
		cases = append(cases,
			realCase{Family: "cancel", API: "execute", Exit: -1, Cancel: "ctx-cancel", Ops: ops},
			realCase{Family: "cancel", API: "output", Exit: -1, Cancel: "ctx-cancel", Ops: ops},
			realCase{Family: "cancel", API: "new-execute", Exit: -1, Cancel: "ctx-cancel", Ops: ops},
			realCase{Family: "cancel", API: "execute", Exit: -1, Cancel: "ctx-deadline", Ops: ops},
			realCase{Family: "cancel", API: "output", Exit: -1, Cancel: "ctx-deadline", Ops: ops},
			realCase{Family: "cancel", API: "new-execute", Exit: -1, Cancel: "ctx-cancel-cause", Ops: ops},
			realCase{Family: "cancel", API: "execute", Exit: -1, Cancel: "ctx-deadline-cause", Ops: ops},
			realCase{Family: "cancel", API: "new-execute", Exit: -1, Cancel: "method-cancel", Ops: ops},
			realCase{Family: "cancel", API: "new-execute", Exit: -1, Cancel: "method-stop", Ops: ops})
	}
	return cases, b
}

type realResult struct {
	Runs      int64            `json:"runs"`
	PerFamily map[string]int64 `json:"runs_per_family"`
	// sum of the durations of the runs (they execute in parallel): informative, not an oracle
	SecondsPerFamily map[string]float64 `json:"summed_run_seconds_per_family"`
	Violating        int64              `json:"violating_runs"`
	Skipped          int64              `json:"cases_not_run,omitempty"`
	ErrorOutcomes    int                `json:"distinct_returned_errors"`
	ErrorSamples     []string           `json:"returned_errors_sample"`
	Bound            realBound          `json:"-"`
	Exhaustive       bool               `json:"exhaustive"`
	Samples          []any              `json:"-"`
}

func runReal(rep *ev.Reporter, thorough bool) realResult {
	cases, bound := realCases(thorough)
	res := realResult{PerFamily: map[string]int64{}, SecondsPerFamily: map[string]float64{}, Bound: bound, Exhaustive: true}
	if _, err := os.Stat(childPath()); err != nil {
		rep.EngineError("helper child missing (%v): run through ./vcheck, which executes checks/c18/prebuild.sh", err)
		res.Exhaustive = false
		return res
	}
	var next, violating, hangs, skipped atomic.Int64
	var mu sync.Mutex
	outcomes := map[string]struct{}{}
	var wg sync.WaitGroup
	for w := 0; w < ev.Workers()*2; w++ {
		wg.Add(1)
		go func() {
			defer wg.Done()
			for {
				i := int(next.Add(1)) - 1
				if i >= len(cases) {
					return
				}
				if hangs.Load() >= maxHangs {
					skipped.Add(1)
					continue
				}
				c := cases[i]
				began := time.Now()
				vs, engineErr, outcome := evalRealX(c)
				mu.Lock()
				res.Runs++
				res.PerFamily[c.Family]++
				res.SecondsPerFamily[c.Family] += time.Since(began).Seconds()
				if outcome != "" {
					outcomes[outcome] = struct{}{}
				}
				mu.Unlock()
				if strings.HasPrefix(engineErr, "hang guard") {
					hangs.Add(1)
				}
				if engineErr != "" {
					rep.EngineError("real case %s/%s %v: %s", c.Family, c.API, script.Args(c.Ops), engineErr)
					continue
				}
				if len(vs) > 0 {
					violating.Add(1)
				}
				for _, v := range vs {
					rep.Violation(v.Sig, v.Replay)
				}
			}
		}()
	}
	wg.Wait()
	res.Violating = violating.Load()
	if n := skipped.Load(); n > 0 {
		res.Exhaustive = false
		res.Skipped = n
		rep.EngineError("real-process half stopped after %d hang-guard expiries: %d cases not run", hangs.Load(), n)
	}
	res.ErrorOutcomes = len(outcomes)
	for o := range outcomes {
		res.ErrorSamples = append(res.ErrorSamples, o)
	}
	sort.Strings(res.ErrorSamples)
	if len(res.ErrorSamples) > 16 {
		res.ErrorSamples = append(res.ErrorSamples[:8], res.ErrorSamples[len(res.ErrorSamples)-8:]...)
	}
	for _, i := range []int{0, len(cases) / 3, len(cases) / 2, len(cases) - 1} {
		c := cases[i]
		res.Samples = append(res.Samples, map[string]any{"half": "real", "family": c.Family, "api": c.API, "cancel": c.Cancel, "program": script.Args(c.Ops)})
	}
	return res
}

var stackDumped atomic.Bool

// stacksOnce returns the goroutine stacks that mention package subprocess / os/exec, the first time it is called
// (diagnosis of a hang; part of the ENGINE-ERROR text only).
func stacksOnce() string {
	if !stackDumped.CompareAndSwap(false, true) {
		return ""
	}
	buf := make([]byte, 8<<20)
	buf = buf[:runtime.Stack(buf, true)]
	var keep []string
	for _, g := range strings.Split(string(buf), "\n\n") {
		if strings.Contains(g, "subprocess.") || strings.Contains(g, "os/exec.") {
			keep = append(keep, g)
		}
		if len(keep) >= 12 {
			break
		}
	}
	return "\n" + strings.Join(keep, "\n\n")
}

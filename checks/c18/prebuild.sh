#!/bin/bash
# Generates the overlay of the C18 check (adds the export shim to package subprocess, /repo untouched) and builds
# the helper child used by the real-process half.
set -e
here="$(dirname "$(readlink -f "$0")")"
root="${VERIF_ROOT:-$(readlink -f "$here/../..")}"
mkdir -p "$root/.build/bin"
cat > "$root/.build/overlay-C18.json" <<JSON
{"Replace": {"/repo/utils/subprocess/export_verif.go": "$here/export_verif.go.txt"}}
JSON
cd "$root"
export GOFLAGS=-mod=mod GOPROXY=off GOTOOLCHAIN=local
go1.26 build -o "$root/.build/bin/c18child" ./checks/c18/child

// C18 — subprocess results are faithful: exit status and every output line.
//
// Two halves, both executed on the real code of /repo/utils/subprocess:
//
//  1. THE SEAM, bounded-exhaustively (seam_test.go). The adapters that turn the child's stdout / stderr byte stream
//     into logger calls (logging.go: newOutStreamer / newErrLogStreamer, reached through the overlay-only file
//     export_verif.go.txt) receive EVERY string of <= N symbols over a small alphabet in EVERY composition into
//     chunks (one chunk = one Write call, which is what one read of the child's pipe becomes), plus 10^5-byte lines
//     cut at the sizes of the copy buffer / the pipe buffer. Oracle: the messages a recording logs.Loggers received
//     are exactly the non-empty lines of the script, complete, unmodified, in order, on the right stream; with the
//     loggers combined the way Output() combines them, the plain string logger's content is exactly those messages.
//  2. CONFORMANCE WITH REAL CHILD PROCESSES (real_test.go). A helper child (child/main.go) that writes scripts with
//     explicit write(2) boundaries and pauses, exits with every status 0..255 or dies from a signal, is run through
//     subprocess.Execute / ExecuteWithEnvironment / Output / OutputWithEnvironment / New+Execute.
//
// READINGS TAKEN (the weakest ones):
//   - "line" = maximal run of bytes between "\n" (the repository's lineSep is the Unix separator on every platform);
//     a "\r" is an ordinary byte of the line. "non-empty" = length >= 1 (a line of blanks is non-empty). The statement
//     says nothing about empty lines: an empty message received by the logger is tolerated and ignored.
//   - order is checked within each stream only; the relative order of stdout and stderr messages is free.
//   - "end of stream": the repository may hold back an unterminated last line until it knows the stream ended. At the
//     seam the end is signalled the way a writer can be told: Close() or Flush() if the adapter offers one (the
//     unpatched adapter offers none and holds nothing back). With real processes the end is the return of Execute.
//   - "Execute returns nil exactly when the child exits with status 0": death by signal is "not status 0".
//   - "of context kind if it was cancelled": any of commonerrors.ErrCancelled / ErrTimeout / context.Canceled /
//     context.DeadlineExceeded, for a cancelled parent context, an expired parent deadline and Subprocess.Cancel().
//     The child of those cases is provably still alive when the cancellation is issued (it announced itself on its
//     stdout, the logger saw the announcement, and it then sleeps for 100 s), so "it was cancelled" is unambiguous.
//     What the child managed to write before being killed is not checked in those cases beyond the announcement.
//   - "start message before, exactly one of success/failure after the child's output": positions in the sequence of
//     calls received by the recording logger (it is the same logger object, calls are totally ordered by its mutex).
//     The success message must be the one logged iff Execute returned nil.
//   - No wall-clock oracle: real runs have a 60 s guard that only catches hangs and is reported as ENGINE-ERROR.
package c18

import (
	"encoding/hex"
	"encoding/json"
	"fmt"
	"os"
	"sort"
	"strings"
	"sync"
	"testing"
	"time"

	deadlock "github.com/sasha-s/go-deadlock"

	ev "verif/engine/evidence"
)

func TestMain(m *testing.M) {
	// go-deadlock is a debugging aid of the repository's mutexes: its lock-order detector keys on a goroutine id
	// that its goid dependency cannot read under go1.26 (every goroutine is "goroutine 0"), which makes it report
	// inconsistent lock order between unrelated Subprocess objects and os.Exit(2) the harness. Plain mutexes instead.
	deadlock.Opts.Disable = true
	ev.Main(m)
}

// ---- recording logger ---------------------------------------------------------------------------

type event struct {
	Err  bool
	Args []string
}

// recorder implements logs.Loggers and records every call in order.
type recorder struct {
	mu      sync.Mutex
	events  []event
	waitFor string
	seen    chan struct{}
	closed  int
	// a sink that is slow once: the call that records message number stallAt (counted from 1) takes stall longer
	stallAt int
	stall   time.Duration
}

func newRecorder() *recorder { return &recorder{} }

// expect returns a channel closed when a message equal to line is received.
func (r *recorder) expect(line string) <-chan struct{} {
	r.mu.Lock()
	defer r.mu.Unlock()
	r.waitFor = line
	r.seen = make(chan struct{})
	return r.seen
}

func (r *recorder) add(isErr bool, args []interface{}) {
	e := event{Err: isErr, Args: make([]string, len(args))}
	for i, a := range args {
		if s, ok := a.(string); ok {
			e.Args[i] = s
		} else {
			e.Args[i] = fmt.Sprint(a)
		}
	}
	r.mu.Lock()
	r.events = append(r.events, e)
	if r.seen != nil && len(e.Args) == 1 && e.Args[0] == r.waitFor {
		close(r.seen)
		r.seen = nil
	}
	slow := r.stall > 0 && len(r.events) == r.stallAt
	r.mu.Unlock()
	if slow {
		time.Sleep(r.stall)
	}
}

func (r *recorder) Log(output ...interface{})   { r.add(false, output) }
func (r *recorder) LogError(err ...interface{}) { r.add(true, err) }
func (r *recorder) Check() error                { return nil }
func (r *recorder) SetLogSource(string) error   { return nil }
func (r *recorder) SetLoggerSource(string) error {
	return nil
}
func (r *recorder) Close() error {
	r.mu.Lock()
	r.closed++
	r.mu.Unlock()
	return nil
}

func (r *recorder) snapshot() []event {
	r.mu.Lock()
	defer r.mu.Unlock()
	return append([]event(nil), r.events...)
}

// ---- oracle helpers -------------------------------------------------------------------------------

// nonEmptyLines is the reference: what the statement says must reach the logger for a stream.
func nonEmptyLines(s string) []string {
	var out []string
	for _, l := range strings.Split(s, "\n") {
		if l != "" {
			out = append(out, l)
		}
	}
	return out
}

func dropEmpty(l []string) []string {
	var out []string
	for _, s := range l {
		if s != "" {
			out = append(out, s)
		}
	}
	return out
}

func equalLines(a, b []string) bool {
	if len(a) != len(b) {
		return false
	}
	for i := range a {
		if a[i] != b[i] {
			return false
		}
	}
	return true
}

func isSubsequence(small, big []string) bool {
	i := 0
	for _, s := range big {
		if i < len(small) && small[i] == s {
			i++
		}
	}
	return i == len(small)
}

// classify names the way in which the received messages differ from the expected lines ("" = they are equal).
// unterminated: the stream does not end with a newline (its last line is only complete at the end of the stream).
func classify(got, want []string, unterminated bool) string {
	got = dropEmpty(got)
	if equalLines(got, want) {
		return ""
	}
	gj, wj := strings.Join(got, ""), strings.Join(want, "")
	switch {
	case gj == wj && len(got) > len(want):
		return "line-split" // every byte arrived, in order, but some line was delivered in pieces
	case gj == wj:
		return "lines-merged"
	case unterminated && len(want) > 0 && equalLines(got, want[:len(want)-1]):
		return "unterminated-last-line-lost"
	case len(got) < len(want) && isSubsequence(got, want):
		return "line-lost"
	case len(got) > len(want) && isSubsequence(want, got):
		return "extra-message"
	}
	gs, ws := append([]string(nil), got...), append([]string(nil), want...)
	sort.Strings(gs)
	sort.Strings(ws)
	if equalLines(gs, ws) {
		return "reordered"
	}
	return "line-modified"
}

// show renders bytes for samples / replays (scripts may contain non-UTF-8 bytes).
func show(b []byte) string {
	if len(b) > 64 {
		return fmt.Sprintf("%q…(%d bytes)", b[:32], len(b))
	}
	return fmt.Sprintf("%q", b)
}

func showLines(l []string) []string {
	out := make([]string, 0, len(l))
	for i, s := range l {
		if i >= 12 {
			out = append(out, fmt.Sprintf("…(%d messages)", len(l)))
			break
		}
		out = append(out, show([]byte(s)))
	}
	return out
}

// replayCase is what is stored for a violating case; exactly one of Seam / Real is set.
type replayCase struct {
	Half string    `json:"half"`
	Seam *seamCase `json:"seam,omitempty"`
	Real *realCase `json:"real,omitempty"`
	// what was observed (informative)
	Want   []string `json:"want,omitempty"`
	Got    []string `json:"got,omitempty"`
	Detail string   `json:"detail,omitempty"`
}

func hexOf(b []byte) string { return hex.EncodeToString(b) }

// ---- the check --------------------------------------------------------------------------------------

func TestC18(t *testing.T) {
	if p := os.Getenv("VERIF_REPLAY"); p != "" {
		replay(t, p)
		return
	}
	rep := ev.NewReporter("C18", "exploration")
	thorough := ev.Thorough()

	t0 := time.Now()
	seam := runSeam(rep, thorough)
	t1 := time.Now()
	real := runReal(rep, thorough)
	rep.Coverage["wall_s_per_half"] = map[string]float64{"seam": t1.Sub(t0).Seconds(), "real": time.Since(t1).Seconds()}

	rep.Coverage["evaluations"] = seam.Evaluations + real.Runs
	rep.Coverage["distinct_nontrivial"] = seam.Straddling + real.Runs
	rep.Coverage["rule"] = "seam: cases in which a chunk boundary falls strictly inside a non-empty line (the adapter has to re-assemble a line from several Write calls); real: every run (a real child's exit status and both of its streams went through Execute/Output)"
	rep.Coverage["seam"] = seam
	rep.Coverage["real"] = real
	rep.Coverage["bound"] = map[string]any{
		"seam_alphabets":       seam.Bounds,
		"seam_long_line_bytes": longLine,
		"seam_long_line_cuts":  longCuts,
		"real":                 real.Bound,
	}
	rep.Coverage["distinct_observed_outcomes"] = map[string]any{
		"seam_distinct_message_sequences": seam.DistinctOutcomes,
		"real_distinct_error_outcomes":    real.ErrorOutcomes,
	}
	rep.Coverage["exhaustive"] = seam.Exhaustive && real.Exhaustive
	samples := append([]any{}, seam.Samples...)
	samples = append(samples, real.Samples...)
	rep.Coverage["samples"] = samples
	rep.Assume = []string{
		"the chunk sequence a real pipe read produces is some composition of the child's byte stream: for scripts within the seam bound every composition is enumerated, so every real chunking of such a script is covered by construction; beyond the bound only the listed cut sets are",
		"real-process half: the kernel's interleaving of the child's writes and the parent's pipe reads is whatever happened in this run (sampled once per case); its oracle does not depend on it",
		"Linux only (/bin/sh is used to die from a signal with the default disposition)",
	}
	rep.Finish()
}

// replay re-runs the case stored in a replay file 5 times.
func replay(t *testing.T, path string) {
	b, err := os.ReadFile(path)
	if err != nil {
		t.Fatal(err)
	}
	var f struct {
		Signature string     `json:"signature"`
		Replay    replayCase `json:"replay"`
	}
	if err := json.Unmarshal(b, &f); err != nil {
		t.Fatal(err)
	}
	found := 0
	for i := 0; i < 5; i++ {
		var sigs []string
		switch {
		case f.Replay.Seam != nil:
			for _, v := range evalSeam(*f.Replay.Seam) {
				sigs = append(sigs, v.Sig)
			}
		case f.Replay.Real != nil:
			vs, engineErr := evalReal(*f.Replay.Real)
			if engineErr != "" {
				fmt.Printf("ENGINE-ERROR: property=C18 %s\n", engineErr)
				ev.ExitCode = 2
				return
			}
			for _, v := range vs {
				sigs = append(sigs, v.Sig)
			}
		default:
			t.Fatalf("replay file %s holds no case", path)
		}
		for _, s := range sigs {
			if f.Signature == "" || s == f.Signature {
				found++
				if i == 0 {
					fmt.Printf("VIOLATION property=C18 replay=%s signature=%s\n", path, s)
				}
				break
			}
		}
	}
	fmt.Printf("replay: violation reproduced in %d of 5 executions\n", found)
	if found > 0 {
		ev.ExitCode = 1
	}
}

// viol is one violated oracle clause of one case.
type viol struct {
	Sig    string
	Replay replayCase
}

package c18

import (
	"context"
	"encoding/hex"
	"fmt"
	"io"
	"sort"
	"strings"
	"sync"
	"sync/atomic"

	"github.com/ARM-software/golang-utils/utils/logs"
	"github.com/ARM-software/golang-utils/utils/subprocess"

	"verif/checks/c18/script"
	ev "verif/engine/evidence"
)

// ---- alphabets and bounds -----------------------------------------------------------------------------

type alphabet struct {
	Name    string
	Sym     []byte
	Quick   int // max script length (symbols), quick tier
	Thorogh int // thorough tier
}

var alphabets = []alphabet{
	{"ab", []byte{'a', 'b', '\n'}, 6, 8},       // the alphabet of DESIGN.md §4
	{"ws", []byte{'a', ' ', '\r', '\n'}, 5, 7}, // blank-only lines and CR are ordinary line content
	{"utf8", []byte{0xC3, 0xA9, '\n'}, 5, 7},   // "é" = C3 A9: a chunk boundary inside a multi-byte rune
}

// "output" family (both adapters + the plain string logger combined as Output() does): scripts over {a,b,\n},
// every chunking, every assignment of the chunks to stdout / stderr (stderr chunks are spelt with x,y).
const (
	outputQuick    = 4
	outputThorough = 6
)

const longLine = 100000

var longCuts = []int{1, 4095, 4096, 32767, 32768, 65536}

// ---- a case ----------------------------------------------------------------------------------------

type seamCase struct {
	Family    string      `json:"family"` // enum | long | output
	Alpha     string      `json:"alphabet,omitempty"`
	ScriptHex string      `json:"script_hex,omitempty"`
	Script    string      `json:"script,omitempty"` // Go-quoted, informative
	Gen       *script.Gen `json:"generated,omitempty"`
	Cuts      []int       `json:"cuts"`           // byte offsets at which a new chunk (Write call) starts
	Step      int         `json:"step,omitempty"` // when > 0: the cuts are all the multiples of Step instead
	Adapter   string      `json:"adapter"`        // stdout | stderr | both
	Assign    uint64      `json:"assign,omitempty"`
}

// cuts returns the chunk boundaries of the case.
func (c seamCase) cuts(total int) []int {
	if c.Step <= 0 {
		return c.Cuts
	}
	var cs []int
	for p := c.Step; p < total; p += c.Step {
		cs = append(cs, p)
	}
	return cs
}

func (c seamCase) bytes() []byte {
	if c.Gen != nil {
		return c.Gen.Bytes()
	}
	b, _ := hex.DecodeString(c.ScriptHex)
	return b
}

func chunksOf(s []byte, cuts []int) [][]byte {
	var out [][]byte
	prev := 0
	for _, c := range cuts {
		if c <= prev || c >= len(s) {
			continue
		}
		out = append(out, s[prev:c])
		prev = c
	}
	if prev < len(s) || len(s) == 0 {
		if len(s) > 0 {
			out = append(out, s[prev:])
		}
	}
	return out
}

func cutsOfMask(n int, mask uint64) []int {
	var cuts []int
	for p := 1; p < n; p++ {
		if mask&(1<<(p-1)) != 0 {
			cuts = append(cuts, p)
		}
	}
	return cuts
}

// straddles: some chunk boundary falls strictly inside a non-empty line.
func straddles(s []byte, cuts []int) bool {
	for _, p := range cuts {
		if p > 0 && p < len(s) && s[p-1] != '\n' && s[p] != '\n' {
			return true
		}
	}
	return false
}

// endOfStream tells the adapter that the stream has ended, if it can be told (see the readings in c18_test.go).
func endOfStream(w io.Writer) {
	switch x := w.(type) {
	case io.Closer:
		_ = x.Close()
	case interface{ Flush() error }:
		_ = x.Flush()
	case interface{ Flush() }:
		x.Flush()
	}
}

// copyBuffer hands every chunk to the adapter the way io.Copy does (exec.Cmd copies the child's pipe with it): in
// ONE buffer that is reused for the next read. io.Writer forbids retaining the slice passed to Write; the buffer is
// overwritten after every call so that an adapter that keeps a reference to it is exposed.
type copyBuffer struct{ b []byte }

func (cb *copyBuffer) write(w io.Writer, chunk []byte) (int, error) {
	if cap(cb.b) < len(chunk) {
		cb.b = make([]byte, len(chunk), 2*len(chunk)+8)
	}
	cb.b = cb.b[:len(chunk)]
	copy(cb.b, chunk)
	n, err := w.Write(cb.b)
	for i := range cb.b {
		cb.b[i] = '#'
	}
	return n, err
}

// feed writes the chunks to one adapter built on a fresh recorder and returns what the recorder received.
func feed(stderr bool, chunks [][]byte) (events []event, writeProblem string) {
	rec := newRecorder()
	var w io.Writer
	if stderr {
		w = subprocess.VerifNewErrStreamer(context.Background(), rec)
	} else {
		w = subprocess.VerifNewOutStreamer(context.Background(), rec)
	}
	var buf copyBuffer
	for _, c := range chunks {
		n, err := buf.write(w, c)
		if err != nil || n != len(c) {
			writeProblem = fmt.Sprintf("Write(%d bytes) = %d, %v", len(c), n, err)
			break
		}
	}
	endOfStream(w)
	return rec.events, writeProblem
}

// judgeStream compares the events of a single-adapter case with the reference; returns the failed clause.
func judgeStream(stderr bool, events []event, s []byte) (clause string, got []string) {
	got = make([]string, 0, len(events))
	for _, e := range events {
		if e.Err != stderr {
			clause = "wrong-stream"
		}
		if len(e.Args) != 1 {
			clause = "message-shape"
			got = append(got, strings.Join(e.Args, "\x00"))
			continue
		}
		got = append(got, e.Args[0])
	}
	if clause != "" {
		return clause, got
	}
	unterminated := len(s) > 0 && s[len(s)-1] != '\n'
	return classify(got, nonEmptyLines(string(s)), unterminated), got
}

func adapterName(stderr bool) string {
	if stderr {
		return "stderr"
	}
	return "stdout"
}

// evalSeam evaluates one stored case (replay, long and output families; the hot enumeration uses feed/judge directly).
func evalSeam(c seamCase) []viol {
	s := c.bytes()
	switch c.Family {
	case "output":
		return evalOutput(c, s)
	default:
		stderr := c.Adapter == "stderr"
		events, wp := feed(stderr, chunksOf(s, c.cuts(len(s))))
		if wp != "" {
			return []viol{{Sig: fmt.Sprintf("seam:%s:%s:write-error", c.Family, c.Adapter), Replay: replayCase{Half: "seam", Seam: &c, Detail: wp}}}
		}
		clause, got := judgeStream(stderr, events, s)
		if clause == "" {
			return nil
		}
		return []viol{{Sig: seamSig(c.Family, c.Alpha, c.Adapter, clause), Replay: replayCase{Half: "seam", Seam: &c, Want: showLines(nonEmptyLines(string(s))), Got: showLines(got)}}}
	}
}

// seamSig: family (enum|long|output) . alphabet class . adapter . failed clause. The script itself is not part of it.
func seamSig(family, alpha, adapter, clause string) string {
	// a line delivered in pieces is caused by where the chunk boundary falls, whatever the bytes: one class
	if alpha == "" || clause == "line-split" {
		return fmt.Sprintf("seam:%s:%s:%s", family, adapter, clause)
	}
	return fmt.Sprintf("seam:%s:alphabet=%s:%s:%s", family, alpha, adapter, clause)
}

// evalOutput: both adapters as createCommand wires them, on the recorder combined with the plain string logger
// exactly as OutputAsWithEnvironment combines them. Chunk j goes to stderr when bit j of Assign is set (and is then
// spelt with x,y instead of a,b, so that the two streams can be told apart in the merged string).
func evalOutput(c seamCase, s []byte) []viol {
	rec := newRecorder()
	strLogger, err := logs.NewPlainStringLogger()
	if err != nil {
		return []viol{{Sig: "seam:output:engine", Replay: replayCase{Half: "seam", Seam: &c, Detail: err.Error()}}}
	}
	combined, err := logs.NewCombinedLoggers(rec, strLogger)
	if err != nil {
		return []viol{{Sig: "seam:output:engine", Replay: replayCase{Half: "seam", Seam: &c, Detail: err.Error()}}}
	}
	wo, we := subprocess.VerifCommandWriters(context.Background(), combined, "/bin/true")
	var so, se []byte
	var buf copyBuffer
	for j, ch := range chunksOf(s, c.cuts(len(s))) {
		w := wo
		if c.Assign&(1<<uint(j)) != 0 {
			w = we
			ch = []byte(strings.NewReplacer("a", "x", "b", "y", "O", "E").Replace(string(ch)))
			se = append(se, ch...)
		} else {
			so = append(so, ch...)
		}
		n, err := buf.write(w, ch)
		if err != nil || n != len(ch) {
			return []viol{{Sig: "seam:output:both:write-error", Replay: replayCase{Half: "seam", Seam: &c, Detail: fmt.Sprintf("Write(%d bytes) = %d, %v", len(ch), n, err)}}}
		}
	}
	endOfStream(wo)
	endOfStream(we)
	var vs []viol
	var gotO, gotE, all []string
	for _, e := range rec.events {
		m := strings.Join(e.Args, "\x00")
		all = append(all, m)
		if e.Err {
			gotE = append(gotE, m)
		} else {
			gotO = append(gotO, m)
		}
	}
	add := func(adapter, clause string, want, got []string) {
		vs = append(vs, viol{Sig: seamSig("output", "", adapter, clause), Replay: replayCase{Half: "seam", Seam: &c, Want: showLines(want), Got: showLines(got)}})
	}
	// the createCommand wiring: what was written to cmd.Stdout reaches Log, what was written to cmd.Stderr LogError
	okO, okE := true, true
	if cl := classify(gotO, nonEmptyLines(string(so)), len(so) > 0 && so[len(so)-1] != '\n'); cl != "" {
		add("stdout", cl, nonEmptyLines(string(so)), gotO)
		okO = false
	}
	if cl := classify(gotE, nonEmptyLines(string(se)), len(se) > 0 && se[len(se)-1] != '\n'); cl != "" {
		add("stderr", cl, nonEmptyLines(string(se)), gotE)
		okE = false
	}
	// Output(): the string returned is the content of the plain string logger: every message, one per line
	content := strLogger.GetLogContent()
	var want strings.Builder
	for _, m := range all {
		want.WriteString(m)
		want.WriteString("\n")
	}
	if content != want.String() {
		add("both", "string-logger-content-differs-from-messages", showLines(strings.Split(want.String(), "\n")), showLines(strings.Split(content, "\n")))
	}
	// and per stream, straight against the script (this is the clause that speaks about Output() itself)
	var outO, outE []string
	for _, l := range strings.Split(content, "\n") {
		if l == "" {
			continue
		}
		switch l[0] {
		case 'x', 'y', 'E':
			outE = append(outE, l)
		default:
			outO = append(outO, l)
		}
	}
	// (evaluated only when the messages of both streams were right: otherwise it is the same failure seen twice, and pieces of a broken line cannot be attributed to a stream)
	if cl := classify(outO, nonEmptyLines(string(so)), len(so) > 0 && so[len(so)-1] != '\n'); cl != "" && okO && okE {
		add("stdout", "output-string:"+cl, nonEmptyLines(string(so)), outO)
	}
	if cl := classify(outE, nonEmptyLines(string(se)), len(se) > 0 && se[len(se)-1] != '\n'); cl != "" && okO && okE {
		add("stderr", "output-string:"+cl, nonEmptyLines(string(se)), outE)
	}
	return vs
}

// ---- the enumeration ---------------------------------------------------------------------------------

type seamResult struct {
	Evaluations      int64            `json:"evaluations"`
	Straddling       int64            `json:"cases_with_a_line_straddling_a_chunk_boundary"`
	MultiChunk       int64            `json:"cases_with_two_or_more_chunks"`
	PerFamily        map[string]int64 `json:"evaluations_per_family"`
	DistinctOutcomes int              `json:"distinct_received_message_sequences"`
	Violating        int64            `json:"violating_cases"`
	Bounds           map[string]int   `json:"max_symbols_per_alphabet"`
	Exhaustive       bool             `json:"exhaustive"`
	Samples          []any            `json:"-"`
}

func pow(b, e int) int {
	r := 1
	for ; e > 0; e-- {
		r *= b
	}
	return r
}

func runSeam(rep *ev.Reporter, thorough bool) seamResult {
	res := seamResult{PerFamily: map[string]int64{}, Bounds: map[string]int{}, Exhaustive: true}
	var evals, strad, multi, violating atomic.Int64
	outcomes := map[string]struct{}{}
	var omu sync.Mutex
	workers := ev.Workers()

	report := func(vs []viol) {
		if len(vs) > 0 {
			violating.Add(1)
		}
		for _, v := range vs {
			rep.Violation(v.Sig, v.Replay)
		}
	}

	// family "enum": every string, every chunking, both adapters
	for _, al := range alphabets {
		N := al.Quick
		if thorough {
			N = al.Thorogh
		}
		res.Bounds[al.Name] = N
		k := len(al.Sym)
		type block struct{ n, from, to int }
		var blocks []block
		for n := 0; n <= N; n++ {
			total := pow(k, n)
			for f := 0; f < total; f += 256 {
				t := f + 256
				if t > total {
					t = total
				}
				blocks = append(blocks, block{n, f, t})
			}
		}
		var next atomic.Int64
		var wg sync.WaitGroup
		before := evals.Load()
		for w := 0; w < workers; w++ {
			wg.Add(1)
			go func() {
				defer wg.Done()
				local := map[string]struct{}{}
				for {
					bi := int(next.Add(1)) - 1
					if bi >= len(blocks) {
						break
					}
					b := blocks[bi]
					s := make([]byte, b.n)
					for idx := b.from; idx < b.to; idx++ {
						x := idx
						for i := b.n - 1; i >= 0; i-- {
							s[i] = al.Sym[x%k]
							x /= k
						}
						masks := uint64(1)
						if b.n > 1 {
							masks = 1 << uint(b.n-1)
						}
						for mask := uint64(0); mask < masks; mask++ {
							cuts := cutsOfMask(b.n, mask)
							chunks := chunksOf(s, cuts)
							st := straddles(s, cuts)
							for _, stderr := range []bool{false, true} {
								evals.Add(1)
								if st {
									strad.Add(1)
								}
								if len(chunks) >= 2 {
									multi.Add(1)
								}
								events, wp := feed(stderr, chunks)
								clause, got := "", []string(nil)
								if wp != "" {
									clause = "write-error"
								} else {
									clause, got = judgeStream(stderr, events, s)
								}
								local[strings.Join(got, "\x01")] = struct{}{}
								if clause != "" {
									c := seamCase{Family: "enum", Alpha: al.Name, ScriptHex: hexOf(s), Script: fmt.Sprintf("%q", s), Cuts: cuts, Adapter: adapterName(stderr)}
									report([]viol{{Sig: seamSig("enum", al.Name, c.Adapter, clause), Replay: replayCase{Half: "seam", Seam: &c, Want: showLines(nonEmptyLines(string(s))), Got: showLines(got), Detail: wp}}})
								}
							}
						}
					}
				}
				omu.Lock()
				for o := range local {
					outcomes[al.Name+"\x02"+o] = struct{}{}
				}
				omu.Unlock()
			}()
		}
		wg.Wait()
		res.PerFamily["enum:"+al.Name] = evals.Load() - before
	}

	// family "output": both adapters + string logger
	{
		N := outputQuick
		if thorough {
			N = outputThorough
		}
		res.Bounds["output(ab|xy, chunk->stream assignment)"] = N
		sym := alphabets[0].Sym
		k := len(sym)
		type item struct{ n, idx int }
		var items []item
		for n := 0; n <= N; n++ {
			for idx := 0; idx < pow(k, n); idx++ {
				items = append(items, item{n, idx})
			}
		}
		var next atomic.Int64
		var wg sync.WaitGroup
		before := evals.Load()
		for w := 0; w < workers; w++ {
			wg.Add(1)
			go func() {
				defer wg.Done()
				for {
					i := int(next.Add(1)) - 1
					if i >= len(items) {
						return
					}
					it := items[i]
					s := make([]byte, it.n)
					x := it.idx
					for j := it.n - 1; j >= 0; j-- {
						s[j] = sym[x%k]
						x /= k
					}
					masks := uint64(1)
					if it.n > 1 {
						masks = 1 << uint(it.n-1)
					}
					for mask := uint64(0); mask < masks; mask++ {
						cuts := cutsOfMask(it.n, mask)
						nch := len(chunksOf(s, cuts))
						for assign := uint64(0); assign < 1<<uint(nch); assign++ {
							evals.Add(1)
							if straddles(s, cuts) {
								strad.Add(1)
							}
							if nch >= 2 {
								multi.Add(1)
							}
							c := seamCase{Family: "output", ScriptHex: hexOf(s), Script: fmt.Sprintf("%q", s), Cuts: cuts, Adapter: "both", Assign: assign}
							report(evalOutput(c, s))
						}
					}
				}
			}()
		}
		wg.Wait()
		res.PerFamily["output"] = evals.Load() - before
	}

	// family "long": 10^5-byte lines cut at the sizes of io.Copy's buffer and of the pipe
	{
		before := evals.Load()
		var cases []seamCase
		for _, nl := range []int{1, 2} {
			for _, final := range []bool{true, false} {
				g := script.Gen{Stream: 'o', LineLen: longLine, NLines: nl, FinalNL: final, Salt: 18}
				var cutSets [][]int
				for _, c := range longCuts {
					cutSets = append(cutSets, []int{c})
				}
				cutSets = append(cutSets, append([]int(nil), longCuts...))
				// cuts around the newline that ends the first line
				cutSets = append(cutSets, []int{longLine}, []int{longLine + 1}, []int{longLine, longLine + 1})
				steps := []int{32768, 4096, 65536, 1000}
				if thorough {
					steps = append(steps, 1, 7) // one byte per Write
				}
				for _, ad := range []string{"stdout", "stderr"} {
					for _, cs := range cutSets {
						gg := g
						cases = append(cases, seamCase{Family: "long", Gen: &gg, Cuts: cs, Adapter: ad})
					}
					for _, st := range steps {
						gg := g
						cases = append(cases, seamCase{Family: "long", Gen: &gg, Step: st, Adapter: ad})
					}
				}
			}
		}
		// the same long lines through the Output() combination, chunks of 32768 alternating between the streams
		for _, final := range []bool{true, false} {
			g := script.Gen{Stream: 'o', LineLen: longLine, NLines: 2, FinalNL: final, Salt: 19}
			for _, assign := range []uint64{0, 0x7f, 0x2a} {
				gg := g
				cases = append(cases, seamCase{Family: "output", Gen: &gg, Step: 32768, Adapter: "both", Assign: assign})
			}
		}
		var next atomic.Int64
		var wg sync.WaitGroup
		for w := 0; w < workers; w++ {
			wg.Add(1)
			go func() {
				defer wg.Done()
				for {
					i := int(next.Add(1)) - 1
					if i >= len(cases) {
						return
					}
					c := cases[i]
					s := c.bytes()
					evals.Add(1)
					if straddles(s, c.cuts(len(s))) {
						strad.Add(1)
					}
					if len(chunksOf(s, c.cuts(len(s)))) >= 2 {
						multi.Add(1)
					}
					report(evalSeam(c))
				}
			}()
		}
		wg.Wait()
		res.PerFamily["long"] = evals.Load() - before
	}

	res.Evaluations = evals.Load()
	res.Straddling = strad.Load()
	res.MultiChunk = multi.Load()
	res.Violating = violating.Load()
	res.DistinctOutcomes = len(outcomes)

	// samples: a few cases written out with what the recorder received
	for _, sc := range []seamCase{
		{Family: "enum", Alpha: "ab", ScriptHex: hexOf([]byte("ab\nb")), Script: `"ab\nb"`, Cuts: []int{1, 3}, Adapter: "stdout"},
		{Family: "enum", Alpha: "ab", ScriptHex: hexOf([]byte("\n\na\n")), Script: `"\n\na\n"`, Cuts: []int{2}, Adapter: "stderr"},
		{Family: "enum", Alpha: "ws", ScriptHex: hexOf([]byte(" \na\r\n")), Script: `" \na\r\n"`, Cuts: []int{1, 4}, Adapter: "stdout"},
		{Family: "output", ScriptHex: hexOf([]byte("ab\nba")), Script: `"ab\nba"`, Cuts: []int{2, 3}, Adapter: "both", Assign: 2},
	} {
		s := sc.bytes()
		var got any
		if sc.Family == "output" {
			got = fmt.Sprintf("%d violated clauses", len(evalOutput(sc, s)))
		} else {
			events, _ := feed(sc.Adapter == "stderr", chunksOf(s, sc.Cuts))
			var l []string
			for _, e := range events {
				l = append(l, fmt.Sprintf("%s%q", map[bool]string{false: "Log", true: "LogError"}[e.Err], e.Args))
			}
			got = l
		}
		var chunks []string
		for _, ch := range chunksOf(s, sc.Cuts) {
			chunks = append(chunks, fmt.Sprintf("%q", ch))
		}
		res.Samples = append(res.Samples, map[string]any{"half": "seam", "family": sc.Family, "adapter": sc.Adapter, "writes": chunks, "assign": sc.Assign, "received": got})
	}
	_ = sort.Strings
	return res
}

// C19 — paginators yield every item exactly once, in order.
//
// Explicit enumeration of call sequences on the REAL paginators (static, dynamic, static stream, dynamic
// stream) against a reference model = a cursor over the concatenated list of the pages' items.
//
//   - collections: every sequence of <= P pages with 0..2 items (P = 3 quick / 4 thorough), the empty
//     collection (no first page) and a few 20-page collections with 0..10 items; for the stream paginators
//     every labelling of the links between pages as N (next page: page.HasNext()) or F (future page:
//     page.HasFuture());
//   - call sequences: every string of length <= L over {H HasNext, G GetNext, S Stop()(), C Close(), X cancel
//     the parent context} and, for streams, {D DryUp, w sleep grace/2, W sleep grace} (virtual time: the stream
//     cases run inside a testing/synctest bubble), each followed by the canonical `for HasNext { GetNext }` loop;
//   - faults: the fetch of page k fails (always / once), the item iterator of page k cannot be created, for every
//     k >= 1; k = 0 is the constructor case (first page fetch / first iterator fails) for every constructor;
//   - page-fetch functions that honour the context they are given, and functions that ignore it.
//
// Pages, iterators and fetch functions are scripted (deterministic); items are the integers 0..total-1.
//
// READINGS TAKEN (the weakest ones; see also the final comment of the oracle in exec.step):
//
//	R1 "yields every item exactly once in order": the i-th item returned by GetNext with a nil error is item i of
//	   the concatenation; when the iteration is never stopped and nothing fails, HasNext()==false / a GetNext error
//	   is only acceptable once all items were yielded.
//	R2 a page whose item iterator could not be created (fault, k >= 1) is lost: its items may be skipped (only
//	   those), nothing may be duplicated or reordered. A failing page fetch may end the iteration (HasNext false,
//	   GetNext error) at that call; what was yielded before is still exact.
//	R3 "after Stop/Close or cancellation nothing more is yielded": HasNext()==false and GetNext returns a non-nil
//	   error, for ever. The kind of error is not constrained.
//	R4 "constructor failures are reported as errors": the constructor returns a non-nil error (what it returns as
//	   paginator is not constrained).
//	R5 stream sentence. The sentence does not say from when the grace period runs. Taken: a stream paginator may
//	   only give up in front of a future link when it has been told (DryUp) AND at least the grace period has passed
//	   since BOTH the DryUp call AND the last time HasNext()==true was reported to the caller (construction if
//	   never) — i.e. giving up is accepted as soon as one defensible reference point is a grace period old. It must
//	   not yield items of a future page it fetched when it had been told AND the grace period had passed since the
//	   DryUp call, since the last HasNext()==true and since the last item was yielded. In between either is accepted
//	   (counted in the evidence as `stream_ambiguous_decisions`). No wall clock: all times are the bubble's.
//	R6 items of iterators do not fail (the quantifier speaks of page-fetch failures only).
package c19

import (
	"context"
	"encoding/json"
	"errors"
	"fmt"
	"os"
	"runtime"
	"runtime/debug"
	"sort"
	"strconv"
	"strings"
	"sync"
	"sync/atomic"
	"testing"
	"testing/synctest"
	"time"

	"github.com/ARM-software/golang-utils/utils/collection/pagination"
	"github.com/ARM-software/golang-utils/utils/commonerrors"
	deadlock "github.com/sasha-s/go-deadlock"

	ev "verif/engine/evidence"
)

func TestMain(m *testing.M) {
	debug.SetGCPercent(800) // tiny live heap, much short-lived garbage (one paginator per execution)
	debug.SetMemoryLimit(8 << 30)
	deadlock.Opts.Disable = true // the cancel store uses go-deadlock mutexes; its detector pools timers across bubbles (fatal)
	ev.Main(m)
}

const (
	grace = 8 * time.Millisecond
)

// strictFromDryUp switches R5 to the stricter reading "the grace period runs from the DryUp call" (what the doc comment
// of the stream constructors says). NOT part of the registered check (exploration aid: VERIF_C19_STRICT=1); on the
// unchanged tree it reports `...:grace=not-elapsed-since-DryUp` (the paginator measures from its last HasNext()==true).
// It is the REGISTERED reading since the build session adopted it (the constructors' doc comment says the grace period
// runs "between the stream being marked as running dry and the iteration actually ending", and an independently seeded
// change that let iteration end the instant DryUp was called slipped through the weaker reading);
// VERIF_C19_STRICT=0 switches back to the weaker one.
var strictFromDryUp = os.Getenv("VERIF_C19_STRICT") != "0"

// ---- the scripted collection ---------------------------------------------------------------------

type coll struct {
	Sizes []int
	Links string // Links[i] is the kind of the link page i -> page i+1: 'N' next, 'F' future
	base  []int
	total int
	pgOf  []int // page of item i
}

func newColl(sizes []int, links string) *coll {
	c := &coll{Sizes: append([]int(nil), sizes...), Links: links}
	for p, s := range sizes {
		c.base = append(c.base, c.total)
		for i := 0; i < s; i++ {
			c.pgOf = append(c.pgOf, p)
		}
		c.total += s
	}
	return c
}

func (c *coll) String() string {
	var b strings.Builder
	for i, s := range c.Sizes {
		if i > 0 {
			b.WriteByte(c.Links[i-1])
		}
		fmt.Fprintf(&b, "%d", s)
	}
	if len(c.Sizes) == 0 {
		return "-"
	}
	return b.String()
}

type fault struct {
	Kind string // none | fetch | fetch-once | iter | stop-in-fetch | close-in-fetch | cancel-in-fetch
	At   int
}

// stopInFetch: while page At is being fetched the iteration is stopped (Stop / Close / cancellation of the constructor's
// context, completed before the fetch function returns) and the fetch function hands over its page all the same.
func (f fault) stopInFetch() byte {
	switch f.Kind {
	case "stop-in-fetch":
		return 'S'
	case "close-in-fetch":
		return 'C'
	case "cancel-in-fetch":
		return 'X'
	}
	return 0
}

func (f fault) String() string {
	if f.Kind == "none" {
		return "none"
	}
	return fmt.Sprintf("%s@%d", f.Kind, f.At)
}

var errInjected = errors.New("injected page failure")

type event struct {
	link     byte // 'N' | 'F' | 'I' (iterator creation)
	from, to int
	ok       bool
	injected bool // failed because of the injected fault or of the cancelled context
	at       time.Time
}

type runaway struct{}

// source is the backing "API" of one execution.
type source struct {
	c         *coll
	f         fault
	honourCtx bool
	failsLeft int
	events    []event
	lost      []bool // pages whose iterator could not be created
	calls     int
	// stop-in-fetch faults: what to do in the middle of the fetch, once
	during func()
}

func (s *source) tick() {
	s.calls++
	if s.calls > 20000 {
		panic(runaway{})
	}
}

func (s *source) first(ctx context.Context) (int, error) {
	s.tick()
	if s.honourCtx && ctx.Err() != nil {
		return -1, commonerrors.ConvertContextError(ctx.Err())
	}
	if (s.f.Kind == "fetch" || s.f.Kind == "fetch-once") && s.f.At == 0 && s.failsLeft > 0 {
		s.failsLeft--
		return -1, errInjected
	}
	if len(s.c.Sizes) == 0 {
		return -1, nil
	}
	return 0, nil
}

func (s *source) fetch(link byte, ctx context.Context, from int) (int, error) {
	s.tick()
	e := event{link: link, from: from, to: from + 1, at: time.Now()}
	if s.honourCtx && ctx.Err() != nil {
		e.injected = true
		s.events = append(s.events, e)
		return -1, commonerrors.ConvertContextError(ctx.Err())
	}
	if from+1 >= len(s.c.Sizes) || s.c.Links[from] != link {
		s.events = append(s.events, e)
		return -1, fmt.Errorf("%w: no such page", commonerrors.ErrNotFound)
	}
	if (s.f.Kind == "fetch" || s.f.Kind == "fetch-once") && s.f.At == from+1 && s.failsLeft > 0 {
		s.failsLeft--
		e.injected = true
		s.events = append(s.events, e)
		return -1, errInjected
	}
	if s.f.stopInFetch() != 0 && s.f.At == from+1 && s.during != nil {
		d := s.during
		s.during = nil
		d()
	}
	e.ok = true
	s.events = append(s.events, e)
	return from + 1, nil
}

// spage is a static (stream) page: it cannot reach other pages by itself.
type spage struct {
	src *source
	idx int
}

func (p *spage) HasNext() bool {
	p.src.tick()
	return p.idx+1 < len(p.src.c.Sizes) && p.src.c.Links[p.idx] == 'N'
}

func (p *spage) HasFuture() bool {
	p.src.tick()
	return p.idx+1 < len(p.src.c.Sizes) && p.src.c.Links[p.idx] == 'F'
}

func (p *spage) GetItemCount() (int64, error) { return int64(p.src.c.Sizes[p.idx]), nil }

func (p *spage) GetItemIterator() (pagination.IIterator, error) {
	p.src.tick()
	if p.src.f.Kind == "iter" && p.src.f.At == p.idx {
		p.src.lost[p.idx] = true
		p.src.events = append(p.src.events, event{link: 'I', from: p.idx, to: p.idx, injected: true, at: time.Now()})
		return nil, errInjected
	}
	return &iter{p: p}, nil
}

type iter struct {
	p   *spage
	pos int
}

func (i *iter) HasNext() bool {
	i.p.src.tick()
	return i.pos < i.p.src.c.Sizes[i.p.idx]
}

func (i *iter) GetNext() (interface{}, error) {
	i.p.src.tick()
	if i.pos >= i.p.src.c.Sizes[i.p.idx] {
		return nil, fmt.Errorf("%w: page exhausted", commonerrors.ErrNotFound)
	}
	v := i.p.src.c.base[i.p.idx] + i.pos
	i.pos++
	return v, nil
}

// dpage is a dynamic page / stream: it reaches its successors itself.
type dpage struct{ spage }

func (p *dpage) GetNext(ctx context.Context) (pagination.IPage, error) {
	to, err := p.src.fetch('N', ctx, p.idx)
	if err != nil {
		return nil, err
	}
	return &dpage{spage{p.src, to}}, nil
}

func (p *dpage) GetFuture(ctx context.Context) (pagination.IStream, error) {
	to, err := p.src.fetch('F', ctx, p.idx)
	if err != nil {
		return nil, err
	}
	return &dpage{spage{p.src, to}}, nil
}

var (
	_ pagination.IStaticPageStream = &spage{}
	_ pagination.IStream           = &dpage{}
)

// ---- the four constructors -----------------------------------------------------------------------

var kinds = []string{"static", "dynamic", "static-stream", "dynamic-stream"}

func isStream(kind string) bool { return strings.HasSuffix(kind, "stream") }

func build(kind string, ctx context.Context, src *source, backoff time.Duration) (p pagination.IGenericPaginator, sp pagination.IGenericStreamPaginator, err error) {
	staticNext := func(fctx context.Context, cur pagination.IStaticPage) (pagination.IStaticPage, error) {
		to, err := src.fetch('N', fctx, cur.(*spage).idx)
		if err != nil {
			return nil, err
		}
		return &spage{src, to}, nil
	}
	switch kind {
	case "static":
		r, e := pagination.NewStaticPagePaginator(ctx, func(fctx context.Context) (pagination.IStaticPage, error) {
			i, err := src.first(fctx)
			if err != nil || i < 0 {
				return nil, err
			}
			return &spage{src, i}, nil
		}, staticNext)
		if r != nil {
			p = r
		}
		err = e
	case "dynamic":
		r, e := pagination.NewCollectionPaginator(ctx, func(fctx context.Context) (pagination.IPage, error) {
			i, err := src.first(fctx)
			if err != nil || i < 0 {
				return nil, err
			}
			return &dpage{spage{src, i}}, nil
		})
		if r != nil {
			p = r
		}
		err = e
	case "static-stream":
		r, e := pagination.NewStaticPageStreamPaginator(ctx, grace, backoff, func(fctx context.Context) (pagination.IStaticPageStream, error) {
			i, err := src.first(fctx)
			if err != nil || i < 0 {
				return nil, err
			}
			return &spage{src, i}, nil
		}, staticNext, func(fctx context.Context, cur pagination.IStaticPageStream) (pagination.IStaticPageStream, error) {
			to, err := src.fetch('F', fctx, cur.(*spage).idx)
			if err != nil {
				return nil, err
			}
			return &spage{src, to}, nil
		})
		if r != nil {
			p, sp = r, r
		}
		err = e
	case "dynamic-stream":
		r, e := pagination.NewStreamPaginator(ctx, grace, backoff, func(fctx context.Context) (pagination.IStream, error) {
			i, err := src.first(fctx)
			if err != nil || i < 0 {
				return nil, err
			}
			return &dpage{spage{src, i}}, nil
		})
		if r != nil {
			p, sp = r, r
		}
		err = e
	}
	return
}

// ---- one execution against the reference model ---------------------------------------------------

type caseDesc struct {
	Kind      string `json:"kind"`
	Sizes     []int  `json:"page_sizes"`
	Links     string `json:"links"`
	Fault     string `json:"fault"`
	FaultAt   int    `json:"fault_at"`
	HonourCtx bool   `json:"fetchers_honour_ctx"`
	BackoffNs int64  `json:"backoff_ns"`
	Script    string `json:"script"`
}

type violation struct {
	Case   caseDesc `json:"case"`
	Step   int      `json:"step"`  // index in script+drain of the call that failed the oracle
	Trace  string   `json:"trace"` // what the implementation answered, call by call
	Detail string   `json:"detail"`
	GraceN int64    `json:"grace_ns"`
}

type exec struct {
	kind    string
	c       *coll
	f       fault
	honour  bool
	backoff time.Duration
	stream  bool
	st      *stats

	src    *source
	p      pagination.IGenericPaginator
	sp     pagination.IGenericStreamPaginator
	cancel context.CancelFunc

	pos       int
	stopped   byte // 0 or the op that stopped
	stopMu    sync.Mutex // op 'g': the stopper goroutine sets `stopped`
	dry       bool
	dryTime   time.Time
	start     time.Time
	lastHTrue time.Time // R5: last HasNext()==true reported to the caller (construction if never)
	lastItem  time.Time // last HasNext()==true or item yielded
	cp        int       // current page according to the fetches observed
	illegal   int       // first page reached through a future link crossed after the grace period (R5), -1 none
	prevH     int       // result of the immediately preceding HasNext (-1: the preceding op was not HasNext)
	prevHFail bool

	trace   []byte
	answers []byte // answers of the script's HasNext/GetNext calls (not the loop's)
	inLoop  bool
	sig     string
	vio     *violation
	step_   int
	scr     string
}

func (x *exec) desc() caseDesc {
	return caseDesc{Kind: x.kind, Sizes: x.c.Sizes, Links: x.c.Links, Fault: x.f.Kind, FaultAt: x.f.At, HonourCtx: x.honour, BackoffNs: int64(x.backoff), Script: x.scr}
}

func (x *exec) fail(sig, detail string) {
	if x.vio != nil {
		return
	}
	x.sig = sig
	x.vio = &violation{Case: x.desc(), Step: x.step_, Trace: string(x.trace), Detail: detail, GraceN: int64(grace)}
}

// expected returns the next item the model allows (R1, R2), or -1 at the end.
func (x *exec) expected() int {
	for i := x.pos; i < x.c.total; i++ {
		if !x.src.lost[x.c.pgOf[i]] {
			return i
		}
	}
	return -1
}

func (x *exec) shape() string {
	// class of the collection around the cursor, for signatures: does an empty page stand between the cursor and the next item?
	e := x.expected()
	if e < 0 {
		return "at-end"
	}
	for p := x.cp + 1; p < x.c.pgOf[e]; p++ {
		if x.c.Sizes[p] == 0 {
			return "empty-page-ahead"
		}
	}
	if x.cp < len(x.c.Sizes) && x.cp >= 0 && x.c.Sizes[x.cp] == 0 && x.cp < x.c.pgOf[e] {
		return "on-empty-page"
	}
	return "plain"
}

// construct builds the paginator and checks R4. It returns false when there is nothing to iterate.
func (x *exec) construct() bool {
	x.src = &source{c: x.c, f: x.f, honourCtx: x.honour, lost: make([]bool, len(x.c.Sizes)+1)}
	switch x.f.Kind {
	case "fetch", "iter":
		x.src.failsLeft = 1 << 30
	case "fetch-once":
		x.src.failsLeft = 1
	}
	ctx, cancel := context.WithCancel(context.Background())
	x.cancel = cancel
	x.illegal = -1
	x.prevH = -1
	x.start = time.Now()
	x.lastHTrue, x.lastItem = x.start, x.start
	var err error
	var pan any
	func() {
		defer func() { pan = recover() }()
		x.p, x.sp, err = build(x.kind, ctx, x.src, x.backoff)
	}()
	if pan != nil {
		x.fail("panic:kind="+x.kind+":op=constructor", fmt.Sprint(pan))
		return false
	}
	x.st.transitions++
	if op := x.f.stopInFetch(); op != 0 {
		x.src.during = func() {
			_ = x.call(op)
			if x.stopped == 0 {
				x.stopped = op
			}
			x.trace = append(x.trace, '<', op, '>', ' ')
		}
	}
	if x.f.Kind != "none" && x.f.At == 0 && x.f.stopInFetch() == 0 {
		what := "first-page-fetch"
		if x.f.Kind == "iter" {
			what = "first-iterator"
		}
		x.st.ctorFaults++
		if err == nil {
			ret := "usable-paginator"
			if x.p == nil {
				ret = "nil-paginator"
			}
			x.fail(fmt.Sprintf("constructor-failure-not-reported:kind=%s:failure=%s:returned=%s", x.kind, what, ret),
				"the "+what+" failed with an injected error and the constructor returned a nil error")
		} else {
			x.st.class["ctor=error"]++
		}
		return false
	}
	if err != nil || x.p == nil {
		x.fail(fmt.Sprintf("constructor-failed-without-fault:kind=%s", x.kind), fmt.Sprintf("err=%v paginator-nil=%v", err, x.p == nil))
		return false
	}
	x.st.class["ctor=ok"]++
	return true
}

type result struct {
	beforeStop bool // op 'g': the item came back before the concurrent stop had completed
	has  bool // HasNext true / GetNext returned an item
	item int
	err  error
	pan  any
}

func (x *exec) call(op byte) (r result) {
	defer func() {
		if p := recover(); p != nil {
			r.pan = p
		}
	}()
	switch op {
	case 'H':
		r.has = x.p.HasNext()
	case 'G':
		v, err := x.p.GetNext()
		r.err = err
		if err == nil {
			r.has = true
			i, ok := v.(int)
			if !ok {
				i = -1
			}
			r.item = i
		}
	case 'g', 'j':
		// GetNext while another goroutine stops the iteration half a back-off ('g') / one and a half back-offs ('j') later
		// (virtual time; stream cases only)
		stopperDone := make(chan struct{})
		delay := x.backoff / 2
		if op == 'j' {
			delay = 3 * x.backoff / 2
		}
		go func() {
			defer close(stopperDone)
			time.Sleep(delay)
			x.p.Stop()()
			x.stopMu.Lock()
			if x.stopped == 0 {
				x.stopped = 'S'
			}
			x.stopMu.Unlock()
		}()
		v, err := x.p.GetNext()
		x.stopMu.Lock()
		stoppedBeforeReturn := x.stopped != 0
		x.stopMu.Unlock()
		<-stopperDone
		r.err = err
		if err == nil {
			r.has = true
			i, ok := v.(int)
			if !ok {
				i = -1
			}
			r.item = i
			if !stoppedBeforeReturn {
				r.beforeStop = true // the item was handed over before the stop completed: allowed
			}
		}
	case 'N':
		// a consumer looks ahead: it fetches the page after the current one through the paginator's exported FetchNextPage
		// (static-page paginators). Looking is not moving: the iteration goes on exactly as if nobody had looked
		if pf, ok := x.p.(interface {
			GetCurrentPage() (pagination.IStaticPage, error)
			FetchNextPage(context.Context, pagination.IStaticPage) (pagination.IStaticPage, error)
		}); ok {
			if cur, err := pf.GetCurrentPage(); err == nil && cur != nil && cur.HasNext() {
				_, r.err = pf.FetchNextPage(context.Background(), cur)
			}
		}
	case 'S':
		x.p.Stop()()
	case 'C':
		r.err = x.p.Close()
	case 'X':
		x.cancel()
	case 'D':
		r.err = x.sp.DryUp()
	case 'w':
		time.Sleep(grace / 2)
	case 'W':
		time.Sleep(grace)
	}
	return
}

// step applies one call to the implementation and to the model and evaluates the oracle. It returns whether the
// call produced "an item is there" (HasNext true / GetNext item).
func (x *exec) step(op byte) bool {
	x.src.events = x.src.events[:0]
	r := x.call(op)
	if op == 'g' || op == 'j' {
		op = 'G' // judged as a GetNext; the concurrent stop is in x.stopped / r.beforeStop
		x.trace = append(x.trace, '~')
	}
	x.st.transitions++
	now := time.Now()
	if r.pan != nil {
		if _, ok := r.pan.(runaway); ok {
			x.trace = append(x.trace, op, '!', ' ')
			x.fail(fmt.Sprintf("runaway-loop:kind=%s:op=%c", x.kind, op), "more than 20000 calls into the pages/fetchers during one execution")
		} else {
			x.trace = append(x.trace, op, '!', ' ')
			x.fail(fmt.Sprintf("panic:kind=%s:op=%c", x.kind, op), fmt.Sprint(r.pan))
		}
		return false
	}
	if op == 'N' { // the look-ahead's own fetch is not a move of the paginator: the reference cursor stays where it is
		x.src.events = x.src.events[:0]
		x.trace = append(x.trace, 'N', ' ')
		return false
	}
	// --- what the fetchers saw during the call
	failedFetch := false
	for _, e := range x.src.events {
		switch {
		case e.link == 'I':
			failedFetch = true // the page was fetched but is unusable: same standing as a failed fetch for this call
		case e.ok:
			x.cp = e.to
			if e.link == 'F' && x.dry {
				ref := x.dryTime
				if x.lastItem.After(ref) {
					ref = x.lastItem
				}
				if e.at.Sub(ref) >= grace {
					if x.illegal < 0 {
						x.illegal = e.to
					}
				} else if e.at.Sub(x.dryTime) >= grace || e.at.Sub(x.lastHTrue) >= grace {
					x.st.ambiguousCross++
				} else {
					x.st.class["future-link=crossed-within-grace"]++
				}
			} else if e.link == 'F' {
				x.st.class["future-link=crossed-not-dry"]++
			}
		case e.injected:
			failedFetch = true
		}
	}
	switch op {
	case 'S', 'C', 'X':
		if x.stopped == 0 {
			x.stopped = op
		}
		x.trace = append(x.trace, op, ' ')
		x.prevH = -1
		return false
	case 'D':
		if !x.dry {
			x.dry, x.dryTime = true, now
		}
		x.trace = append(x.trace, op, ' ')
		x.prevH = -1
		return false
	case 'w', 'W':
		x.trace = append(x.trace, op, ' ')
		x.prevH = -1
		return false
	}
	// --- HasNext / GetNext
	if op == 'H' {
		c := byte('f')
		if r.has {
			c = 't'
		}
		x.trace = append(x.trace, 'H', '=', c, ' ')
	} else if r.has {
		x.trace = append(strconv.AppendInt(append(x.trace, 'G', '='), int64(r.item), 10), ' ')
	} else {
		x.trace = append(x.trace, 'G', '=', 'e', ' ')
	}
	if !x.inLoop {
		switch {
		case op == 'H' && r.has:
			x.answers = append(x.answers, 't')
		case op == 'H':
			x.answers = append(x.answers, 'f')
		case r.has:
			x.answers = append(x.answers, 'i', byte(r.item))
		default:
			x.answers = append(x.answers, 'e')
		}
	}
	e := x.expected()
	opn := "HasNext"
	if op == 'G' {
		opn = "GetNext"
	}
	if r.has {
		switch {
		case x.stopped != 0 && !r.beforeStop:
			x.fail(fmt.Sprintf("yield-after-stop:kind=%s:op=%s:stopped-by=%c", x.kind, opn, x.stopped), "R3: the iteration was stopped/closed/cancelled before this call returned its item")
		case e < 0:
			x.fail(fmt.Sprintf("phantom-item:kind=%s:op=%s", x.kind, opn), "R1: every item was already yielded (or lost with its page)")
		case op == 'G' && r.item != e:
			class := "skipped"
			if r.item < e {
				class = "duplicated-or-reordered"
			}
			x.fail(fmt.Sprintf("wrong-item:kind=%s:class=%s:%s", x.kind, class, x.shape()), fmt.Sprintf("R1: GetNext yielded item %d, the model's cursor is at item %d", r.item, e))
		case x.illegal >= 0 && x.c.pgOf[e] >= x.illegal:
			x.fail(fmt.Sprintf("future-page-yielded-after-grace:kind=%s:op=%s", x.kind, opn), fmt.Sprintf("R5: page %d was fetched through a future link although DryUp had been called and the grace period had passed since DryUp, since the last HasNext()==true and since the last item", x.illegal))
		}
		if op == 'G' {
			x.pos = r.item + 1
			x.st.class["GetNext=item"]++
		} else {
			x.lastHTrue = now
			x.st.class["HasNext=true"]++
		}
		x.lastItem = now
	} else {
		why := ""
		switch {
		case x.stopped != 0:
			why = "stopped"
		case e < 0:
			why = "end"
		case failedFetch:
			why = "fetch-failed"
		case x.cp < len(x.src.lost) && x.src.lost[x.cp]:
			why = "iterator-failed"
		case x.c.pgOf[e] <= x.cp:
			x.fail(fmt.Sprintf("no-item-although-current-page-has-items:kind=%s:op=%s", x.kind, opn), fmt.Sprintf("R1: item %d of the current page %d was not offered", e, x.cp))
		case x.c.Links[x.cp] == 'N':
			x.fail(fmt.Sprintf("ended-early:kind=%s:op=%s:before=next-page:%s", x.kind, opn, x.shape()), fmt.Sprintf("R1: item %d is still to come (page %d), nothing failed and nothing was stopped", e, x.c.pgOf[e]))
		default: // a future link is in the way
			ref := x.dryTime
			if x.lastHTrue.Before(ref) {
				ref = x.lastHTrue
			}
			switch {
			case !x.dry:
				x.fail(fmt.Sprintf("stream-ended-early:kind=%s:op=%s:told=no", x.kind, opn), fmt.Sprintf("R5: item %d is on a future page and DryUp was never called", e))
			case now.Sub(ref) < grace:
				x.fail(fmt.Sprintf("stream-ended-early:kind=%s:op=%s:told=yes:grace=not-elapsed", x.kind, opn), fmt.Sprintf("R5: item %d is on a future page; DryUp %v ago, last HasNext()==true %v ago, grace %v", e, now.Sub(x.dryTime), now.Sub(x.lastHTrue), grace))
			case strictFromDryUp && now.Sub(x.dryTime) < grace:
				x.fail(fmt.Sprintf("stream-ended-early:kind=%s:op=%s:told=yes:grace=not-elapsed-since-DryUp", x.kind, opn), fmt.Sprintf("strict reading (not the registered one): item %d is on a future page; DryUp only %v ago, grace %v", e, now.Sub(x.dryTime), grace))
			default:
				why = "grace-elapsed"
				if now.Sub(x.dryTime) < grace {
					x.st.ambiguousStopA++ // stops although less than a grace period since DryUp (reading "from DryUp")
				}
				if now.Sub(x.lastItem) < grace {
					x.st.ambiguousStopB++ // stops although an item was yielded less than a grace period ago
				}
			}
		}
		if why != "" {
			k := x.st.noKeys[opn][why]
			if k == "" {
				if x.st.noKeys[opn] == nil {
					x.st.noKeys[opn] = map[string]string{}
				}
				k = opn + "=no:" + why
				x.st.noKeys[opn][why] = k
			}
			x.st.class[k]++
		}
	}
	// --- HasNext is idempotent
	if op == 'H' {
		h := 0
		if r.has {
			h = 1
		}
		if x.prevH >= 0 && x.prevH != h && !failedFetch && !x.prevHFail && x.vio == nil {
			x.fail(fmt.Sprintf("HasNext-not-idempotent:kind=%s:first=%v", x.kind, x.prevH == 1), "two consecutive HasNext calls (nothing in between, no failing fetch) disagree")
		}
		x.prevH, x.prevHFail = h, failedFetch
	} else {
		if x.prevH == 1 && !r.has && x.stopped == 0 && x.vio == nil {
			x.fail(fmt.Sprintf("HasNext-true-then-GetNext-failed:kind=%s", x.kind), fmt.Sprintf("GetNext error: %v", r.err))
		}
		x.prevH = -1
	}
	return r.has
}

func (x *exec) stateKey() uint64 {
	h := uint64(1469598103934665603)
	mix := func(v uint64) { h = (h ^ v) * 1099511628211 }
	mix(uint64(x.pos))
	mix(uint64(x.cp))
	mix(uint64(x.stopped))
	if x.dry {
		mix(uint64(x.dryTime.Sub(x.start)) + 1)
	} else {
		mix(0)
	}
	if x.stream {
		mix(uint64(time.Since(x.start)))
		mix(uint64(x.lastHTrue.Sub(x.start)))
	}
	mix(uint64(x.src.failsLeft))
	for i, l := range x.src.lost {
		if l {
			mix(uint64(i) + 77)
		}
	}
	mix(uint64(x.prevH + 1))
	return h
}

// run executes script + the canonical loop on a fresh paginator.
func (x *exec) run(script []byte) {
	x.scr = string(script)
	x.trace, x.answers, x.inLoop = x.trace[:0], x.answers[:0], false
	x.pos, x.stopped, x.dry, x.cp, x.vio, x.sig, x.step_ = 0, 0, false, 0, nil, "", 0
	defer func() {
		if x.cancel != nil {
			x.cancel()
		}
	}()
	if !x.construct() {
		return
	}
	x.st.states[x.stateKey()] = struct{}{}
	for _, op := range script {
		x.step(op)
		if x.vio != nil {
			return
		}
		x.st.states[x.stateKey()] = struct{}{}
		x.step_++
	}
	x.trace = append(x.trace, '|', ' ')
	x.inLoop = true
	for i := 0; ; i++ {
		if i > x.c.total+1 {
			x.fail("iteration-does-not-end:kind="+x.kind, "the canonical loop went round more often than there are items")
			return
		}
		has := x.step('H')
		x.step_++
		if x.vio != nil || !has {
			break
		}
		x.step('G')
		x.step_++
		if x.vio != nil {
			break
		}
		x.st.states[x.stateKey()] = struct{}{}
	}
	if x.vio == nil {
		x.st.states[x.stateKey()] = struct{}{}
	}
}

// ---- enumeration -----------------------------------------------------------------------------------

type violAcc struct {
	batch int
	first *violation
	n     int64
}

type stats struct {
	viols          map[string]*violAcc
	states         map[uint64]struct{}
	transitions    int64
	executions     int64
	validated      int64
	ctorFaults     int64
	ambiguousCross int64
	ambiguousStopA int64
	ambiguousStopB int64
	class          map[string]int64
	noKeys         map[string]map[string]string
	outcomes       map[uint64]struct{}
	yielded        map[int]int64
}

func newStats() *stats {
	return &stats{viols: map[string]*violAcc{}, states: map[uint64]struct{}{}, class: map[string]int64{}, noKeys: map[string]map[string]string{}, outcomes: map[uint64]struct{}{}, yielded: map[int]int64{}}
}

type batch struct {
	kind    string
	c       *coll
	f       fault
	honour  bool
	backoff time.Duration
	alpha   string
	maxLen  int
	id      int
}

func hashBytes(b []byte, seed uint64) uint64 {
	h := uint64(1469598103934665603) ^ seed
	for _, c := range b {
		h = (h ^ uint64(c)) * 1099511628211
	}
	return h
}

type sample struct {
	Case  caseDesc `json:"case"`
	Trace string   `json:"trace"`
}

// runBatch executes every script of the batch. Must run inside a bubble for the stream kinds.
func runBatch(b batch, rep *ev.Reporter, st *stats, samples *[]sample) {
	x := &exec{kind: b.kind, c: b.c, f: b.f, honour: b.honour, backoff: b.backoff, stream: isStream(b.kind), st: st}
	local := map[uint64]struct{}{}
	st.states = local
	script := make([]byte, 0, b.maxLen)
	n := 0
	one := func() {
		x.run(script)
		st.executions++
		n++
		if x.vio != nil {
			v := st.viols[x.sig]
			if v == nil {
				v = &violAcc{batch: b.id, first: x.vio}
				st.viols[x.sig] = v
			} else if b.id < v.batch {
				v.batch, v.first = b.id, x.vio
			}
			v.n++
			return
		}
		st.validated++
		st.yielded[x.pos]++
		st.outcomes[hashBytes(x.answers, uint64(x.pos))] = struct{}{}
		if samples != nil && (n%997 == 611 || b.maxLen == 0) && len(*samples) < 2 {
			*samples = append(*samples, sample{x.desc(), string(x.trace)})
		}
	}
	if b.f.Kind != "none" && b.f.At == 0 {
		one() // constructor case: no script
		return
	}
	var rec func()
	rec = func() {
		one()
		if len(script) == b.maxLen {
			return
		}
		for i := 0; i < len(b.alpha); i++ {
			script = append(script, b.alpha[i])
			rec()
			script = script[:len(script)-1]
		}
	}
	rec()
}

func sizeSeqs(maxPages, maxItems int) [][]int {
	out := [][]int{{}}
	var rec func(cur []int)
	rec = func(cur []int) {
		if len(cur) > 0 {
			out = append(out, append([]int(nil), cur...))
		}
		if len(cur) == maxPages {
			return
		}
		for s := 0; s <= maxItems; s++ {
			rec(append(cur, s))
		}
	}
	rec(nil)
	return out
}

func linkStrings(n int, stream bool) []string {
	if n <= 0 {
		return []string{""}
	}
	if !stream {
		return []string{strings.Repeat("N", n)}
	}
	out := []string{}
	for m := 0; m < 1<<n; m++ {
		b := make([]byte, n)
		for i := range b {
			if m>>i&1 == 1 {
				b[i] = 'F'
			} else {
				b[i] = 'N'
			}
		}
		out = append(out, string(b))
	}
	return out
}

func rep20(a ...int) []int {
	out := make([]int, 20)
	for i := range out {
		out[i] = a[i%len(a)]
	}
	return out
}

func faultsFor(c *coll, ctor bool) []fault {
	fs := []fault{}
	if ctor {
		fs = append(fs, fault{"fetch", 0})
		if len(c.Sizes) > 0 {
			fs = append(fs, fault{"iter", 0})
		}
		return fs
	}
	for k := 1; k < len(c.Sizes); k++ {
		fs = append(fs, fault{"fetch", k}, fault{"fetch-once", k}, fault{"iter", k})
		fs = append(fs, fault{"stop-in-fetch", k}, fault{"close-in-fetch", k}, fault{"cancel-in-fetch", k})
	}
	return fs
}

type bounds struct {
	Pages, Items           int
	LenPlain, LenPlainF    int // non-stream: script length without / with a fault
	PagesS                 int
	LenStream, LenStreamF  int
	PagesS2, LenStream2    int // a second, wider and shallower stream sweep
	PagesS3, LenStream3    int // thorough: a third one in between
	LenLong                int
	Backoffs               []time.Duration
	PagesSBackoff, LenSBkf int
}

func plan(thorough bool) (bs []batch, bd bounds) {
	bd = bounds{Pages: 3, Items: 2, LenPlain: 5, LenPlainF: 4, PagesS: 2, LenStream: 5, LenStreamF: 3, PagesS2: 3, LenStream2: 4, LenLong: 2,
		Backoffs: []time.Duration{0, grace / 4, grace / 2}, PagesSBackoff: 3, LenSBkf: 3}
	if thorough {
		bd = bounds{Pages: 4, Items: 2, LenPlain: 6, LenPlainF: 5, PagesS: 2, LenStream: 6, LenStreamF: 4, PagesS2: 4, LenStream2: 4, LenLong: 3, PagesS3: 3, LenStream3: 5,
			Backoffs: []time.Duration{0, grace / 4, grace / 2, 3 * time.Millisecond}, PagesSBackoff: 4, LenSBkf: 4}
	}
	const plainAlpha, streamAlpha = "HGSCX", "HGDwWSCX"
	add := func(b batch) { b.id = len(bs); bs = append(bs, b) }
	long := [][]int{rep20(10), rep20(0, 10), rep20(0), append(rep20(0)[:19], 1), rep20(3, 0, 0, 7), rep20(10, 0)}
	for _, kind := range kinds {
		stream := isStream(kind)
		if !stream {
			for _, sz := range sizeSeqs(bd.Pages, bd.Items) {
				c := newColl(sz, linkStrings(len(sz)-1, false)[0])
				for _, honour := range []bool{true, false} {
					add(batch{kind: kind, c: c, f: fault{Kind: "none"}, honour: honour, alpha: plainAlpha, maxLen: bd.LenPlain})
					for _, f := range faultsFor(c, false) {
						add(batch{kind: kind, c: c, f: f, honour: honour, alpha: plainAlpha, maxLen: bd.LenPlainF})
					}
				}
				for _, f := range faultsFor(c, true) {
					add(batch{kind: kind, c: c, f: f, honour: true})
				}
				if kind == "static" { // look-aheads between the calls of the iteration
					add(batch{kind: kind, c: c, f: fault{Kind: "none"}, honour: true, alpha: "HGN", maxLen: bd.LenPlain})
				}
			}
			for _, sz := range long {
				c := newColl(sz, strings.Repeat("N", 19))
				add(batch{kind: kind, c: c, f: fault{Kind: "none"}, honour: true, alpha: plainAlpha, maxLen: bd.LenLong + 1})
				for _, k := range []int{1, 10, 19} {
					add(batch{kind: kind, c: c, f: fault{"fetch", k}, honour: true, alpha: "HG", maxLen: bd.LenLong})
					add(batch{kind: kind, c: c, f: fault{"fetch-once", k}, honour: true, alpha: "HG", maxLen: bd.LenLong})
					add(batch{kind: kind, c: c, f: fault{"iter", k}, honour: true, alpha: "HG", maxLen: bd.LenLong})
					for _, sk := range []string{"stop-in-fetch", "close-in-fetch", "cancel-in-fetch"} {
						add(batch{kind: kind, c: c, f: fault{sk, k}, honour: false, alpha: "HG", maxLen: bd.LenLong})
					}
				}
			}
			continue
		}
		seen := map[string]bool{}
		sweep := func(pages, l, lf int, backoffs []time.Duration, honours []bool) {
			for _, sz := range sizeSeqs(pages, bd.Items) {
				for _, links := range linkStrings(len(sz)-1, true) {
					c := newColl(sz, links)
					for _, bo := range backoffs {
						for _, honour := range honours {
							key := fmt.Sprintf("%s|%s|%d|%v|%d", kind, c, bo, honour, l)
							if seen[key] {
								continue
							}
							seen[key] = true
							add(batch{kind: kind, c: c, f: fault{Kind: "none"}, honour: honour, backoff: bo, alpha: streamAlpha, maxLen: l})
							if lf > 0 {
								for _, f := range faultsFor(c, false) {
									add(batch{kind: kind, c: c, f: f, honour: honour, backoff: bo, alpha: streamAlpha, maxLen: lf})
								}
							}
						}
					}
				}
			}
		}
		sweep(bd.PagesS, bd.LenStream, bd.LenStreamF, []time.Duration{0}, []bool{true, false})
		if bd.PagesS3 > 0 {
			sweep(bd.PagesS3, bd.LenStream3, bd.LenStreamF, []time.Duration{0}, []bool{true, false})
		}
		sweep(bd.PagesS2, bd.LenStream2, bd.LenStreamF-1, []time.Duration{0}, []bool{true})
		sweep(bd.PagesSBackoff, bd.LenSBkf, bd.LenSBkf-1, bd.Backoffs[1:], []bool{true})
		// GetNext with a Stop from another goroutine half a back-off ('g') or one and a half back-offs ('j') later, mixed with HasNext / GetNext / DryUp
		for _, sz := range sizeSeqs(bd.PagesSBackoff, bd.Items) {
			for _, links := range linkStrings(len(sz)-1, true) {
				c := newColl(sz, links)
				for _, bo := range bd.Backoffs[1:] {
					add(batch{kind: kind, c: c, f: fault{Kind: "none"}, honour: true, backoff: bo, alpha: "HGgjD", maxLen: 3})
				}
			}
		}
		for _, sz := range sizeSeqs(bd.PagesS2, bd.Items) {
			for _, links := range linkStrings(len(sz)-1, true) {
				c := newColl(sz, links)
				for _, f := range faultsFor(c, true) {
					add(batch{kind: kind, c: c, f: f, honour: true})
				}
			}
		}
		for _, sz := range long {
			for _, links := range []string{strings.Repeat("F", 19), strings.Repeat("NF", 10)[:19], strings.Repeat("FFN", 7)[:19]} {
				c := newColl(sz, links)
				for _, bo := range bd.Backoffs[:2] {
					add(batch{kind: kind, c: c, f: fault{Kind: "none"}, honour: true, backoff: bo, alpha: "HGDwW", maxLen: bd.LenLong})
				}
				add(batch{kind: kind, c: c, f: fault{"fetch-once", 10}, honour: true, alpha: "HGD", maxLen: bd.LenLong})
			}
		}
	}
	return
}

// ---- the test ---------------------------------------------------------------------------------------

func runOne(t *testing.T, b batch, rep *ev.Reporter, st *stats, samples *[]sample) {
	if !isStream(b.kind) {
		runBatch(b, rep, st, samples)
		return
	}
	synctest.Test(t, func(t *testing.T) { runBatch(b, rep, st, samples) })
}

func TestC19(t *testing.T) {
	rep := ev.NewReporter("C19", "model_checking")
	if path := os.Getenv("VERIF_REPLAY"); path != "" {
		replay(t, rep, path)
		return
	}
	bs, bd := plan(ev.Thorough())
	// big batches first
	order := make([]int, len(bs))
	for i := range order {
		order[i] = i
	}
	weight := func(b batch) float64 {
		w := 1.0
		for i := 0; i < b.maxLen; i++ {
			w *= float64(len(b.alpha))
		}
		return w * float64(b.c.total+4)
	}
	sort.SliceStable(order, func(i, j int) bool { return weight(bs[order[i]]) > weight(bs[order[j]]) })

	workers := runtime.NumCPU()
	if workers > 16 {
		workers = 16
	}
	all := make([]*stats, workers)
	smp := make([][]sample, len(bs))
	var next atomic.Int64
	var nStates atomic.Int64
	var wg sync.WaitGroup
	for w := 0; w < workers; w++ {
		st := newStats()
		all[w] = st
		wg.Add(1)
		go func() {
			defer wg.Done()
			for {
				i := int(next.Add(1)) - 1
				if i >= len(order) {
					return
				}
				b := bs[order[i]]
				var sp *[]sample
				if b.id%53 == 7 || b.f.At == 0 && b.f.Kind != "none" && b.id%211 == 3 {
					sp = &smp[b.id]
				}
				runOne(t, b, rep, st, sp)
				nStates.Add(int64(len(st.states))) // states of different batches are different states (the collection is part of the state)
				st.states = nil
			}
		}()
	}
	wg.Wait()

	tot := newStats()
	for _, st := range all {
		for sig, v := range st.viols {
			if w := tot.viols[sig]; w == nil {
				tot.viols[sig] = &violAcc{v.batch, v.first, v.n}
			} else {
				if v.batch < w.batch {
					w.batch, w.first = v.batch, v.first
				}
				w.n += v.n
			}
		}
		tot.transitions += st.transitions
		tot.executions += st.executions
		tot.validated += st.validated
		tot.ctorFaults += st.ctorFaults
		tot.ambiguousCross += st.ambiguousCross
		tot.ambiguousStopA += st.ambiguousStopA
		tot.ambiguousStopB += st.ambiguousStopB
		for k, v := range st.class {
			tot.class[k] += v
		}
		for k, v := range st.yielded {
			tot.yielded[k] += v
		}
		for k := range st.outcomes {
			tot.outcomes[k] = struct{}{}
		}
	}
	for sig, v := range tot.viols {
		rep.ViolationN(sig, v.first, v.n)
	}
	var samples []any
	perKindS := map[string]int{}
	for pass := 0; pass < 2; pass++ { // first pass: executions that yielded something through GetNext in the script
		for _, s := range smp {
			for _, x := range s {
				interesting := strings.Contains(x.Trace, "G=0") && strings.Contains(x.Case.Script, "G")
				if (pass == 0) != interesting || perKindS[x.Case.Kind] >= 3 {
					continue
				}
				perKindS[x.Case.Kind]++
				samples = append(samples, x)
			}
		}
	}
	perKind := map[string]int{}
	for _, b := range bs {
		perKind[b.kind]++
	}
	rep.Coverage["states"] = nStates.Load()
	rep.Coverage["transitions"] = tot.transitions
	rep.Coverage["traces_validated_against_impl"] = tot.validated
	rep.Coverage["executions"] = tot.executions
	rep.Coverage["batches"] = len(bs)
	rep.Coverage["batches_per_paginator"] = perKind
	rep.Coverage["constructor_fault_cases"] = tot.ctorFaults
	rep.Coverage["distinct_observed_outcomes"] = len(tot.outcomes)
	rep.Coverage["distinct_observed_outcomes_rule"] = "distinct (answers of the HasNext/GetNext calls of the script, in order; number of items yielded in total) over all executions, whatever the collection"
	rep.Coverage["result_classes"] = tot.class
	rep.Coverage["items_yielded_per_execution_histogram"] = tot.yielded
	rep.Coverage["stream_ambiguous_decisions"] = map[string]int64{
		"future_link_crossed_where_readings_differ":                    tot.ambiguousCross,
		"gave_up_less_than_a_grace_period_after_DryUp":                 tot.ambiguousStopA,
		"gave_up_less_than_a_grace_period_after_the_last_yielded_item": tot.ambiguousStopB,
	}
	rep.Coverage["bound"] = map[string]any{
		"plain_pages_max": bd.Pages, "items_per_page_max": bd.Items, "plain_script_len": bd.LenPlain, "plain_script_len_with_fault": bd.LenPlainF,
		"stream_pages_max_deep": bd.PagesS, "stream_script_len_deep": bd.LenStream, "stream_script_len_with_fault": bd.LenStreamF,
		"stream_pages_max_wide": bd.PagesS2, "stream_script_len_wide": bd.LenStream2,
		"stream_pages_max_mid": bd.PagesS3, "stream_script_len_mid": bd.LenStream3,
		"stream_backoff_sweep": fmt.Sprintf("pages<=%d len<=%d backoffs=%v", bd.PagesSBackoff, bd.LenSBkf, bd.Backoffs),
		"long_collections":     "20 pages of {10 | 0,10 | 0 | 0..0,1 | 3,0,0,7 | 10,0} items, script len <= " + fmt.Sprint(bd.LenLong+1),
		"plain_alphabet":       "H G S C X", "stream_alphabet": "H G D w(grace/2) W(grace) S C X", "grace": grace.String(),
		"faults": "page fetch k fails always / once, iterator of page k fails, k>=1; k=0 = constructor case",
	}
	rep.Coverage["exhaustive"] = true
	rep.Coverage["samples"] = samples
	rep.Coverage["explanation"] = "states = distinct model states (collection, fault, cursor, current page, stopped, dry + virtual instants for streams) reached; transitions = calls executed on the real paginators; an execution = one script + the canonical loop on a fresh paginator, validated = its whole answer trace is a trace of the reference model"
	rep.Assume = []string{
		"scripted pages/iterators/fetchers (deterministic); item iterators never fail (R6)",
		"stream grace-period reference point: weakest reading R5 (see the head of c19_test.go)",
		"sequential use of one paginator (no concurrent callers)",
	}
	rep.Finish()
}

func replay(t *testing.T, rep *ev.Reporter, path string) {
	raw, err := os.ReadFile(path)
	if err != nil {
		rep.EngineError("cannot read replay: %v", err)
		rep.Finish()
		return
	}
	var doc struct {
		Replay violation `json:"replay"`
	}
	if err := json.Unmarshal(raw, &doc); err != nil {
		rep.EngineError("replay does not parse: %v", err)
		rep.Finish()
		return
	}
	cd := doc.Replay.Case
	b := batch{kind: cd.Kind, c: newColl(cd.Sizes, cd.Links), f: fault{cd.Fault, cd.FaultAt}, honour: cd.HonourCtx, backoff: time.Duration(cd.BackoffNs)}
	st := newStats()
	body := func() {
		x := &exec{kind: b.kind, c: b.c, f: b.f, honour: b.honour, backoff: b.backoff, stream: isStream(b.kind), st: st}
		x.run([]byte(cd.Script))
		fmt.Printf("REPLAY kind=%s pages=%s fault=%s script=%q trace=%q\n", b.kind, b.c, b.f, cd.Script, string(x.trace))
		if x.vio != nil {
			rep.Violation(x.sig, x.vio)
		}
	}
	if isStream(b.kind) {
		synctest.Test(t, func(t *testing.T) { body() })
	} else {
		body()
	}
	rep.Coverage["states"] = len(st.states) + 1 // + the initial state (a failing constructor leaves nothing else)
	rep.Coverage["transitions"] = st.transitions + 1
	rep.Coverage["traces_validated_against_impl"] = 0
	rep.Coverage["replay_of"] = path
	rep.Coverage["samples"] = []any{cd}
	rep.Finish()
}

#!/bin/bash
# Regenerates the instrumented copy of lockfile.go (from /repo's working tree): IsStale announces its calls, so that the
# monitor of the racing-override scenarios can tell how many staleness checks preceded a removal.
set -e
cd "$(dirname "$(readlink -f "$0")")/../.."
export GOFLAGS=-mod=mod GOPROXY=off GOTOOLCHAIN=local
mkdir -p .build/bin
go1.26 build -o .build/bin/instr-C17 ./engine/instr
VERIF_ROOT="$PWD" .build/bin/instr-C17 -id C17 -out "$PWD/.build/instr-C17" -events filesystem/lockfile.go:IsStale,Unlock

// C17 — stale-lock detection is sound: live locks are safe, dead ones recover.
//
// (a) live holder, on-time mode: heart beats are never late; observers poll IsStale / ReleaseIfStale / TryLock at
//
//	every phase of the heart-beat cycle; every interleaving within the deviation bound; nothing may be reported
//	stale, released or taken over.
//
// (b) live holder, adversarial mode: the heart beat may be starved by delaying ticks; oracle = first sentence of the
//
//	property literally: a stale verdict needs more than two periods without any heart-beat write.
//
// (c) death points: the holder's process stops before / during (short write) every one of its backend operations;
//
//	then the lock must be reported stale within 2 periods + 2 ms, ReleaseIfStale + a new acquire must succeed, and
//	two racing recoverers must not wedge the lock.
package c17

import (
	"context"
	"errors"
	"fmt"
	"os"
	"runtime"
	"sort"
	"strings"
	"testing"
	"time"

	"github.com/ARM-software/golang-utils/utils/filesystem"
	deadlock "github.com/sasha-s/go-deadlock"
	"github.com/spf13/afero"

	ev "verif/engine/evidence"
	"verif/engine/gosim"
	"verif/engine/vfsx"

	"github.com/ARM-software/golang-utils/utils/verifrt"
)

func TestMain(m *testing.M) {
	deadlock.Opts.Disable = true
	ev.Main(m)
}

const (
	lockRoot = "/locks"
	lockID   = "L"
	lockDir  = lockRoot + "/" + filesystem.LockFilePrefix + "-" + lockID
	hbFile   = lockDir + "/" + lockID + ".lock"
	period   = 50 * time.Millisecond
)

type observer struct {
	Calls []string      // IsStale | ReleaseIfStale | TryLock | TryLock-override
	Gap   time.Duration // virtual sleep before each call
	// Offset delays the first call. Long polling scenarios use distinct sub-millisecond offsets so that no
	// poll coincides with a heart beat or another poll: then they are one forced execution, whatever the length
	// of the hold (coincidences — the actual races — are explored exhaustively by the short scenarios).
	Offset time.Duration
}

type scenario struct {
	Name      string
	Mode      string // ontime | glitch | adversarial | death
	Backend   string
	HoldBeats int
	Observers []observer
	Bound     int
	// death mode
	KillAt    int  // the holder's process stops before its KillAt-th backend operation (1-based)
	ShortKill bool // ... or during it, if it is a write (half of the bytes reach the file)
	Racers    int  // number of racing recoverers (1 or 2)
	Override  bool // the recoverers call TryLock with stale-lock override instead of IsStale / ReleaseIfStale / TryLock
	// CtxDeath (death mode): the holder does not stop as a process; the context it acquired with (one that carries a far
	// deadline) is cancelled after CtxDeath of holding, and it never unlocks
	CtxDeath time.Duration
	// OwnObject (death mode, with CtxDeath): the recoverer works through the dead holder's own lock object (a long-lived
	// worker reusing one lock object across jobs) instead of objects of its own
	OwnObject bool
	// SlowSync: File.Sync takes that long on the backend (virtual time; the caller is blocked in the call). The lock protocol
	// never syncs: the scenario costs nothing as long as that stays so
	SlowSync time.Duration
	// ObserverIDSuffix: what the observers' lock id has after the holder's ("\n": an id read from a file)
	ObserverIDSuffix string
	// glitch mode: the holder's GlitchAt-th backend operation after its Mkdir of the lock directory fails once with a
	// transient error (the backend is left untouched by that operation); everything else is on time
	GlitchAt int
	// GlitchFor > 0 (glitch mode): instead of one operation, every OpenFile of the heart-beat file fails from the holder's
	// GlitchAt-th operation on, for GlitchFor operations of that kind (a process out of descriptors, a read-only remount):
	// the content cannot be rewritten, the path-based stamp still goes through
	GlitchFor int
	// Reentrant > 0: while the lock is held through a lock object, another goroutine calls LockWithTimeout(Reentrant) on
	// that same object (a shared ILock, a re-entrant attempt); it cannot get the lock, and the holder's heart beat must go on
	Reentrant time.Duration
}

type world struct {
	x        *gosim.Exec
	sc       scenario
	holding  bool // the holder's acquire returned and it has not begun to release
	dirOwner int  // client whose Mkdir created the present lock directory (-1: none)
	lost     bool // the holder's directory was removed by somebody else (after that, nothing is "the holder's lock" any more)
	lastBeat time.Time
	// per client: silence (decision time - last beat) observed at its latest Stat of the heart-beat file / lock directory
	silence   map[int]time.Duration
	holderOps int
	deathAt   time.Time
	dead      chan struct{}
	dirAtKill bool
	outcome   []string
	backend   afero.Fs
	killed    bool
	glitchOps int
	glitchN   int
	glitched  string
	// death mode with overriding recoverers: who holds a lock acquired after the recovery (live, beating on time), and
	// how many staleness evaluations each client made since its Mkdir last said "exists"
	// (slices indexed by client, not maps: recoverers woken by the same timer run their un-gated code side by side)
	recHolding []bool
	releasing  []bool
	stale      []int
}

// onTime: the holder's heart beat is never delayed by the schedule (ontime), or only loses one beat to one transient
// backend error (glitch): in both the lock must never be reported stale, released or taken over.
func (sc scenario) onTime() bool { return sc.Mode == "ontime" || sc.Mode == "glitch" }

func (w *world) beforeOp(op *vfsx.Op) *vfsx.Inject {
	if w.sc.SlowSync > 0 && op.Kind == vfsx.KFSync {
		// flushing to stable storage is slow on this backend (a loaded disk); every other call is as quick as ever
		w.x.Note("the backend takes %v over %s", w.sc.SlowSync, op)
		time.Sleep(w.sc.SlowSync)
		return nil
	}
	if w.sc.Mode == "glitch" && op.Client == 0 && w.dirOwner == 0 && w.holding {
		w.glitchOps++
		if w.sc.GlitchFor > 0 {
			if w.glitchOps >= w.sc.GlitchAt && op.Kind == vfsx.KOpenFile && op.Path == hbFile && w.glitchN < w.sc.GlitchFor {
				w.glitchN++
				w.glitched = op.String()
				return &vfsx.Inject{Err: errors.New("too many open files")}
			}
			return nil
		}
		if w.glitchOps == w.sc.GlitchAt {
			w.glitched = op.String()
			w.x.Note("transient error injected into the holder's operation %s", op)
			return &vfsx.Inject{Err: errors.New("input/output error (transient)")}
		}
		return nil
	}
	if w.sc.Mode != "death" || op.Client != 0 || w.killed {
		return nil
	}
	w.holderOps++
	if w.holderOps != w.sc.KillAt {
		return nil
	}
	isWrite := op.Kind == vfsx.KFWrite || op.Kind == vfsx.KFWriteString || op.Kind == vfsx.KFWriteAt
	if w.sc.ShortKill && isWrite && op.Len > 1 {
		// the process stops in the middle of this write: half of the bytes reach the file
		return &vfsx.Inject{Short: op.Len / 2, Err: errors.New("process stopped")}
	}
	w.kill(op, "before")
	return nil
}

func (w *world) kill(op *vfsx.Op, when string) {
	w.killed = true
	w.deathAt = time.Now()
	_, err := w.backend.Stat(lockDir)
	w.dirAtKill = err == nil
	w.x.Note("holder process stops %s its operation #%d %s (lock directory exists: %v)", when, w.holderOps, op, w.dirAtKill)
	w.holding = false
	w.x.KillClient(0)
	close(w.dead)
	runtime.Goexit()
}

func (w *world) afterOp(op *vfsx.Op) {
	if w.sc.Mode == "death" && op.Client == 0 && !w.killed && w.holderOps == w.sc.KillAt && w.sc.ShortKill {
		w.kill(op, "during")
	}
	c := op.Client
	if c == 0 {
		// a heart beat = the creation of the lock, or a write of the heart-beat file's content. The Chtimes
		// fix-ups that follow are not counted (fewer things counted as a beat = the weaker reading of
		// "has written no heartbeat for more than two periods").
		if op.Kind == vfsx.KMkdir && op.Err == nil && op.Path == lockDir {
			w.dirOwner = 0
		}
		if (op.Kind == vfsx.KRemove || op.Kind == vfsx.KRemoveAll) && op.Err == nil && op.Path == lockDir {
			w.dirOwner = -1
		}
		isWrite := op.Kind == vfsx.KFWrite || op.Kind == vfsx.KFWriteString || op.Kind == vfsx.KFWriteAt
		if op.Err == nil && ((op.Kind == vfsx.KMkdir && op.Path == lockDir) || (isWrite && op.Path == hbFile && op.N > 0)) {
			w.lastBeat = time.Now()
		}
		return
	}
	if op.Kind == vfsx.KMkdir && op.Err == nil && op.Path == lockDir {
		w.dirOwner = c
	}
	if op.Kind == vfsx.KMkdir && op.Err != nil && op.Path == lockDir {
		w.stale[c] = 0
	}
	switch op.Kind {
	case vfsx.KStat, vfsx.KLstat, vfsx.KFStat:
		if op.Err == nil && (op.Path == hbFile || op.Path == lockDir) {
			w.silence[c] = time.Since(w.lastBeat)
		}
	case vfsx.KRemove, vfsx.KRemoveAll:
		if op.Err == nil && op.Path == lockDir {
			owner := w.dirOwner
			w.dirOwner = -1
			if owner > 0 && owner != c && w.recHolding[owner] {
				// a recoverer that acquired the lock after the holder's death is alive and its heart beat on time:
				// its lock is a live lock like any other
				site := fmt.Sprintf("override-release:rechecks=%d", w.stale[c]-1)
				if w.releasing[c] {
					site = "Unlock" // the remover is releasing a lock it acquired itself earlier
				}
				w.x.Violate("live-lock-removed:mode=death:victim=recoverer:site="+site, "recoverer %d removed the lock directory that recoverer %d created and holds (heart beat on time)", c, owner)
				return
			}
			if owner != 0 || !w.holding || w.lost {
				return
			}
			w.lost = true
			switch w.sc.Mode {
			case "ontime", "glitch":
				w.x.Violate("live-lock-removed:mode="+w.sc.Mode, "observer %d removed the lock directory of a live holder whose heart beat is on time", c)
			case "adversarial":
				if w.silence[c] <= 2*period {
					w.x.Violate("live-lock-removed:without-two-periods-of-silence", "observer %d removed the live holder's lock although the newest heart-beat write it could have seen was %v old", c, w.silence[c])
				}
			}
		}
	}
}

func newBackend(kind string) afero.Fs {
	if kind == "mem" {
		return afero.NewMemMapFs()
	}
	return vfsx.NewPosixMem()
}

// observerIDSuffix is appended to the lock id the observers of the running scenario use: the lock directory is named after
// the TRIMMED id, so "L" and "L\n" (an id read from a file) are the same lock. Set per execution by body().
var observerIDSuffix string

func newLock(backend afero.Fs, shared *vfsx.Shared, client int, override bool) filesystem.ILock {
	wrapper := vfsx.NewMem(backend, shared, client)
	vfs := filesystem.NewVirtualFileSystem(wrapper, filesystem.InMemoryFS, filesystem.IdentityPathConverterFunc).(*filesystem.VFS)
	id := lockID
	if client > 0 {
		id += observerIDSuffix
	}
	return filesystem.NewGenericRemoteLockFile(vfs, id, lockRoot, override)
}

func body(sc scenario) func(x *gosim.Exec) {
	return func(x *gosim.Exec) {
		observerIDSuffix = sc.ObserverIDSuffix
		w := &world{x: x, sc: sc, recHolding: make([]bool, 16), releasing: make([]bool, 16), stale: make([]int, 16), silence: map[int]time.Duration{}, dead: make(chan struct{}), dirOwner: -1, outcome: make([]string, 1+len(sc.Observers)+sc.Racers)}
		x.User = w
		verifrt.EventHook = func(name string) {
			if th := x.Current(); th != nil && name == "IsStale" {
				w.stale[th.Client]++
			}
		}
		backend := newBackend(sc.Backend)
		w.backend = backend
		_ = backend.MkdirAll(lockRoot, 0o755)
		hook := &gosim.FSHook{X: x, BeforeOp: w.beforeOp, AfterOp: w.afterOp}
		shared := vfsx.NewShared(hook)
		holder := newLock(backend, shared, 0, false)
		acquired := make(chan struct{})
		x.Go("holder", 0, func() {
			if sc.CtxDeath > 0 {
				hctx, cancelDeadline := context.WithTimeout(x.Ctx(), time.Hour)
				defer cancelDeadline()
				hctx, cancel := context.WithCancel(hctx)
				if err := holder.TryLock(hctx); err != nil {
					x.Violate("setup:holder-cannot-acquire", "holder TryLock: %v", err)
					cancel()
					return
				}
				w.holding = true
				close(acquired)
				time.Sleep(sc.CtxDeath)
				x.Gate(0, "holder: its context is cancelled")
				cancel() // the job is over (cancelled, timed out): the holder never unlocks
				w.holding = false
				w.killed = true
				w.deathAt = time.Now()
				w.dirAtKill = true
				w.outcome[0] = "context-cancelled"
				close(w.dead)
				return
			}
			err := holder.TryLock(x.Ctx())
			if err != nil {
				x.Violate("setup:holder-cannot-acquire", "holder TryLock: %v", err)
				return
			}
			w.holding = true
			x.Note("holder ACQUIRED")
			close(acquired)
			time.Sleep(time.Duration(sc.HoldBeats)*period - 3*time.Millisecond)
			x.Gate(0, "holder: begin release") // a harness event other threads' oracles read: it is a scheduled step
			w.holding = false
			x.Note("holder begins release")
			_ = holder.Unlock(x.Ctx())
			w.outcome[0] = "released"
			if sc.Mode == "glitch" {
				w.outcome[0] = "released/no-glitch"
				if w.glitched != "" {
					w.outcome[0] = "released/glitch@" + strings.SplitN(w.glitched, "(", 2)[0]
				}
			}
			if sc.Mode == "death" && !w.killed {
				// the hold has fewer operations than KillAt: nothing was killed; recoverers find a released lock
				w.killed = true
				w.deathAt = time.Now()
				w.dirAtKill = false
				w.outcome[0] = "released-unkilled"
				close(w.dead)
			}
		})
		if sc.Reentrant > 0 {
			x.Go("same-object", 0, func() {
				<-acquired
				time.Sleep(7*time.Millisecond + 300*time.Microsecond)
				err := holder.LockWithTimeout(x.Ctx(), sc.Reentrant)
				x.Note("LockWithTimeout(%v) on the holder's own lock object returned %v", sc.Reentrant, err)
			})
		}
		if sc.Mode != "death" {
			for i, ob := range sc.Observers {
				i, ob := i+1, ob
				lock := newLock(backend, shared, i, false)
				lockO := newLock(backend, shared, i, true)
				x.Go(fmt.Sprintf("obs%d", i), i, func() {
					<-acquired
					time.Sleep(ob.Offset)
					for _, call := range ob.Calls {
						time.Sleep(ob.Gap)
						live := w.holding && !w.lost
						switch call {
						case "IsStale":
							stale := lock.IsStale()
							x.Note("obs%d IsStale=%v (holder live: %v, silence seen %v)", i, stale, live, w.silence[i])
							w.outcome[i] += map[bool]string{true: "S", false: "s"}[stale]
							if stale && live && w.holding && !w.lost {
								if sc.onTime() {
									x.Violate("live-lock-reported-stale:mode="+sc.Mode, "IsStale returned true for a live holder whose heart beat is on time")
								} else if w.silence[i] <= 2*period {
									x.Violate("stale-verdict-without-two-periods-of-silence", "IsStale returned true although the newest heart-beat write was %v old at the deciding Stat", w.silence[i])
								}
							}
						case "ReleaseIfStale":
							err := lock.ReleaseIfStale(x.Ctx())
							w.outcome[i] += "r"
							x.Note("obs%d ReleaseIfStale=%v", i, err)
						case "TryLock", "TryLock-override":
							l := lock
							if call == "TryLock-override" {
								l = lockO
							}
							err := l.TryLock(x.Ctx())
							x.Note("obs%d %s=%v (holder live before: %v, now: %v)", i, call, err, live, w.holding)
							if err == nil {
								w.outcome[i] += "A"
								if live && w.holding && (!w.lost || w.silence[i] <= 2*period) {
									if sc.onTime() {
										x.Violate("live-lock-taken-over:mode="+sc.Mode+":call="+call, "an observer acquired the lock while the holder is alive, holding, and its heart beat on time")
									} else if w.silence[i] <= 2*period {
										x.Violate("live-lock-taken-over:without-two-periods-of-silence:call="+call, "an observer acquired the lock of a live holder; newest heart-beat write seen was %v old", w.silence[i])
									}
								}
								// let the heart-beat goroutine that TryLock just spawned reach its first backend call before
								// Unlock cancels it: "goroutine start versus the spawner's next statement" is the one ordering
								// this engine does not own (no gate inside `go`), so the harness fixes it.
								time.Sleep(time.Microsecond)
								_ = l.Unlock(x.Ctx())
							} else {
								w.outcome[i] += "f"
							}
						}
					}
				})
			}
			return
		}
		// death mode: recoverers start once the holder's process has stopped
		results := make([]error, sc.Racers)
		doneRec := make(chan int, sc.Racers)
		for r := 0; r < sc.Racers; r++ {
			r := r
			c := 1 + r
			x.Go(fmt.Sprintf("rec%d", r), c, func() {
				defer func() { doneRec <- r }()
				<-w.dead
				time.Sleep(2*period + 2*time.Millisecond - time.Since(w.deathAt))
				if sc.Override {
					l := newLock(backend, shared, c, true)
					err := l.TryLock(x.Ctx())
					x.Note("rec%d TryLock-override at death+%v = %v", r, time.Since(w.deathAt), err)
					results[r] = err
					if sc.Racers == 1 && err != nil {
						x.Violate("dead-lock-not-recoverable:via=override", "TryLock with stale-lock override, two periods after the holder's death: %v", err)
						return
					}
					if err != nil {
						w.outcome[c] = "f"
						return
					}
					w.outcome[c] = "A"
					w.recHolding[c] = true
					time.Sleep(period + period/2)
					x.Gate(c, fmt.Sprintf("rec%d: begin release", r))
					w.recHolding[c] = false
					w.releasing[c] = true
					_ = l.Unlock(x.Ctx())
					w.releasing[c] = false
					return
				}
				probe := newLock(backend, shared, c, false)
				via := ""
				if sc.OwnObject {
					probe, via = holder, ":via=the-holder's-own-lock-object"
				}
				stale := probe.IsStale()
				x.Note("rec%d at death+%v: IsStale=%v", r, time.Since(w.deathAt), stale)
				if sc.Racers == 1 && w.dirAtKill && !stale {
					x.Violate("dead-lock-not-reported-stale"+via, "the holder died %v ago (lock directory present) and IsStale is false", time.Since(w.deathAt))
					return
				}
				err := probe.ReleaseIfStale(x.Ctx())
				x.Note("rec%d ReleaseIfStale=%v", r, err)
				if sc.Racers == 1 && err != nil {
					x.Violate("dead-lock-release-failed"+via, "ReleaseIfStale after the holder's death: %v", err)
					return
				}
				fresh := newLock(backend, shared, c, false)
				if sc.OwnObject {
					fresh = holder
				}
				err = fresh.TryLock(x.Ctx())
				x.Note("rec%d fresh TryLock=%v", r, err)
				results[r] = err
				if sc.Racers == 1 && err != nil {
					x.Violate("dead-lock-not-recoverable"+via, "TryLock after ReleaseIfStale failed: %v", err)
					return
				}
				if err == nil {
					w.outcome[c] = "A"
					time.Sleep(period)
					third := newLock(backend, shared, c, false)
					if sc.Racers == 1 && third.IsStale() {
						x.Violate("recovered-lock-stale-after-one-period", "the lock acquired after recovery is reported stale one period later")
					}
					_ = fresh.Unlock(x.Ctx())
				} else {
					w.outcome[c] = "f"
				}
			})
		}
		if sc.Racers > 1 {
			x.Go("judge", 1+sc.Racers, func() {
				for i := 0; i < sc.Racers; i++ {
					<-doneRec
				}
				// not wedged: after both racers are done (and any lock they left has had time to go stale) a newcomer gets the lock
				time.Sleep(2*period + 2*time.Millisecond)
				l := newLock(backend, shared, 1+sc.Racers, true)
				if err := l.TryLock(x.Ctx()); err != nil {
					x.Violate("wedged-after-racing-recovery", "after two racing recoverers finished, a newcomer with stale-override cannot acquire: %v", err)
					return
				}
				w.outcome[1+sc.Racers-1] += "+J"
				time.Sleep(time.Microsecond) // see the note on goroutine start above
				_ = l.Unlock(x.Ctx())
			})
		}
	}
}

func isHeartBeat(th *gosim.Thread) bool {
	return !th.Harness && strings.Contains(th.First, "OpenFile("+hbFile)
}

func allowTick(mode string) func(x *gosim.Exec, enabled []*gosim.Thread) bool {
	return func(x *gosim.Exec, enabled []*gosim.Thread) bool {
		if mode != "adversarial" {
			for _, th := range enabled {
				if isHeartBeat(th) {
					return false // heart beats are never late
				}
			}
		}
		for _, th := range x.Threads() {
			if !th.Done() && !th.Gated() {
				return true
			}
		}
		return false
	}
}

func scenarios() []scenario {
	var out []scenario
	obs := func(gap time.Duration, calls ...string) observer { return observer{Calls: calls, Gap: gap} }
	rep := func(call string, n int) []string {
		var l []string
		for i := 0; i < n; i++ {
			l = append(l, call)
		}
		return l
	}
	// (a) on-time
	out = append(out,
		scenario{Name: "ontime/H2/1obs:IsStale,ReleaseIfStale,TryLock-override gap30", Mode: "ontime", HoldBeats: 2, Bound: 2, Observers: []observer{obs(30*time.Millisecond, "IsStale", "ReleaseIfStale", "TryLock-override")}},
		scenario{Name: "ontime/H3/2obs gap49+gap20", Mode: "ontime", HoldBeats: 3, Bound: 1, Observers: []observer{obs(49*time.Millisecond, "IsStale", "IsStale", "IsStale"), obs(20*time.Millisecond, "TryLock-override", "TryLock")}},
		scenario{Name: "ontime/H10/poll IsStale every 7ms", Mode: "ontime", HoldBeats: 10, Bound: 0, Observers: []observer{obs(7*time.Millisecond, rep("IsStale", 70)...)}},
		scenario{Name: "ontime/H10/poll TryLock-override every 13ms", Mode: "ontime", HoldBeats: 10, Bound: 0, Observers: []observer{obs(13*time.Millisecond, rep("TryLock-override", 38)...)}},
		scenario{Name: "ontime/H10/poll IsStale every 7ms, fsync takes 120 ms", Mode: "ontime", HoldBeats: 10, Bound: 0, SlowSync: 120 * time.Millisecond, Observers: []observer{obs(7*time.Millisecond, rep("IsStale", 70)...)}},
		scenario{Name: "ontime/H10/poll TryLock-override every 13ms, fsync takes 120 ms", Mode: "ontime", HoldBeats: 10, Bound: 0, SlowSync: 120 * time.Millisecond, Observers: []observer{obs(13*time.Millisecond, rep("TryLock-override", 38)...)}},
		scenario{Name: "ontime/H10/poll IsStale every 7ms, the observer's id ends in a line feed", Mode: "ontime", HoldBeats: 10, Bound: 0, ObserverIDSuffix: "\n", Observers: []observer{obs(7*time.Millisecond, rep("IsStale", 70)...)}},
		scenario{Name: "ontime/H10/poll TryLock-override every 13ms, the observer's id ends in a blank", Mode: "ontime", HoldBeats: 10, Bound: 0, ObserverIDSuffix: " ", Observers: []observer{obs(13*time.Millisecond, rep("TryLock-override", 38)...)}},
		scenario{Name: "ontime/H2/1obs(mem)", Mode: "ontime", Backend: "mem", HoldBeats: 2, Bound: 2, Observers: []observer{obs(30*time.Millisecond, "IsStale", "ReleaseIfStale", "TryLock-override")}},
	)
	// (a') one transient backend error in the holder's steady state: k-th operation after the lock directory was created
	// and TryLock returned (a beat is OpenFile, Write, Close, Chtimes; k covers the first three beats of the hold)
	for k := 1; k <= 14; k++ {
		out = append(out, scenario{Name: fmt.Sprintf("glitch/op-%02d/H8/poll IsStale 7ms + TryLock-override 13ms", k), Mode: "glitch", HoldBeats: 8, GlitchAt: k, Bound: 0, Observers: []observer{
			{Calls: rep("IsStale", 55), Gap: 7 * time.Millisecond, Offset: 100 * time.Microsecond},
			{Calls: rep("TryLock-override", 29), Gap: 13 * time.Millisecond, Offset: 200 * time.Microsecond}}})
	}
	// (a'') a second acquire attempt on the holder's own lock object times out while the lock is held
	out = append(out, scenario{Name: "ontime/H7/LockWithTimeout(63ms) on the same object + poll IsStale 7ms + TryLock-override 13ms", Mode: "ontime", HoldBeats: 7, Reentrant: 63 * time.Millisecond, Bound: 0, Observers: []observer{
		{Calls: rep("IsStale", 48), Gap: 7 * time.Millisecond, Offset: 100 * time.Microsecond},
		{Calls: rep("TryLock-override", 25), Gap: 13 * time.Millisecond, Offset: 200 * time.Microsecond}}})
	// (a3) the heart-beat file cannot be opened for 4 beats in a row (its time stamp can still be set)
	out = append(out, scenario{Name: "glitch/heart-beat file cannot be opened for 4 beats/H8/poll IsStale 7ms + TryLock-override 13ms", Mode: "glitch", HoldBeats: 8, GlitchAt: 5, GlitchFor: 4, Bound: 0, Observers: []observer{
		{Calls: rep("IsStale", 55), Gap: 7 * time.Millisecond, Offset: 100 * time.Microsecond},
		{Calls: rep("TryLock-override", 29), Gap: 13 * time.Millisecond, Offset: 200 * time.Microsecond}}})
	// (b) adversarial
	out = append(out,
		scenario{Name: "adversarial/H3/1obs gap60", Mode: "adversarial", HoldBeats: 3, Bound: 2, Observers: []observer{obs(60*time.Millisecond, "IsStale", "TryLock-override")}},
		scenario{Name: "adversarial/H3/1obs gap35", Mode: "adversarial", HoldBeats: 3, Bound: 2, Observers: []observer{obs(35*time.Millisecond, "IsStale", "IsStale", "ReleaseIfStale")}},
	)
	if ev.Thorough() {
		out = append(out,
			scenario{Name: "ontime/H50/poll IsStale every 1ms (offset)", Mode: "ontime", HoldBeats: 50, Bound: 0, Observers: []observer{{Calls: rep("IsStale", 2490), Gap: time.Millisecond, Offset: 500 * time.Microsecond}}},
			scenario{Name: "ontime/H300/poll every 13/17/29ms, 3 observers (offsets)", Mode: "ontime", HoldBeats: 300, Bound: 0, Observers: []observer{
				{Calls: rep("IsStale", 1150), Gap: 13 * time.Millisecond, Offset: 100 * time.Microsecond},
				{Calls: rep("ReleaseIfStale", 880), Gap: 17 * time.Millisecond, Offset: 200 * time.Microsecond},
				{Calls: rep("TryLock-override", 515), Gap: 29 * time.Millisecond, Offset: 300 * time.Microsecond}}},
			scenario{Name: "ontime/H5/2obs P2", Mode: "ontime", HoldBeats: 5, Bound: 2, Observers: []observer{obs(49*time.Millisecond, "IsStale", "ReleaseIfStale", "IsStale"), obs(33*time.Millisecond, "TryLock-override", "TryLock-override")}},
			scenario{Name: "adversarial/H4/2obs gap60+gap45", Mode: "adversarial", HoldBeats: 4, Bound: 2, Observers: []observer{obs(60*time.Millisecond, "IsStale", "TryLock-override"), obs(45*time.Millisecond, "IsStale", "ReleaseIfStale")}},
			scenario{Name: "adversarial/H3/1obs gap60 P3", Mode: "adversarial", HoldBeats: 3, Bound: 3, Observers: []observer{obs(60*time.Millisecond, "IsStale")}},
		)
	}
	// (c) death points: k = 1 .. (acquire path + 3 beats); the op count of a 4-beat hold is measured, not assumed
	maxK := 24
	for k := 1; k <= maxK; k++ {
		out = append(out, scenario{Name: fmt.Sprintf("death/before-op-%02d", k), Mode: "death", HoldBeats: 4, KillAt: k, Racers: 1, Bound: 0})
		out = append(out, scenario{Name: fmt.Sprintf("death/during-op-%02d", k), Mode: "death", HoldBeats: 4, KillAt: k, ShortKill: true, Racers: 1, Bound: 0})
	}
	for _, k := range []int{2, 3, 4, 5, 8, 13} {
		b := 1
		if ev.Thorough() {
			b = 2
		}
		out = append(out, scenario{Name: fmt.Sprintf("death/before-op-%02d/2 racing recoverers", k), Mode: "death", HoldBeats: 4, KillAt: k, Racers: 2, Bound: b})
	}
	// (c') the holder's context (with a far deadline) ends instead of its process
	out = append(out, scenario{Name: "death/context with a deadline cancelled after 70ms", Mode: "death", HoldBeats: 4, KillAt: 1 << 30, CtxDeath: 70 * time.Millisecond, Racers: 1, Bound: 0})
	out = append(out, scenario{Name: "death/context with a deadline cancelled after 1ms", Mode: "death", HoldBeats: 4, KillAt: 1 << 30, CtxDeath: time.Millisecond, Racers: 1, Bound: 1})
	out = append(out, scenario{Name: "death/context cancelled after 70ms, recovery through the holder's own lock object", Mode: "death", HoldBeats: 4, KillAt: 1 << 30, CtxDeath: 70 * time.Millisecond, Racers: 1, Bound: 1, OwnObject: true})
	out = append(out, scenario{Name: "death/context cancelled after 1ms, recovery through the holder's own lock object", Mode: "death", HoldBeats: 4, KillAt: 1 << 30, CtxDeath: time.Millisecond, Racers: 1, Bound: 1, OwnObject: true})
	// (d) the recoverers use stale-lock override
	for _, k := range []int{2, 3, 5, 8, 13} {
		out = append(out, scenario{Name: fmt.Sprintf("death/before-op-%02d/override recoverer", k), Mode: "death", HoldBeats: 4, KillAt: k, Racers: 1, Override: true, Bound: 0})
	}
	for _, k := range []int{3, 8} {
		b := 1
		if ev.Thorough() {
			b = 2
		}
		out = append(out, scenario{Name: fmt.Sprintf("death/before-op-%02d/2 racing override recoverers", k), Mode: "death", HoldBeats: 4, KillAt: k, Racers: 2, Override: true, Bound: b})
	}
	if f := os.Getenv("VERIF_SCENARIO"); f != "" {
		var sel []scenario
		for _, sc := range out {
			if strings.Contains(sc.Name, f) {
				sel = append(sel, sc)
			}
		}
		return sel
	}
	return out
}

func toScenario(sc scenario) gosim.Scenario {
	return gosim.Scenario{
		Name: sc.Name,
		Opts: gosim.Options{Bound: sc.Bound, Horizon: 5 * time.Second, MaxSteps: 400000, AllowTick: allowTick(sc.Mode)},
		Body: body(sc),
		Outcome: func(r *gosim.Result) string {
			if w, ok := r.User.(*world); ok {
				o := r.Verdict + ":" + strings.Join(w.outcome, ",")
				if len(o) > 60 {
					o = o[:60]
				}
				return o
			}
			return r.Verdict
		},
	}
}

func TestC17(t *testing.T) {
	if p := os.Getenv("VERIF_REPLAY"); p != "" {
		replay(t, p)
		return
	}
	scs := scenarios()
	// small-bound scenarios first: a deadline met on a loaded machine then cuts the tail of the big explorations, not these
	sort.SliceStable(scs, func(i, j int) bool { return scs[i].Bound < scs[j].Bound })
	var gs []gosim.Scenario
	for _, sc := range scs {
		gs = append(gs, toScenario(sc))
	}
	if gosim.IsPoolWorker() {
		gosim.ServePool(t, gs)
		return
	}
	budget := 4 * time.Minute
	if ev.Thorough() {
		budget = 30 * time.Minute
	}
	rep := ev.NewReporter("C17", "model_checking")
	stats := gosim.ExplorePool(t, gs, ev.Workers(), time.Now().Add(budget))
	total := gosim.NewStats()
	perScenario := map[string]any{}
	exhaustive := true
	deathPoints := 0
	for _, sc := range scs {
		s := stats[sc.Name]
		if s.Capped {
			exhaustive = false
		}
		var nv int64
		for _, v := range s.Violations {
			nv += v.Count
		}
		if sc.Mode == "death" {
			deathPoints++
		}
		if sc.Mode == "glitch" {
			for o := range s.Outcomes {
				if strings.Contains(o, "no-glitch") {
					rep.EngineError("%s: the transient error was not injected in some execution (outcome %s)", sc.Name, o)
				}
			}
		}
		perScenario[sc.Name] = map[string]any{"executions": s.Execs, "transitions": s.Transitions, "bound": sc.Bound, "capped": s.Capped, "outcomes": s.Outcomes, "violating_executions": nv}
		total.Merge(s)
		for sig, ce := range s.Violations {
			rep.ViolationN(sig, ce, ce.Count)
		}
		for _, d := range s.Diverged {
			rep.EngineError("%s", d)
		}
		if (sc.Mode != "death" && sc.Mode != "glitch") || nv > 0 {
			fmt.Fprintf(os.Stderr, "[C17] %-60s executions=%d violations=%d cpu=%.0fs capped=%v\n", sc.Name, s.Execs, nv, s.WallS, s.Capped)
		}
	}
	rep.Coverage["states"] = total.Nodes
	rep.Coverage["transitions"] = total.Transitions
	rep.Coverage["traces_validated_against_impl"] = total.Validated
	rep.Coverage["executions"] = total.Execs
	rep.Coverage["death_point_scenarios"] = deathPoints
	rep.Coverage["distinct_outcomes"] = len(total.Outcomes)
	rep.Coverage["transient_divergences_retried"] = total.Transient
	rep.Coverage["scenarios"] = perScenario
	rep.Coverage["exhaustive"] = exhaustive
	rep.Coverage["samples"] = total.Samples
	rep.Coverage["explanation"] = "states = distinct schedule prefixes executed on the real lock code under the virtual clock; death scenarios stop the holder's process before / during its k-th backend operation for every k of the acquire path and of the first beats"
	rep.Assume = []string{
		"'bounded delay' = 2 periods + 2 ms of virtual time after the holder's process stopped",
		"on-time mode: virtual time never advances while a heart-beat write is pending; adversarial mode: it may (within the deviation bound)",
		"the 'OS filesystem under load' of the property's quantifier is replaced by explicit adversarial delays of the heart beat (strictly more than load can produce); backends PosixMem / MemMapFs",
	}
	rep.Finish()
}

func replay(t *testing.T, path string) {
	ce, err := gosim.LoadCounterexample(path)
	if err != nil {
		t.Fatal(err)
	}
	for _, sc := range scenarios() {
		if sc.Name != ce.Scenario {
			continue
		}
		g := toScenario(sc)
		g.Opts.Bound = 99
		r := gosim.RunOnce(t, &g.Opts, g.Body, ce.Schedule, nil)
		for _, l := range r.Trace {
			fmt.Println(l)
		}
		if r.Viol != nil {
			fmt.Printf("VIOLATION property=C17 replay=%s signature=%s\n%s\n", path, r.Viol.Signature, r.Viol.Detail)
			ev.ExitCode = 1
		} else {
			fmt.Println("replay: no violation")
		}
		return
	}
	t.Fatalf("scenario %q not found (thorough-only scenarios need VERIF_TIER=thorough)", ce.Scenario)
}

// TestDebugDeterminism is a development aid: runs one schedule several times and diffs the traces.
func TestDebugDeterminism(t *testing.T) {
	if os.Getenv("VERIF_DEBUG") == "" {
		t.Skip()
	}
	var sc scenario
	for _, s := range scenarios() {
		if strings.Contains(s.Name, os.Getenv("VERIF_DEBUG")) {
			sc = s
		}
	}
	g := toScenario(sc)
	g.Opts.Bound = 99
	var pre []int
	for _, f := range strings.Fields(os.Getenv("VERIF_PREFIX")) {
		n := 0
		fmt.Sscan(f, &n)
		pre = append(pre, n)
	}
	var first []string
	for i := 0; i < 20; i++ {
		r := gosim.RunOnce(t, &g.Opts, g.Body, pre, nil)
		if first == nil {
			first = r.Trace
			continue
		}
		for k := range r.Trace {
			if k >= len(first) || first[k] != r.Trace[k] {
				fmt.Printf("run %d differs at line %d:\n", i, k)
				lo := k - 6
				if lo < 0 {
					lo = 0
				}
				for j := lo; j < k+4 && j < len(r.Trace) && j < len(first); j++ {
					fmt.Printf("  A: %s\n  B: %s\n", first[j], r.Trace[j])
				}
				return
			}
		}
	}
	fmt.Println("20 identical runs")
}

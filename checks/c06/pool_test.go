package c06

// Worker processes. ev.Sharded is not used because a worker can be KILLED by the code under test: afero's
// MemMapFs.Rename ends the process with "fatal error: sync: RUnlock of unlocked RWMutex" (not recoverable) for some
// arguments. Every worker therefore
//   - appends one JSON line per completed state to its output file,
//   - keeps the transition being executed (and the class of the in-memory Rename being attempted) in an in-flight file.
// When a worker dies, the parent reads the in-flight record, stores it as an observed crash, and restarts the worker,
// which skips completed states, does not execute the recorded transition on the in-memory backend again, and does
// not perform any further Rename of a class that already killed a worker (the transition is reported as crashed from
// the class alone; counted separately as predicted).

import (
	"bufio"
	"bytes"
	"encoding/json"
	"fmt"
	"os"
	"os/exec"
	"path/filepath"
	"strings"
	"sync"
)

type crashInfo struct {
	Item    int    `json:"item"` // state index (level job) or request index (confirm job)
	Call    int    `json:"call"`
	OpClass string `json:"op_class"`
	Stderr  string `json:"stderr,omitempty"`
}

type confirmReq struct {
	Key      string `json:"key"`
	Call     int    `json:"call"`
	Backend  string `json:"backend"`
	CancelAt int    `json:"cancel_at"`
	Class    string `json:"class"`
}

type job struct {
	ID           string       `json:"id"`
	Run          string       `json:"run"`
	Mode         string       `json:"mode"` // level | confirm
	Cancel       bool         `json:"cancel"`
	OnlyCall     int          `json:"only_call"` // >= 0: evaluate only this call (replay)
	States       []stateRec   `json:"states,omitempty"`
	Confirm      []confirmReq `json:"confirm,omitempty"`
	CrashClasses []string     `json:"crash_classes,omitempty"`
}

func (j *job) items() int {
	if j.Mode == "confirm" {
		return len(j.Confirm)
	}
	return len(j.States)
}

func poolPaths(run, id string, i int) (out, inflight, crash string) {
	return fmt.Sprintf("%s/out-%s-%d.jsonl", run, id, i), fmt.Sprintf("%s/inflight-%s-%d", run, id, i), fmt.Sprintf("%s/crash-%s-%d.json", run, id, i)
}

func readLines(path string) []shardOut {
	f, err := os.Open(path)
	if err != nil {
		return nil
	}
	defer f.Close()
	var out []shardOut
	sc := bufio.NewScanner(f)
	sc.Buffer(make([]byte, 1<<20), 1<<30)
	for sc.Scan() {
		var o shardOut
		if json.Unmarshal(sc.Bytes(), &o) == nil {
			out = append(out, o)
		}
	}
	return out
}

func readCrashes(path string) []crashInfo {
	var l []crashInfo
	if b, err := os.ReadFile(path); err == nil {
		_ = json.Unmarshal(b, &l)
	}
	return l
}

// runPool executes a job on n worker processes and returns every output line and every crash observed.
func runPool(j *job, n int) (lines []shardOut, crashes []crashInfo, errs []string) {
	jf := fmt.Sprintf("%s/job-%s.json", j.Run, j.ID)
	data, _ := json.Marshal(j)
	if err := os.WriteFile(jf, data, 0o644); err != nil {
		return nil, nil, []string{"cannot write job: " + err.Error()}
	}
	if n > j.items() {
		n = j.items()
	}
	if n < 1 {
		n = 1
	}
	var mu sync.Mutex
	var wg sync.WaitGroup
	for i := 0; i < n; i++ {
		wg.Add(1)
		go func(i int) {
			defer wg.Done()
			outP, inflP, crashP := poolPaths(j.Run, j.ID, i)
			var mine []crashInfo
			for restarts := 0; ; restarts++ {
				_ = os.Remove(inflP)
				cmd := exec.Command(selfExe, "-test.run=^TestC06$", "-test.timeout=0", "-test.count=1")
				cmd.Env = append(os.Environ(), fmt.Sprintf("C06_WORKER=%d/%d", i, n), "C06_JOB="+jf, "GOMAXPROCS=1")
				var stderr bytes.Buffer
				cmd.Stderr = &stderr
				cmd.Stdout = &stderr
				runErr := cmd.Run()
				ls := readLines(outP)
				if len(ls) > 0 && ls[len(ls)-1].Done {
					break
				}
				b, err := os.ReadFile(inflP)
				var ci crashInfo
				if err != nil || json.Unmarshal(bytes.TrimSpace(b), &ci) != nil {
					mu.Lock()
					errs = append(errs, fmt.Sprintf("worker %d of job %s ended (%v) without result and without in-flight record: %s", i, j.ID, runErr, tail(stderr.String(), 1500)))
					mu.Unlock()
					break
				}
				ci.Stderr = firstLines(stderr.String(), 6)
				mine = append(mine, ci)
				cb, _ := json.Marshal(mine)
				_ = os.WriteFile(crashP, cb, 0o644)
				if restarts > 400 {
					mu.Lock()
					errs = append(errs, fmt.Sprintf("worker %d of job %s died more than 400 times; last: %s", i, j.ID, tail(stderr.String(), 1500)))
					mu.Unlock()
					break
				}
			}
			mu.Lock()
			lines = append(lines, readLines(outP)...)
			crashes = append(crashes, mine...)
			mu.Unlock()
		}(i)
	}
	wg.Wait()
	return
}

func tail(s string, n int) string {
	if len(s) > n {
		return s[len(s)-n:]
	}
	return s
}

func firstLines(s string, n int) string {
	l := strings.SplitN(s, "\n", n+1)
	if len(l) > n {
		l = l[:n]
	}
	return strings.Join(l, "\n")
}

// workerMain is the body of a worker process.
func workerMain() {
	var shard, n int
	fmt.Sscanf(os.Getenv("C06_WORKER"), "%d/%d", &shard, &n)
	var j job
	b, err := os.ReadFile(os.Getenv("C06_JOB"))
	if err == nil {
		err = json.Unmarshal(b, &j)
	}
	if err != nil {
		fmt.Fprintln(os.Stderr, "worker cannot read its job:", err)
		os.Exit(3)
	}
	outP, inflP, crashP := poolPaths(j.Run, j.ID, shard)
	completed := map[int]bool{}
	for _, l := range readLines(outP) {
		completed[l.Item] = true
	}
	w, err := newWorker(j.Run, shard)
	if err != nil {
		fmt.Fprintln(os.Stderr, "worker cannot create its sandbox:", err)
		os.Exit(3)
	}
	w.cancel = j.Cancel
	for _, c := range riskyRenames {
		w.mem.ctl.crashClasses[c] = true
	}
	for _, c := range j.CrashClasses {
		w.mem.ctl.crashClasses[c] = true
	}
	for _, ci := range readCrashes(crashP) {
		w.crashAt[[2]int{ci.Item, ci.Call}] = ci
		if ci.OpClass != "" {
			w.mem.ctl.crashClasses[ci.OpClass] = true
		}
	}
	infl, err := os.OpenFile(inflP, os.O_CREATE|os.O_RDWR|os.O_TRUNC, 0o644)
	if err != nil {
		fmt.Fprintln(os.Stderr, "worker cannot create its in-flight file:", err)
		os.Exit(3)
	}
	note := func(item, call int, opClass string) {
		rec := fmt.Sprintf(`{"item":%d,"call":%d,"op_class":%q}`, item, call, opClass)
		_, _ = infl.WriteAt([]byte(fmt.Sprintf("%-120s\n", rec)), 0)
	}
	w.mem.ctl.noteRename = func(cl string) { note(w.curItem, w.curCall, cl) }
	w.noteTransition = func(item, call int) { w.curItem, w.curCall = item, call; note(item, call, "") }
	outF, err := os.OpenFile(outP, os.O_CREATE|os.O_WRONLY|os.O_APPEND, 0o644)
	if err != nil {
		fmt.Fprintln(os.Stderr, "worker cannot open its output:", err)
		os.Exit(3)
	}
	emit := func(o *shardOut) {
		lb, _ := json.Marshal(o)
		_, _ = outF.Write(append(lb, '\n'))
	}
	for i := 0; i < j.items(); i++ {
		if i%n != shard || completed[i] {
			continue
		}
		w.begin(i)
		if j.Mode == "confirm" {
			w.confirmOne(i, j.Confirm[i])
		} else {
			w.evalState(i, j.States[i], j.OnlyCall)
		}
		emit(w.end())
	}
	_ = w.osb.wipe()
	if w.helper != nil {
		w.helper.stop()
	}
	emit(&shardOut{Item: -1, Done: true})
	_ = outF.Close()
}

// ---- the sacrificial helper process ---------------------------------------------------------------

// riskyRenames are the classes of MemMapFs.Rename that were seen to end the process (a file renamed below itself; a
// directory renamed onto its own parent when names collide). They are not performed in a worker but in its helper.
var riskyRenames = []string{"Rename(new-inside-old)", "Rename(old-inside-new)"}

type helperReq struct {
	Key      string `json:"key"`
	Call     int    `json:"call"`
	Budget   int64  `json:"budget"`
	CancelAt int    `json:"cancel_at"`
}

type helperProc struct {
	cmd    *exec.Cmd
	in     *bufio.Writer
	inPipe interface{ Close() error }
	out    *bufio.Reader
	stderr *bytes.Buffer
}

// selfExe is this test binary (absolute: workers change their working directory).
var selfExe = func() string {
	if p, err := os.Executable(); err == nil {
		return p
	}
	p, _ := filepath.Abs(os.Args[0])
	return p
}()

func startHelper() (*helperProc, error) {
	cmd := exec.Command(selfExe, "-test.run=^TestC06$", "-test.timeout=0", "-test.count=1")
	env := []string{"C06_HELPER=1", "GOMAXPROCS=1"}
	for _, e := range os.Environ() {
		if !strings.HasPrefix(e, "C06_WORKER=") && !strings.HasPrefix(e, "GOMAXPROCS=") {
			env = append(env, e)
		}
	}
	cmd.Env = env
	stdin, err := cmd.StdinPipe()
	if err != nil {
		return nil, err
	}
	stdout, err := cmd.StdoutPipe()
	if err != nil {
		return nil, err
	}
	h := &helperProc{cmd: cmd, in: bufio.NewWriter(stdin), inPipe: stdin, out: bufio.NewReaderSize(stdout, 1<<20), stderr: &bytes.Buffer{}}
	cmd.Stderr = h.stderr
	if err := cmd.Start(); err != nil {
		return nil, err
	}
	return h, nil
}

func (h *helperProc) stop() {
	_ = h.inPipe.Close()
	_ = h.cmd.Wait()
}

// helperExec runs one in-memory execution in the helper. died = the helper process ended instead of answering.
func (w *worker) helperExec(t tree, ci int, budget int64, cancelAt int, attempts int) (x execOut, died bool, stderr string, err error) {
	// Whether a Rename of a directory onto its own parent ends the process depends on Go's map iteration order inside
	// MemMapFs.renameDescendants (a descendant that takes the old directory's name must be visited before one of its
	// siblings): measured 18..24 deaths in 40 attempts on one state, about 1 in 8 on others (small maps are iterated
	// from a random offset). Such an execution is therefore attempted up to riskyAttempts times; one death is enough
	// for the verdict. The other risky class (a path renamed below itself) behaved identically in every attempt.
	req, _ := json.Marshal(helperReq{Key: t.key(), Call: ci, Budget: budget, CancelAt: cancelAt})
	var first execOut
	for attempt := 0; attempt < attempts; attempt++ {
		if w.helper == nil {
			if w.helper, err = startHelper(); err != nil {
				return
			}
		}
		h := w.helper
		_, _ = h.in.Write(append(req, '\n'))
		_ = h.in.Flush()
		var got execOut
		for {
			line, rerr := h.out.ReadBytes('\n')
			if rerr != nil {
				h.stop()
				w.helper = nil
				return execOut{}, true, firstLines(h.stderr.String(), 8), nil
			}
			if !bytes.HasPrefix(line, []byte("C06-HELPER ")) {
				continue // anything else the test binary prints
			}
			if uerr := json.Unmarshal(line[len("C06-HELPER "):], &got); uerr != nil {
				return execOut{}, false, "", uerr
			}
			break
		}
		if attempt == 0 {
			first = got
		}
	}
	return first, false, "", nil
}

const riskyAttempts = 64

// helperMain serves in-memory executions until its input closes (or the code under test kills it).
func helperMain() {
	b := newMemBackend()
	in := bufio.NewReaderSize(os.Stdin, 1<<20)
	out := bufio.NewWriter(os.Stdout)
	for {
		line, err := in.ReadBytes('\n')
		if err != nil {
			return
		}
		var q helperReq
		if json.Unmarshal(line, &q) != nil {
			return
		}
		var x execOut
		if err := b.materialise(parseKey(q.Key)); err != nil {
			x.R = result{Err: "materialise: " + err.Error(), Kind: "engine"}
		} else {
			x.R = b.run(allCalls[q.Call], q.Budget, q.CancelAt)
			var t tree
			t, x.Outside, x.Deep = b.dump()
			x.After = t.key()
		}
		lb, _ := json.Marshal(x)
		_, _ = out.WriteString("C06-HELPER ")
		_, _ = out.Write(lb)
		_ = out.WriteByte('\n')
		_ = out.Flush()
	}
}

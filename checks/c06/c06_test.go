// C06 — the filesystem API follows its documented semantics on every backend.
//
// Explicit-state breadth-first search. A STATE is the canonical dump of the sandbox tree (sorted relative paths, kind,
// content: the only thing the property can observe). From 6 seed trees every call of the alphabet (calls_test.go:
// 443 concrete calls = 24 operations x 8 colliding paths {a, a/, a/b, a/f.t, b, b/f.t, a/b/c, ""} x contents
// {x, yy, ""}) is applied to every state, on
//   - the in-memory backend  filesystem.NewVirtualFileSystem(vfsx.NewMem(afero.NewMemMapFs(), shared, 0), InMemoryFS, ..)
//   - the OS backend         filesystem.NewVirtualFileSystem(vfsx.NewOS(filesystem.NewExtendedOsFs(), shared, 0), StandardFS, ..)
//     in a sandbox under /dev/shm/verif-c06-* (discipline: backend_test.go),
//   - the reference model (model_test.go: semantics, list of kind conflicts, list of cases the documentation is
//     silent about, readings taken).
//
// Live file systems cannot be cloned: the state is MATERIALISED on an emptied sandbox before every call; in addition
// every state's shortest call path is REPLAYED from its seed through the API on both backends and the dump compared
// with the state (differential: "reached from the initial state" vs "built from elsewhere").
//
// Oracles per transition:
//
//	first sentence (calls free of kind conflicts, documentation not silent): ok/error and error kind = model, returned
//	value = model, dump(mem) = dump(os) = model; where the documentation is silent: the two backends agree;
//	second sentence (every call): the process survives the call; the call terminates within 10^5 backend operations
//	(a vfsx hook makes every further operation fail and finally ends the goroutine: no timer); the handle table of the
//	vfsx layer is empty when the call returns - also when it failed and when its context was cancelled before the
//	call or just before its j-th backend operation, j = 1..5; nothing outside the destination changed; every
//	pre-existing entry of a copy's source is unchanged, also when source and destination overlap.
//
// The successors of a transition on which any oracle failed (or on which the backends left different trees) are not
// expanded.
//
// Termination is decided in two stages to keep runaway calls affordable: every call first runs under a probe budget
// of 5*10^3 backend operations (the largest terminating call on these trees needs a few hundred); a case that exceeds
// it is PENDING; after each level the first pending case of every (call shape, backend) not yet decided is re-run under
// the property's budget of 10^5 and evaluated in full, and its verdict is the verdict of every pending case of that
// shape and backend (counted in pending_cases_decided_by_shape).
//
// A violation's signature = call shape (operation, shape of each argument relative to the tree, relation between the
// arguments: see callShape) : backend (mem | os | both | mem≠os) : failed clause.
package c06

import (
	"context"
	"encoding/json"
	"fmt"
	"os"
	"reflect"
	"sort"
	"strings"
	"syscall"
	"testing"
	"time"

	"path/filepath"

	"github.com/ARM-software/golang-utils/utils/filesystem"
	"github.com/spf13/afero"

	ev "verif/engine/evidence"
)

func TestMain(m *testing.M) { ev.Main(m) }

var seeds = []tree{
	{},
	{"a": {Content: "x"}},
	{"a": {Dir: true}, "a/f.t": {Content: "x"}},
	{"a": {Dir: true}, "a/b": {Dir: true}, "a/b/c": {Dir: true}, "a/f.t": {Content: "x"}, "b": {Dir: true}},
	{"a": {Dir: true}, "a/b": {Dir: true}, "a/b/c": {Content: "yy"}, "b": {Dir: true}, "b/f.t": {Content: "yy"}},
	{"a": {Dir: true}, "a/f.t": {Content: "x"}, "b": {Content: "yy"}},
}

type bounds struct {
	Depth          int `json:"bfs_depth"`            // states up to this depth are evaluated (every call applied)
	CancelDepth    int `json:"cancel_series_depth"`  // the cancellation series is run on states of depth <= this
	MaxEntries     int `json:"max_entries_expanded"` // larger states are discovered but not evaluated
	MaxPathDepth   int `json:"max_path_depth_expanded"`
	MaxStatesLevel int `json:"max_states_last_level"` // cap on the states evaluated at the last level (0 = none)
}

func tierBounds() bounds {
	if d := os.Getenv("C06_DEPTH"); d != "" { // development aid only
		n := int(d[0] - '0')
		return bounds{Depth: n, CancelDepth: n, MaxEntries: 10, MaxPathDepth: 5}
	}
	if ev.Thorough() {
		return bounds{Depth: 3, CancelDepth: 2, MaxEntries: 10, MaxPathDepth: 5, MaxStatesLevel: 0}
	}
	return bounds{Depth: 2, CancelDepth: 1, MaxEntries: 10, MaxPathDepth: 5, MaxStatesLevel: 0}
}

type stateRec struct {
	Key   string `json:"key"`
	Seed  int    `json:"seed"`
	Path  []call `json:"path"`
	Depth int    `json:"depth"`
}

type succ struct {
	From int    `json:"f"`
	Call int    `json:"c"`
	Key  string `json:"k"`
}

type violRec struct {
	Sig    string         `json:"sig"`
	N      int64          `json:"n"`
	Replay map[string]any `json:"replay"`
	From   int            `json:"from"`
	Call   int            `json:"call"`
}

type pendingRec struct {
	From     int    `json:"from"`
	Call     int    `json:"call"`
	Backend  string `json:"backend"`
	CancelAt int    `json:"cancel_at"`
	Class    string `json:"class"`
}

// shardOut is one output line of a worker: what the evaluation of one state (or one confirmation request) produced.
type shardOut struct {
	Item             int              `json:"item"`
	Done             bool             `json:"done,omitempty"`
	Succ             []succ           `json:"succ,omitempty"`
	Viol             []*violRec       `json:"viol,omitempty"`
	Pending          []pendingRec     `json:"pending,omitempty"`
	States           int64            `json:"states,omitempty"`
	Transitions      int64            `json:"transitions,omitempty"`
	ByClass          map[string]int64 `json:"by_class,omitempty"`
	CancelRuns       int64            `json:"cancel_runs,omitempty"`
	Validated        int64            `json:"validated,omitempty"`
	Outcomes         map[string]int64 `json:"outcomes,omitempty"`
	MaxOps           int64            `json:"max_ops,omitempty"`
	GuardedEmpty     int64            `json:"guarded_empty,omitempty"`
	BackendOps       int64            `json:"backend_ops,omitempty"`
	Disagreeing      int64            `json:"disagreeing,omitempty"`
	NoSuccTreeDif    int64            `json:"no_succ_tree_diff,omitempty"`
	HelperRuns       int64            `json:"helper_runs,omitempty"`
	HelperDeaths     int64            `json:"helper_deaths,omitempty"`
	RunawayFromProbe int64            `json:"runaway_from_probe,omitempty"`
	EngineErrors     []string         `json:"engine_errors,omitempty"`
	Samples          []any            `json:"samples,omitempty"`
	// confirmation
	ConfirmClause string         `json:"confirm_clause,omitempty"`
	ConfirmDetail map[string]any `json:"confirm_detail,omitempty"`
}

// worker is the per-process evaluation context.
type worker struct {
	mem, osb       *backend
	out            *shardOut
	viol           map[string]*violRec
	cancel         bool
	crashAt        map[[2]int]crashInfo
	curItem        int
	curCall        int
	noteTransition func(item, call int)
	helper         *helperProc
}

func newWorker(runDir string, shard int) (*worker, error) {
	root := fmt.Sprintf("%s/w%d/r", runDir, shard)
	mustBeSandbox(root)
	if err := os.MkdirAll(root, 0o755); err != nil {
		return nil, err
	}
	if err := os.Chdir(root); err != nil {
		return nil, err
	}
	w := &worker{mem: newMemBackend(), osb: newOSBackend(root), crashAt: map[[2]int]crashInfo{}}
	w.mem.ctl.crashClasses = map[string]bool{}
	w.noteTransition = func(item, call int) { w.curItem, w.curCall = item, call }
	return w, nil
}

func (w *worker) begin(item int) {
	w.out = &shardOut{Item: item, ByClass: map[string]int64{}, Outcomes: map[string]int64{}}
	w.viol = map[string]*violRec{}
}

func (w *worker) end() *shardOut {
	sigs := make([]string, 0, len(w.viol))
	for s := range w.viol {
		sigs = append(sigs, s)
	}
	sort.Strings(sigs)
	for _, s := range sigs {
		w.out.Viol = append(w.out.Viol, w.viol[s])
	}
	return w.out
}

func (w *worker) backends() []*backend { return []*backend{w.mem, w.osb} }

func (w *worker) engineError(format string, a ...any) {
	if len(w.out.EngineErrors) < 20 {
		w.out.EngineErrors = append(w.out.EngineErrors, fmt.Sprintf(format, a...))
	}
}

func (w *worker) violation(sig string, from, callIdx int, replay map[string]any) {
	v, ok := w.viol[sig]
	if !ok {
		v = &violRec{Sig: sig, Replay: replay, From: from, Call: callIdx}
		w.viol[sig] = v
	}
	v.N++
}

// execOut is one execution: the result and the tree it left.
type execOut struct {
	R       result `json:"r"`
	After   string `json:"after"`
	Outside bool   `json:"outside,omitempty"`
	Deep    bool   `json:"deep,omitempty"`
	after   tree
	helper  bool // executed in the helper process
}

// exec materialises the state, runs the call once under the given budget and reads the tree back.
// In-memory backend: a call that is about to perform a Rename of a class that can end the process (riskyRenames) is
// stopped before that Rename and executed instead, from scratch, in the worker's sacrificial helper process: if the
// helper survives, its result and tree are taken; if it dies, the execution is "process-killed" (exactly, not predicted).
func (w *worker) exec(b *backend, item int, t tree, ci int, budget int64, cancelAt int) (x execOut, ok bool) {
	if b.name == "mem" {
		if info, hit := w.crashAt[[2]int{item, ci}]; hit {
			// this very execution killed a WORKER before (an operation class not known to be risky): not executed again
			cl := info.OpClass
			if cl == "" {
				cl = "unknown-operation"
			}
			return execOut{R: result{Crashed: cl, Err: info.Stderr}}, true
		}
	}
	if err := b.materialise(t); err != nil {
		w.engineError("materialise on %s: %v", b.name, err)
		return execOut{}, false
	}
	r := b.run(allCalls[ci], budget, cancelAt)
	w.out.BackendOps += r.Ops
	if r.Crashed != "" {
		w.out.HelperRuns++
		attempts := 2
		if r.Crashed == "Rename(old-inside-new)" {
			attempts = riskyAttempts
		}
		hx, died, stderr, err := w.helperExec(t, ci, budget, cancelAt, attempts)
		switch {
		case err != nil:
			w.engineError("helper: %v", err)
			return execOut{}, false
		case died:
			w.out.HelperDeaths++
			return execOut{R: result{Crashed: r.Crashed, Err: stderr, Ops: r.Ops}, helper: true}, true
		}
		hx.after = parseKey(hx.After)
		hx.helper = true
		w.out.BackendOps += hx.R.Ops
		return hx, true
	}
	x.R = r
	x.after, x.Outside, x.Deep = b.dump()
	if !r.Exhausted && !r.Killed && r.Ops > w.out.MaxOps {
		w.out.MaxOps = r.Ops
	}
	return x, true
}

func describeResult(r result) string {
	switch {
	case r.Crashed != "":
		return "crash"
	case r.Exhausted || r.Killed:
		return "budget"
	case r.OK:
		return "ok"
	}
	return "err:" + r.Kind
}

func pathsDiffClass(paths []string, before, after tree) string {
	m := map[string]bool{}
	for _, p := range paths {
		b, bok := before[p]
		a, aok := after[p]
		switch {
		case bok && !aok:
			m["lost"] = true
		case !bok && aok:
			m["added"] = true
		case a.Dir != b.Dir:
			m["kind"] = true
		default:
			m["content"] = true
		}
	}
	var l []string
	for k := range m {
		l = append(l, k)
	}
	sort.Strings(l)
	return strings.Join(l, "+")
}

// secondSentence evaluates the clauses that hold for every call; "" = none failed.
func secondSentence(o outcome, c call, before tree, r result, after tree, outside, deep bool, suffix string) (string, map[string]any) {
	emptyArg := c.A == "" || (c.isTwoArg() && c.B == "")
	switch {
	case r.Crashed != "":
		return "process-killed" + suffix + "[" + r.Crashed + "]", map[string]any{"stderr_of_the_killed_worker": r.Err}
	case r.Exhausted || r.Killed:
		return "nonterm" + suffix, map[string]any{"ops": r.Ops, "goroutine_ended_by_hook": r.Killed}
	case (r.Escapes > 0 || outside) && !emptyArg:
		return "escape" + suffix, map[string]any{"refused_ops": r.Escapes, "outside": outside}
	case r.Handles > 0:
		return "handles" + suffix, map[string]any{"open_handles": r.Handles}
	}
	if deep {
		// the call did return, but only after descending more than 40 directory levels (into what it was creating) on
		// a tree at most 5 levels deep: on the OS backend a runaway recursion ends with ENAMETOOLONG
		return "runaway-recursion" + suffix, map[string]any{"ops": r.Ops, "result": describeResult(r)}
	}
	if l := sourceBroken(o, before, after); len(l) > 0 {
		return "source-changed" + suffix + "[" + pathsDiffClass(l, before, after) + "]", map[string]any{"paths": l}
	}
	if l := frameBroken(o, before, after); len(l) > 0 {
		return "frame" + suffix + "[" + pathsDiffClass(l, before, after) + "]", map[string]any{"paths": l}
	}
	return "", nil
}

func firstSentence(o outcome, r result, after tree) (string, map[string]any) {
	if o.Class != "model" {
		return "", nil
	}
	want := "err"
	if o.OK {
		want = "ok"
	}
	switch {
	case o.ConsultResult && r.OK != o.OK:
		got := "err"
		if r.OK {
			got = "ok"
		}
		return fmt.Sprintf("result(got=%s,want=%s)", got, want), map[string]any{"got": describeResult(r)}
	case o.ConsultResult && !r.OK && o.ErrKind != "" && r.Kind != o.ErrKind:
		return fmt.Sprintf("errkind(got=%s,want=%s)", r.Kind, o.ErrKind), nil
	case o.ConsultVal && r.OK && o.OK && r.Val != o.Val:
		return "value", map[string]any{"got": r.Val, "want": o.Val}
	case o.ConsultTree && after.key() != o.Tree.key():
		return "tree", map[string]any{"want_tree": o.Tree.key(), "difference": diffClass(o.Tree, after)}
	}
	return "", nil
}

func valueOp(c call) bool { return !c.mutating() }

// cancelForm is the name a clause has in the cancellation series: "frame[kind]" -> "frame@cancel[kind]".
func cancelForm(clause string) string {
	if i := strings.IndexByte(clause, '['); i >= 0 {
		return clause[:i] + "@cancel" + clause[i:]
	}
	return clause + "@cancel"
}

// evalTransition runs one call in one state on both backends and the model. It returns the successor key ("" = none).
func (w *worker) evalTransition(st stateRec, from int, t tree, ci int, collect bool) string {
	c := allCalls[ci]
	o := model(c, t)
	shape := callShape(c, t)
	w.noteTransition(from, ci)
	w.out.Transitions++
	w.out.ByClass[o.Class]++
	bs := w.backends()
	var res [2]result
	var after [2]tree
	var clause [2]string
	var detail [2]map[string]any
	var isPending, runaway, viaHelper [2]bool
	emptyArg := c.A == "" || (c.isTwoArg() && c.B == "")
	guardedEmpty := false
	for i, b := range bs {
		x, ok := w.exec(b, from, t, ci, probeBudget, -1)
		if !ok {
			return ""
		}
		r := x.R
		res[i] = r
		after[i] = x.after
		viaHelper[i] = x.helper
		w.out.Outcomes[c.Op+"|"+o.Class+"|"+b.name+"|"+describeResult(r)]++
		if r.Crashed == "" && (r.Exhausted || r.Killed) {
			runaway[i] = true
			if b.name == "os" && (x.Deep || r.DeepHit) {
				// stopped by the probe while operating more than 16 directory levels inside what it was creating. On
				// the OS backend the full-budget run of such a case costs seconds (paths of thousands of components)
				// and ends with ENAMETOOLONG, i.e. with this same verdict: it is given from the probe.
				w.out.RunawayFromProbe++
				clause[i], detail[i] = "runaway-recursion", map[string]any{"ops": r.Ops, "stopped_by": "probe budget"}
				continue
			}
			isPending[i] = true
			w.out.Pending = append(w.out.Pending, pendingRec{From: from, Call: ci, Backend: b.name, CancelAt: -1, Class: shape})
			continue
		}
		if emptyArg && r.Escapes > 0 {
			guardedEmpty = true
		}
		clause[i], detail[i] = secondSentence(o, c, t, r, after[i], x.Outside, x.Deep, "")
		if clause[i] == "" {
			clause[i], detail[i] = firstSentence(o, r, after[i])
		}
	}
	if guardedEmpty {
		w.out.GuardedEmpty++
	}
	mkReplay := func(extra map[string]any) map[string]any {
		m := map[string]any{"seed": st.Seed, "path": st.Path, "state": st.Key, "call": c, "call_text": c.String(), "model_class": o.Class,
			"mem": res[0], "os": res[1], "tree_after_mem": after[0].key(), "tree_after_os": after[1].key()}
		for k, v := range extra {
			m[k] = v
		}
		return m
	}
	bad := isPending[0] || isPending[1]
	if clause[0] != "" && clause[0] == clause[1] {
		w.violation(shape+":both:"+clause[0], from, ci, mkReplay(detail[0]))
		bad = true
	} else {
		for i, b := range bs {
			if clause[i] != "" {
				w.violation(shape+":"+b.name+":"+clause[i], from, ci, mkReplay(detail[i]))
				bad = true
			}
		}
	}
	terminated := !(runaway[0] || runaway[1] || res[0].Crashed != "" || res[1].Crashed != "")
	treesEqual := terminated && after[0].key() == after[1].key()
	// agreement of the two backends where the model does not already decide
	if terminated && !bad && o.Class != "conflict" && !guardedEmpty {
		var cross string
		switch {
		case o.Class == "model" && o.ConsultResult && o.ConsultTree && (o.ConsultVal || !valueOp(c)):
			// everything observable was compared with the model, except the kind of an expected error
			if !res[0].OK && !res[1].OK && res[0].Kind != res[1].Kind {
				cross = "errkind"
			}
		default:
			switch {
			case res[0].OK != res[1].OK:
				cross = "result"
			case !res[0].OK && res[0].Kind != res[1].Kind:
				cross = "errkind"
			case res[0].OK && valueOp(c) && res[0].Val != res[1].Val:
				cross = "value"
			case !treesEqual:
				cross = "tree"
			}
		}
		if cross != "" {
			w.violation(shape+":mem≠os:"+cross, from, ci, mkReplay(nil))
			bad = true
		}
	}
	if bad {
		w.out.Disagreeing++
	}
	if collect && len(w.out.Samples) < 2 && (ci%37 == 5) && !bad {
		w.out.Samples = append(w.out.Samples, map[string]any{"state": st.Key, "call": c.String(), "shape": shape, "model_class": o.Class, "model_ok": o.OK,
			"mem": describeResult(res[0]), "os": describeResult(res[1]), "value": res[0].Val, "tree_after": after[0].key()})
	}
	// the cancellation series
	if w.cancel && c.takesContext() && terminated {
		for j := 0; j <= 5; j++ {
			for i, b := range bs {
				if int64(j) > res[i].Ops && !viaHelper[i] {
					continue // the cancellation point lies behind the call's last backend operation
					// (the operation count of an execution made in the helper depends on map iteration order
					// inside MemMapFs.Rename and is not used)
				}
				x, ok := w.exec(b, from, t, ci, probeBudget, j)
				if !ok {
					continue
				}
				r, aft, outside, deep := x.R, x.after, x.Outside, x.Deep
				w.out.CancelRuns++
				if r.Crashed == "" && (r.Exhausted || r.Killed) {
					w.out.Pending = append(w.out.Pending, pendingRec{From: from, Call: ci, Backend: b.name, CancelAt: j, Class: shape + "@cancel"})
					continue
				}
				if cl, det := secondSentence(o, c, t, r, aft, outside, deep, "@cancel"); cl != "" && cl != cancelForm(clause[i]) {
					// (a clause that already failed without cancellation is not reported a second time)
					if det == nil {
						det = map[string]any{}
					}
					det["cancel_before_backend_op"] = j
					det["backend"] = b.name
					det["result"] = r
					det["tree_after"] = aft.key()
					w.violation(shape+":"+b.name+":"+cl, from, ci, mkReplay(det))
				}
			}
		}
	}
	if !c.mutating() || bad || !terminated {
		return ""
	}
	if !treesEqual {
		w.out.NoSuccTreeDif++
		return ""
	}
	return after[0].key()
}

// confirmOne re-runs a pending case under the full budget and evaluates it completely on that backend.
func (w *worker) confirmOne(item int, q confirmReq) {
	t := parseKey(q.Key)
	c := allCalls[q.Call]
	o := model(c, t)
	w.noteTransition(item, q.Call)
	var b *backend
	for _, x := range w.backends() {
		if x.name == q.Backend {
			b = x
		}
	}
	x, ok := w.exec(b, item, t, q.Call, fullBudget, q.CancelAt)
	if !ok {
		return
	}
	r, aft, outside, deep := x.R, x.after, x.Outside, x.Deep
	suffix := ""
	if q.CancelAt >= 0 {
		suffix = "@cancel"
	}
	cl, det := secondSentence(o, c, t, r, aft, outside, deep, suffix)
	if cl == "" && q.CancelAt < 0 {
		cl, det = firstSentence(o, r, aft)
	}
	if det == nil {
		det = map[string]any{}
	}
	det["full_budget_result"] = r
	w.out.ConfirmClause = cl
	w.out.ConfirmDetail = det
}

// validate replays the shortest call path of a state from its seed through the API on both backends.
func (w *worker) validate(item int, st stateRec) bool {
	for _, b := range w.backends() {
		if err := b.materialise(seeds[st.Seed]); err != nil {
			w.engineError("materialise seed: %v", err)
			return false
		}
		for _, c := range st.Path {
			b.run(c, fullBudget, -1)
		}
		got, _, _ := b.dump()
		if got.key() != st.Key {
			w.engineError("state %q reached by %v from seed %d is not reproduced on %s: got %q", st.Key, st.Path, st.Seed, b.name, got.key())
			return false
		}
	}
	return true
}

func (w *worker) evalState(i int, st stateRec, onlyCall int) {
	t := parseKey(st.Key)
	w.out.States++
	w.noteTransition(i, -1)
	if w.validate(i, st) {
		w.out.Validated++
	}
	for ci := range allCalls {
		if onlyCall >= 0 && ci != onlyCall {
			continue
		}
		if k := w.evalTransition(st, i, t, ci, i%5 == 0); k != "" && k != st.Key {
			w.out.Succ = append(w.out.Succ, succ{From: i, Call: ci, Key: k})
		}
	}
}

func expandable(t tree, b bounds) bool {
	if len(t) > b.MaxEntries {
		return false
	}
	for p := range t {
		if strings.Count(p, "/")+1 > b.MaxPathDepth {
			return false
		}
	}
	return true
}

// search is the parent's bookkeeping.
type search struct {
	rep          *ev.Reporter
	runDir       string
	n            int
	total        shardOut
	viols        map[string]*violRec
	crashClasses map[string]bool
	crashesSeen  int
	crashLog     []any
	confirmed    map[string]string         // class|backend -> clause ("" = the full-budget run raised nothing)
	confirmedDet map[string]map[string]any // detail of that run
	confirmRuns  int
	pendingCases int64
	pendingClean int64
}

func (s *search) addViol(sig string, n int64, replay map[string]any) {
	if have, ok := s.viols[sig]; ok {
		have.N += n // the earliest case keeps the replay: breadth-first, so it is a shortest one
		return
	}
	s.viols[sig] = &violRec{Sig: sig, N: n, Replay: replay}
}

func (s *search) crashList() []string {
	var l []string
	for c := range s.crashClasses {
		l = append(l, c)
	}
	sort.Strings(l)
	return l
}

// runLevel evaluates the frontier and decides pending cases; it returns the successors sorted by (state, call).
func (s *search) runLevel(id string, frontier []stateRec, cancel bool, onlyCall int) (all []succ, transitions int64) {
	jb := &job{ID: id, Run: s.runDir, Mode: "level", Cancel: cancel, OnlyCall: onlyCall, States: frontier, CrashClasses: s.crashList()}
	lines, crashes, errs := runPool(jb, s.n)
	for _, e := range errs {
		s.rep.EngineError("%s", e)
	}
	s.crashesSeen += len(crashes)
	for _, c := range crashes {
		if c.OpClass != "" {
			s.crashClasses[c.OpClass] = true
		}
		if len(s.crashLog) < 20 && c.Item >= 0 && c.Item < len(frontier) && c.Call >= 0 {
			s.crashLog = append(s.crashLog, map[string]any{"state": frontier[c.Item].Key, "call": allCalls[c.Call].String(), "op_class": c.OpClass, "stderr": c.Stderr})
		}
	}
	sort.Slice(lines, func(i, j int) bool { return lines[i].Item < lines[j].Item })
	var pend []pendingRec
	for _, o := range lines {
		if o.Done {
			continue
		}
		all = append(all, o.Succ...)
		pend = append(pend, o.Pending...)
		s.total.States += o.States
		s.total.Transitions += o.Transitions
		transitions += o.Transitions
		s.total.CancelRuns += o.CancelRuns
		s.total.Validated += o.Validated
		s.total.GuardedEmpty += o.GuardedEmpty
		s.total.BackendOps += o.BackendOps
		s.total.Disagreeing += o.Disagreeing
		s.total.NoSuccTreeDif += o.NoSuccTreeDif
		s.total.HelperRuns += o.HelperRuns
		s.total.HelperDeaths += o.HelperDeaths
		s.total.RunawayFromProbe += o.RunawayFromProbe
		s.total.HelperRuns += o.HelperRuns
		s.total.HelperDeaths += o.HelperDeaths
		if o.MaxOps > s.total.MaxOps {
			s.total.MaxOps = o.MaxOps
		}
		for k, v := range o.ByClass {
			s.total.ByClass[k] += v
		}
		for k, v := range o.Outcomes {
			s.total.Outcomes[k] += v
		}
		for _, e := range o.EngineErrors {
			s.rep.EngineError("%s", e)
		}
		for _, v := range o.Viol {
			s.addViol(v.Sig, v.N, v.Replay)
		}
		if len(s.total.Samples) < 8 {
			s.total.Samples = append(s.total.Samples, o.Samples...)
		}
	}
	// decide the pending cases: one full-budget run per undecided (shape, backend)
	sort.SliceStable(pend, func(i, j int) bool {
		if pend[i].From != pend[j].From {
			return pend[i].From < pend[j].From
		}
		return pend[i].Call < pend[j].Call
	})
	var reqs []confirmReq
	seen := map[string]bool{}
	for _, p := range pend {
		k := p.Class + "|" + p.Backend
		if _, ok := s.confirmed[k]; ok || seen[k] {
			continue
		}
		seen[k] = true
		reqs = append(reqs, confirmReq{Key: frontier[p.From].Key, Call: p.Call, Backend: p.Backend, CancelAt: p.CancelAt, Class: p.Class})
	}
	if len(reqs) > 0 {
		cj := &job{ID: id + "c", Run: s.runDir, Mode: "confirm", Confirm: reqs, CrashClasses: s.crashList()}
		clines, ccrashes, cerrs := runPool(cj, s.n)
		for _, e := range cerrs {
			s.rep.EngineError("%s", e)
		}
		s.crashesSeen += len(ccrashes)
		got := map[int]shardOut{}
		for _, l := range clines {
			if !l.Done {
				got[l.Item] = l
				s.total.BackendOps += l.BackendOps
				for _, e := range l.EngineErrors {
					s.rep.EngineError("%s", e)
				}
			}
		}
		for i, q := range reqs {
			l, ok := got[i]
			if !ok {
				s.rep.EngineError("no verdict for the pending case %v", q)
				continue
			}
			s.confirmRuns++
			s.confirmed[q.Class+"|"+q.Backend] = l.ConfirmClause
			s.confirmedDet[q.Class+"|"+q.Backend] = l.ConfirmDetail
		}
	}
	for _, p := range pend {
		s.pendingCases++
		k := p.Class + "|" + p.Backend
		cl, ok := s.confirmed[k]
		if !ok {
			continue
		}
		if cl == "" {
			s.pendingClean++
			continue
		}
		st := frontier[p.From]
		shape := strings.TrimSuffix(p.Class, "@cancel")
		rp := map[string]any{"seed": st.Seed, "path": st.Path, "state": st.Key, "call": allCalls[p.Call], "call_text": allCalls[p.Call].String(), "backend": p.Backend,
			"note":                              "this case exceeded the probe budget of 5000 backend operations; the verdict is that of the full-budget (10^5) run of the first such case of this shape on this backend",
			"full_budget_run_of_the_first_case": s.confirmedDet[k]}
		if p.CancelAt >= 0 {
			rp["cancel_before_backend_op"] = p.CancelAt
		}
		s.addViol(shape+":"+p.Backend+":"+cl, 1, rp)
	}
	sort.Slice(all, func(i, j int) bool {
		if all[i].From != all[j].From {
			return all[i].From < all[j].From
		}
		return all[i].Call < all[j].Call
	})
	return all, transitions
}

func TestC06(t *testing.T) {
	if os.Getenv("C06_HELPER") != "" {
		helperMain()
		return
	}
	if os.Getenv("C06_WORKER") != "" {
		workerMain()
		return
	}
	rep := ev.NewReporter("C06", "model_checking")
	runDir, err := newRunDir()
	if err != nil {
		rep.EngineError("no sandbox under /dev/shm: %v", err)
		rep.Finish()
		return
	}
	mustBeSandbox(runDir + "/w0/r")
	defer os.RemoveAll(runDir)
	s := &search{rep: rep, runDir: runDir, n: ev.Workers(), viols: map[string]*violRec{}, crashClasses: map[string]bool{},
		confirmed: map[string]string{}, confirmedDet: map[string]map[string]any{}}
	s.total = shardOut{ByClass: map[string]int64{}, Outcomes: map[string]int64{}}
	if p := os.Getenv("VERIF_REPLAY"); p != "" {
		replayCase(s, p)
		rep.Finish()
		return
	}
	bd := tierBounds()
	pathConversionCheck(rep)
	_ = os.MkdirAll(runDir+"/w0/r", 0o755)
	rep.Coverage["name_resemblance_probes"] = namesDoNotMatter(rep, runDir+"/w0/r")

	visited := map[string]bool{}
	var frontier []stateRec
	for i, sd := range seeds {
		k := sd.key()
		if !visited[k] {
			visited[k] = true
			frontier = append(frontier, stateRec{Key: k, Seed: i, Depth: 0})
		}
	}
	var perLevel []map[string]any
	capped, notExpanded := false, int64(0)
	for level := 0; level <= bd.Depth && len(frontier) > 0; level++ {
		if level == bd.Depth && bd.MaxStatesLevel > 0 && len(frontier) > bd.MaxStatesLevel {
			frontier = frontier[:bd.MaxStatesLevel]
			capped = true
		}
		t0 := time.Now()
		all, ltrans := s.runLevel(fmt.Sprintf("L%d", level), frontier, level <= bd.CancelDepth, -1)
		lv := map[string]any{"level": level, "states": len(frontier), "transitions": ltrans, "wall_s": time.Since(t0).Seconds()}
		var next []stateRec
		for _, sc := range all {
			if visited[sc.Key] {
				continue
			}
			visited[sc.Key] = true
			if !expandable(parseKey(sc.Key), bd) {
				notExpanded++
				continue
			}
			p := frontier[sc.From]
			path := append(append([]call(nil), p.Path...), allCalls[sc.Call])
			next = append(next, stateRec{Key: sc.Key, Seed: p.Seed, Path: path, Depth: level + 1})
		}
		lv["new_states"] = len(next)
		perLevel = append(perLevel, lv)
		frontier = next
	}
	frontierClosed := len(frontier) == 0
	sigs := make([]string, 0, len(s.viols))
	for sg := range s.viols {
		sigs = append(sigs, sg)
	}
	sort.Strings(sigs)
	for _, sg := range sigs {
		rep.ViolationN(sg, s.viols[sg].Replay, s.viols[sg].N)
	}
	total := s.total
	if len(total.Samples) > 8 {
		total.Samples = total.Samples[:8]
	}
	if total.States == 0 {
		rep.EngineError("no state was evaluated")
	}
	rep.Coverage["states"] = total.States
	rep.Coverage["states_discovered"] = len(visited)
	rep.Coverage["states_left_unexpanded_at_the_depth_bound"] = len(frontier)
	rep.Coverage["states_not_evaluated_size_cap"] = notExpanded
	rep.Coverage["transitions"] = total.Transitions
	rep.Coverage["traces_validated_against_impl"] = total.Validated * 2
	rep.Coverage["traces_validated_explanation"] = "every evaluated state's shortest call path was replayed from its seed through the API on both backends and reproduced the state's dump (states x 2 backends); every transition itself is executed by the implementation on both backends"
	rep.Coverage["transitions_by_model_class"] = total.ByClass
	rep.Coverage["disagreeing_transitions_not_expanded"] = total.Disagreeing
	rep.Coverage["conflict_transitions_with_different_trees_on_the_backends_not_expanded"] = total.NoSuccTreeDif
	rep.Coverage["cancellation_runs"] = total.CancelRuns
	rep.Coverage["backend_operations_executed"] = total.BackendOps
	rep.Coverage["max_backend_ops_of_a_call_within_the_probe_budget"] = total.MaxOps
	rep.Coverage["pending_cases_over_probe_budget"] = s.pendingCases
	rep.Coverage["pending_full_budget_runs"] = s.confirmRuns
	rep.Coverage["pending_cases_decided_by_shape"] = s.pendingCases - int64(s.confirmRuns)
	rep.Coverage["pending_cases_whose_shape_passed_the_full_run"] = s.pendingClean
	rep.Coverage["os_runaway_verdicts_given_from_the_probe_run"] = total.RunawayFromProbe
	rep.Coverage["worker_processes_killed_by_the_code_under_test"] = s.crashesSeen
	rep.Coverage["crash_classes"] = s.crashList()
	rep.Coverage["observed_crashes"] = s.crashLog
	rep.Coverage["executions_moved_to_the_sacrificial_helper_process"] = total.HelperRuns
	rep.Coverage["helper_processes_killed_by_the_code_under_test"] = total.HelperDeaths
	rep.Coverage["empty_path_calls_stopped_by_the_sandbox_guard_not_compared"] = total.GuardedEmpty
	var ru syscall.Rusage
	if syscall.Getrusage(syscall.RUSAGE_CHILDREN, &ru) == nil {
		// wall time depends on what else the machine is doing; this does not
		rep.Coverage["cpu_seconds_of_the_worker_processes"] = float64(ru.Utime.Sec+ru.Stime.Sec) + float64(ru.Utime.Usec+ru.Stime.Usec)/1e6
	}
	rep.Coverage["per_level"] = perLevel
	rep.Coverage["bound"] = bd
	rep.Coverage["alphabet_calls"] = len(allCalls)
	rep.Coverage["alphabet_paths"] = relPaths
	rep.Coverage["seeds"] = len(seeds)
	rep.Coverage["workers"] = s.n
	rep.Coverage["distinct_observed_outcomes"] = len(total.Outcomes)
	rep.Coverage["observed_outcomes"] = total.Outcomes
	rep.Coverage["distinct_violation_signatures"] = len(sigs)
	rep.Coverage["exhaustive"] = frontierClosed && !capped && notExpanded == 0
	rep.Coverage["frontier_closed"] = frontierClosed
	rep.Coverage["samples"] = total.Samples
	rep.Assume = []string{
		"OS backend = tmpfs under /dev/shm on Linux; Windows path rules are not covered",
		"mtimes and permissions are not part of a state (no operation of the alphabet reads them)",
		"the reference model and the lists of kind conflicts / silent cases are in checks/c06/model_test.go",
	}
	rep.Finish()
}

// replayCase re-runs one stored case in a worker process (the case may kill it): the state is rebuilt by replaying the
// path from the seed through the API (validation), then the call is evaluated with every oracle.
func replayCase(s *search, path string) {
	rep := s.rep
	b, err := os.ReadFile(path)
	if err != nil {
		rep.EngineError("cannot read replay: %v", err)
		return
	}
	var head struct {
		Signature string `json:"signature"`
	}
	_ = json.Unmarshal(b, &head)
	if strings.HasPrefix(head.Signature, "ConvertTo") || strings.Contains(head.Signature, "result-depends-on-the-destination-name") {
		// the two stateless families are small: they are run again as a whole
		pathConversionCheck(rep)
		_ = os.MkdirAll(s.runDir+"/w0/r", 0o755)
		rep.Coverage["name_resemblance_probes"] = namesDoNotMatter(rep, s.runDir+"/w0/r")
		n, _ := rep.Coverage["name_resemblance_probes"].(int)
		rep.Coverage["states"], rep.Coverage["transitions"], rep.Coverage["exhaustive"] = 1, 2*n+1, false // one tree, two calls per probe
		rep.Coverage["traces_validated_against_impl"] = 0
		rep.Coverage["samples"] = []any{map[string]any{"replayed_signature": head.Signature}}
		return
	}
	var f struct {
		Signature string `json:"signature"`
		Replay    struct {
			Seed  int    `json:"seed"`
			Path  []call `json:"path"`
			State string `json:"state"`
			Call  call   `json:"call"`
		} `json:"replay"`
	}
	if err := json.Unmarshal(b, &f); err != nil {
		rep.EngineError("replay does not parse: %v", err)
		return
	}
	ci := -1
	for i, c := range allCalls {
		if c == f.Replay.Call {
			ci = i
		}
	}
	if ci < 0 {
		rep.EngineError("the replayed call %v is not in the alphabet", f.Replay.Call)
		return
	}
	st := stateRec{Key: f.Replay.State, Seed: f.Replay.Seed, Path: f.Replay.Path, Depth: len(f.Replay.Path)}
	s.n = 1
	s.runLevel("replay", []stateRec{st}, true, ci)
	fmt.Printf("REPLAY state=%q call=%s stored-signature=%s\n", st.Key, allCalls[ci], f.Signature)
	sigs := make([]string, 0, len(s.viols))
	for sg := range s.viols {
		sigs = append(sigs, sg)
	}
	sort.Strings(sigs)
	reproduced := false
	for _, sg := range sigs {
		fmt.Printf("REPLAY-VIOLATION signature=%s\n", sg)
		rep.ViolationN(sg, s.viols[sg].Replay, s.viols[sg].N)
		if sg == f.Signature {
			reproduced = true
		}
	}
	fmt.Printf("REPLAY stored signature reproduced: %v\n", reproduced)
	rep.Coverage["states"] = 1
	rep.Coverage["transitions"] = s.total.Transitions
	rep.Coverage["traces_validated_against_impl"] = s.total.Validated * 2
	rep.Coverage["samples"] = []any{map[string]any{"replayed": path, "reproduced": reproduced}}
}

// pathConversionCheck: ConvertToAbsolutePath / ConvertToRelativePath do not touch the tree; they are checked once, on
// both backend types, against the obvious model (join with the root and clean; the relative path that leads from the
// root to the path) and against each other (round trip).
// namesDoNotMatter: copying or moving an entry to a destination whose NAME merely resembles the source's (it begins with
// the source's name, or differs by one character) gives what the same call gives with an unrelated name, up to that name.
// A metamorphic family beside the model: both runs are made on fresh copies of one tree, on both backends.
func namesDoNotMatter(rep *ev.Reporter, osRoot string) int {
	base := tree{"a": {Dir: true}, "a/f.t": {Content: "x"}, "a/b": {Dir: true}, "a/b/g.t": {Content: "yy"}, "c.t": {Content: "z"}}
	type probe struct{ op, src, dst, ref string }
	var probes []probe
	for _, op := range []string{"Copy", "CopyToDirectory", "Move", "MoveBetweenFS"} {
		for _, d := range []string{"ab", "ab/", "a.b", "aa", "a-copy", "a~"} {
			ref := "zq"
			if strings.HasSuffix(d, "/") {
				ref = "zq/"
			}
			probes = append(probes, probe{op, "a", d, ref})
		}
		for _, d := range []string{"a/b.bak", "a/bb", "a/b2/"} {
			ref := "a/zq"
			if strings.HasSuffix(d, "/") {
				ref = "a/zq/"
			}
			probes = append(probes, probe{op, "a/b", d, ref})
		}
		probes = append(probes, probe{op, "c.t", "c.tt", "zq"}, probe{op, "a/f.t", "a/f.t.bak", "a/zq"})
	}
	run := func(b *backend, op, src, dst string) (bool, tree, error) {
		if err := b.materialise(base); err != nil {
			return false, nil, err
		}
		ctx := context.Background()
		var err error
		switch op {
		case "Copy":
			err = b.fs.CopyWithContext(ctx, b.abs(src), b.abs(dst))
		case "CopyToDirectory":
			err = b.fs.CopyToDirectoryWithContext(ctx, b.abs(src), b.abs(dst))
		case "Move":
			err = b.fs.MoveWithContext(ctx, b.abs(src), b.abs(dst))
		case "MoveBetweenFS":
			err = filesystem.MoveBetweenFS(ctx, b.fs, b.abs(src), b.fs, b.abs(dst))
		}
		t, _, _ := b.dump()
		return err == nil, t, nil
	}
	n := 0
	for _, b := range []*backend{newMemBackend(), newOSBackend(osRoot)} {
		for _, p := range probes {
			ok1, t1, e1 := run(b, p.op, p.src, p.dst)
			ok2, t2, e2 := run(b, p.op, p.src, p.ref)
			if e1 != nil || e2 != nil {
				rep.EngineError("names family: %v %v", e1, e2)
				return n
			}
			n++
			from, to := strings.TrimSuffix(p.ref, "/"), strings.TrimSuffix(p.dst, "/")
			renamed := tree{}
			for k, v := range t2 {
				if k == from || strings.HasPrefix(k, from+"/") {
					k = to + strings.TrimPrefix(k, from)
				}
				renamed[k] = v
			}
			if ok1 != ok2 || !reflect.DeepEqual(t1, renamed) {
				rep.Violation(fmt.Sprintf("%s:%s:result-depends-on-the-destination-name-resembling-the-source-name", p.op, b.name), map[string]any{"source": p.src, "destination": p.dst, "reference_destination": p.ref, "succeeded": ok1, "reference_succeeded": ok2, "tree": fmt.Sprint(t1), "reference_tree_renamed": fmt.Sprint(renamed)})
			}
		}
	}
	return n
}

func pathConversionCheck(rep *ev.Reporter) {
	cases := 0
	for _, b := range []*backend{newMemBackend(), {name: "os", root: sandboxPrefix + "000000000000/w0/r", ctl: &control{isOS: true}}} {
		if err := func() error {
			if b.name == "mem" {
				return b.materialise(tree{})
			}
			// no backend access is needed (and none is made: the root does not exist)
			b.fs = filesystem.NewVirtualFileSystem(afero.NewOsFs(), filesystem.StandardFS, filesystem.IdentityPathConverterFunc)
			return nil
		}(); err != nil {
			rep.EngineError("path conversion: %v", err)
			return
		}
		for _, root := range []string{b.root, b.root + "/a", b.root + "/a/"} {
			for _, rel := range relPaths {
				if rel == "" {
					continue
				}
				cases++
				wantAbs := filepath.Clean(filepath.Join(root, rel))
				got, err := b.fs.ConvertToAbsolutePath(root, rel)
				if err != nil || len(got) != 1 || got[0] != wantAbs {
					rep.Violation("ConvertToAbsolutePath:"+b.name+":value", map[string]any{"root": root, "path": rel, "got": got, "err": fmt.Sprint(err), "want": wantAbs})
					continue
				}
				back, err := b.fs.ConvertToRelativePath(root, got[0])
				if err != nil || len(back) != 1 || back[0] != filepath.Clean(rel) {
					rep.Violation("ConvertToRelativePath:"+b.name+":value", map[string]any{"root": root, "path": got[0], "got": back, "err": fmt.Sprint(err), "want": filepath.Clean(rel)})
				}
				// an absolute path is kept as it is
				abs := b.root + "/" + rel
				got, err = b.fs.ConvertToAbsolutePath(root, abs)
				if err != nil || len(got) != 1 || got[0] != abs {
					rep.Violation("ConvertToAbsolutePath(absolute):"+b.name+":value", map[string]any{"root": root, "path": abs, "got": got, "err": fmt.Sprint(err), "want": abs})
				}
			}
		}
	}
	// the relative path of ANY entry with respect to ANY root: inside it, beside it (a sibling whose name merely begins
	// with the root's name among them), above it. Judged without a second implementation of "relative": joining the answer
	// to the root must designate the entry, and the answer must be in its shortest form.
	names := []string{"a", "ab", "a.b", "a/b", "ab/c", "a/b/c", "b", "b/f.t", "a/f.t", "."}
	for _, b := range []*backend{newMemBackend(), {name: "os", root: sandboxPrefix + "000000000000/w0/r", ctl: &control{isOS: true}}} {
		if b.name == "mem" {
			if err := b.materialise(tree{}); err != nil {
				rep.EngineError("path conversion: %v", err)
				return
			}
		} else {
			b.fs = filesystem.NewVirtualFileSystem(afero.NewOsFs(), filesystem.StandardFS, filesystem.IdentityPathConverterFunc)
		}
		for _, r := range names {
			for _, e := range names {
				for _, slash := range []string{"", "/"} {
					root, entry := filepath.Join(b.root, r)+slash, filepath.Join(b.root, e)
					cases++
					got, err := b.fs.ConvertToRelativePath(root, entry)
					ok := err == nil && len(got) == 1 && filepath.Clean(filepath.Join(root, got[0])) == filepath.Clean(entry) && got[0] == filepath.Clean(got[0]) && !filepath.IsAbs(got[0])
					if ok && got[0] != "." && !strings.HasPrefix(got[0], "..") && !within(filepath.Clean(entry), filepath.Clean(root)) {
						ok = false // an answer without a parent reference for an entry that is not below the root
					}
					if !ok {
						rep.Violation("ConvertToRelativePath:"+b.name+":value:root-and-entry-anywhere", map[string]any{"root": root, "path": entry, "got": got, "err": fmt.Sprint(err), "must_satisfy": "Clean(Join(root, answer)) == Clean(path), answer clean and relative"})
					}
				}
			}
		}
	}
	rep.Coverage["path_conversion_cases"] = cases
}

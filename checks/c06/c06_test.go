// C06 — the filesystem API follows its documented semantics on every backend.
//
// Explicit-state breadth-first search. A STATE is the canonical dump of the sandbox tree (sorted relative paths, kind,
// content: the only thing the property can observe). From 6 seed trees every call of the alphabet (calls_test.go:
// ~440 concrete calls = 24 operations x 8 colliding paths {a, a/, a/b, a/f.t, b, b/f.t, a/b/c, ""} x contents
// {x, yy, ""}) is applied to every state, on
//   - the in-memory backend  filesystem.NewVirtualFileSystem(vfsx.NewMem(afero.NewMemMapFs(), shared, 0), InMemoryFS, ..)
//   - the OS backend         filesystem.NewVirtualFileSystem(vfsx.NewOS(filesystem.NewExtendedOsFs(), shared, 0), StandardFS, ..)
//     in a sandbox under /dev/shm/verif-c06-*,
//   - the reference model (model_test.go).
// Live file systems cannot be cloned: the state is MATERIALISED on an emptied sandbox before every call; in addition
// every state's shortest call path is REPLAYED from its seed through the API on both backends and the dump compared
// with the state (differential: "reached from the initial state" vs "built from elsewhere").
//
// Oracles per transition (see model_test.go for the readings taken):
//   first sentence (calls free of kind conflicts, documentation not silent): ok/error and error kind = model, returned
//   value = model, dump(mem) = dump(os) = model; where the documentation is silent: the two backends agree;
//   second sentence (every call): the call terminates within 10^5 backend operations (a vfsx hook makes every further
//   operation fail and finally ends the goroutine: no timer); the handle table of the vfsx layer is empty when the
//   call returns - also when it failed and when its context was cancelled before the call or just before its j-th
//   backend operation, j = 1..5; nothing outside the destination changed; every pre-existing entry of a copy's source
//   is unchanged, also when source and destination overlap.
// The successors of a transition on which any oracle failed (or on which the backends left different trees) are not
// expanded.
//
// A violation's signature = call shape (operation, shape of each argument relative to the tree, relation between the
// arguments, see callShape) : backend (mem | os | both | mem≠os) : failed clause.
package c06

import (
	"encoding/json"
	"fmt"
	"os"
	"path/filepath"
	"sort"
	"strings"
	"testing"

	ev "verif/engine/evidence"
)

func TestMain(m *testing.M) { ev.Main(m) }

var seeds = []tree{
	{},
	{"a": {Content: "x"}},
	{"a": {Dir: true}, "a/f.t": {Content: "x"}},
	{"a": {Dir: true}, "a/b": {Dir: true}, "a/b/c": {Dir: true}, "a/f.t": {Content: "x"}, "b": {Dir: true}},
	{"a": {Dir: true}, "a/b": {Dir: true}, "a/b/c": {Content: "yy"}, "b": {Dir: true}, "b/f.t": {Content: "yy"}},
	{"a": {Dir: true}, "a/f.t": {Content: "x"}, "b": {Content: "yy"}},
}

// bounds
type bounds struct {
	Depth          int `json:"bfs_depth"`            // states at this depth are evaluated with... see ExpandDepth
	CancelDepth    int `json:"cancel_series_depth"`  // the cancellation series is run on states of depth <= this
	MaxEntries     int `json:"max_entries_expanded"` // states with more entries are not expanded further (not evaluated)
	MaxPathDepth   int `json:"max_path_depth_expanded"`
	MaxStatesLevel int `json:"max_states_last_level"` // cap on the states evaluated at the last level (0 = none)
}

func tierBounds() bounds {
	if d := os.Getenv("C06_DEPTH"); d != "" { // development aid only
		n := int(d[0] - '0')
		return bounds{Depth: n, CancelDepth: n, MaxEntries: 10, MaxPathDepth: 5}
	}
	if ev.Thorough() {
		return bounds{Depth: 3, CancelDepth: 2, MaxEntries: 10, MaxPathDepth: 5, MaxStatesLevel: 0}
	}
	return bounds{Depth: 2, CancelDepth: 1, MaxEntries: 10, MaxPathDepth: 5, MaxStatesLevel: 0}
}

type stateRec struct {
	Key   string `json:"key"`
	Seed  int    `json:"seed"`
	Path  []call `json:"path"`
	Depth int    `json:"depth"`
}

type job struct {
	Run    string     `json:"run"`
	Level  int        `json:"level"`
	Cancel bool       `json:"cancel"`
	States []stateRec `json:"states"`
}

type succ struct {
	From int    `json:"f"`
	Call int    `json:"c"`
	Key  string `json:"k"`
}

type violRec struct {
	Sig    string `json:"sig"`
	N      int64  `json:"n"`
	Replay any    `json:"replay"`
	From   int    `json:"from"`
	Call   int    `json:"call"`
}

type shardOut struct {
	Succ          []succ           `json:"succ"`
	Viol          []*violRec       `json:"viol"`
	States        int64            `json:"states"`
	Transitions   int64            `json:"transitions"`
	ByClass       map[string]int64 `json:"by_class"`
	CancelRuns    int64            `json:"cancel_runs"`
	Validated     int64            `json:"validated"`
	Outcomes      map[string]int64 `json:"outcomes"`
	MaxOps        int64            `json:"max_ops"`
	FullConfirm   int64            `json:"full_confirm"`
	ProbeOnly     int64            `json:"probe_only"`
	LongSkipped   int64            `json:"long_skipped"`
	GuardedEmpty  int64            `json:"guarded_empty"`
	BackendOps    int64            `json:"backend_ops"`
	Disagreeing   int64            `json:"disagreeing"`
	NoSuccTreeDif int64            `json:"no_succ_tree_diff"`
	EngineErrors  []string         `json:"engine_errors"`
	Samples       []any            `json:"samples"`
}

// worker is the per-process evaluation context.
type worker struct {
	mem, osb *backend
	out      *shardOut
	viol     map[string]*violRec
	memo     map[string]*classMemo
	cancel   bool
}

type classMemo struct {
	nonterm int
	long    bool
}

func newWorker(runDir string, shard int) (*worker, error) {
	root := fmt.Sprintf("%s/w%d/r", runDir, shard)
	mustBeSandbox(root)
	if err := os.MkdirAll(root, 0o755); err != nil {
		return nil, err
	}
	if err := os.Chdir(root); err != nil {
		return nil, err
	}
	w := &worker{mem: newMemBackend(), osb: newOSBackend(root), viol: map[string]*violRec{}, memo: map[string]*classMemo{}}
	w.out = &shardOut{ByClass: map[string]int64{}, Outcomes: map[string]int64{}}
	return w, nil
}

func (w *worker) backends() []*backend { return []*backend{w.mem, w.osb} }

func (w *worker) engineError(format string, a ...any) {
	if len(w.out.EngineErrors) < 20 {
		w.out.EngineErrors = append(w.out.EngineErrors, fmt.Sprintf(format, a...))
	}
}

func (w *worker) violation(sig string, from, callIdx int, replay map[string]any) {
	v, ok := w.viol[sig]
	if !ok {
		v = &violRec{Sig: sig, Replay: replay, From: from, Call: callIdx}
		w.viol[sig] = v
	}
	v.N++
}

// runChecked executes the call on a freshly materialised state under the termination budget.
// Two stages keep runaway calls affordable: the call first runs with probeBudget (5*10^3 operations; the largest
// terminating call observed needs a few hundred); if that is exceeded the case is re-run under the property's budget of
// 10^5 and that verdict is taken. Once two cases of the same call shape on the same backend were confirmed as
// non-terminating under the full budget, later cases of that shape are reported from the probe alone (counted in
// probe_only). A shape for which the full run terminated is always run in full.
func (w *worker) runChecked(b *backend, t tree, c call, class string, cancelAt int) (r result, skipped bool) {
	if err := b.materialise(t); err != nil {
		w.engineError("materialise on %s: %v", b.name, err)
		return result{}, true
	}
	r = b.run(c, probeBudget, cancelAt)
	w.out.BackendOps += r.Ops
	if !r.Exhausted && !r.Killed {
		if r.Ops > w.out.MaxOps {
			w.out.MaxOps = r.Ops
		}
		return r, false
	}
	k := class + "|" + b.name
	m := w.memo[k]
	if m == nil {
		m = &classMemo{}
		w.memo[k] = m
	}
	if m.nonterm >= 2 && !m.long {
		w.out.ProbeOnly++
		return r, false
	}
	if err := b.materialise(t); err != nil {
		w.engineError("materialise on %s: %v", b.name, err)
		return result{}, true
	}
	r = b.run(c, fullBudget, cancelAt)
	w.out.BackendOps += r.Ops
	w.out.FullConfirm++
	if r.Exhausted || r.Killed {
		m.nonterm++
	} else {
		m.long = true
		if r.Ops > w.out.MaxOps {
			w.out.MaxOps = r.Ops
		}
	}
	return r, false
}

func describeResult(r result) string {
	if r.OK {
		return "ok"
	}
	return "err:" + r.Kind
}

func pathsDiffClass(paths []string, before, after tree) string {
	m := map[string]bool{}
	for _, p := range paths {
		b, bok := before[p]
		a, aok := after[p]
		switch {
		case bok && !aok:
			m["lost"] = true
		case !bok && aok:
			m["added"] = true
		case a.Dir != b.Dir:
			m["kind"] = true
		default:
			m["content"] = true
		}
	}
	var l []string
	for k := range m {
		l = append(l, k)
	}
	sort.Strings(l)
	return strings.Join(l, "+")
}

// secondSentence evaluates the clauses that hold for every call; "" = none failed.
func secondSentence(o outcome, c call, before tree, r result, after tree, outside, deep bool, suffix string) (string, map[string]any) {
	emptyArg := c.A == "" || (c.isTwoArg() && c.B == "")
	switch {
	case r.Exhausted || r.Killed:
		return "nonterm" + suffix, map[string]any{"ops": r.Ops, "killed": r.Killed}
	case (r.Escapes > 0 || outside) && !emptyArg:
		return "escape" + suffix, map[string]any{"refused_ops": r.Escapes, "outside": outside}
	case r.Handles > 0:
		return "handles" + suffix, map[string]any{"open_handles": r.Handles}
	}
	if deep {
		return "deep-tree" + suffix, nil
	}
	if l := sourceBroken(o, before, after); len(l) > 0 {
		return "source-changed" + suffix + "[" + pathsDiffClass(l, before, after) + "]", map[string]any{"paths": l}
	}
	if l := frameBroken(o, before, after); len(l) > 0 {
		return "frame" + suffix + "[" + pathsDiffClass(l, before, after) + "]", map[string]any{"paths": l}
	}
	return "", nil
}

func firstSentence(o outcome, r result, after tree) (string, map[string]any) {
	if o.Class != "model" {
		return "", nil
	}
	want := "err"
	if o.OK {
		want = "ok"
	}
	switch {
	case o.ConsultResult && r.OK != o.OK:
		return fmt.Sprintf("result(got=%s,want=%s)", describeResult(r), want), nil
	case o.ConsultResult && !r.OK && o.ErrKind != "" && r.Kind != o.ErrKind:
		return fmt.Sprintf("errkind(got=%s,want=%s)", r.Kind, o.ErrKind), nil
	case o.ConsultVal && r.OK && o.OK && r.Val != o.Val:
		return "value", map[string]any{"got": r.Val, "want": o.Val}
	case o.ConsultTree && after.key() != o.Tree.key():
		return "tree[" + diffClass(o.Tree, after) + "]", map[string]any{"want_tree": o.Tree.key()}
	}
	return "", nil
}

func valueOp(c call) bool { return !c.mutating() }

// evalTransition runs one call in one state on both backends and the model. It returns the successor key ("" = none).
func (w *worker) evalTransition(st stateRec, from int, t tree, ci int, collect bool) string {
	c := allCalls[ci]
	o := model(c, t)
	shape := callShape(c, t)
	w.out.Transitions++
	w.out.ByClass[o.Class]++
	bs := w.backends()
	var res [2]result
	var after [2]tree
	var clause [2]string
	var detail [2]map[string]any
	skippedAny := false
	emptyArg := c.A == "" || (c.isTwoArg() && c.B == "")
	guardedEmpty := false
	for i, b := range bs {
		r, skipped := w.runChecked(b, t, c, shape, -1)
		if skipped {
			skippedAny = true
			continue
		}
		res[i] = r
		var outside, deep bool
		after[i], outside, deep = b.dump()
		if emptyArg && r.Escapes > 0 {
			guardedEmpty = true
		}
		clause[i], detail[i] = secondSentence(o, c, t, r, after[i], outside, deep, "")
		if clause[i] == "" {
			clause[i], detail[i] = firstSentence(o, r, after[i])
		}
		w.out.Outcomes[c.Op+"|"+o.Class+"|"+b.name+"|"+describeResult(r)]++
	}
	if skippedAny {
		return ""
	}
	if guardedEmpty {
		w.out.GuardedEmpty++
	}
	mkReplay := func(extra map[string]any) map[string]any {
		m := map[string]any{"seed": st.Seed, "path": st.Path, "state": st.Key, "call": c, "call_text": c.String(), "model_class": o.Class,
			"mem": res[0], "os": res[1], "tree_after_mem": after[0].key(), "tree_after_os": after[1].key()}
		for k, v := range extra {
			m[k] = v
		}
		return m
	}
	bad := false
	if clause[0] != "" && clause[0] == clause[1] {
		w.violation(shape+":both:"+clause[0], from, ci, mkReplay(detail[0]))
		bad = true
	} else {
		for i, b := range bs {
			if clause[i] != "" {
				w.violation(shape+":"+b.name+":"+clause[i], from, ci, mkReplay(detail[i]))
				bad = true
			}
		}
	}
	terminated := !(res[0].Exhausted || res[0].Killed || res[1].Exhausted || res[1].Killed)
	treesEqual := after[0].key() == after[1].key()
	// agreement of the two backends where the model does not already decide
	if terminated && !bad && o.Class != "conflict" && !guardedEmpty {
		var cross string
		switch {
		case o.Class == "model" && o.ConsultResult && o.ConsultTree && (o.ConsultVal || !valueOp(c)):
			// everything observable was compared with the model, except the kind of an expected error
			if !res[0].OK && !res[1].OK && res[0].Kind != res[1].Kind {
				cross = fmt.Sprintf("errkind(mem=%s,os=%s)", res[0].Kind, res[1].Kind)
			}
		default:
			switch {
			case res[0].OK != res[1].OK:
				cross = fmt.Sprintf("result(mem=%s,os=%s)", describeResult(res[0]), describeResult(res[1]))
			case !res[0].OK && res[0].Kind != res[1].Kind:
				cross = fmt.Sprintf("errkind(mem=%s,os=%s)", res[0].Kind, res[1].Kind)
			case res[0].OK && valueOp(c) && res[0].Val != res[1].Val:
				cross = "value"
			case !treesEqual:
				cross = "tree[" + diffClass(after[1], after[0]) + "]"
			}
		}
		if cross != "" {
			w.violation(shape+":mem≠os:"+cross, from, ci, mkReplay(nil))
			bad = true
		}
	}
	if bad {
		w.out.Disagreeing++
	}
	if collect && len(w.out.Samples) < 4 && (ci%37 == 5) && !bad {
		w.out.Samples = append(w.out.Samples, map[string]any{"state": st.Key, "call": c.String(), "shape": shape, "model_class": o.Class, "model_ok": o.OK,
			"mem": describeResult(res[0]), "os": describeResult(res[1]), "value": res[0].Val, "tree_after": after[0].key()})
	}
	// the cancellation series
	if w.cancel && c.takesContext() && terminated {
		for j := 0; j <= 5; j++ {
			for i, b := range bs {
				if int64(j) > res[i].Ops {
					continue
				}
				r, skipped := w.runChecked(b, t, c, shape+"@cancel", j)
				if skipped {
					continue
				}
				w.out.CancelRuns++
				aft, outside, deep := b.dump()
				if cl, det := secondSentence(o, c, t, r, aft, outside, deep, "@cancel"); cl != "" {
					if det == nil {
						det = map[string]any{}
					}
					det["cancel_before_backend_op"] = j
					det["backend"] = b.name
					det["result"] = r
					det["tree_after"] = aft.key()
					w.violation(shape+":"+b.name+":"+cl, from, ci, mkReplay(det))
				}
			}
		}
	}
	if !c.mutating() || bad || !terminated {
		return ""
	}
	if !treesEqual {
		w.out.NoSuccTreeDif++
		return ""
	}
	return after[0].key()
}

// validate replays the shortest call path of a state from its seed through the API on both backends.
func (w *worker) validate(st stateRec) bool {
	for _, b := range w.backends() {
		if err := b.materialise(seeds[st.Seed]); err != nil {
			w.engineError("materialise seed: %v", err)
			return false
		}
		for _, c := range st.Path {
			b.run(c, fullBudget, -1)
		}
		got, _, _ := b.dump()
		if got.key() != st.Key {
			w.engineError("state %q reached by %v from seed %d is not reproduced on %s: got %q", st.Key, st.Path, st.Seed, b.name, got.key())
			return false
		}
	}
	return true
}

func (w *worker) finish() shardOut {
	sigs := make([]string, 0, len(w.viol))
	for s := range w.viol {
		sigs = append(sigs, s)
	}
	sort.Strings(sigs)
	for _, s := range sigs {
		w.out.Viol = append(w.out.Viol, w.viol[s])
	}
	return *w.out
}

func workLevel(shard, n int) shardOut {
	var j job
	b, err := os.ReadFile(os.Getenv("C06_JOB"))
	if err == nil {
		err = json.Unmarshal(b, &j)
	}
	if err != nil {
		return shardOut{EngineErrors: []string{"worker cannot read its job: " + fmt.Sprint(err)}}
	}
	w, err := newWorker(j.Run, shard)
	if err != nil {
		return shardOut{EngineErrors: []string{"worker cannot create its sandbox: " + err.Error()}}
	}
	w.cancel = j.Cancel
	for i, st := range j.States {
		if i%n != shard {
			continue
		}
		t := parseKey(st.Key)
		w.out.States++
		if w.validate(st) {
			w.out.Validated++
		}
		for ci := range allCalls {
			if k := w.evalTransition(st, i, t, ci, i%7 == 0); k != "" && k != st.Key {
				w.out.Succ = append(w.out.Succ, succ{From: i, Call: ci, Key: k})
			}
		}
	}
	_ = w.osb.wipe()
	return w.finish()
}

func expandable(t tree, b bounds) bool {
	if len(t) > b.MaxEntries {
		return false
	}
	for p := range t {
		if strings.Count(p, "/")+1 > b.MaxPathDepth {
			return false
		}
	}
	return true
}

func TestC06(t *testing.T) {
	if _, _, isShard := ev.ShardEnv(); isShard {
		ev.Sharded(t, 0, workLevel)
		return
	}
	rep := ev.NewReporter("C06", "model_checking")
	runDir, err := newRunDir()
	if err != nil {
		rep.EngineError("no sandbox under /dev/shm: %v", err)
		rep.Finish()
		return
	}
	mustBeSandbox(runDir + "/w0/r")
	defer os.RemoveAll(runDir)
	if p := os.Getenv("VERIF_REPLAY"); p != "" {
		replayCase(rep, runDir, p)
		rep.Finish()
		return
	}
	bd := tierBounds()
	nWorkers := ev.Workers()

	visited := map[string]bool{}
	var frontier []stateRec
	for i, s := range seeds {
		k := s.key()
		if !visited[k] {
			visited[k] = true
			frontier = append(frontier, stateRec{Key: k, Seed: i, Depth: 0})
		}
	}
	total := shardOut{ByClass: map[string]int64{}, Outcomes: map[string]int64{}}
	var perLevel []map[string]any
	viols := map[string]*violRec{}
	capped, notExpanded := false, int64(0)
	frontierClosed := false
	for level := 0; level <= bd.Depth; level++ {
		if len(frontier) == 0 {
			frontierClosed = true
			break
		}
		if level == bd.Depth && bd.MaxStatesLevel > 0 && len(frontier) > bd.MaxStatesLevel {
			frontier = frontier[:bd.MaxStatesLevel]
			capped = true
		}
		jb := job{Run: runDir, Level: level, Cancel: level <= bd.CancelDepth, States: frontier}
		jf := filepath.Join(runDir, fmt.Sprintf("job-%d.json", level))
		data, _ := json.Marshal(jb)
		if err := os.WriteFile(jf, data, 0o644); err != nil {
			rep.EngineError("cannot write job: %v", err)
			break
		}
		os.Setenv("C06_JOB", jf)
		outs, isWorker := ev.Sharded(t, nWorkers, workLevel)
		if isWorker {
			return
		}
		var all []succ
		levelViols := map[string]*violRec{}
		lv := map[string]any{"level": level, "states": len(frontier)}
		var ltrans int64
		for _, o := range outs {
			all = append(all, o.Succ...)
			total.States += o.States
			total.Transitions += o.Transitions
			ltrans += o.Transitions
			total.CancelRuns += o.CancelRuns
			total.Validated += o.Validated
			total.FullConfirm += o.FullConfirm
			total.ProbeOnly += o.ProbeOnly
			total.LongSkipped += o.LongSkipped
			total.GuardedEmpty += o.GuardedEmpty
			total.BackendOps += o.BackendOps
			total.Disagreeing += o.Disagreeing
			total.NoSuccTreeDif += o.NoSuccTreeDif
			if o.MaxOps > total.MaxOps {
				total.MaxOps = o.MaxOps
			}
			for k, v := range o.ByClass {
				total.ByClass[k] += v
			}
			for k, v := range o.Outcomes {
				total.Outcomes[k] += v
			}
			for _, e := range o.EngineErrors {
				rep.EngineError("%s", e)
			}
			for _, v := range o.Viol {
				if have, ok := levelViols[v.Sig]; ok {
					n := have.N + v.N
					if v.From < have.From || (v.From == have.From && v.Call < have.Call) {
						levelViols[v.Sig] = v
					}
					levelViols[v.Sig].N = n
				} else {
					levelViols[v.Sig] = v
				}
			}
			if len(total.Samples) < 8 {
				total.Samples = append(total.Samples, o.Samples...)
			}
		}
		lv["transitions"] = ltrans
		for sig, v := range levelViols {
			if have, ok := viols[sig]; ok {
				have.N += v.N // the earliest level keeps the replay: breadth-first, so it is a shortest one
			} else {
				viols[sig] = v
			}
		}
		sort.Slice(all, func(i, j int) bool {
			if all[i].From != all[j].From {
				return all[i].From < all[j].From
			}
			return all[i].Call < all[j].Call
		})
		var next []stateRec
		for _, s := range all {
			if visited[s.Key] {
				continue
			}
			visited[s.Key] = true
			if !expandable(parseKey(s.Key), bd) {
				notExpanded++
				continue
			}
			p := frontier[s.From]
			path := append(append([]call(nil), p.Path...), allCalls[s.Call])
			next = append(next, stateRec{Key: s.Key, Seed: p.Seed, Path: path, Depth: level + 1})
		}
		lv["new_states"] = len(next)
		perLevel = append(perLevel, lv)
		frontier = next
	}
	if len(frontier) == 0 {
		frontierClosed = true
	}
	// violations were counted per level in the workers; viols holds the earliest case of each signature
	sigs := make([]string, 0, len(viols))
	for s := range viols {
		sigs = append(sigs, s)
	}
	sort.Strings(sigs)
	for _, s := range sigs {
		rep.ViolationN(s, viols[s].Replay, viols[s].N)
	}
	if len(total.Samples) > 8 {
		total.Samples = total.Samples[:8]
	}
	if total.States == 0 {
		rep.EngineError("no state was evaluated")
	}
	outcomes := make([]string, 0, len(total.Outcomes))
	for k := range total.Outcomes {
		outcomes = append(outcomes, k)
	}
	sort.Strings(outcomes)
	rep.Coverage["states"] = total.States
	rep.Coverage["states_discovered"] = len(visited)
	rep.Coverage["states_left_unexpanded_at_the_depth_bound"] = len(frontier)
	rep.Coverage["states_not_expanded_size_cap"] = notExpanded
	rep.Coverage["transitions"] = total.Transitions
	rep.Coverage["traces_validated_against_impl"] = total.Validated * 2
	rep.Coverage["traces_validated_explanation"] = "every evaluated state's shortest call path was replayed from its seed through the API on both backends and reproduced the state's dump (states x 2 backends); every transition itself is executed by the implementation on both backends"
	rep.Coverage["transitions_by_model_class"] = total.ByClass
	rep.Coverage["disagreeing_transitions_not_expanded"] = total.Disagreeing
	rep.Coverage["transitions_backends_left_different_trees_on_conflict_calls_not_expanded"] = total.NoSuccTreeDif
	rep.Coverage["cancellation_runs"] = total.CancelRuns
	rep.Coverage["backend_operations_executed"] = total.BackendOps
	rep.Coverage["max_backend_ops_of_a_terminating_call"] = total.MaxOps
	rep.Coverage["budget_full_confirmations"] = total.FullConfirm
	rep.Coverage["budget_probe_only_verdicts"] = total.ProbeOnly
	rep.Coverage["empty_path_calls_stopped_by_the_sandbox_guard_not_compared"] = total.GuardedEmpty
	rep.Coverage["per_level"] = perLevel
	rep.Coverage["bound"] = bd
	rep.Coverage["alphabet_calls"] = len(allCalls)
	rep.Coverage["alphabet_paths"] = relPaths
	rep.Coverage["seeds"] = len(seeds)
	rep.Coverage["workers"] = nWorkers
	rep.Coverage["distinct_observed_outcomes"] = len(outcomes)
	rep.Coverage["observed_outcomes"] = total.Outcomes
	rep.Coverage["distinct_violation_signatures"] = len(sigs)
	rep.Coverage["exhaustive"] = frontierClosed && !capped && notExpanded == 0
	rep.Coverage["frontier_closed"] = frontierClosed
	rep.Coverage["samples"] = total.Samples
	rep.Assume = []string{
		"OS backend = tmpfs under /dev/shm on Linux; Windows path rules are not covered",
		"mtimes and permissions are not part of a state (no operation of the alphabet reads them)",
		"the reference model and the lists of kind conflicts / silent cases are in checks/c06/model_test.go",
	}
	rep.Finish()
}

// replayCase re-runs one stored case: the state is rebuilt by replaying the path from the seed through the API.
func replayCase(rep *ev.Reporter, runDir, path string) {
	b, err := os.ReadFile(path)
	if err != nil {
		rep.EngineError("cannot read replay: %v", err)
		return
	}
	var f struct {
		Signature string `json:"signature"`
		Replay    struct {
			Seed  int    `json:"seed"`
			Path  []call `json:"path"`
			State string `json:"state"`
			Call  call   `json:"call"`
		} `json:"replay"`
	}
	if err := json.Unmarshal(b, &f); err != nil {
		rep.EngineError("replay does not parse: %v", err)
		return
	}
	w, err := newWorker(runDir, 0)
	if err != nil {
		rep.EngineError("sandbox: %v", err)
		return
	}
	w.cancel = true
	st := stateRec{Key: f.Replay.State, Seed: f.Replay.Seed, Path: f.Replay.Path, Depth: len(f.Replay.Path)}
	if !w.validate(st) {
		fmt.Printf("NOTE: the stored state is not reproduced by its path on the current tree (an earlier step behaves differently now); evaluating the call on the materialised state\n")
		w.out.EngineErrors = nil
	}
	ci := -1
	for i, c := range allCalls {
		if c == f.Replay.Call {
			ci = i
		}
	}
	if ci < 0 {
		rep.EngineError("the replayed call %v is not in the alphabet", f.Replay.Call)
		return
	}
	w.evalTransition(st, 0, parseKey(st.Key), ci, false)
	out := w.finish()
	fmt.Printf("REPLAY state=%q call=%s stored-signature=%s\n", st.Key, allCalls[ci], f.Signature)
	for _, v := range out.Viol {
		fmt.Printf("REPLAY-VIOLATION signature=%s\n", v.Sig)
		rep.ViolationN(v.Sig, v.Replay, v.N)
	}
	rep.Coverage["states"] = 1
	rep.Coverage["transitions"] = out.Transitions
	rep.Coverage["traces_validated_against_impl"] = 1
	rep.Coverage["samples"] = []any{map[string]any{"replayed": path}}
	_ = w.osb.wipe()
}

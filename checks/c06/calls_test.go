package c06

import (
	"context"
	"errors"
	"fmt"
	"sort"
	"strings"

	"github.com/ARM-software/golang-utils/utils/commonerrors"
	"github.com/ARM-software/golang-utils/utils/filesystem"
	"github.com/ARM-software/golang-utils/utils/hashing"
)

// The alphabet. Paths are relative to the sandbox root; they collide on purpose: sources and destinations equal to,
// parents of, and inside one another, a trailing separator, the empty string. No path contains "..".
var relPaths = []string{"a", "a/", "a/b", "a/f.t", "b", "b/f.t", "a/b/c", ""}

var globPatterns = []string{"*", "a/*", "**/f.t"}

// call is one letter: an API call with concrete arguments.
type call struct {
	Op string `json:"op"`
	A  string `json:"a"`
	B  string `json:"b,omitempty"`
	C  string `json:"c,omitempty"` // content (WriteFile, Create) or variant (LsRecursive: files|all)
}

func (c call) String() string {
	switch {
	case c.isTwoArg():
		return fmt.Sprintf("%s(%q,%q)", c.Op, c.A, c.B)
	case c.Op == "WriteFile" || c.Op == "Create" || c.Op == "LsRecursive":
		return fmt.Sprintf("%s(%q;%q)", c.Op, c.A, c.C)
	}
	return fmt.Sprintf("%s(%q)", c.Op, c.A)
}

func (c call) isTwoArg() bool {
	switch c.Op {
	case "Copy", "CopyToFile", "CopyToDirectory", "Move", "MoveBetweenFS":
		return true
	}
	return false
}

func (c call) isCopy() bool {
	switch c.Op {
	case "Copy", "CopyToFile", "CopyToDirectory":
		return true
	}
	return false
}

func (c call) mutating() bool {
	switch c.Op {
	case "WriteFile", "Create", "MkDir", "Touch", "Rm", "CleanDir", "Copy", "CopyToFile", "CopyToDirectory", "Move", "MoveBetweenFS":
		return true
	}
	return false
}

// takesContext: the call is executed through its ...WithContext form, so a cancellation point can be injected.
func (c call) takesContext() bool {
	switch c.Op {
	case "WriteFile", "Rm", "CleanDir", "Copy", "CopyToFile", "CopyToDirectory", "Move", "MoveBetweenFS", "ReadFile", "LsRecursive", "ListDirTree", "SubDirectories", "FileHash":
		return true
	}
	return false
}

var allCalls = buildAlphabet()

func buildAlphabet() []call {
	var l []call
	for _, p := range relPaths {
		for _, c := range []string{"x", "yy", ""} {
			l = append(l, call{Op: "WriteFile", A: p, C: c})
		}
		for _, c := range []string{"x", ""} {
			l = append(l, call{Op: "Create", A: p, C: c})
		}
		for _, op := range []string{"MkDir", "Touch", "Rm", "CleanDir"} {
			l = append(l, call{Op: op, A: p})
		}
	}
	for _, op := range []string{"Copy", "CopyToFile", "CopyToDirectory", "Move"} {
		for _, s := range relPaths {
			for _, d := range relPaths {
				l = append(l, call{Op: op, A: s, B: d})
			}
		}
	}
	// the package-level move between two filesystem objects, given the same object twice (a copy followed by the removal
	// of the source), for source and destination designating the same entry, spelt alike or not: nothing may change. The
	// other pairs are left out: the function is copy-then-remove, the copies are in the alphabet, and on the in-memory
	// backend its results differ from the OS backend's in the ways listed as known findings for Copy.
	for _, s := range relPaths {
		for _, d := range relPaths {
			if !parseArg(s).Empty && parseArg(s).P == parseArg(d).P {
				l = append(l, call{Op: "MoveBetweenFS", A: s, B: d})
			}
		}
	}
	for _, p := range relPaths {
		for _, op := range []string{"ReadFile", "Ls", "ListDirTree", "SubDirectories", "FindAll", "Exists", "IsFile", "IsDir", "IsEmpty", "GetFileSize", "FileHash"} {
			l = append(l, call{Op: op, A: p})
		}
		l = append(l, call{Op: "LsRecursive", A: p, C: "files"}, call{Op: "LsRecursive", A: p, C: "all"})
	}
	for _, g := range globPatterns {
		l = append(l, call{Op: "Glob", A: g})
	}
	return l
}

// result is what one execution of a call on one backend returned.
type result struct {
	OK        bool   `json:"ok"`
	Kind      string `json:"kind,omitempty"` // error kind
	Err       string `json:"err,omitempty"`  // message (replays only; never part of a signature)
	Val       string `json:"val,omitempty"`
	Ops       int64  `json:"ops"`
	Exhausted bool   `json:"exhausted,omitempty"` // the operation budget ran out
	Killed    bool   `json:"killed,omitempty"`    // the call kept going after the budget and was stopped by Goexit
	Handles   int    `json:"handles"`             // handles still open when the call returned
	Escapes   int    `json:"escapes,omitempty"`   // backend operations refused because they left the sandbox
	DeepHit   bool   `json:"deep_hit,omitempty"`  // probe stage: stopped because it operated more than deepLimit levels below the root
	Crashed   string `json:"crashed,omitempty"`   // the backend operation class that ends the process (in-memory backend)
}

var kindTable = []struct {
	name string
	err  error
}{
	{"cancelled", commonerrors.ErrCancelled}, {"timeout", commonerrors.ErrTimeout},
	{"notfound", commonerrors.ErrNotFound}, {"exists", commonerrors.ErrExists}, {"invalid", commonerrors.ErrInvalid},
	{"conflict", commonerrors.ErrConflict}, {"undefined", commonerrors.ErrUndefined}, {"empty", commonerrors.ErrEmpty},
	{"notimplemented", commonerrors.ErrNotImplemented}, {"unsupported", commonerrors.ErrUnsupported},
	{"unexpected", commonerrors.ErrUnexpected}, {"condition", commonerrors.ErrCondition}, {"toolarge", commonerrors.ErrTooLarge},
	{"eof", commonerrors.ErrEOF}, {"outofrange", commonerrors.ErrOutOfRange}, {"forbidden", commonerrors.ErrForbidden},
	{"unknown", commonerrors.ErrUnknown},
}

func errKind(err error) string {
	if err == nil {
		return ""
	}
	if errors.Is(err, errBudget) {
		return "budget"
	}
	for _, k := range kindTable {
		if commonerrors.Any(err, k.err) {
			return k.name
		}
	}
	return "other"
}

// abs builds the path handed to the API: the sandbox root joined with a relative path of the alphabet (the only way a
// path for a backend is ever built), the trailing separator kept; the empty string stays the empty string.
func (b *backend) abs(rel string) string {
	if rel == "" {
		return ""
	}
	if strings.Contains(rel, "..") || strings.HasPrefix(rel, "/") {
		panic("c06: illegal relative path " + rel)
	}
	return b.root + "/" + rel
}

// relOf maps a returned path back to a sandbox-relative one.
func (b *backend) relOf(p string) string {
	switch {
	case p == b.root:
		return "."
	case strings.HasPrefix(p, b.root+"/"):
		return strings.TrimSuffix(p[len(b.root)+1:], "/")
	}
	return "!" + p
}

func (b *backend) relList(l []string, drop string) string {
	out := make([]string, 0, len(l))
	for _, p := range l {
		r := b.relOf(p)
		if r == drop {
			continue
		}
		out = append(out, r)
	}
	sort.Strings(out)
	return "[" + strings.Join(out, " ") + "]"
}

func namesVal(l []string) string {
	l = append([]string(nil), l...)
	sort.Strings(l)
	return "[" + strings.Join(l, " ") + "]"
}

// invoke performs the call on the real API.
func (b *backend) invoke(ctx context.Context, c call) (val string, err error) {
	fs := b.fs
	p := b.abs(c.A)
	switch c.Op {
	case "WriteFile":
		return "", fs.WriteFileWithContext(ctx, p, []byte(c.C), 0o644)
	case "Create":
		f, err := fs.CreateFile(p)
		if err != nil {
			return "", err
		}
		if c.C != "" {
			if _, err = f.Write([]byte(c.C)); err != nil {
				_ = f.Close()
				return "", err
			}
		}
		return "", f.Close()
	case "MkDir":
		return "", fs.MkDir(p)
	case "Touch":
		return "", fs.Touch(p)
	case "Rm":
		return "", fs.RemoveWithContext(ctx, p)
	case "CleanDir":
		return "", fs.CleanDirWithContext(ctx, p)
	case "Copy":
		return "", fs.CopyWithContext(ctx, p, b.abs(c.B))
	case "CopyToFile":
		return "", fs.CopyToFileWithContext(ctx, p, b.abs(c.B))
	case "CopyToDirectory":
		return "", fs.CopyToDirectoryWithContext(ctx, p, b.abs(c.B))
	case "Move":
		return "", fs.MoveWithContext(ctx, p, b.abs(c.B))
	case "MoveBetweenFS":
		return "", filesystem.MoveBetweenFS(ctx, fs, p, fs, b.abs(c.B))
	case "ReadFile":
		data, err := fs.ReadFileWithContext(ctx, p)
		return fmt.Sprintf("%q", string(data)), err
	case "Ls":
		l, err := fs.Ls(p)
		return namesVal(l), err
	case "LsRecursive":
		l, err := fs.LsRecursive(ctx, p, c.C == "all")
		return b.relList(l, strings.TrimSuffix(c.A, "/")), err
	case "ListDirTree":
		var l []string
		err := fs.ListDirTreeWithContext(ctx, p, &l)
		return b.relList(l, ""), err
	case "SubDirectories":
		l, err := fs.SubDirectoriesWithContext(ctx, p)
		return namesVal(l), err
	case "FindAll":
		l, err := fs.FindAll(p, findExt)
		return b.relList(l, ""), err
	case "Glob":
		l, err := fs.Glob(b.abs(c.A))
		return b.relList(l, ""), err
	case "Exists":
		return fmt.Sprint(fs.Exists(p)), nil
	case "IsFile":
		v, err := fs.IsFile(p)
		return fmt.Sprint(v), err
	case "IsDir":
		v, err := fs.IsDir(p)
		return fmt.Sprint(v), err
	case "IsEmpty":
		v, err := fs.IsEmpty(p)
		return fmt.Sprint(v), err
	case "GetFileSize":
		v, err := fs.GetFileSize(p)
		return fmt.Sprint(v), err
	case "FileHash":
		return fs.FileHashWithContext(ctx, hashing.HashSha256, p)
	}
	panic("invoke: unknown op " + c.Op)
}

var _ = filesystem.StandardFS

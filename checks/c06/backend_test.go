package c06

import (
	"context"
	"errors"
	"fmt"
	"os"
	"path/filepath"
	"runtime"
	"sort"
	"strings"
	"time"

	"github.com/ARM-software/golang-utils/utils/filesystem"
	"github.com/spf13/afero"

	"verif/engine/vfsx"
)

// SANDBOX DISCIPLINE (OS backend)
//   - the run directory is /dev/shm/verif-c06-<12 hex digits> (fixed width, so that path lengths - and with them the
//     number of operations a runaway recursion performs before ENAMETOOLONG - do not vary from run to run);
//   - every worker process owns <run>/w<shard>/r, makes it its working directory (so that whatever the repository
//     derives from an EMPTY path, e.g. filepath.Join("", name) or filepath.Dir(""), resolves inside the sandbox) and
//     never removes it; between executions its CHILDREN are removed;
//   - every path handed to the API is sandboxRoot + "/" + <relative path of the alphabet> (backend.abs) or "";
//   - a guard hook under the VFS refuses (without performing it) every backend operation on an absolute path that is
//     not inside the sandbox root, every relative path that climbs out of the working directory, every mutation of the
//     root itself and every link / ownership operation; refusals are counted ("escapes").
const sandboxPrefix = "/dev/shm/verif-c06-"

const deepLimit = 16

const (
	fullBudget  = 100000 // backend operations per call (the property's "a call terminates")
	probeBudget = 5000   // first-stage budget: the first case of every call shape that exceeds it is re-run with the full budget (see c06_test.go, confirmation phase)
)

var errBudget = errors.New("verif: backend operation budget of the call exhausted")
var errEscape = errors.New("verif: backend operation outside the sandbox refused")

// control is the vfsx hook of one backend: operation counter, budget, cancellation point, sandbox guard.
type control struct {
	isOS      bool
	root      string
	n         int64
	budget    int64
	exhausted bool
	killed    bool
	cancelAt  int64 // cancel the context just before the cancelAt-th backend operation (0 = never)
	cancel    context.CancelFunc
	escapes   int
	// runaway detection of the probe stage: a backend operation on a path more than deepLimit components below the
	// sandbox root (the trees are at most 5 levels deep, the alphabet's paths at most 3) ends the probe like an
	// exhausted budget does.
	deepAbort bool
	deepHit   bool
	// crash isolation (in-memory backend): MemMapFs.Rename can end the PROCESS ("fatal error: sync: RUnlock of unlocked
	// RWMutex", not recoverable). A Rename of a risky class (crashClasses) is not performed in the worker: the goroutine
	// is ended and the whole call is re-executed in a sacrificial helper process (pool_test.go). Before every other
	// Rename the hook records the operation class in the worker's in-flight file (safety net).
	crashClasses map[string]bool
	crashed      string
	noteRename   func(opClass string)
}

func renameClass(oldp, newp string) string {
	switch {
	case oldp == newp:
		return "Rename(same)"
	case strings.HasPrefix(newp, oldp+"/"):
		return "Rename(new-inside-old)"
	case strings.HasPrefix(oldp, newp+"/"):
		return "Rename(old-inside-new)"
	}
	return "Rename(other)"
}

func (c *control) reset(budget int64) {
	c.n, c.budget, c.exhausted, c.killed, c.cancelAt, c.cancel, c.escapes, c.crashed = 0, budget, false, false, 0, nil, 0, ""
	c.deepHit, c.deepAbort = false, budget < fullBudget
}

func (c *control) allowed(op *vfsx.Op, p string, second bool) bool {
	if p == "" {
		return true // the kernel answers ENOENT
	}
	if filepath.IsAbs(p) {
		if p == c.root {
			return !op.Mutates && !second
		}
		return strings.HasPrefix(p, c.root+"/")
	}
	cl := filepath.Clean(p)
	if cl == ".." || strings.HasPrefix(cl, "../") {
		return false
	}
	if cl == "." {
		return !op.Mutates || op.Kind == vfsx.KMkdirAll || op.Kind == vfsx.KMkdir
	}
	return true
}

func (c *control) Before(op *vfsx.Op) *vfsx.Inject {
	c.n++
	if c.cancelAt > 0 && c.n == c.cancelAt && c.cancel != nil {
		c.cancel()
	}
	isClose := op.Kind == vfsx.KFClose
	if c.isOS && !isClose {
		ok := c.allowed(op, op.Path, false)
		switch op.Kind {
		case vfsx.KRename:
			ok = ok && c.allowed(op, op.Path2, true)
		case vfsx.KSymlink, vfsx.KLink, vfsx.KChown, vfsx.KForceRemove, vfsx.KReadlink, vfsx.KRemoveAll:
			ok = false
		}
		if !ok {
			c.escapes++
			return &vfsx.Inject{Err: errEscape, Short: -1}
		}
	}
	if c.deepAbort && !c.deepHit && len(op.Path) > len(c.root)+2*deepLimit && strings.HasPrefix(op.Path, c.root+"/") && strings.Count(op.Path[len(c.root):], "/") > deepLimit {
		c.deepHit = true
		c.budget = c.n - 1 // from here on the call is treated as out of budget
	}
	if c.n > c.budget {
		c.exhausted = true
		if isClose {
			return nil // let handles be closed: the handle table stays meaningful
		}
		if c.n > 2*c.budget+1000 {
			// the call ignores errors and keeps going: end its goroutine (deferred calls still run)
			c.killed = true
			runtime.Goexit()
		}
		return &vfsx.Inject{Err: errBudget, Short: -1}
	}
	if !c.isOS && op.Kind == vfsx.KRename {
		cl := renameClass(op.Path, op.Path2)
		if c.crashClasses[cl] {
			c.crashed = cl
			runtime.Goexit()
		}
		if c.noteRename != nil {
			c.noteRename(cl)
		}
	}
	return nil
}

func (c *control) After(op *vfsx.Op) {}

// backend is one of the two implementations under test, with a fresh tree per execution.
type backend struct {
	name   string
	root   string
	raw    afero.Fs
	shared *vfsx.Shared
	fs     filesystem.FS
	ctl    *control
}

func newMemBackend() *backend {
	return &backend{name: "mem", root: "/s", ctl: &control{root: "/s"}}
}

func newOSBackend(root string) *backend {
	mustBeSandbox(root)
	return &backend{name: "os", root: root, ctl: &control{isOS: true, root: root}, raw: afero.NewOsFs()}
}

func mustBeSandbox(root string) {
	if !strings.HasPrefix(root, sandboxPrefix) || strings.Contains(root, "..") || filepath.Clean(root) != root || strings.Count(root, "/") < 4 {
		panic("c06: refusing to use " + root + " as a sandbox")
	}
}

// wipe empties the sandbox.
func (b *backend) wipe() error {
	if b.name == "mem" {
		b.raw = afero.NewMemMapFs()
		return b.raw.MkdirAll(b.root, 0o755)
	}
	mustBeSandbox(b.root)
	d, err := os.Open(b.root)
	if err != nil {
		return err
	}
	names, err := d.Readdirnames(-1)
	_ = d.Close()
	if err != nil {
		return err
	}
	for _, n := range names {
		if n == "." || n == ".." || strings.ContainsRune(n, '/') {
			continue
		}
		if err := os.RemoveAll(b.root + "/" + n); err != nil {
			return err
		}
	}
	return nil
}

// materialise builds the tree t on an emptied sandbox (not through the hooks) and puts a fresh VFS on top.
func (b *backend) materialise(t tree) error {
	if err := b.wipe(); err != nil {
		return err
	}
	ps := make([]string, 0, len(t))
	for p := range t {
		ps = append(ps, p)
	}
	sort.Strings(ps)
	for _, p := range ps {
		if strings.Contains(p, "..") || strings.HasPrefix(p, "/") || p == "" {
			return fmt.Errorf("illegal tree path %q", p)
		}
		full := b.root + "/" + p
		n := t[p]
		var err error
		if n.Dir {
			err = b.raw.MkdirAll(full, 0o755)
		} else {
			err = afero.WriteFile(b.raw, full, []byte(n.Content), 0o644)
		}
		if err != nil {
			return err
		}
	}
	b.shared = vfsx.NewShared(b.ctl)
	if b.name == "mem" {
		b.fs = filesystem.NewVirtualFileSystem(vfsx.NewMem(b.raw, b.shared, 0), filesystem.InMemoryFS, filesystem.IdentityPathConverterFunc)
	} else {
		b.fs = filesystem.NewVirtualFileSystem(vfsx.NewOS(filesystem.NewExtendedOsFs(), b.shared, 0), filesystem.StandardFS, filesystem.IdentityPathConverterFunc)
	}
	b.ctl.reset(fullBudget)
	return nil
}

// dump reads the sandbox tree back (raw backend). outside reports entries next to the sandbox (in-memory backend only:
// on the OS backend the guard refuses such operations instead). deep = the tree is too deep to be read back reliably.
func (b *backend) dump() (t tree, outside bool, deep bool) {
	t = tree{}
	for _, e := range vfsx.Snapshot(b.raw, b.root, vfsx.SnapOpt{HashOver: 1 << 20}) {
		if strings.Count(e.Path, "/") > 40 {
			deep = true
			continue
		}
		switch e.Kind {
		case 'd':
			t[e.Path] = node{Dir: true}
		case 'f':
			t[e.Path] = node{Content: e.Content}
		default:
			t[e.Path] = node{Content: "link:" + e.Content}
		}
	}
	if b.name == "mem" {
		if d, err := b.raw.Open("/"); err == nil {
			names, _ := d.Readdirnames(-1)
			_ = d.Close()
			if len(names) != 1 || names[0] != "s" {
				outside = true
			}
		} else {
			outside = true
		}
	}
	return
}

// run executes one call (in its own goroutine, so that a runaway call can be ended by Goexit from the hook) with the
// given budget and cancellation point (cancelAt: -1 none, 0 context cancelled before the call, j>0 just before the
// j-th backend operation).
func (b *backend) run(c call, budget int64, cancelAt int) result {
	b.ctl.reset(budget)
	ctx, cancel := context.WithCancel(context.Background())
	defer cancel()
	switch {
	case cancelAt == 0:
		cancel()
	case cancelAt > 0:
		b.ctl.cancelAt, b.ctl.cancel = int64(cancelAt), cancel
	}
	var val string
	var err error
	finished := false
	done := make(chan struct{})
	go func() {
		defer close(done)
		val, err = b.invoke(ctx, c)
		finished = true
	}()
	select {
	case <-done:
	case <-time.After(10 * time.Minute):
		// a call looping without touching the backend cannot be stopped by the hook; this is an engine problem
		// (exit 2), never a verdict
		panic("c06: call " + c.String() + " neither returned nor touched the backend for 10 minutes")
	}
	r := result{Ops: b.ctl.n, Exhausted: b.ctl.exhausted, Killed: b.ctl.killed || (!finished && b.ctl.crashed == ""), Escapes: b.ctl.escapes, Crashed: b.ctl.crashed, DeepHit: b.ctl.deepHit}
	r.Handles = len(b.shared.OpenHandles())
	if finished {
		r.OK = err == nil
		r.Kind = errKind(err)
		if err != nil {
			r.Err = err.Error()
			if len(r.Err) > 300 {
				r.Err = r.Err[:300] + "…"
			}
		} else {
			r.Val = val
		}
	}
	return r
}

// newRunDir creates the fixed-width run directory.
func newRunDir() (string, error) {
	for i := 0; i < 100; i++ {
		name := fmt.Sprintf("%s%012x", sandboxPrefix, (uint64(time.Now().UnixNano())^uint64(os.Getpid())<<20+uint64(i))&0xffffffffffff)
		if err := os.Mkdir(name, 0o755); err == nil {
			return name, nil
		} else if !os.IsExist(err) {
			return "", err
		}
	}
	return "", errors.New("cannot create a run directory")
}

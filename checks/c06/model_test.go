package c06

// Reference model of the documented semantics of the filesystem API (interfaces.go doc comments):
// MkDir = mkdir -p, Copy = cp -r (+ the documented rule "a missing destination ending with a separator is a
// directory"), CopyToFile, CopyToDirectory ("created as such if not present"), Move = mv, Rm = rm -rf,
// CleanDir = rm -rf dir/*, Ls = ls, Touch = posix touch, WriteFile = create or truncate.
//
// The model is a pure function (call, tree) -> outcome. A tree is a map from clean relative path to
// {dir | file content}; the sandbox root is the implicit directory "".
//
// READINGS TAKEN (weakest reading of every ambiguous sentence; these lists are static, nothing is learnt at run time)
//
// kind conflict (only the second sentence of the property applies: terminates, no handle left open, nothing but the
// destination altered, a copy's source unchanged):
//   * any argument one of whose proper ancestors is a file;
//   * a trailing separator on an existing file, or on the argument of a call that needs a file name
//     (WriteFile, Create, ReadFile, GetFileSize, FileHash, CopyToFile destination);
//   * a directory given where a file is needed (WriteFile/Create/ReadFile/GetFileSize/FileHash/CopyToFile source or
//     destination) or a file where a directory is needed (MkDir, CleanDir, Ls, LsRecursive, ListDirTree,
//     SubDirectories, FindAll, CopyToDirectory destination);
//   * cp/mv of a directory onto an existing file, of a file onto an existing directory entry of the same name inside
//     the destination directory, Rm below a file.
//
// documentation silent (the model is NOT consulted; only agreement of the two backends and the frame conditions):
//   * every call with an empty-string argument;
//   * WriteFile with zero bytes; ReadFile of an empty file; Touch of a missing path ending with a separator;
//   * IsDir / IsEmpty / FindAll of a missing path (the doc comments say neither "false" nor "error");
//   * FindAll when a directory carries the extension; whether a recursive listing contains the listed directory itself
//     (it is dropped from both sides before comparing); the ORDER of every listing (compared as sorted sets);
//   * Move of a file to a missing destination ending with a separator (mv fails, the Copy rule would create a directory);
//   * the RESULT (error or silent no-op) of copying / moving something onto itself (cp and mv fail with "are the same
//     file", the repository returns nil): only "the tree is unchanged" is demanded;
//   * the RESULT and the destination-side tree of a copy whose resolved destination lies inside its own source
//     (cp fails with "cannot copy a directory into itself" after creating something or nothing): demanded are
//     termination, closed handles, every pre-existing entry of the source outside the resolved destination unchanged,
//     nothing outside the destination changed;
//   * the tree left behind by CopyToDirectory when its source is missing (the destination directory may or may not have
//     been created: "will be created as such if not present").
//   * error KINDS: the documentation names none. The model only says ok / error, except NotFound for a missing source of
//     Copy/Move and a missing file of ReadFile (what cp/mv/cat report); kinds are otherwise compared between backends.
//
// taken from the implementation's evident intent where cp/mv would be stricter (so that no alarm is raised):
//   * missing parents of a copy / move destination are created (cp and mv would fail); the Copy doc comment says the
//     destination "will be a file", unconditionally.

import (
	"crypto/sha256"
	"encoding/hex"
	"fmt"
	"sort"
	"strings"
)

type node struct {
	Dir     bool   `json:"d,omitempty"`
	Content string `json:"c,omitempty"`
}

type tree map[string]node

func (t tree) clone() tree {
	n := make(tree, len(t))
	for k, v := range t {
		n[k] = v
	}
	return n
}

// key is the canonical one-line-per-entry form; it is the state of the search.
func (t tree) key() string {
	ps := make([]string, 0, len(t))
	for p := range t {
		ps = append(ps, p)
	}
	sort.Strings(ps)
	var sb strings.Builder
	for _, p := range ps {
		n := t[p]
		if n.Dir {
			sb.WriteString("d " + p + "\n")
		} else {
			fmt.Fprintf(&sb, "f %s %q\n", p, n.Content)
		}
	}
	return sb.String()
}

func parseKey(k string) tree {
	t := tree{}
	for _, l := range strings.Split(k, "\n") {
		if l == "" {
			continue
		}
		if l[0] == 'd' {
			t[l[2:]] = node{Dir: true}
			continue
		}
		rest := l[2:]
		i := strings.IndexByte(rest, ' ')
		var c string
		fmt.Sscanf(rest[i+1:], "%q", &c)
		t[rest[:i]] = node{Content: c}
	}
	return t
}

func parent(p string) string {
	i := strings.LastIndexByte(p, '/')
	if i < 0 {
		return ""
	}
	return p[:i]
}

func base(p string) string {
	i := strings.LastIndexByte(p, '/')
	return p[i+1:]
}

func join(d, n string) string {
	if d == "" {
		return n
	}
	return d + "/" + n
}

// under reports whether p lies strictly inside q.
func under(p, q string) bool {
	if q == "" {
		return p != ""
	}
	return strings.HasPrefix(p, q+"/")
}

func within(p, q string) bool { return p == q || under(p, q) }

// kind: 'm' missing, 'f' file, 'd' directory. The root "" is a directory.
func (t tree) kind(p string) byte {
	if p == "" {
		return 'd'
	}
	n, ok := t[p]
	switch {
	case !ok:
		return 'm'
	case n.Dir:
		return 'd'
	}
	return 'f'
}

func (t tree) ancestorIsFile(p string) bool {
	for q := parent(p); q != ""; q = parent(q) {
		if t.kind(q) == 'f' {
			return true
		}
	}
	return false
}

func (t tree) children(p string) []string {
	var out []string
	for q := range t {
		if q != "" && parent(q) == p && q != p {
			out = append(out, base(q))
		}
	}
	sort.Strings(out)
	return out
}

func (t tree) descendants(p string) []string {
	var out []string
	for q := range t {
		if under(q, p) {
			out = append(out, q)
		}
	}
	sort.Strings(out)
	return out
}

func (t tree) removeSubtree(p string) {
	for q := range t {
		if within(q, p) {
			delete(t, q)
		}
	}
}

// mkdirP creates p and its missing ancestors; false when a file is in the way.
func (t tree) mkdirP(p string) bool {
	if p == "" {
		return true
	}
	if !t.mkdirP(parent(p)) {
		return false
	}
	switch t.kind(p) {
	case 'f':
		return false
	case 'm':
		t[p] = node{Dir: true}
	}
	return true
}

// cpTo copies the subtree src of `from` to the exact path q of t, merging like cp -r; false on a kind clash.
func (t tree) cpTo(from tree, s, q string) bool {
	if from.kind(s) == 'f' {
		if t.kind(q) == 'd' {
			return false
		}
		t[q] = from[s]
		return true
	}
	if t.kind(q) == 'f' {
		return false
	}
	if q != "" {
		t[q] = node{Dir: true}
	}
	for _, c := range from.children(s) {
		if !t.cpTo(from, join(s, c), join(q, c)) {
			return false
		}
	}
	return true
}

// arg is one path argument of a call, as written in the alphabet.
type arg struct {
	Empty bool   // the empty string
	Sep   bool   // written with a trailing separator
	P     string // clean relative path
}

func parseArg(s string) arg {
	if s == "" {
		return arg{Empty: true}
	}
	if strings.HasSuffix(s, "/") {
		return arg{Sep: true, P: strings.TrimSuffix(s, "/")}
	}
	return arg{P: s}
}

// outcome is what the model says about one call in one state.
type outcome struct {
	Class         string // "model" (first sentence applies), "conflict", "silent"
	ConsultResult bool   // ok / error is compared
	OK            bool
	ErrKind       string // demanded error kind ("" = any)
	ConsultVal    bool
	Val           string
	ConsultTree   bool
	Tree          tree
	// frame condition: entries outside these subtrees (and other than missing ancestors of them that became
	// directories) must be unchanged. AllDest = everything may change (empty-string destination).
	Dest    []string
	AllDest bool
	// copy source rule: every pre-existing entry within Src, other than those strictly inside SrcExcept, is unchanged
	HasSrc    bool
	Src       string
	SrcExcept string // "\x00" = nothing excepted
}

const noExcept = "\x00"

func conflict(dest ...string) outcome { return outcome{Class: "conflict", Dest: dest} }
func silent(dest ...string) outcome   { return outcome{Class: "silent", Dest: dest} }

// mustFail: the call reports an error (of whatever kind); what it leaves in its destination is not compared. Used for a
// directory copied into itself: cp fails ("cannot copy a directory into itself") after creating something or nothing.
func mustFail(dest ...string) outcome {
	return outcome{Class: "model", ConsultResult: true, OK: false, Dest: dest}
}

func okTree(t tree, dest ...string) outcome {
	return outcome{Class: "model", ConsultResult: true, OK: true, ConsultTree: true, Tree: t, Dest: dest}
}
func errTree(t tree, kind string, dest ...string) outcome {
	return outcome{Class: "model", ConsultResult: true, OK: false, ErrKind: kind, ConsultTree: true, Tree: t, Dest: dest}
}
func okVal(t tree, v string) outcome {
	return outcome{Class: "model", ConsultResult: true, OK: true, ConsultVal: true, Val: v, ConsultTree: true, Tree: t}
}

func listVal(l []string) string {
	l = append([]string(nil), l...)
	sort.Strings(l)
	return "[" + strings.Join(l, " ") + "]"
}

func boolVal(b bool) string { return fmt.Sprint(b) }

func hashVal(c string) string {
	h := sha256.Sum256([]byte(c))
	return hex.EncodeToString(h[:])
}

const findExt = "t"

// model evaluates the reference semantics.
func model(c call, t tree) outcome {
	a := parseArg(c.A)
	two := c.isTwoArg()
	var b arg
	if two {
		b = parseArg(c.B)
	}
	// every call with an empty-string argument: documentation silent
	if a.Empty || (two && b.Empty) {
		o := silent()
		if c.mutating() {
			switch {
			case two && !a.Empty: // empty destination: anything may be "the destination"; a copy's source is still protected
				o.AllDest = true
				if c.isCopy() && t.kind(a.P) != 'm' && !t.ancestorIsFile(a.P) {
					o.HasSrc, o.Src, o.SrcExcept = true, a.P, noExcept
				}
			case two && a.Empty && !b.Empty:
				if c.Op == "Move" || c.Op == "MoveBetweenFS" {
					o.AllDest = true
				} else {
					o.Dest = []string{b.P}
				}
			default:
				o.AllDest = true
			}
		}
		return o
	}
	if c.Op == "Glob" {
		return modelGlob(c, t)
	}
	if t.ancestorIsFile(a.P) {
		if two {
			if c.Op == "Move" || c.Op == "MoveBetweenFS" {
				return conflict(b.P, a.P)
			}
			return conflict(b.P)
		}
		return conflict(a.P)
	}
	ka := t.kind(a.P)
	switch c.Op {
	case "WriteFile", "Create":
		if a.Sep || ka == 'd' {
			return conflict(a.P)
		}
		if c.Op == "WriteFile" && c.C == "" {
			return silent(a.P)
		}
		if t.kind(parent(a.P)) == 'm' {
			return errTree(t, "", a.P)
		}
		n := t.clone()
		n[a.P] = node{Content: c.C}
		return okTree(n, a.P)
	case "MkDir":
		if ka == 'f' {
			return conflict(a.P)
		}
		n := t.clone()
		n.mkdirP(a.P)
		return okTree(n, a.P)
	case "Touch":
		if ka != 'm' {
			if ka == 'f' && a.Sep {
				return conflict(a.P)
			}
			return okTree(t, a.P)
		}
		if a.Sep {
			return silent(a.P)
		}
		if t.kind(parent(a.P)) == 'm' {
			return errTree(t, "", a.P)
		}
		n := t.clone()
		n[a.P] = node{}
		return okTree(n, a.P)
	case "Rm":
		if ka == 'f' && a.Sep {
			return conflict(a.P)
		}
		n := t.clone()
		n.removeSubtree(a.P)
		return okTree(n, a.P)
	case "CleanDir":
		if ka == 'f' {
			return conflict(a.P)
		}
		n := t.clone()
		for _, q := range t.descendants(a.P) {
			delete(n, q)
		}
		return okTree(n, a.P)
	case "ReadFile", "GetFileSize", "FileHash":
		if a.Sep || ka == 'd' {
			return conflict()
		}
		if ka == 'm' {
			o := errTree(t, "", "")
			o.Dest = nil
			if c.Op == "ReadFile" {
				o.ErrKind = "notfound"
			}
			return o
		}
		switch c.Op {
		case "ReadFile":
			if t[a.P].Content == "" {
				// reading zero bytes: like writing zero bytes, the repository answers ErrEmpty on purpose; the doc
				// comment ("reads a file and returns its content") does not say: silent
				return silent()
			}
			return okVal(t, fmt.Sprintf("%q", t[a.P].Content))
		case "GetFileSize":
			return okVal(t, fmt.Sprint(len(t[a.P].Content)))
		default:
			return okVal(t, hashVal(t[a.P].Content))
		}
	case "Ls", "LsRecursive", "ListDirTree", "SubDirectories", "FindAll":
		if ka == 'f' {
			return conflict()
		}
		if ka == 'm' {
			if c.Op == "FindAll" {
				return silent()
			}
			o := errTree(t, "")
			return o
		}
		switch c.Op {
		case "Ls":
			return okVal(t, listVal(t.children(a.P)))
		case "SubDirectories":
			var l []string
			for _, n := range t.children(a.P) {
				if t.kind(join(a.P, n)) == 'd' && !strings.HasPrefix(n, ".") {
					l = append(l, n)
				}
			}
			return okVal(t, listVal(l))
		case "ListDirTree":
			return okVal(t, listVal(t.descendants(a.P)))
		case "LsRecursive":
			var l []string
			for _, q := range t.descendants(a.P) {
				if c.C == "all" || t.kind(q) == 'f' {
					l = append(l, q)
				}
			}
			return okVal(t, listVal(l))
		default: // FindAll
			var l []string
			for _, q := range t.descendants(a.P) {
				if strings.HasSuffix(q, "."+findExt) {
					if t.kind(q) == 'd' {
						o := okVal(t, "")
						o.ConsultVal = false
						return o
					}
					l = append(l, q)
				}
			}
			return okVal(t, listVal(l))
		}
	case "Exists":
		if ka == 'f' && a.Sep {
			return conflict()
		}
		return okVal(t, boolVal(ka != 'm'))
	case "IsFile":
		if ka == 'f' && a.Sep {
			return conflict()
		}
		return okVal(t, boolVal(ka == 'f'))
	case "IsDir":
		if ka == 'f' && a.Sep {
			return conflict()
		}
		if ka == 'm' {
			return silent()
		}
		return okVal(t, boolVal(ka == 'd'))
	case "IsEmpty":
		if ka == 'f' && a.Sep {
			return conflict()
		}
		switch ka {
		case 'm':
			return silent()
		case 'f':
			return okVal(t, boolVal(t[a.P].Content == ""))
		}
		return okVal(t, boolVal(len(t.children(a.P)) == 0))
	case "Copy", "CopyToFile", "CopyToDirectory":
		return modelCopy(c, t, a, b)
	case "Move":
		return modelMove(t, a, b, c.A == c.B)
	case "MoveBetweenFS":
		if c.A == c.B || a.P == b.P {
			return modelMove(t, a, b, true) // onto itself: nothing changes, whatever is reported
		}
		if t.ancestorIsFile(b.P) || (t.kind(a.P) == 'f' && a.Sep) {
			return conflict(b.P, a.P)
		}
		return silent(b.P, a.P)
	}
	panic("model: unknown op " + c.Op)
}

func modelGlob(c call, t tree) outcome {
	var l []string
	switch c.A {
	case "*":
		for _, n := range t.children("") {
			l = append(l, n)
		}
	case "a/*":
		if t.kind("a") == 'd' {
			for _, n := range t.children("a") {
				l = append(l, "a/"+n)
			}
		}
	case "**/f.t":
		for q := range t {
			if base(q) == "f.t" && !t.ancestorIsFile(q) {
				l = append(l, q)
			}
		}
	default:
		panic("model: unknown glob " + c.A)
	}
	return okVal(t, listVal(l))
}

func modelCopy(c call, t tree, s, d arg) outcome {
	ks, kd := t.kind(s.P), t.kind(d.P)
	if t.ancestorIsFile(d.P) {
		return conflict(d.P)
	}
	if ks == 'f' && s.Sep {
		return conflict(d.P)
	}
	// the source rule. What lies inside the destination is the destination, also when the destination lies inside
	// the source: those entries are excepted (except == noExcept: derive it from the arguments).
	withSrc := func(o outcome, except string) outcome {
		if ks != 'm' {
			if except == noExcept && under(d.P, s.P) {
				except = d.P
			}
			o.HasSrc, o.Src, o.SrcExcept = true, s.P, except
		}
		return o
	}
	if s.P == d.P {
		// something onto itself (whatever the spelling, existing or not): cp fails ("are the same file" / "No such
		// file"), the repository returns nil: the result is not consulted, the tree must not change - except that
		// CopyToDirectory may create its destination first, which then is a directory copied into itself: silent.
		switch {
		case ks == 'f' && d.Sep, c.Op == "CopyToFile" && ks == 'd':
			return withSrc(conflict(d.P), noExcept)
		case ks != 'f' && (c.Op == "CopyToDirectory" || (ks == 'd' && c.A != c.B)):
			// a directory into itself (Copy("a", "a/") resolves to a/a)
			if ks == 'd' && c.A != c.B {
				return withSrc(mustFail(d.P), join(d.P, base(s.P)))
			}
			// same spelling: the repository's "onto itself" early return (nil), as for files: result not consulted
			return withSrc(silent(d.P), join(d.P, base(s.P)))
		}
		o := okTree(t, d.P)
		o.ConsultResult = false
		return withSrc(o, noExcept)
	}
	switch c.Op {
	case "CopyToFile":
		if ks == 'd' || kd == 'd' || d.Sep {
			o := conflict(d.P)
			if ks != 'm' {
				o = withSrc(o, noExcept)
			}
			return o
		}
		if ks == 'm' {
			return errTree(t, "", d.P)
		}
	case "CopyToDirectory":
		if kd == 'f' {
			o := conflict(d.P)
			if ks != 'm' {
				o = withSrc(o, noExcept)
			}
			return o
		}
		if ks == 'm' {
			o := errTree(t, "", d.P)
			o.ConsultTree = false
			return o
		}
	default:
		if ks == 'm' {
			return errTree(t, "notfound", d.P)
		}
	}
	// the source exists from here on
	n := t.clone()
	var q string // resolved destination
	switch {
	case c.Op == "CopyToDirectory":
		n.mkdirP(d.P)
		q = join(d.P, base(s.P))
	case kd == 'm':
		switch {
		case ks == 'd':
			n.mkdirP(d.P)
			q = d.P
		case d.Sep:
			n.mkdirP(d.P)
			q = join(d.P, base(s.P))
		default:
			n.mkdirP(parent(d.P))
			q = d.P
		}
	case kd == 'd':
		q = join(d.P, base(s.P))
	default: // destination is an existing file
		if ks == 'd' || d.Sep {
			return withSrc(conflict(d.P), noExcept)
		}
		q = d.P
	}
	if q == s.P { // resolved destination is the source itself (cp: "are the same file")
		o := okTree(t, d.P)
		o.ConsultResult = false
		return withSrc(o, noExcept)
	}
	if under(q, s.P) { // a directory into itself
		o := mustFail(d.P)
		return withSrc(o, q)
	}
	if !n.cpTo(t, s.P, q) {
		return withSrc(conflict(d.P), noExcept)
	}
	return withSrc(okTree(n, d.P), noExcept)
}

func modelMove(t tree, s, d arg, sameSpelling bool) outcome {
	ks, kd := t.kind(s.P), t.kind(d.P)
	dest := []string{d.P, s.P}
	if t.ancestorIsFile(d.P) {
		return conflict(dest...)
	}
	if ks == 'f' && s.Sep {
		return conflict(dest...)
	}
	if sameSpelling || s.P == d.P {
		// onto itself: mv fails ("are the same file"), the repository returns nil: result not consulted, tree unchanged
		if ks == 'f' && d.Sep {
			return conflict(dest...)
		}
		o := okTree(t, dest...)
		o.ConsultResult = false
		return o
	}
	if ks == 'm' {
		return errTree(t, "notfound", dest...)
	}
	unchangedErr := func() outcome { return errTree(t, "", dest...) }
	moveTo := func(q string) outcome {
		n := t.clone()
		n.mkdirP(parent(q))
		n.removeSubtree(q)
		n.cpTo(t, s.P, q)
		for p := range t {
			if within(p, s.P) {
				delete(n, p)
			}
		}
		// re-add what was copied below q in case q is not under s (always true here)
		return okTree(n, dest...)
	}
	switch kd {
	case 'm':
		if under(d.P, s.P) { // mv: cannot move a directory into a subdirectory of itself
			return unchangedErr()
		}
		if ks == 'f' && d.Sep {
			return silent(dest...)
		}
		return moveTo(d.P)
	case 'f':
		if ks == 'd' || d.Sep {
			return conflict(dest...)
		}
		return moveTo(d.P)
	}
	// the destination is an existing directory: mv moves the source INTO it
	q := join(d.P, base(s.P))
	if q == s.P { // already there (mv: "are the same file")
		o := unchangedErr()
		o.ConsultResult = false
		return o
	}
	if within(d.P, s.P) {
		return unchangedErr()
	}
	switch t.kind(q) {
	case 'm':
		return moveTo(q)
	case 'f':
		if ks == 'd' {
			return conflict(dest...)
		}
		return moveTo(q)
	default:
		if ks == 'f' {
			return conflict(dest...)
		}
		if len(t.children(q)) > 0 { // mv: Directory not empty
			return unchangedErr()
		}
		return moveTo(q)
	}
}

// ---- shapes and signatures --------------------------------------------------------------------

// shapeOf is the shape of one argument relative to the tree. Features that cannot matter for the documented
// semantics are not part of it: a trailing separator on an existing DIRECTORY ("a/" is "a"), and - unless fine is set
// (IsEmpty, the entry a move would replace) - whether a directory / a file is empty.
func shapeOf(t tree, a arg, fine bool) string {
	if a.Empty {
		return "empty"
	}
	var s string
	switch t.kind(a.P) {
	case 'm':
		s = "missing"
		switch {
		case t.ancestorIsFile(a.P):
			s += "+pfile"
		case t.kind(parent(a.P)) == 'm':
			s += "+pmissing"
		}
		if a.Sep {
			s += "+sep"
		}
	case 'f':
		s = "file"
		if fine && t[a.P].Content == "" {
			s = "efile"
		}
		if a.Sep {
			s += "+sep"
		}
	default:
		s = "dir"
		if fine && len(t.children(a.P)) == 0 {
			s = "edir"
		}
	}
	return s
}

// callShape is the class of a call relative to a tree: the first half of every signature.
//
//	one argument:  Op(shape)
//	two arguments: Op(shape(src),shape(dst);relation[;into=shape of dst/base(src) when dst is an existing directory])
//	relation: equal (same spelling) | same (same path) | d-in-s (destination inside the source: then the destination's
//	own shape is immaterial and written "in-src") | s-child-of-d | s-in-d | disjoint.
//	Collapsed classes (one root cause whatever the rest is): an empty-string argument -> the other argument is "any";
//	a destination below a FILE (missing+pfile) -> the source is "any" and the relation is dropped.
func callShape(c call, t tree) string {
	if c.Op == "Glob" {
		return "Glob(" + c.A + ")"
	}
	a := parseArg(c.A)
	fine := c.Op == "IsEmpty"
	s := c.Op + "(" + shapeOf(t, a, fine)
	if c.isTwoArg() {
		b := parseArg(c.B)
		sb := shapeOf(t, b, false)
		switch {
		case a.Empty && !b.Empty:
			s = c.Op + "(empty,any"
		case b.Empty && !a.Empty:
			s = c.Op + "(any,empty"
		case a.Empty && b.Empty:
			s = c.Op + "(empty,empty"
		case strings.HasPrefix(sb, "missing+pfile"):
			s = c.Op + "(any," + sb
		default:
			rel := ""
			switch {
			case c.A == c.B:
				rel = "equal"
			case a.P == b.P:
				rel = "same"
			case under(b.P, a.P):
				rel = "d-in-s"
				sb = "in-src"
			case parent(a.P) == b.P:
				rel = "s-child-of-d"
			default: // (a source deeper inside the destination is "disjoint" from where it would go)
				rel = "disjoint"
			}
			s += "," + sb + ";" + rel
			if rel != "d-in-s" && t.kind(b.P) == 'd' && t.kind(a.P) != 'm' && c.Op != "CopyToFile" {
				q := join(b.P, base(a.P))
				into := shapeOf(t, arg{P: q}, true)
				if into == "efile" {
					into = "file"
				}
				if q == a.P {
					into = "self"
				}
				s += ";into=" + into
			}
		}
	}
	switch c.Op {
	case "WriteFile":
		if c.C == "" {
			s += ";c=empty"
		} else {
			s += ";c=data"
		}
	case "LsRecursive":
		s += ";" + c.C
	}
	return s + ")"
}

// diffClass summarises how got differs from want: a sorted subset of {lost, added, content, kind}.
func diffClass(want, got tree) string {
	m := map[string]bool{}
	for p, w := range want {
		g, ok := got[p]
		switch {
		case !ok:
			m["lost"] = true
		case g.Dir != w.Dir:
			m["kind"] = true
		case g.Content != w.Content:
			m["content"] = true
		}
	}
	for p := range got {
		if _, ok := want[p]; !ok {
			m["added"] = true
		}
	}
	var l []string
	for k := range m {
		l = append(l, k)
	}
	sort.Strings(l)
	return strings.Join(l, "+")
}

// frameBroken lists the paths outside the destination that differ between before and after.
func frameBroken(o outcome, before, after tree) []string {
	if o.AllDest {
		return nil
	}
	inDest := func(p string) bool {
		for _, d := range o.Dest {
			if within(p, d) {
				return true
			}
			// a missing ancestor of the destination may appear as a directory
			if under(d, p) && before.kind(p) == 'm' && after.kind(p) == 'd' {
				return true
			}
		}
		return false
	}
	seen := map[string]bool{}
	var out []string
	check := func(p string) {
		if seen[p] {
			return
		}
		seen[p] = true
		if inDest(p) {
			return
		}
		b, bok := before[p]
		a, aok := after[p]
		if bok != aok || a != b {
			out = append(out, p)
		}
	}
	for p := range before {
		check(p)
	}
	for p := range after {
		check(p)
	}
	sort.Strings(out)
	return out
}

// sourceBroken lists the pre-existing entries of a copy's source that changed.
func sourceBroken(o outcome, before, after tree) []string {
	if !o.HasSrc {
		return nil
	}
	var out []string
	for p, b := range before {
		if !within(p, o.Src) {
			continue
		}
		if o.SrcExcept != noExcept && within(p, o.SrcExcept) {
			continue
		}
		a, ok := after[p]
		if !ok || a != b {
			out = append(out, p)
		}
	}
	sort.Strings(out)
	return out
}

// C12 — timeout / cancellation runners always return and always signal the action; Parallelise; cancel store.
//
// The repository files parallelisation.go and cancel_functions.go are explored through instrumented copies
// generated from /repo's working tree (engine/instr): a scheduling point before every `go`, channel
// operation and `select`, the choice among ready `select` cases owned by the explorer, and the cancel
// store's lock replaced by an explorer-visible one. Time is virtual, so "the action completes δ before /
// at / after the deadline" is exact and, within each class, every goroutine order is enumerated.
package c12

import (
	"context"
	"errors"
	"fmt"
	"os"
	"reflect"
	"sort"
	"strings"
	"testing"
	"time"

	"github.com/ARM-software/golang-utils/utils/commonerrors"
	"github.com/ARM-software/golang-utils/utils/parallelisation"
	"github.com/ARM-software/golang-utils/utils/verifrt"
	deadlock "github.com/sasha-s/go-deadlock"

	ev "verif/engine/evidence"
	"verif/engine/gosim"
)

func TestMain(m *testing.M) {
	deadlock.Opts.Disable = true
	ev.Main(m)
}

const T = 10 * time.Millisecond // the timeout given to the runners

var errAction = errors.New("the action's own error")

type scenario struct {
	Name   string
	Family string // stop | ctx | store | parallelise | cancelstore
	// runners
	Action string        // own | linger | quick | deaf
	Delta  time.Duration // the action's own completion instant relative to the deadline
	ResErr bool          // the action's own result is an error
	// StopErr: once it has seen its stop signal the action winds down with an error of its own ("interrupted") instead
	// of a cancelled / timeout kind: the runner must still report the timeout kind
	StopErr     bool
	Parent      string // live | pre | at:<offset>
	StoreCancel bool   // family "store", parent "at…": it is the caller's cancel store that is cancelled at that instant, not the parent context
	Cause       bool   // the parent context is ended with a recorded cause (context.WithCancelCause)
	Nested      int    // Parallelise: every action calls Parallelise itself over that many arguments
	Wide        bool   // long argument list: delay bounding (every departure from the default schedule costs one deviation)
	POff        time.Duration
	// parallelise
	Outcomes []bool // per argument: true = error
	// cancel store
	Scripts [][]byte // per thread: letters R, C, L
	Bound   int
}

type world struct {
	x *gosim.Exec
	// runner scenarios (all instants are relative to t0, the moment the runner was called)
	t0          time.Time
	armed       time.Time // stop family: when the runner's own timer was armed
	sawSignal   bool
	actionDone  bool
	actionDoneT time.Duration
	ownResult   bool // the action returned of its own accord (not because of the signal)
	runnerDone  bool
	runnerRes   error
	runnerT     time.Duration
	actionCtx   context.Context
	invoked     int
	outcome     string
	// parallelise
	calls []int
	// cancel store
	regReturned []bool
	calledBy    []map[int]bool
}

func wire(x *gosim.Exec, w *world) {
	verifrt.GateHook = func(label string) {
		x.Gate(0, label)
		// RunActionWithTimeout arms its timer right after it spawned the action: the deadline the code really
		// uses is (instant at which the runner passed its `go` statement) + T, which is what the oracle compares with
		if strings.HasPrefix(label, "go@") && w.armed.IsZero() {
			if th := x.Current(); th != nil && th.Name == "runner" {
				w.armed = time.Now()
			}
		}
	}
	verifrt.PrefHook = func(n int, label string) int { return x.GateChoose(0, label, n) }
}

// sel2 is the harness's own two-way select with the explorer owning "which ready case wins"
// (same shape as the instrumenter's rewrite): returns 0 if a fired, 1 if b fired.
func sel2[A, B any](x *gosim.Exec, label string, a <-chan A, b <-chan B) int {
	pref := x.GateChoose(0, label, 2)
	try := func(i int) bool {
		if i == 0 {
			select {
			case <-a:
				return true
			default:
				return false
			}
		}
		select {
		case <-b:
			return true
		default:
			return false
		}
	}
	if try(pref) {
		return pref
	}
	if try(1 - pref) {
		return 1 - pref
	}
	select {
	case <-a:
		return 0
	case <-b:
		return 1
	}
}

func (w *world) ownRes(sc scenario) error {
	if sc.ResErr {
		return errAction
	}
	return nil
}

func body(sc scenario) func(x *gosim.Exec) {
	return func(x *gosim.Exec) {
		w := &world{x: x}
		wire(x, w)
		x.User = w
		switch sc.Family {
		case "stop":
			bodyStop(x, w, sc)
		case "ctx", "store":
			bodyCtx(x, w, sc)
		case "parallelise":
			bodyParallelise(x, w, sc)
		case "cancelstore":
			bodyCancelStore(x, w, sc)
		}
	}
}

// ---- RunActionWithTimeout ------------------------------------------------------------------------

func bodyStop(x *gosim.Exec, w *world, sc scenario) {
	action := func(stop chan bool) error {
		w.invoked++
		defer func() { w.actionDone = true; w.actionDoneT = time.Since(w.t0) }()
		switch sc.Action {
		case "own": // the well-behaved shape: selects on {stop signal, own completion timer}
			if sel2(x, "action: select{stop, own timer}", stop, time.After(time.Until(w.t0.Add(T+sc.Delta)))) == 0 {
				w.sawSignal = true
				if sc.StopErr {
					return errInterrupted
				}
				return commonerrors.ErrCancelled
			}
			w.ownResult = true
			return w.ownRes(sc)
		case "linger": // waits for the stop signal, then takes a while to wind down
			x.Gate(0, "action: <-stop")
			<-stop
			w.sawSignal = true
			time.Sleep(sc.Delta)
			if sc.StopErr {
				return errInterrupted
			}
			return commonerrors.ErrCancelled
		default: // quick: finishes of its own accord before the deadline, never looks at the signal
			time.Sleep(time.Until(w.t0.Add(T + sc.Delta)))
			w.ownResult = true
			return w.ownRes(sc)
		}
	}
	x.Go("runner", 0, func() {
		w.t0 = time.Now()
		w.runnerRes = parallelisation.RunActionWithTimeout(action, T)
		w.runnerT = time.Since(w.t0)
		w.runnerDone = true
		x.Note("RunActionWithTimeout returned %v at %v (action done: %v at %v, saw signal: %v)", w.runnerRes, w.runnerT, w.actionDone, w.actionDoneT, w.sawSignal)
		w.checkRunner(sc)
	})
}

// checkRunner evaluates the oracle when the runner call returns (in the runner's thread, within its step).
func (w *world) checkRunner(sc scenario) {
	x := w.x
	res := w.runnerRes
	isTimeoutKind := commonerrors.Any(res, commonerrors.ErrTimeout, commonerrors.ErrCancelled)
	w.outcome = fmt.Sprintf("res=%v own=%v saw=%v", kind(res), w.ownResult, w.sawSignal)
	parentLive := sc.Parent == "" || sc.Parent == "live"
	// 1. the action's own result when it finished (strictly) before the deadline — and the runner itself was
	//    not held up beyond the deadline (weak reading: a runner that is itself late may report the timeout)
	if parentLive && w.ownResult && w.actionDoneT < T && w.runnerT < T {
		if !sameErr(res, w.ownRes(sc)) {
			x.Violate("own-result-lost:family="+sc.Family+":action="+sc.Action, "the action finished at %v (deadline %v) with %v, the runner returned %v at %v", w.actionDoneT, T, w.ownRes(sc), res, w.runnerT)
			return
		}
	}
	// 2. otherwise a timeout / cancelled kind — unless the action's own result is reported (allowed at a tie or when
	//    the action completed of its own accord)
	if !w.ownResult && !isTimeoutKind && !(sc.Action == "deaf") {
		x.Violate("no-timeout-kind:family="+sc.Family+":action="+sc.Action, "the action did not complete of its own accord, yet the runner returned %v", res)
		return
	}
	if w.ownResult && !isTimeoutKind && !sameErr(res, w.ownRes(sc)) {
		x.Violate("foreign-result:family="+sc.Family+":action="+sc.Action, "the runner returned %v which is neither the action's result nor a timeout/cancelled kind", res)
		return
	}
	deadline := T
	if sc.Family == "stop" {
		if w.armed.IsZero() {
			deadline = 1 << 60 // unknown: the clause is not evaluated
		} else {
			deadline = w.armed.Sub(w.t0) + T
		}
	}
	// evaluated only when nobody was held up while time passed (no delaying tick): a runner that is itself
	// late and then finds both the result and its timer ready may report either (weak reading, both ways)
	if parentLive && w.actionDoneT > deadline && !isTimeoutKind && w.invoked > 0 && x.Delays() == 0 {
		x.Violate("late-result-accepted:family="+sc.Family+":action="+sc.Action, "the action finished at %v, after the deadline %v, and the runner returned %v instead of a timeout kind", w.actionDoneT, T, res)
		return
	}
	// 3. the signal was delivered on every exit path on which the action had not already returned of its own accord
	if w.invoked > 0 && !w.ownResult && !w.sawSignal && sc.Action != "deaf" {
		x.Violate("action-not-signalled:family="+sc.Family+":action="+sc.Action, "the runner returned %v while the action neither finished of its own accord nor saw its stop signal", res)
		return
	}
	if sc.Family == "ctx" && w.actionCtx != nil && w.actionCtx.Err() == nil {
		x.Violate("action-context-alive-after-return:family=ctx", "RunActionWithTimeoutAndContext returned and the action's context is not done")
	}
}

var errInterrupted = errors.New("interrupted before completion")

// errParentCause is the cause recorded when a parent context of the "/cause" scenarios is cancelled: an application
// error of no common kind (ctx.Err() is still context.Canceled).
var errParentCause = errors.New("node is being drained")

func kind(err error) string {
	switch {
	case err == nil:
		return "nil"
	case errors.Is(err, errAction):
		return "own-error"
	case commonerrors.Any(err, commonerrors.ErrTimeout):
		return "timeout"
	case commonerrors.Any(err, commonerrors.ErrCancelled):
		return "cancelled"
	}
	return "other"
}

func sameErr(a, b error) bool {
	if a == nil || b == nil {
		return a == nil && b == nil
	}
	return errors.Is(a, b) || errors.Is(b, a)
}

// ---- RunActionWithTimeoutAndContext / ...AndCancelStore ---------------------------------------------

func bodyCtx(x *gosim.Exec, w *world, sc scenario) {
	parent, cancelParent := context.WithCancel(x.Ctx())
	if sc.Cause {
		var cancelCause context.CancelCauseFunc
		parent, cancelCause = context.WithCancelCause(x.Ctx())
		cancelParent = func() { cancelCause(errParentCause) }
	}
	if sc.Parent == "pre" {
		cancelParent()
	}
	action := func(ctx context.Context) error {
		w.invoked++
		w.actionCtx = ctx
		defer func() { w.actionDone = true; w.actionDoneT = time.Since(w.t0) }()
		switch sc.Action {
		case "own":
			if sel2(x, "action: select{ctx.Done, own timer}", ctx.Done(), time.After(time.Until(w.t0.Add(T+sc.Delta)))) == 0 {
				w.sawSignal = true
				if sc.StopErr {
					return errInterrupted
				}
				return commonerrors.ConvertContextError(ctx.Err())
			}
			w.ownResult = true
			return w.ownRes(sc)
		case "linger":
			x.Gate(0, "action: <-ctx.Done()")
			<-ctx.Done()
			w.sawSignal = true
			time.Sleep(sc.Delta)
			if sc.StopErr {
				return errInterrupted
			}
			return commonerrors.ConvertContextError(ctx.Err())
		default: // deaf: ignores its context, finishes at T+delta
			time.Sleep(time.Until(w.t0.Add(T + sc.Delta)))
			w.ownResult = true
			return w.ownRes(sc)
		}
	}
	store := parallelisation.NewCancelFunctionsStore()
	started := make(chan struct{})
	x.Go("runner", 0, func() {
		w.t0 = time.Now()
		close(started)
		if sc.Family == "ctx" {
			w.runnerRes = parallelisation.RunActionWithTimeoutAndContext(parent, T, action)
		} else {
			w.runnerRes = parallelisation.RunActionWithTimeoutAndCancelStore(parent, T, store, action)
		}
		w.runnerT = time.Since(w.t0)
		w.runnerDone = true
		x.Note("runner returned %v at %v (action done: %v at %v, own: %v, saw signal: %v)", w.runnerRes, w.runnerT, w.actionDone, w.actionDoneT, w.ownResult, w.sawSignal)
		if sc.Parent == "pre" {
			if !commonerrors.Any(w.runnerRes, commonerrors.ErrCancelled, commonerrors.ErrTimeout) {
				x.Violate("precancelled-not-reported:family="+sc.Family, "parent context already cancelled, runner returned %v", w.runnerRes)
			}
			w.outcome = "pre:" + kind(w.runnerRes)
			return
		}
		w.checkRunner(sc)
		if sc.Family == "store" {
			// the owner of the store finishes too: then the action's context must be over
			store.Cancel()
			if w.actionCtx != nil && w.actionCtx.Err() == nil {
				x.Violate("action-context-alive-after-store-cancel", "store.Cancel() after the runner returned left the action's context alive")
			}
		}
	})
	if strings.HasPrefix(sc.Parent, "at") {
		x.Go("canceller", 0, func() {
			<-started
			time.Sleep(time.Until(w.t0.Add(T + sc.POff)))
			if sc.StoreCancel {
				x.Gate(0, "store.Cancel()")
				store.Cancel() // the owner of the cancel store stops everything registered in it, the runner included
				return
			}
			x.Gate(0, "parent cancel()")
			cancelParent()
		})
	}
	_ = cancelParent
}

// ---- Parallelise -----------------------------------------------------------------------------------

func bodyParallelise(x *gosim.Exec, w *world, sc scenario) {
	n := len(sc.Outcomes)
	w.calls = make([]int, n)
	args := make([]int, n)
	for i := range args {
		args[i] = i
	}
	errs := make([]error, n)
	for i := range errs {
		errs[i] = fmt.Errorf("error of argument %d", i)
	}
	action := func(arg interface{}) (interface{}, error) {
		i := arg.(int)
		w.calls[i]++
		if sc.Nested > 0 {
			// the action fans out itself (the library does: the garbage collector calls Parallelise per sub-directory)
			inner := make([]int, sc.Nested)
			if _, err := parallelisation.Parallelise(inner, func(interface{}) (interface{}, error) { return 0, nil }, reflect.TypeOf([]int{})); err != nil {
				return nil, err
			}
		}
		if sc.Outcomes[i] {
			return nil, errs[i]
		}
		return i * 10, nil
	}
	x.Go("caller", 0, func() {
		res, err := parallelisation.Parallelise(args, action, reflect.TypeOf([]int{}))
		anyErr := false
		for _, o := range sc.Outcomes {
			anyErr = anyErr || o
		}
		if err != nil {
			ok := false
			for i, e := range errs {
				if sc.Outcomes[i] && errors.Is(err, e) {
					ok = true
				}
			}
			if !ok {
				x.Violate("parallelise:foreign-error", "Parallelise returned %v which no invocation returned", err)
			}
			w.outcome = "err"
			return
		}
		if anyErr {
			x.Violate("parallelise:error-swallowed", "an invocation failed and Parallelise returned no error")
			return
		}
		got, _ := res.([]int)
		sort.Ints(got)
		want := make([]int, n)
		for i := range want {
			want[i] = i * 10
		}
		if n == 0 && len(got) == 0 {
			w.outcome = "ok0"
			return
		}
		if !reflect.DeepEqual(got, want) {
			x.Violate("parallelise:wrong-results", "results %v, want the multiset %v", got, want)
		}
		w.outcome = fmt.Sprintf("ok%d", n)
	})
	x.AtEnd = func(x *gosim.Exec) {
		for i, c := range w.calls {
			if c != 1 {
				x.Violate("parallelise:invocation-count", "argument %d was given to the action %d times", i, c)
			}
		}
	}
}

// ---- CancelFunctionStore ---------------------------------------------------------------------------

func bodyCancelStore(x *gosim.Exec, w *world, sc scenario) {
	store := parallelisation.NewCancelFunctionsStore()
	nf := 0
	for _, s := range sc.Scripts {
		for _, c := range s {
			if c == 'R' {
				nf++
			}
		}
	}
	w.regReturned = make([]bool, nf)
	w.calledBy = make([]map[int]bool, nf)
	for i := range w.calledBy {
		w.calledBy[i] = map[int]bool{}
	}
	fid := 0
	cancelID := 0
	for t, script := range sc.Scripts {
		t, script := t, script
		var myF []int
		for _, c := range script {
			if c == 'R' {
				myF = append(myF, fid)
				fid++
			}
		}
		var myC []int
		for _, c := range script {
			if c == 'C' {
				myC = append(myC, cancelID)
				cancelID++
			}
		}
		x.Go(fmt.Sprintf("t%d:%s", t, script), 0, func() {
			fi, ci := 0, 0
			for _, c := range script {
				switch c {
				case 'R':
					f := myF[fi]
					fi++
					current := -1
					_ = current
					store.RegisterCancelFunction(func() {
						if th := w.currentCancel(); th >= 0 {
							w.calledBy[f][th] = true
						}
					})
					x.Gate(0, fmt.Sprintf("Register(f%d) returned", f))
					w.regReturned[f] = true
				case 'C':
					id := myC[ci]
					ci++
					x.Gate(0, fmt.Sprintf("Cancel#%d begins", id))
					must := append([]bool(nil), w.regReturned...)
					w.setCancel(id)
					store.Cancel()
					w.clearCancel()
					for f, m := range must {
						if m && !w.calledBy[f][id] {
							x.Violate("cancelstore:registered-function-not-called", "f%d was registered before Cancel#%d began and that Cancel did not call it", f, id)
						}
					}
				case 'L':
					n := store.Len()
					if n < 0 || n > nf {
						x.Violate("cancelstore:len-out-of-range", "Len() = %d with %d functions ever registered", n, nf)
					}
				}
			}
		})
	}
}

// which Cancel call the current goroutine is inside (per goroutine; cancel functions run synchronously in Cancel)
var cancelOf = map[*gosim.Thread]int{}

func (w *world) setCancel(id int) { cancelOf[w.x.Current()] = id }
func (w *world) clearCancel()     { delete(cancelOf, w.x.Current()) }
func (w *world) currentCancel() int {
	if id, ok := cancelOf[w.x.Current()]; ok {
		return id
	}
	return -1
}

// ---- scenarios ---------------------------------------------------------------------------------------

func scenarios() []scenario {
	var out []scenario
	deltas := []time.Duration{-time.Millisecond, -time.Nanosecond, 0, time.Nanosecond, time.Millisecond}
	dn := func(d time.Duration) string { return fmt.Sprintf("%+v", d) }
	for _, d := range deltas {
		for _, e := range []bool{false, true} {
			out = append(out, scenario{Name: fmt.Sprintf("stop/own/delta=%s/err=%v", dn(d), e), Family: "stop", Action: "own", Delta: d, ResErr: e, Bound: 2})
			if d < 0 {
				out = append(out, scenario{Name: fmt.Sprintf("stop/quick/delta=%s/err=%v", dn(d), e), Family: "stop", Action: "quick", Delta: d, ResErr: e, Bound: 2})
			}
		}
	}
	for _, d := range []time.Duration{0, time.Millisecond} {
		out = append(out, scenario{Name: fmt.Sprintf("stop/linger/%v", d), Family: "stop", Action: "linger", Delta: d, Bound: 2})
	}
	parents := []struct {
		n   string
		off time.Duration
	}{{"live", 0}, {"pre", 0}, {"at-1ms", -time.Millisecond}, {"at+0", 0}, {"at+1ms", time.Millisecond}}
	for _, fam := range []string{"ctx", "store"} {
		for _, p := range parents {
			for _, d := range deltas {
				for _, e := range []bool{false, true} {
					if p.n != "live" && (e || (d != -time.Millisecond && d != 0 && d != time.Millisecond)) {
						continue // the full delta x result product only with a live parent
					}
					for _, a := range []string{"own", "deaf"} {
						out = append(out, scenario{Name: fmt.Sprintf("%s/%s/delta=%s/err=%v/parent=%s", fam, a, dn(d), e, p.n), Family: fam, Action: a, Delta: d, ResErr: e, Parent: strings.SplitN(p.n, "-", 2)[0], POff: p.off, Bound: 2})
					}
				}
			}
			out = append(out, scenario{Name: fmt.Sprintf("%s/linger/1ms/parent=%s", fam, p.n), Family: fam, Action: "linger", Delta: time.Millisecond, Parent: strings.SplitN(p.n, "-", 2)[0], POff: p.off, Bound: 2})
		}
	}
	// the same with an action that reports "interrupted" once stopped (actions that look at their signal only)
	for _, sc := range append([]scenario(nil), out...) {
		if (sc.Action == "own" || sc.Action == "linger") && !sc.ResErr && (sc.Parent == "" || sc.Parent == "live") {
			sc.Name += "/interrupted-on-stop"
			sc.StopErr = true
			out = append(out, sc)
		}
	}
	// the caller's cancel store cancelled while the runner is at work (one millisecond before / at / after the deadline)
	for _, sc := range append([]scenario(nil), out...) {
		if sc.Family == "store" && strings.HasPrefix(sc.Parent, "at") && sc.Action != "deaf" && !sc.StopErr {
			sc.Name += "/store-cancelled-instead-of-the-parent"
			sc.StoreCancel = true
			out = append(out, sc)
			if !sc.ResErr { // ... and with an action that answers its stop signal with an error of its own
				sc.Name += "/interrupted-on-stop"
				sc.StopErr = true
				out = append(out, sc)
			}
		}
	}
	// the parent ended with a recorded cause: what the runner reports is still of the cancelled / timeout kind
	for _, sc := range append([]scenario(nil), out...) {
		if sc.Parent != "" && sc.Parent != "live" && sc.Action != "deaf" && !sc.StopErr {
			sc.Name += "/cause"
			sc.Cause = true
			out = append(out, sc)
		}
	}
	for i := range out {
		if strings.HasPrefix(out[i].Parent, "at") {
			out[i].Parent = "at"
		}
	}
	// Parallelise: 0..3 arguments (4 in thorough), every outcome vector, every interleaving
	maxN := 3
	if ev.Thorough() {
		maxN = 4
	}
	for n := 0; n <= maxN; n++ {
		for mask := 0; mask < 1<<n; mask++ {
			oc := make([]bool, n)
			name := ""
			for i := range oc {
				oc[i] = mask&(1<<i) != 0
				name += map[bool]string{true: "E", false: "v"}[oc[i]]
			}
			b := 3
			if n >= 3 {
				b = 2
			}
			out = append(out, scenario{Name: fmt.Sprintf("parallelise/%d/%s", n, name), Family: "parallelise", Outcomes: oc, Bound: b})
		}
	}
	// long argument lists (every worker is a goroutine of its own): one failing invocation first / in the middle / last, or none;
	// the default schedule only (one departure from it already means ~10^5 executions per list)
	for _, n := range []int{127, 128, 129, 130, 200, 513} {
		for _, failing := range []int{-1, 0, n / 2, n - 1} {
			oc := make([]bool, n)
			name := "none"
			if failing >= 0 {
				oc[failing] = true
				name = fmt.Sprintf("E@%d", failing)
			}
			out = append(out, scenario{Name: fmt.Sprintf("parallelise/wide/%d/%s", n, name), Family: "parallelise", Outcomes: oc, Bound: 0, Wide: true})
		}
	}
	// nested use: 63 / 64 / 65 / 130 actions that each fan out over 2 arguments (default schedule)
	for _, n := range []int{3, 63, 64, 65, 130} {
		out = append(out, scenario{Name: fmt.Sprintf("parallelise/nested/%d actions x 2", n), Family: "parallelise", Outcomes: make([]bool, n), Nested: 2, Bound: 0, Wide: true})
	}
	// cancel store: 2 threads x 1..2 calls (3 threads in thorough)
	var scripts []string
	for _, a := range "RCL" {
		scripts = append(scripts, string(a))
		for _, b := range "RCL" {
			scripts = append(scripts, string(a)+string(b))
		}
	}
	for _, s1 := range scripts {
		for _, s2 := range scripts {
			if !strings.Contains(s1+s2, "R") || !strings.Contains(s1+s2, "C") {
				continue
			}
			out = append(out, scenario{Name: "cancelstore/" + s1 + "|" + s2, Family: "cancelstore", Scripts: [][]byte{[]byte(s1), []byte(s2)}, Bound: 3})
		}
	}
	if ev.Thorough() {
		for _, s1 := range []string{"R", "RC", "CR"} {
			for _, s2 := range []string{"R", "C", "RC"} {
				for _, s3 := range []string{"C", "CL", "RC"} {
					out = append(out, scenario{Name: "cancelstore/" + s1 + "|" + s2 + "|" + s3, Family: "cancelstore", Scripts: [][]byte{[]byte(s1), []byte(s2), []byte(s3)}, Bound: 2})
				}
			}
		}
	}
	if f := os.Getenv("VERIF_SCENARIO"); f != "" {
		var sel []scenario
		for _, sc := range out {
			if strings.Contains(sc.Name, f) {
				sel = append(sel, sc)
			}
		}
		return sel
	}
	return out
}

func toScenario(sc scenario) gosim.Scenario {
	return gosim.Scenario{
		Name: sc.Name,
		Opts: gosim.Options{Bound: sc.Bound, Horizon: time.Second, MaxSteps: map[bool]int{false: 2000, true: 20000}[sc.Wide], Drain: true, DelayBound: sc.Wide},
		Body: body(sc),
		Outcome: func(r *gosim.Result) string {
			if w, ok := r.User.(*world); ok {
				return r.Verdict + ":" + w.outcome
			}
			return r.Verdict
		},
		LeakIsViolation: true,
	}
}

func TestC12(t *testing.T) {
	if p := os.Getenv("VERIF_REPLAY"); p != "" {
		replay(t, p)
		return
	}
	scs := scenarios()
	var gs []gosim.Scenario
	for _, sc := range scs {
		gs = append(gs, toScenario(sc))
	}
	if gosim.IsPoolWorker() {
		gosim.ServePool(t, gs)
		return
	}
	budget := 4 * time.Minute
	if ev.Thorough() {
		budget = 20 * time.Minute
	}
	rep := ev.NewReporter("C12", "model_checking")
	// free-running companion (not an exploration): nested use of Parallelise under the real scheduler, with a guard of one
	// minute around calls that take milliseconds. It exists because state shared between ALL calls of the process (a
	// package-level channel or lock) is created outside the explorer's executions, where a goroutine blocked on it is not
	// seen as blocked: the explorer would wait for ever (the pool ends such a run with an engine error after four minutes).
	for _, n := range []int{64, 130, 300} {
		done := make(chan error, 1)
		go func() {
			outer := make([]int, n)
			_, err := parallelisation.Parallelise(outer, func(interface{}) (interface{}, error) {
				inner := make([]int, 2)
				_, err := parallelisation.Parallelise(inner, func(interface{}) (interface{}, error) { return 0, nil }, reflect.TypeOf([]int{}))
				return 0, err
			}, reflect.TypeOf([]int{}))
			done <- err
		}()
		select {
		case err := <-done:
			if err != nil {
				rep.Violation("parallelise:nested:foreign-error:free-running", map[string]any{"actions": n, "error": err.Error()})
			}
		case <-time.After(time.Minute):
			rep.Violation("parallelise:nested:did-not-return:free-running", map[string]any{"actions": n, "each_calls_parallelise_over": 2, "waited": "60 s"})
		}
	}
	stats := gosim.ExplorePool(t, gs, ev.Workers(), time.Now().Add(budget))
	total := gosim.NewStats()
	perFamily := map[string]map[string]int64{}
	exhaustive := true
	for _, sc := range scs {
		s := stats[sc.Name]
		if s.Capped {
			exhaustive = false
		}
		var nv int64
		for _, v := range s.Violations {
			nv += v.Count
		}
		f := perFamily[sc.Family]
		if f == nil {
			f = map[string]int64{}
			perFamily[sc.Family] = f
		}
		f["scenarios"]++
		f["executions"] += s.Execs
		f["transitions"] += s.Transitions
		f["violating_executions"] += nv
		total.Merge(s)
		for sig, ce := range s.Violations {
			rep.ViolationN(sig, ce, ce.Count)
		}
		for _, d := range s.Diverged {
			rep.EngineError("%s", d)
		}
		if nv > 0 {
			fmt.Fprintf(os.Stderr, "[C12] %-50s executions=%d violations=%d\n", sc.Name, s.Execs, nv)
		}
	}
	rep.Coverage["states"] = total.Nodes
	rep.Coverage["transitions"] = total.Transitions
	rep.Coverage["traces_validated_against_impl"] = total.Validated
	rep.Coverage["executions"] = total.Execs
	rep.Coverage["scenarios"] = len(scs)
	rep.Coverage["families"] = perFamily
	rep.Coverage["distinct_outcomes"] = len(total.Outcomes)
	rep.Coverage["outcomes"] = total.Outcomes
	rep.Coverage["transient_divergences_retried"] = total.Transient
	rep.Coverage["exhaustive"] = exhaustive
	rep.Coverage["samples"] = total.Samples
	rep.Coverage["explanation"] = "states = distinct schedule prefixes of the instrumented real code (gates before go / channel operations / select, select winner owned by the explorer, cancel-store lock explorer-visible) under a virtual clock; deviation bound 2-3 per scenario; every execution drained to quiescence, goroutines left blocked are a violation"
	rep.Assume = []string{
		"the property's '±2 ms swept in µs steps under load' is replaced by the three order classes (before / tie / after, at 1 ns and 1 ms) in virtual time with every goroutine and select order inside each",
		"an action that never observes its stop signal is outside the statement ('once the action has observed its stop signal')",
		"weak reading: a runner that is itself delayed beyond the deadline may report the timeout although the action finished in time",
		"waiters on the cancel store's lock are served first-in first-out (the order of Lock attempts is explored)",
	}
	rep.Finish()
}

func replay(t *testing.T, path string) {
	ce, err := gosim.LoadCounterexample(path)
	if err != nil {
		t.Fatal(err)
	}
	for _, sc := range scenarios() {
		if sc.Name != ce.Scenario {
			continue
		}
		g := toScenario(sc)
		g.Opts.Bound = 99
		r := gosim.RunOnce(t, &g.Opts, g.Body, ce.Schedule, nil)
		for _, l := range r.Trace {
			fmt.Println(l)
		}
		if r.Viol != nil || r.Leak {
			sig := "goroutine-left-blocked-forever"
			if r.Viol != nil {
				sig = r.Viol.Signature
			}
			fmt.Printf("VIOLATION property=C12 replay=%s signature=%s\n", path, sig)
			ev.ExitCode = 1
		} else {
			fmt.Println("replay: no violation")
		}
		return
	}
	t.Fatalf("scenario %q not found", ce.Scenario)
}

#!/bin/bash
# Regenerates the instrumented copies of the repository files this check explores (from /repo's working tree).
set -e
cd "$(dirname "$(readlink -f "$0")")/../.."
export GOFLAGS=-mod=mod GOPROXY=off GOTOOLCHAIN=local
mkdir -p .build/bin
go1.26 build -o .build/bin/instr-C12 ./engine/instr
VERIF_ROOT="$PWD" .build/bin/instr-C12 -id C12 -out "$PWD/.build/instr-C12" \
  -chan parallelisation/parallelisation.go \
  -swapsync parallelisation/cancel_functions.go -swapsync parallelisation/parallelisation.go

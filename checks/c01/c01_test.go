// C01 — file lock: at most one holder at any instant.
//
// Every interleaving, at the granularity of single afero.Fs calls, of 2–4 contenders (each with its
// own RemoteLockFile over its own VFS over one shared backend), their heart-beat goroutines and the
// virtual clock, within a deviation budget. See DESIGN.md §4 C01.
package c01

import (
	"context"
	"errors"
	"fmt"
	"os"
	"sort"
	"strings"
	"sync/atomic"
	"syscall"
	"testing"
	"time"

	"github.com/ARM-software/golang-utils/utils/filesystem"
	"github.com/ARM-software/golang-utils/utils/verifrt"
	deadlock "github.com/sasha-s/go-deadlock"
	"github.com/spf13/afero"

	ev "verif/engine/evidence"
	"verif/engine/gosim"
	"verif/engine/vfsx"
)

func TestMain(m *testing.M) {
	deadlock.Opts.Disable = true // its detector pools timers process-wide: fatal across synctest bubbles
	ev.Main(m)
}

const (
	lockRoot = "/locks"
	lockID   = "L"
	lockDir  = lockRoot + "/" + filesystem.LockFilePrefix + "-" + lockID
	hbFile   = lockDir + "/" + lockID + ".lock"
)

type acquireKind int

const (
	aTry acquireKind = iota
	aLock
	aLockTimeout
)

func (a acquireKind) String() string { return [...]string{"TryLock", "Lock", "LockWithTimeout"}[a] }

type contender struct {
	Kind     acquireKind
	Override bool
	Cycles   int
	// StartAfter delays the contender's first acquire (so that it meets a lock that has been held for a while, at an
	// instant of its own: 147 ms is when the holder's fourth heart beat is due)
	StartAfter time.Duration
	// IDSuffix is appended to the lock id this contender uses (the lock directory is named after the TRIMMED id: "L" and
	// "L " are the same lock)
	IDSuffix string
}

type scenario struct {
	Name       string
	Backend    string // posixmem | mem
	Init       string // free | dead | dead-nofile | noroot
	Contenders []contender
	Bound      int
	Hold       time.Duration
	// Stall > 0 adds a timer that far in the future: choosing TICK while contenders are enabled then stalls all of them
	// for that long in one deviation (a process descheduled / a slow backend for more than two heart-beat periods)
	Stall time.Duration
	// GlitchAt > 0: the GlitchAt-th backend operation of contender 0 (its heart beat included) fails once with a transient
	// error and leaves the backend untouched
	GlitchAt int
	// RefuseRemovals > 0: the first RefuseRemovals removals (Remove / RemoveAll) contender 0 attempts are refused with EBUSY
	// and leave the backend untouched (a hung holder that still has its file open, an NFS silly-rename entry): a whole
	// release attempt of an overriding contender fails, a later one works
	RefuseRemovals int
	// SlowBeat > 0: the SlowBeat-th time contender 0's heart-beat goroutine opens the heart-beat file, the backend takes
	// SlowBeatFor over it (a slow disk or network round trip; the goroutine is blocked in the call, nobody is held up by the
	// scheduler). The caller of Unlock does not wait for a beat in flight.
	SlowBeat    int
	SlowBeatFor time.Duration
	// DirOpenFailures > 0: the first DirOpenFailures times contender 1 opens the lock DIRECTORY (to list it) the backend
	// refuses with EMFILE — stat, mkdir and rmdir need no descriptor and go on working
	DirOpenFailures int
}

type phase int

const (
	pIdle phase = iota
	pAcquiring
	pHolding
	pReleasing
)

func (p phase) String() string { return [...]string{"idle", "acquiring", "holding", "releasing"}[p] }

// world is the monitor state of one execution.
type world struct {
	x         *gosim.Exec
	owner     int // owner of the present incarnation of the lock directory: -1 none, -2 the dead initial holder
	inc       int // sequence number of the present incarnation
	born      time.Time
	sawInc    []int           // incarnation each contender found in its way (Mkdir said "exists") in its current acquire attempt
	lost      []bool          // the contender's own incarnation was removed by somebody else
	beat      time.Time       // newest sign of life of the present incarnation: its creation or its owner's latest heart-beat write
	forfeited []bool          // the contender's lock was legitimately judged stale and removed in its present cycle (see afterOp)
	startAge  []time.Duration // age of that sign of life when the contender's first staleness evaluation of its present attempt began
	lookAge   []time.Duration // age of that sign of life at the latest operation of the contender's staleness evaluations
	relStart  []time.Time     // when each contender's current Unlock call began
	judging   []bool          // the contender is inside a staleness evaluation (IsStale entered; no Unlock / Mkdir / removal since)
	lastLook  []int           // incarnation present at the latest backend operation of the contender's staleness evaluations
	stale     []int           // IsStale evaluations of each contender since its Mkdir last said "exists"
	outside   int             // removals outside the premise (victim stalled > 2 periods before its heart beat started)
	phase     []phase
	api       []string // API call each contender is in
	ownGone   []bool   // this Unlock call has already removed a directory that was the caller's own
	acquired  []int
	outcome   []string
}

func (w *world) site(c int) string {
	switch {
	case w.api[c] == "Unlock" && w.ownGone[c]:
		return "Unlock.retry-after-own-removal"
	case w.api[c] == "Unlock":
		return "Unlock"
	case strings.HasPrefix(w.api[c], "acquire"):
		return "Acquire.override-release"
	}
	return w.api[c]
}

func (w *world) afterOp(op *vfsx.Op) {
	if c := op.Client; c >= 0 && c < len(w.judging) && w.judging[c] && (op.Path == lockDir || strings.HasPrefix(op.Path, lockDir+"/")) {
		// an operation of a staleness evaluation (listing of the lock directory, stat of a heart-beat file or of the directory)
		w.lastLook[c] = w.inc
		w.lookAge[c] = time.Since(w.beat)
	}
	if op.Path == hbFile && op.Err == nil && op.N > 0 && op.Client == w.owner && (op.Kind == vfsx.KFWrite || op.Kind == vfsx.KFWriteString || op.Kind == vfsx.KFWriteAt) {
		w.beat = time.Now() // the owner of the present incarnation wrote a heart beat
	}
	if op.Path != lockDir {
		return
	}
	if op.Kind == vfsx.KMkdir || op.Kind == vfsx.KMkdirAll || op.Kind == vfsx.KRemove || op.Kind == vfsx.KRemoveAll {
		w.judging[op.Client] = false
	}
	if op.Err != nil {
		if op.Kind == vfsx.KMkdir {
			w.sawInc[op.Client] = w.inc
			w.stale[op.Client] = 0
		}
		return
	}
	switch op.Kind {
	case vfsx.KMkdir, vfsx.KMkdirAll:
		w.owner = op.Client
		w.inc++
		w.born = time.Now()
		w.beat = w.born
		if w.phase[op.Client] == pIdle {
			// a directory created by an acquire call that the API already abandoned (timed out): nobody holds it
			w.owner = -3
		}
	case vfsx.KRemove, vfsx.KRemoveAll:
		x, y := op.Client, w.owner
		if y >= 0 && y != x && (w.phase[y] == pHolding || w.phase[y] == pAcquiring) {
			sig := fmt.Sprintf("foreign-lock-removed:site=%s:victim=%s", w.site(x), w.phase[y])
			if w.site(x) == "Unlock" {
				if w.lost[x] {
					sig += ":own-lock=removed-by-other"
				} else {
					sig += ":own-lock=never-removed"
				}
			}
			if strings.HasPrefix(w.site(x), "Unlock") && time.Since(w.relStart[x]) > 100*time.Millisecond && w.x.Delays() == 0 {
				// the releasing call has been going on for more than two heart-beat periods (its heart beat stopped when
				// it began) by the code's own timers — no stall was injected by the schedule: whoever found the lock
				// silent for that long took it over rightfully, and is now the victim
				sig += ":release-older-than-two-periods"
			}
			if strings.HasPrefix(w.site(x), "Acquire") {
				// how many times the remover re-evaluated staleness after the first verdict, before it removed: the pinned
				// code re-checks once (TryLock: IsStale, then ReleaseIfStale: IsStale again)
				sig += fmt.Sprintf(":rechecks=%d", w.stale[x]-1)
			}
			judgedSame := strings.HasPrefix(w.site(x), "Acquire") && w.sawInc[x] == w.inc
			if judgedSame {
				// the remover judged *this very* incarnation stale (not an earlier one)
				sig += ":judged=same-incarnation"
			}
			if strings.HasPrefix(w.site(x), "Acquire") && !judgedSame && w.lastLook[x] == w.inc {
				// the remover's first verdict was about an earlier incarnation, but the last operation of its latest
				// staleness evaluation already met this incarnation: whatever it saw there (a missing heart-beat file, a
				// fresh directory) is not evidence that this incarnation is stale
				sig += ":last-look=this-incarnation"
			}
			if judgedSame && w.lastLook[x] == w.inc && (w.lookAge[x] > 100*time.Millisecond || w.startAge[x] > 100*time.Millisecond) {
				// outside the premise ("as long as the holder's heartbeat keeps running"): the remover judged this very
				// incarnation, and at the last operation of its staleness evaluation the incarnation's newest sign of life
				// (its creation, or its owner's latest heart-beat write) was more than two periods old — the victim was
				// stalled for that long before its first heart beat (or it was that old when the remover's evaluation of this
				// attempt BEGAN, and the victim's first beat raced with the evaluation). The victim has forfeited the lock:
				// what happens to it from here on is not held against anybody.
				w.forfeited[y] = true
				w.outside++
			} else {
				w.x.Violate(sig, "contender %d (in %s) removed the lock directory (incarnation %d) created by contender %d, which is %s", x, w.api[x], w.inc, y, w.phase[y])
			}
		}
		if y == x {
			w.ownGone[x] = true
		} else if y >= 0 {
			w.lost[y] = true
		}
		w.owner = -1
	}
}

func (w *world) acquiredBy(c int) {
	w.phase[c] = pHolding
	w.acquired[c]++
	if w.forfeited[c] {
		return
	}
	for o, p := range w.phase {
		if o != c && p == pHolding && !w.forfeited[o] {
			w.x.Violate("two-holders:no-foreign-removal", "contenders %d and %d hold the lock at the same time", o, c)
		}
	}
}

var osSandboxSeq atomic.Int64

func newBackend(x *gosim.Exec, kind string) afero.Fs {
	switch kind {
	case "mem":
		return afero.NewMemMapFs()
	case "os":
		// the real OS filesystem (tmpfs) sharing the bubble's clock; one sandbox per execution, removed at tear-down
		dir := fmt.Sprintf("/dev/shm/verif-c01-%d/%d", os.Getpid(), osSandboxSeq.Add(1))
		fs, err := vfsx.NewClockedOS(dir)
		if err != nil {
			panic(err)
		}
		x.Cleanup(fs.Destroy)
		return fs
	default:
		return vfsx.NewPosixMem()
	}
}

func body(sc scenario) func(x *gosim.Exec) {
	return func(x *gosim.Exec) {
		n := len(sc.Contenders)
		w := &world{x: x, owner: -1, phase: make([]phase, n), api: make([]string, n), ownGone: make([]bool, n), acquired: make([]int, n), outcome: make([]string, n), sawInc: make([]int, n), lost: make([]bool, n), stale: make([]int, n), judging: make([]bool, n), lastLook: make([]int, n), forfeited: make([]bool, n), relStart: make([]time.Time, n), lookAge: make([]time.Duration, n), startAge: make([]time.Duration, n)}
		verifrt.EventHook = func(name string) {
			th := x.Current()
			if th == nil || th.Client < 0 || th.Client >= n {
				return
			}
			switch name {
			case "IsStale":
				if w.stale[th.Client] == 0 {
					// the first staleness evaluation of this acquire attempt begins: how long the lock has been silent by now
					w.startAge[th.Client] = time.Since(w.beat)
				}
				w.stale[th.Client]++
				w.judging[th.Client] = true
			case "Unlock":
				w.judging[th.Client] = false
			}
		}
		x.User = w
		backend := newBackend(x, sc.Backend)
		if sc.Init != "noroot" { // "noroot": the directory the lock lives in does not exist (yet)
			_ = backend.MkdirAll(lockRoot, 0o755)
		}
		old := time.Now().Add(-10 * time.Second)
		switch sc.Init {
		case "dead":
			_ = backend.Mkdir(lockDir, 0o755)
			_ = afero.WriteFile(backend, hbFile, []byte("alive @ long ago"), 0o775)
			_ = backend.Chtimes(hbFile, old, old)
			_ = backend.Chtimes(lockDir, old, old)
			w.owner = -2
			w.inc = 1
		case "dead-nofile":
			w.inc = 1
			_ = backend.Mkdir(lockDir, 0o755)
			_ = backend.Chtimes(lockDir, old, old)
			w.owner = -2
		}
		if sc.Stall > 0 {
			x.Go("stall", n, func() { time.Sleep(sc.Stall) })
		}
		hook := &gosim.FSHook{X: x, AfterOp: w.afterOp}
		if sc.GlitchAt > 0 {
			seen := 0
			hook.BeforeOp = func(op *vfsx.Op) *vfsx.Inject {
				if op.Client != 0 {
					return nil
				}
				if seen++; seen == sc.GlitchAt {
					x.Note("transient error injected into %s", op)
					return &vfsx.Inject{Err: errors.New("input/output error (transient)")}
				}
				return nil
			}
		}
		if sc.RefuseRemovals > 0 {
			refused := 0
			hook.BeforeOp = func(op *vfsx.Op) *vfsx.Inject {
				if op.Client != 0 || (op.Kind != vfsx.KRemove && op.Kind != vfsx.KRemoveAll) || refused >= sc.RefuseRemovals {
					return nil
				}
				refused++
				x.Note("removal %d of contender 0 refused: %s", refused, op)
				return &vfsx.Inject{Err: &os.PathError{Op: "remove", Path: op.Path, Err: syscall.EBUSY}}
			}
		}
		if sc.DirOpenFailures > 0 {
			failed := 0
			hook.BeforeOp = func(op *vfsx.Op) *vfsx.Inject {
				if op.Client == 1 && (op.Kind == vfsx.KOpen || op.Kind == vfsx.KOpenFile) && op.Path == lockDir && failed < sc.DirOpenFailures {
					failed++
					x.Note("open %d of the lock directory by contender 1 refused: %s", failed, op)
					return &vfsx.Inject{Err: &os.PathError{Op: "open", Path: op.Path, Err: syscall.EMFILE}}
				}
				return nil
			}
		}
		if sc.SlowBeat > 0 {
			opens := 0
			hook.BeforeOp = func(op *vfsx.Op) *vfsx.Inject {
				if op.Client == 0 && op.Kind == vfsx.KOpenFile && op.Path == hbFile {
					if th := x.Current(); th != nil && strings.Contains(th.First, "OpenFile("+hbFile) { // the beat goroutine, not TryLock's first write
						if opens++; opens == sc.SlowBeat {
							x.Note("the backend takes %v over %s", sc.SlowBeatFor, op)
							time.Sleep(sc.SlowBeatFor)
						}
					}
				}
				return nil
			}
		}
		shared := vfsx.NewShared(hook)
		for i, c := range sc.Contenders {
			i, c := i, c
			wrapper := vfsx.NewMem(backend, shared, i)
			vfs := filesystem.NewVirtualFileSystem(wrapper, filesystem.InMemoryFS, filesystem.IdentityPathConverterFunc).(*filesystem.VFS)
			lock := filesystem.NewGenericRemoteLockFile(vfs, lockID+c.IDSuffix, lockRoot, c.Override)
			x.Go(fmt.Sprintf("c%d", i), i, func() {
				if c.StartAfter > 0 {
					time.Sleep(c.StartAfter)
				}
				for cycle := 0; cycle < c.Cycles; cycle++ {
					w.phase[i] = pAcquiring
					w.lost[i] = false
					w.forfeited[i] = false
					w.api[i] = "acquire:" + c.Kind.String()
					var err error
					switch c.Kind {
					case aTry:
						err = lock.TryLock(x.Ctx())
					case aLock:
						// the heart beat lives on a context derived from this one: it is released only after the unlock
						// (cancelling it right after the acquire would stop the heart beat — and race with its start)
						patience := 80 * time.Millisecond
						if sc.Hold > 80*time.Millisecond {
							// outlasts the other's hold and release; not a multiple of the 10 ms between two lock tries (two
							// timers firing at the same instant are not ordered by anything the explorer owns)
							patience = 2*sc.Hold + 303*time.Millisecond
						}
						ctx, cancel := context.WithTimeout(x.Ctx(), patience)
						defer cancel()
						err = lock.Lock(ctx)
					case aLockTimeout:
						err = lock.LockWithTimeout(x.Ctx(), 60*time.Millisecond)
					}
					if err != nil {
						w.phase[i] = pIdle
						w.outcome[i] += "F"
						x.Note("c%d %s failed: %v", i, c.Kind, err)
						continue
					}
					w.outcome[i] += "A"
					x.Note("c%d %s ACQUIRED", i, c.Kind)
					w.acquiredBy(i)
					time.Sleep(sc.Hold)                             // hold (virtual time)
					x.Gate(i, fmt.Sprintf("c%d: begin release", i)) // a harness event the monitor reads: it is a scheduled step
					w.phase[i] = pReleasing
					w.api[i] = "Unlock"
					w.relStart[i] = time.Now()
					w.ownGone[i] = false
					x.Note("c%d begins release", i)
					err = lock.Unlock(x.Ctx())
					x.Note("c%d Unlock returned %v", i, err)
					w.phase[i] = pIdle
					w.api[i] = ""
				}
			})
		}
	}
}

// Ticks are offered as a choice only while no heart beat is waiting to run ("as long as the holder's
// heartbeat keeps running": heart beats are never late) and only if somebody is waiting for time.
func allowTick(x *gosim.Exec, enabled []*gosim.Thread) bool {
	for _, th := range enabled {
		if !th.Harness && strings.Contains(th.First, "OpenFile("+hbFile) {
			return false // a heart-beat writer
		}
	}
	for _, th := range x.Threads() {
		if !th.Done() && !th.Gated() {
			return true
		}
	}
	return false
}

func scenarios() []scenario {
	var out []scenario
	add := func(name, backend, init string, bound int, cs ...contender) {
		hold := 5 * time.Millisecond
		if strings.Contains(name, "hold40") {
			hold = 40 * time.Millisecond // longer than Unlock's maximal retry jitter (25 ms)
		}
		if strings.Contains(name, "hold200") {
			hold = 200 * time.Millisecond
		}
		if strings.Contains(name, "hold100") {
			hold = 100 * time.Millisecond
		}
		if strings.Contains(name, "hold147") {
			// longer than two heart-beat periods plus a lock try, and ending at the very instant the holder's fourth heart
			// beat is due: the beat is "in flight" when the release begins
			hold = 147 * time.Millisecond
		}
		var stall time.Duration
		if strings.Contains(name, "stall110") {
			stall = 110 * time.Millisecond
		}
		if strings.Contains(name, "stall60") { // more than one period, less than two: nothing may look stale yet
			stall = 60 * time.Millisecond
		}
		out = append(out, scenario{Name: name, Backend: backend, Init: init, Contenders: cs, Bound: bound, Hold: hold, Stall: stall})
	}
	T := func(o bool) contender { return contender{Kind: aTry, Override: o, Cycles: 1} }
	L := func(o bool) contender { return contender{Kind: aLock, Override: o, Cycles: 1} }
	W := func(o bool) contender { return contender{Kind: aLockTimeout, Override: o, Cycles: 1} }
	// quick
	add("free/2xTry", "posixmem", "free", 2, T(false), T(false))
	add("free/Try+Lock", "posixmem", "free", 2, T(false), L(false))
	add("free/Lock+Lock", "posixmem", "free", 2, L(false), L(false))
	add("free/Try+LockTimeout", "posixmem", "free", 2, T(false), W(false))
	add("free/Try+Lock hold40", "posixmem", "free", 2, T(false), L(false))
	add("free/3:Try+Lock+Lock P1", "posixmem", "free", 1, T(false), L(false), L(false))
	add("dead/2xTry-override", "posixmem", "dead", 2, T(true), T(true))
	add("dead/Try-override+Try", "posixmem", "dead", 2, T(true), T(false))
	add("dead-nofile/2xTry-override", "posixmem", "dead-nofile", 2, T(true), T(true))
	add("dead/Lock-override+Lock-override P1", "posixmem", "dead", 1, L(true), L(true))
	add("free/Try+Try-override stall110", "posixmem", "free", 2, T(false), T(true))
	add("free/Try+Try-override stall60", "posixmem", "free", 2, T(false), T(true))
	add("free/Try+Lock-override hold147 P1", "posixmem", "free", 1, T(false), L(true))
	// a contender that arrives while the lock has been held for a while, at the instant a heart beat is due (hold 200 ms)
	late := func(o bool, suffix string) contender {
		return contender{Kind: aTry, Override: o, Cycles: 1, StartAfter: 147 * time.Millisecond, IDSuffix: suffix}
	}
	add("free/Try + late Try-override hold200", "posixmem", "free", 2, T(false), late(true, ""))
	add("free/Try + late Try-override hold200(mem)", "mem", "free", 2, T(false), late(true, ""))
	add("free/Try + late Try-override, id with a trailing blank, hold200", "posixmem", "free", 1, T(false), late(true, " "))
	add("noroot/2xTry", "posixmem", "noroot", 2, T(false), T(false))
	add("noroot/Try+Lock-override(os)", "os", "noroot", 2, T(false), L(true))
	add("free/2xTry(mem)", "mem", "free", 2, T(false), T(false))
	add("free/2xTry(os)", "os", "free", 2, T(false), T(false))
	add("dead/Try-override+Try(os)", "os", "dead", 2, T(true), T(false))
	if ev.Thorough() {
		add("dead/Lock-override+Lock-override", "posixmem", "dead", 2, L(true), L(true))
		add("free/Try+Lock(mem)", "mem", "free", 2, T(false), L(false))
		add("free/Try+Lock(os)", "os", "free", 2, T(false), L(false))
		add("dead/2xTry-override(os)", "os", "dead", 2, T(true), T(true))
		add("free/3:Try+Lock+Lock", "posixmem", "free", 2, T(false), L(false), L(false))
		add("free/Lock+Lock hold40", "posixmem", "free", 2, L(false), L(false))
		add("dead/2xTry-override hold40", "posixmem", "dead", 2, T(true), T(true))
		add("free/2 cycles:Try+Lock", "posixmem", "free", 2, contender{Kind: aTry, Cycles: 2}, contender{Kind: aLock, Cycles: 2})
		add("free/3:Lock+Lock+LockTimeout", "posixmem", "free", 2, L(false), L(false), W(false))
		add("free/4:Try+Try+Lock+Lock", "posixmem", "free", 2, T(false), T(false), L(false), L(false))
		add("dead/3:Try-override x2 + Lock", "posixmem", "dead", 2, T(true), T(true), L(false))
		add("dead/3:Lock-override x3", "posixmem", "dead", 2, L(true), L(true), L(true))
		add("free/Try+Lock P3", "posixmem", "free", 3, T(false), L(false))
		add("dead/2xTry-override P3", "posixmem", "dead", 3, T(true), T(true))
		add("free/Lock+Lock(mem)", "mem", "free", 2, L(false), L(false))
		add("dead/2xTry-override(mem)", "mem", "dead", 2, T(true), T(true))
		add("dead/2xTry-override stall110", "posixmem", "dead", 2, T(true), T(true))
		add("free/Try+Lock-override hold147", "posixmem", "free", 2, T(false), L(true))
		add("free/Lock+Lock-override stall110", "posixmem", "free", 2, L(false), L(true))
	}
	// one transient backend error at every operation of contender 0's acquire / first beat / release
	for k := 1; k <= 16; k++ {
		add(fmt.Sprintf("free/Try+Lock glitch@%02d P1", k), "posixmem", "free", 1, T(false), L(false))
		out[len(out)-1].GlitchAt = k
		if k <= 10 {
			add(fmt.Sprintf("dead/Try-override+Lock-override glitch@%02d P1", k), "posixmem", "dead", 1, T(true), L(true))
			out[len(out)-1].GlitchAt = k
		}
	}
	// a stale lock that cannot be removed for a while: the overriding contender's first 9 / 10 / 11 / 20 removals are refused; a
	// plain contender comes 250 ms later
	for _, n := range []int{9, 10, 11, 20} {
		late := T(false)
		late.StartAfter = 250 * time.Millisecond
		add(fmt.Sprintf("dead/Try-override (first %d removals refused) + late Try hold200 P1", n), "posixmem", "dead", 1, T(true), late)
		out[len(out)-1].RefuseRemovals = n
		lateL := L(false)
		lateL.StartAfter = 250 * time.Millisecond
		add(fmt.Sprintf("dead/Lock-override (first %d removals refused) + late Lock hold200 P0", n), "posixmem", "dead", 0, L(true), lateL)
		out[len(out)-1].RefuseRemovals = n
	}
	// a release that begins while a heart beat of the releaser is stuck in a slow backend call; an overriding contender
	// comes once the lock would look stale if it were still there
	for _, beat := range []int{2, 3} {
		// beat 2 is due at 49 ms and returns at 209 ms, beat 3 at 98 ms and 258 ms: the contender comes in between, when the
		// newest completed beat is more than two periods old
		late := T(true)
		late.StartAfter = map[int]time.Duration{2: 150 * time.Millisecond, 3: 215 * time.Millisecond}[beat]
		name := fmt.Sprintf("free/Try hold147 (beat %d takes 160 ms) + late Try-override P1", beat)
		hold := "hold147"
		if beat == 2 {
			name = fmt.Sprintf("free/Try hold100 (beat %d takes 160 ms) + late Try-override P1", beat)
			hold = "hold100"
		}
		_ = hold
		add(name, "posixmem", "free", 1, T(false), late)
		out[len(out)-1].SlowBeat, out[len(out)-1].SlowBeatFor = beat, 160*time.Millisecond
	}
	// a lock held for 200 ms, beating; an overriding contender arrives at 150 ms and cannot open the lock directory the first
	// 1 / 2 / 3 times it tries
	for _, n := range []int{1, 2, 3} {
		late := T(true)
		late.StartAfter = 150 * time.Millisecond
		add(fmt.Sprintf("free/Try hold200 + late Try-override (its first %d opens of the lock directory fail) P1", n), "posixmem", "free", 1, T(false), late)
		out[len(out)-1].DirOpenFailures = n
	}
	if f := os.Getenv("VERIF_SCENARIO"); f != "" {
		var sel []scenario
		for _, sc := range out {
			if strings.Contains(sc.Name, f) {
				sel = append(sel, sc)
			}
		}
		return sel
	}
	return out
}

func toScenario(sc scenario) gosim.Scenario {
	return gosim.Scenario{
		Name: sc.Name,
		Opts: gosim.Options{Bound: sc.Bound, Horizon: 2 * time.Second, MaxSteps: 3000, AllowTick: allowTick},
		Body: body(sc),
		Outcome: func(r *gosim.Result) string {
			if w, ok := r.User.(*world); ok {
				return r.Verdict + ":" + strings.Join(w.outcome, ",")
			}
			return r.Verdict
		},
	}
}

func TestC01(t *testing.T) {
	// the parent of this process's per-execution OS sandboxes (each removed at its execution's tear-down) goes with the process
	defer os.Remove(fmt.Sprintf("/dev/shm/verif-c01-%d", os.Getpid()))
	if p := os.Getenv("VERIF_REPLAY"); p != "" {
		replay(t, p)
		return
	}
	scs := scenarios()
	// the pool works the scenarios off in this order: the small-bound ones first, so that a run that meets its deadline on a
	// loaded machine has lost the tail of the big explorations (reported as not exhaustive), not the targeted scenarios
	sort.SliceStable(scs, func(i, j int) bool { return scs[i].Bound < scs[j].Bound })
	var gs []gosim.Scenario
	for _, sc := range scs {
		gs = append(gs, toScenario(sc))
	}
	if gosim.IsPoolWorker() {
		gosim.ServePool(t, gs)
		return
	}
	budget := 4 * time.Minute
	if ev.Thorough() {
		budget = 40 * time.Minute
	}
	rep := ev.NewReporter("C01", "model_checking")
	stats := gosim.ExplorePool(t, gs, ev.Workers(), time.Now().Add(budget))
	total := gosim.NewStats()
	perScenario := map[string]any{}
	exhaustive := true
	for _, sc := range scs {
		s := stats[sc.Name]
		if s.Capped {
			exhaustive = false
		}
		perScenario[sc.Name] = map[string]any{"executions": s.Execs, "transitions": s.Transitions, "bound": sc.Bound, "capped": s.Capped,
			"outcomes": s.Outcomes, "verdicts": s.Verdicts, "violating_executions": countViol(s), "cpu_s": s.WallS}
		total.Merge(s)
		for sig, ce := range s.Violations {
			rep.ViolationN(sig, ce, ce.Count)
		}
		for _, d := range s.Diverged {
			rep.EngineError("%s", d)
		}
		fmt.Fprintf(os.Stderr, "[C01] %-40s executions=%d violations=%d cpu=%.0fs capped=%v\n", sc.Name, s.Execs, countViol(s), s.WallS, s.Capped)
	}
	// the same scenario on PosixMem and on the real OS filesystem must give the same schedule tree and the same outcomes:
	// the in-memory stand-in is validated against the real thing on every run
	agree := map[string]bool{}
	for _, sc := range scs {
		if !strings.HasSuffix(sc.Name, "(os)") {
			continue
		}
		twin := strings.TrimSuffix(sc.Name, "(os)")
		if a, b := stats[twin], stats[sc.Name]; a != nil && b != nil && !a.Capped && !b.Capped {
			same := a.Execs == b.Execs && a.Transitions == b.Transitions && fmt.Sprint(a.Outcomes) == fmt.Sprint(b.Outcomes)
			agree[twin] = same
			if !same {
				rep.EngineError("backend stand-in is not faithful: scenario %q gives executions=%d transitions=%d outcomes=%v on PosixMem and executions=%d transitions=%d outcomes=%v on the OS filesystem", twin, a.Execs, a.Transitions, a.Outcomes, b.Execs, b.Transitions, b.Outcomes)
			}
		}
	}
	rep.Coverage["posixmem_agrees_with_os_backend"] = agree
	rep.Coverage["states"] = total.Nodes
	rep.Coverage["transitions"] = total.Transitions
	rep.Coverage["traces_validated_against_impl"] = total.Validated
	rep.Coverage["executions"] = total.Execs
	rep.Coverage["distinct_outcomes"] = len(total.Outcomes)
	rep.Coverage["transient_divergences_retried"] = total.Transient
	rep.Coverage["scenarios"] = perScenario
	rep.Coverage["exhaustive"] = exhaustive
	rep.Coverage["bound"] = "deviations (preemptions + delaying ticks) <= per-scenario bound; every execution runs to completion"
	rep.Coverage["samples"] = total.Samples
	rep.Coverage["explanation"] = "states = distinct schedule prefixes (nodes of the schedule tree) executed on the real lock code; every transition is a real afero.Fs call or a virtual-clock tick; traces_validated = executions re-run from their schedule with an identical trace"
	rep.Assume = []string{
		"scheduling points are the afero.Fs calls under the real VFS; code between two calls of a thread is thread-local (each contender has its own lock object and VFS)",
		"heart beats are never late (premise of the property): virtual time is not advanced while a heart-beat write is pending",
		"backend: PosixMem = afero.MemMapFs + ENOTEMPTY/ENOENT rules; raw MemMapFs scenarios are marked (mem)",
	}
	rep.Finish()
}

func countViol(s *gosim.Stats) int64 {
	var n int64
	for _, v := range s.Violations {
		n += v.Count
	}
	return n
}

func replay(t *testing.T, path string) {
	ce, err := gosim.LoadCounterexample(path)
	if err != nil {
		t.Fatal(err)
	}
	for _, sc := range scenarios() {
		if sc.Name != ce.Scenario {
			continue
		}
		r := gosim.RunOnce(t, &gosim.Options{Bound: 99, Horizon: 2 * time.Second, MaxSteps: 3000, AllowTick: allowTick}, body(sc), ce.Schedule, nil)
		for _, l := range r.Trace {
			fmt.Println(l)
		}
		if r.Viol != nil {
			fmt.Printf("VIOLATION property=C01 replay=%s signature=%s\n%s\n", path, r.Viol.Signature, r.Viol.Detail)
			ev.ExitCode = 1
		} else {
			fmt.Println("replay: no violation")
		}
		return
	}
	t.Fatalf("scenario %q not found (thorough-only scenarios need VERIF_TIER=thorough)", ce.Scenario)
}

// TestProfile is a development aid: single-process exploration of one scenario (go test -run TestProfile -cpuprofile).
func TestProfile(t *testing.T) {
	if os.Getenv("VERIF_PROFILE") == "" {
		t.Skip()
	}
	sc := toScenario(scenarios()[0])
	e := &gosim.Explorer{Opts: sc.Opts, Scenario: sc.Name, Body: sc.Body, Quota: 3000}
	start := time.Now()
	e.Explore(t)
	fmt.Printf("execs=%d transitions=%d in %v\n", e.Stats.Execs, e.Stats.Transitions, time.Since(start))
}

// TestDebugBackendDiff (development aid): finds a schedule whose trace differs between PosixMem and the OS backend.
func TestDebugBackendDiff(t *testing.T) {
	if os.Getenv("VERIF_DEBUG") == "" {
		t.Skip()
	}
	var a, b scenario
	for _, sc := range scenarios() {
		if sc.Name == os.Getenv("VERIF_DEBUG") {
			a = sc
		}
		if sc.Name == os.Getenv("VERIF_DEBUG")+"(os)" {
			b = sc
		}
	}
	ga, gb := toScenario(a), toScenario(b)
	stack := []gosim.Work{{}}
	n := 0
	for len(stack) > 0 && n < 40000 {
		w := stack[len(stack)-1]
		stack = stack[:len(stack)-1]
		ra := gosim.RunOnce(t, &ga.Opts, ga.Body, w.Prefix, nil)
		rb := gosim.RunOnce(t, &gb.Opts, gb.Body, w.Prefix, nil)
		n++
		same := len(ra.Trace) == len(rb.Trace)
		for i := 0; same && i < len(ra.Trace); i++ {
			same = ra.Trace[i] == rb.Trace[i]
		}
		if !same {
			fmt.Printf("schedule %v differs\n", w.Prefix)
			for i := 0; i < len(ra.Trace) || i < len(rb.Trace); i++ {
				x, y := "", ""
				if i < len(ra.Trace) {
					x = ra.Trace[i]
				}
				if i < len(rb.Trace) {
					y = rb.Trace[i]
				}
				m := "  "
				if x != y {
					m = "!="
				}
				fmt.Printf("%s %-70s | %s\n", m, x, y)
			}
			return
		}
		for i := len(w.Prefix); i < len(ra.Points); i++ {
			p := ra.Points[i]
			for alt := 1; alt < p.N; alt++ {
				cost := p.CostBefore
				if p.LastEnabled || (p.Tick && alt == p.N-1) {
					cost++
				}
				if cost > ga.Opts.Bound {
					continue
				}
				pre := append(append([]int{}, ra.Choices[:i]...), alt)
				stack = append(stack, gosim.Work{Prefix: pre})
			}
		}
	}
	fmt.Println("no difference in", n, "executions")
}

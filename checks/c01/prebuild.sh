#!/bin/bash
# Regenerates the instrumented copy of lockfile.go (from /repo's working tree): IsStale announces its calls, so that the
# monitor can tell how many staleness checks preceded a removal (signature refinement, no scheduling points added).
set -e
cd "$(dirname "$(readlink -f "$0")")/../.."
export GOFLAGS=-mod=mod GOPROXY=off GOTOOLCHAIN=local
mkdir -p .build/bin
go1.26 build -o .build/bin/instr-C01 ./engine/instr
VERIF_ROOT="$PWD" .build/bin/instr-C01 -id C01 -out "$PWD/.build/instr-C01" -events filesystem/lockfile.go:IsStale,Unlock

package c13

// Sequential families: logger objects that share something they must not corrupt for one another. Every call sequence
// up to the stated length is run on the real code (no scheduling involved: the calls are made one after the other).
//
//   shared-file : two file loggers opened on the same path, calls {L1.Log, L1.LogError, L2.Log, L2.LogError}, every
//                 sequence of length 1..4 — every message must be in the file exactly once, on a line of its own, intact;
//   shared-slice: two composite loggers built from one caller-owned slice that has spare capacity, one Append each
//                 (both orders), then one message through each (both orders) — every member gets exactly the messages of
//                 the composite(s) it belongs to.

import (
	"encoding/json"
	"fmt"
	"os"
	"path/filepath"
	"strings"

	"github.com/ARM-software/golang-utils/utils/logs"

	ev "verif/engine/evidence"
)

type seqCase struct {
	Scenario string   `json:"scenario"` // "sequence:shared-file" | "sequence:shared-slice" | "sequence:nested" | "sequence:unusual-messages"
	Calls    []string `json:"calls"`
	Variant  string   `json:"variant,omitempty"`
}

func sharedFileCalls() []string { return []string{"L1.Log", "L1.LogError", "L2.Log", "L2.LogError"} }

// runSharedFile returns "" or the description of what went wrong.
func runSharedFile(dir string, calls []string) (string, string) {
	path := filepath.Join(dir, "shared.log")
	_ = os.Remove(path)
	l1, err1 := logs.NewFileOnlyLogger(path, "component-1")
	l2, err2 := logs.NewFileOnlyLogger(path, "component-2")
	if err1 != nil || err2 != nil {
		return "engine", fmt.Sprintf("cannot create the file loggers: %v %v", err1, err2)
	}
	var sent []string
	for i, c := range calls {
		// messages of different lengths: an overwrite at a stale offset leaves a mangled line behind
		m := fmt.Sprintf("msg-%d-%s-%s", i, c, strings.Repeat("x", (i*7+len(c))%23))
		sent = append(sent, m)
		switch c {
		case "L1.Log":
			l1.Log(m)
		case "L1.LogError":
			l1.LogError(m)
		case "L2.Log":
			l2.Log(m)
		case "L2.LogError":
			l2.LogError(m)
		}
	}
	_ = l1.Close()
	_ = l2.Close()
	b, err := os.ReadFile(path)
	if err != nil {
		return "engine", fmt.Sprintf("cannot read the log file: %v", err)
	}
	found := map[string]int{}
	for _, line := range strings.Split(strings.TrimRight(string(b), "\n"), "\n") {
		if line == "" {
			continue
		}
		entry := map[string]any{}
		if err := json.Unmarshal([]byte(line), &entry); err != nil {
			return "line-mangled:logger=file:two-loggers-one-path", fmt.Sprintf("line %q is not what a logger wrote", line)
		}
		found[strings.TrimSpace(fmt.Sprint(entry["msg"]))]++
	}
	for _, m := range sent {
		switch {
		case found[m] == 0:
			return "message-lost:logger=file:two-loggers-one-path", fmt.Sprintf("%q is not in the file; file: %q", m, string(b))
		case found[m] > 1:
			return "message-duplicated:logger=file:two-loggers-one-path", fmt.Sprintf("%q is %d times in the file", m, found[m])
		}
	}
	return "", ""
}

type plainRec struct {
	name string
	msgs []string
}

func (r *plainRec) Close() error                 { return nil }
func (r *plainRec) Check() error                 { return nil }
func (r *plainRec) SetLogSource(string) error    { return nil }
func (r *plainRec) SetLoggerSource(string) error { return nil }
func (r *plainRec) Log(o ...interface{})         { r.msgs = append(r.msgs, fmt.Sprint(o...)) }
func (r *plainRec) LogError(o ...interface{})    { r.msgs = append(r.msgs, fmt.Sprint(o...)) }

// runSharedSlice: variant = constructor; calls = permutation of {c1.Append, c2.Append} then of {c1.Log, c2.Log}.
func runSharedSlice(variant string, calls []string) (string, string) {
	r0, rA, rB := &plainRec{name: "r0"}, &plainRec{name: "rA"}, &plainRec{name: "rB"}
	base := make([]logs.Loggers, 0, 4) // spare capacity: an append to a copy of this slice header writes into the shared array
	base = append(base, r0)
	mk := func() (logs.IMultipleLoggers, error) {
		if variant == "NewCombinedLoggers" {
			return logs.NewCombinedLoggers(base...)
		}
		return logs.NewMultipleLoggers("t", base...)
	}
	c1, err1 := mk()
	c2, err2 := mk()
	if err1 != nil || err2 != nil {
		return "engine", fmt.Sprintf("cannot build the composites: %v %v", err1, err2)
	}
	want := map[*plainRec][]string{}
	in1, in2 := []*plainRec{r0}, []*plainRec{r0}
	for _, c := range calls {
		switch c {
		case "c1.Append":
			_ = c1.Append(rA)
			in1 = append(in1, rA)
		case "c2.Append":
			_ = c2.Append(rB)
			in2 = append(in2, rB)
		case "c1.Log":
			c1.Log("via-c1")
			for _, r := range in1 {
				want[r] = append(want[r], "via-c1")
			}
		case "c2.LogError":
			c2.LogError("via-c2")
			for _, r := range in2 {
				want[r] = append(want[r], "via-c2")
			}
		}
	}
	for _, r := range []*plainRec{r0, rA, rB} {
		got := map[string]int{}
		for _, m := range r.msgs {
			got[strings.TrimSpace(m)]++
		}
		exp := map[string]int{}
		for _, m := range want[r] {
			exp[m]++
		}
		for m, n := range exp {
			if got[m] < n {
				return "member-missed-message:logger=composites-built-from-one-slice", fmt.Sprintf("member %s received %q %d time(s), expected %d (calls %v)", r.name, m, got[m], n, calls)
			}
		}
		for m, n := range got {
			if n > exp[m] {
				return "member-got-foreign-or-duplicate-message:logger=composites-built-from-one-slice", fmt.Sprintf("member %s received %q %d time(s), expected %d (calls %v)", r.name, m, n, exp[m], calls)
			}
		}
	}
	return "", ""
}

// runNested: a composite (outer) one of whose members is another composite (inner) — the library builds such nests itself
// (subprocess.Output: NewCombinedLoggers(caller's loggers, string logger)). calls over {inner.Append, outer.Append, outer.Log,
// inner.LogError}: a message through outer reaches r0, every member inner has AT THAT MOMENT, and what was appended to outer;
// a message through inner reaches inner's members only. variant = "<constructor of outer>/<constructor of inner>".
func runNested(variant string, calls []string) (string, string) {
	r0, r1 := &plainRec{name: "r0"}, &plainRec{name: "r1"}
	mk := func(kind string, members ...logs.Loggers) (logs.IMultipleLoggers, error) {
		if kind == "NewCombinedLoggers" {
			return logs.NewCombinedLoggers(members...)
		}
		return logs.NewMultipleLoggers("t", members...)
	}
	kinds := strings.SplitN(variant, "/", 2)
	inner, err := mk(kinds[1], r1)
	if err != nil {
		return "engine", err.Error()
	}
	outer, err := mk(kinds[0], r0, inner)
	if err != nil {
		return "engine", err.Error()
	}
	all := []*plainRec{r0, r1}
	inInner, inOuter := []*plainRec{r1}, []*plainRec{r0}
	want := map[*plainRec][]string{}
	for i, c := range calls {
		switch c {
		case "inner.Append":
			r := &plainRec{name: fmt.Sprintf("late-member-of-inner-%d", i)}
			_ = inner.Append(r)
			inInner, all = append(inInner, r), append(all, r)
		case "outer.Append":
			r := &plainRec{name: fmt.Sprintf("late-member-of-outer-%d", i)}
			_ = outer.Append(r)
			inOuter, all = append(inOuter, r), append(all, r)
		case "outer.Log":
			m := fmt.Sprintf("via-outer-%d", i)
			outer.Log(m)
			for _, r := range append(append([]*plainRec(nil), inOuter...), inInner...) {
				want[r] = append(want[r], m)
			}
		case "inner.LogError":
			m := fmt.Sprintf("via-inner-%d", i)
			inner.LogError(m)
			for _, r := range inInner {
				want[r] = append(want[r], m)
			}
		}
	}
	for _, r := range all {
		got := map[string]int{}
		for _, m := range r.msgs {
			got[strings.TrimSpace(m)]++
		}
		exp := map[string]int{}
		for _, m := range want[r] {
			exp[m]++
		}
		for m, n := range exp {
			if got[m] < n {
				return "member-missed-message:logger=composite-inside-a-composite", fmt.Sprintf("member %s received %q %d time(s), expected %d (calls %v)", r.name, m, got[m], n, calls)
			}
		}
		for m, n := range got {
			if n > exp[m] {
				return "member-got-foreign-or-duplicate-message:logger=composite-inside-a-composite", fmt.Sprintf("member %s received %q %d time(s), expected %d (calls %v)", r.name, m, n, exp[m], calls)
			}
		}
	}
	return "", ""
}

// runMultiArgument: a message made of SEVERAL arguments (the idiomatic LogError(err, "context"), err possibly nil) through a
// composite whose first member is one of the library's own loggers and whose second member records what it is handed:
// the recorder gets the arguments as the caller gave them, and the caller's own slice is unchanged afterwards.
// calls = one or two entries "<first member>|<stream>|<argument list index>".
var argumentLists = [][]interface{}{
	{nil, "disk", "full"}, {"disk", nil, "full"}, {"disk", "full", nil}, {nil, nil, "x"}, {fmt.Errorf("boom"), "while writing"}, {"only"}, {1, 2, "three"},
}

type argRec struct{ got [][]interface{} }

func (r *argRec) Close() error                 { return nil }
func (r *argRec) Check() error                 { return nil }
func (r *argRec) SetLogSource(string) error    { return nil }
func (r *argRec) SetLoggerSource(string) error { return nil }
func (r *argRec) Log(o ...interface{})         { r.got = append(r.got, append([]interface{}(nil), o...)) }
func (r *argRec) LogError(o ...interface{})    { r.got = append(r.got, append([]interface{}(nil), o...)) }

func runMultiArgument(variant string, calls []string) (string, string) {
	var first logs.Loggers
	var err error
	parts := strings.SplitN(variant, "/", 2)
	switch parts[0] {
	case "noop":
		first, err = logs.NewNoopLogger("t")
	case "string":
		first, err = logs.NewStringLogger("t")
	case "json":
		first, err = logs.NewJSONLogger(&countingSink{}, "t", "src")
	}
	if err != nil {
		return "engine", err.Error()
	}
	rec := &argRec{}
	var comp logs.IMultipleLoggers
	if parts[1] == "NewCombinedLoggers" {
		comp, err = logs.NewCombinedLoggers(first, rec)
	} else {
		comp, err = logs.NewMultipleLoggers("t", first, rec)
	}
	if err != nil {
		return "engine", err.Error()
	}
	for n, c := range calls {
		var stream string
		var idx int
		if _, e := fmt.Sscanf(c, "%s %d", &stream, &idx); e != nil {
			return "engine", "bad call " + c
		}
		original := argumentLists[idx%len(argumentLists)]
		mine := append(make([]interface{}, 0, len(original)+2), original...) // the caller's own slice
		if stream == "Log" {
			comp.Log(mine...)
		} else {
			comp.LogError(mine...)
		}
		if len(rec.got) != n+1 {
			return "member-missed-message:logger=composite:several-arguments", fmt.Sprintf("the recording member has %d messages after %d calls", len(rec.got), n+1)
		}
		if fmt.Sprint(rec.got[n]...) != fmt.Sprint(original...) || len(rec.got[n]) != len(original) {
			return "member-got-altered-message:logger=composite:several-arguments:first-member=" + parts[0], fmt.Sprintf("%s(%q) reached the second member as %q", stream, fmt.Sprint(original...), fmt.Sprint(rec.got[n]...))
		}
		if fmt.Sprint(mine...) != fmt.Sprint(original...) {
			return "callers-arguments-modified:logger=composite:several-arguments:first-member=" + parts[0], fmt.Sprintf("the caller's slice %q became %q", fmt.Sprint(original...), fmt.Sprint(mine...))
		}
	}
	return "", ""
}

// countingSink counts the writes it receives (one per record for the JSON logger).
type countingSink struct{ lines []string }

func (s *countingSink) Write(p []byte) (int, error) {
	s.lines = append(s.lines, string(p))
	return len(p), nil
}
func (s *countingSink) Close() error           { return nil }
func (s *countingSink) SetSource(string) error { return nil }

// unusualMessages: messages that are empty or made of white space only (and ordinary ones between them). The JSON logger
// documents one exception: a message that is exactly "\n" is ignored.
var unusualMessages = []string{"", " ", "\t", "\r\n", "\n\n", "x", " x ", "\n", "  \t "}

// runUnusualMessages: calls = indices into unusualMessages, logged alternately on the two streams of a JSON logger that is also
// a member of a composite next to a recording member: every message is a record of the JSON sink (but the lone "\n"), and both
// members are handed every message.
func runUnusualMessages(calls []string) (string, string) {
	sink := &countingSink{}
	jl, err := logs.NewJSONLogger(sink, "lsrc", "src")
	if err != nil {
		return "engine", err.Error()
	}
	rec := &plainRec{name: "rec"}
	multi, err := logs.NewMultipleLoggers("t", jl, rec)
	if err != nil {
		return "engine", err.Error()
	}
	want := 0
	for i, c := range calls {
		var m string
		if _, e := fmt.Sscanf(c, "%d", new(int)); e == nil {
			var k int
			fmt.Sscanf(c, "%d", &k)
			m = unusualMessages[k%len(unusualMessages)]
		}
		if m != "\n" {
			want++
		}
		if i%2 == 0 {
			multi.Log(m)
		} else {
			multi.LogError(m)
		}
	}
	if len(rec.msgs) != len(calls) {
		return "member-missed-message:logger=multiple:unusual-message", fmt.Sprintf("the recording member received %d of %d messages", len(rec.msgs), len(calls))
	}
	if len(sink.lines) != want {
		return "message-lost-or-duplicated:logger=json:unusual-message", fmt.Sprintf("%d messages logged (the lone line feed excepted), %d records in the sink: %q", want, len(sink.lines), sink.lines)
	}
	for _, l := range sink.lines {
		var r map[string]any
		if json.Unmarshal([]byte(l), &r) != nil {
			return "garbled-line:logger=json:unusual-message", fmt.Sprintf("not one JSON record: %q", l)
		}
	}
	return "", ""
}

func runSeqCase(dir string, c seqCase) (string, string) {
	switch c.Scenario {
	case "sequence:shared-file":
		return runSharedFile(dir, c.Calls)
	case "sequence:unusual-messages":
		return runUnusualMessages(c.Calls)
	case "sequence:nested":
		return runNested(c.Variant, c.Calls)
	case "sequence:several-arguments":
		return runMultiArgument(c.Variant, c.Calls)
	}
	return runSharedSlice(c.Variant, c.Calls)
}

// sequenceFamilies runs both families and reports; returns the number of sequences run.
func sequenceFamilies(rep *ev.Reporter) map[string]int {
	counts := map[string]int{}
	dir, err := os.MkdirTemp("/dev/shm", "verif-c13-seq-")
	if err != nil {
		dir, err = os.MkdirTemp("", "verif-c13-seq-")
	}
	if err != nil {
		rep.EngineError("sequence families: %v", err)
		return counts
	}
	defer os.RemoveAll(dir)
	seen := map[string]bool{}
	report := func(c seqCase) {
		sig, detail := runSeqCase(dir, c)
		switch {
		case sig == "":
		case sig == "engine":
			rep.EngineError("sequence family %s %v: %s", c.Scenario, c.Calls, detail)
		case !seen[sig]:
			seen[sig] = true // sequences are enumerated shortest first: the first one is the one to keep
			rep.Violation(sig, map[string]any{"scenario": c.Scenario, "calls": c.Calls, "variant": c.Variant, "detail": detail})
		}
	}
	alphabet := sharedFileCalls()
	maxLen := 4
	var rec func(prefix []string)
	var byLen [][]seqCase
	byLen = make([][]seqCase, maxLen+1)
	rec = func(prefix []string) {
		if len(prefix) > 0 {
			byLen[len(prefix)] = append(byLen[len(prefix)], seqCase{Scenario: "sequence:shared-file", Calls: append([]string(nil), prefix...)})
		}
		if len(prefix) == maxLen {
			return
		}
		for _, a := range alphabet {
			rec(append(prefix, a))
		}
	}
	rec(nil)
	for _, l := range byLen {
		for _, c := range l {
			report(c)
			counts["shared-file"]++
		}
	}
	for _, variant := range []string{"NewCombinedLoggers", "NewMultipleLoggers"} {
		for _, apps := range [][]string{{"c1.Append", "c2.Append"}, {"c2.Append", "c1.Append"}, {"c1.Append"}, {"c2.Append"}} {
			for _, msgs := range [][]string{{"c1.Log", "c2.LogError"}, {"c2.LogError", "c1.Log"}} {
				report(seqCase{Scenario: "sequence:shared-slice", Variant: variant, Calls: append(append([]string(nil), apps...), msgs...)})
				counts["shared-slice"]++
			}
		}
	}
	// a composite inside a composite: every sequence of 1..4 calls, the four constructor pairs
	for _, variant := range []string{"NewCombinedLoggers/NewCombinedLoggers", "NewCombinedLoggers/NewMultipleLoggers", "NewMultipleLoggers/NewCombinedLoggers", "NewMultipleLoggers/NewMultipleLoggers"} {
		nestedAlphabet := []string{"inner.Append", "outer.Append", "outer.Log", "inner.LogError"}
		var gen func(prefix []string)
		gen = func(prefix []string) {
			if len(prefix) > 0 {
				report(seqCase{Scenario: "sequence:nested", Variant: variant, Calls: append([]string(nil), prefix...)})
				counts["nested"]++
			}
			if len(prefix) == 4 {
				return
			}
			for _, a := range nestedAlphabet {
				gen(append(prefix, a))
			}
		}
		gen(nil)
	}
	// messages of several arguments, nil among them, through a composite whose first member is a logger of the library
	for _, first := range []string{"noop", "string", "json"} {
		for _, ctor := range []string{"NewCombinedLoggers", "NewMultipleLoggers"} {
			for _, stream := range []string{"Log", "LogError"} {
				for i := range argumentLists {
					report(seqCase{Scenario: "sequence:several-arguments", Variant: first + "/" + ctor, Calls: []string{fmt.Sprintf("%s %d", stream, i)}})
					counts["several-arguments"]++
					for j := range argumentLists {
						report(seqCase{Scenario: "sequence:several-arguments", Variant: first + "/" + ctor, Calls: []string{fmt.Sprintf("%s %d", stream, i), fmt.Sprintf("LogError %d", j)}})
						counts["several-arguments"]++
					}
				}
			}
		}
	}
	// every message of the list alone, and every ordered pair
	for i := range unusualMessages {
		report(seqCase{Scenario: "sequence:unusual-messages", Calls: []string{fmt.Sprint(i)}})
		counts["unusual-messages"]++
		for j := range unusualMessages {
			report(seqCase{Scenario: "sequence:unusual-messages", Calls: []string{fmt.Sprint(i), fmt.Sprint(j)}})
			counts["unusual-messages"]++
		}
	}
	return counts
}

#!/bin/bash
# Regenerates the instrumented copies of the logs package files (from /repo's working tree) and builds the -race companion.
set -e
cd "$(dirname "$(readlink -f "$0")")/../.."
export GOFLAGS=-mod=mod GOPROXY=off GOTOOLCHAIN=local
mkdir -p .build/bin
go1.26 build -o .build/bin/instr-C13 ./engine/instr
VERIF_ROOT="$PWD" .build/bin/instr-C13 -id C13 -out "$PWD/.build/instr-C13" \
  -swapsync logs/string_logger.go -builder logs/string_logger.go \
  -swapsync logs/log.go -swapsync logs/multiple_logger.go -swapsync logs/writer.go -swapsync logs/json_logger.go \
  -stdstreams logs/std_logger.go
# the free-running race-detector companion is built WITHOUT the instrumentation (and with a candidate
# development overlay if one is given): the detector must see the code's own synchronisation
extra=()
if [ -n "${VERIF_OVERLAY:-}" ]; then extra=(-overlay "$VERIF_OVERLAY"); fi
CGO_ENABLED=1 go1.26 test -c -race -vet=off "${extra[@]}" -o .build/bin/C13race.test ./checks/c13/race 2>&1 | sed 's/^/[build-race] /' >&2 || { echo "[build-race] race companion not built" >&2; rm -f .build/bin/C13race.test; }

// C13 — loggers are goroutine-safe and lose nothing.
//
// Exhaustive part: every interleaving (within the deviation bound) of 2–3 producers mixing Log, LogError,
// SetLogSource and Append on the loggers whose serialisation is the repository's OWN code, explored through
// instrumented copies of the logs package generated from /repo's working tree: the package's sync.RWMutex
// fields become explorer-visible locks (a scheduling point at every Lock/RLock), the string logger's
// strings.Builder becomes a buffer whose append is two steps (load, store) with a scheduling point in between
// — which is what an unsynchronised append is for two goroutines —, and every Write of a recording sink is a
// scheduling point. The asynchronous (ring-buffered) logger's poller runs in virtual time.
// Companion (not the deciding step): the same kind of producers, free-running, 32 of them, every constructor of
// the package including the third-party adapters, under the race detector.
package c13

import (
	"bytes"
	"encoding/json"
	"fmt"
	"os"
	"os/exec"
	"path/filepath"
	"regexp"
	"sort"
	"strings"
	"testing"
	"time"

	"github.com/ARM-software/golang-utils/utils/logs"
	"github.com/ARM-software/golang-utils/utils/verifrt"
	vsync "github.com/ARM-software/golang-utils/utils/verifrt/vsync"
	deadlock "github.com/sasha-s/go-deadlock"

	ev "verif/engine/evidence"
	"verif/engine/gosim"
)

func TestMain(m *testing.M) {
	deadlock.Opts.Disable = true
	ev.Main(m)
}

// ---- recording sinks ----------------------------------------------------------------------------------

// sinkWriter is a WriterWithSource: one Write = one complete line, a scheduling point.
type sinkWriter struct {
	x     *gosim.Exec
	name  string
	lines []string
	// refuseEmptySource: SetSource("") fails (a sink that validates its source, as the logr-based loggers do)
	refuseEmptySource bool
}

func (s *sinkWriter) Write(p []byte) (int, error) {
	s.x.Gate(0, "sink "+s.name+".Write")
	s.lines = append(s.lines, string(p))
	return len(p), nil
}
func (s *sinkWriter) Close() error { return nil }
func (s *sinkWriter) SetSource(src string) error {
	if s.refuseEmptySource && src == "" {
		return fmt.Errorf("missing source")
	}
	return nil
}

// failingWriter is a member that cannot take the message: it reports an error, or a short write without error.
type failingWriter struct {
	x    *gosim.Exec
	mode string // error | short
}

func (f *failingWriter) Write(p []byte) (int, error) {
	f.x.Gate(0, "sink failing.Write")
	if f.mode == "error" {
		return 0, fmt.Errorf("member out of order")
	}
	return len(p) / 2, nil
}
func (f *failingWriter) Close() error           { return nil }
func (f *failingWriter) SetSource(string) error { return nil }

// recLogger is a member logger of a composite: each Log / LogError is a scheduling point.
type recLogger struct {
	x    *gosim.Exec
	name string
	msgs []string
}

func (r *recLogger) Close() error { return nil }
func (r *recLogger) Check() error { return nil }
func (r *recLogger) SetLogSource(string) error {
	r.x.Gate(0, "member "+r.name+".SetLogSource")
	return nil
}
func (r *recLogger) SetLoggerSource(string) error { return nil }
func (r *recLogger) Log(o ...interface{}) {
	r.x.Gate(0, "member "+r.name+".Log")
	r.msgs = append(r.msgs, "O:"+fmt.Sprint(o...))
}
func (r *recLogger) LogError(o ...interface{}) {
	r.x.Gate(0, "member "+r.name+".LogError")
	r.msgs = append(r.msgs, "E:"+fmt.Sprint(o...))
}

// ---- scenarios ----------------------------------------------------------------------------------------

type scenario struct {
	Name          string
	Family        string // string | multiple | writers | json | async | async-std
	Plain         bool
	Calls         int // calls per producer
	Prod          int // producers
	Ring          int
	Member        int // initial members of a composite
	Combined      bool
	SameStream    bool
	Appenders     int    // concurrent Append calls (default 1)
	RefusedSource bool   // async: a producer calls SetLogSource("") between its messages and the sinks refuse an empty source
	FirstFails    string // writers: a member placed before the others fails every write ("error") or writes short ("short")
	Bound         int
}

type world struct {
	x       *gosim.Exec
	outcome string
}

func wire(x *gosim.Exec) {
	verifrt.GateHook = func(label string) { x.Gate(0, label) }
	verifrt.PrefHook = func(n int, label string) int { return x.GateChoose(0, label, n) }
}

func multisetEq(a, b []string) bool {
	if len(a) != len(b) {
		return false
	}
	a, b = append([]string(nil), a...), append([]string(nil), b...)
	sort.Strings(a)
	sort.Strings(b)
	for i := range a {
		if a[i] != b[i] {
			return false
		}
	}
	return true
}

var tokenRe = regexp.MustCompile(`msg-p\d+-\d+`)

func body(sc scenario) func(x *gosim.Exec) {
	return func(x *gosim.Exec) {
		wire(x)
		w := &world{x: x}
		x.User = w
		switch sc.Family {
		case "string":
			bodyString(x, w, sc)
		case "multiple":
			bodyMultiple(x, w, sc)
		case "writers":
			bodyWriters(x, w, sc)
		case "json":
			bodyJSON(x, w, sc)
		case "async":
			bodyAsync(x, w, sc)
		case "async-std":
			bodyAsyncStd(x, w, sc)
		}
	}
}

// classify compares what a sink holds with what was sent and names the failure.
func classify(x *gosim.Exec, where string, lines []string, sent []string) {
	var got []string
	for _, l := range lines {
		toks := tokenRe.FindAllString(l, -1)
		switch {
		case len(toks) == 0:
			if strings.TrimSpace(l) != "" {
				x.Violate("garbled-line:"+where, "a line holds no complete message: %q", l)
				return
			}
		case len(toks) > 1:
			x.Violate("interleaved-within-a-line:"+where, "a line holds %d messages: %q", len(toks), l)
			return
		default:
			got = append(got, toks[0])
		}
	}
	if multisetEq(got, sent) {
		return
	}
	seen := map[string]int{}
	for _, g := range got {
		seen[g]++
	}
	for _, s := range sent {
		if seen[s] == 0 {
			x.Violate("message-lost:"+where, "message %s was logged and never reached the sink (sink has %v)", s, got)
			return
		}
	}
	for g, n := range seen {
		if n > 1 {
			x.Violate("message-duplicated:"+where, "message %s reached the sink %d times", g, n)
			return
		}
	}
	x.Violate("unexpected-message:"+where, "sink holds %v, sent %v", got, sent)
}

// string / plain-string logger: two log.Logger streams over the repository's StringWriter.
func bodyString(x *gosim.Exec, w *world, sc scenario) {
	var l *logs.StringLoggers
	var err error
	if sc.Plain {
		l, err = logs.NewPlainStringLogger()
	} else {
		l, err = logs.NewStringLogger("src")
	}
	if err != nil {
		x.Violate("setup", "%v", err)
		return
	}
	var sent []string
	// each log.Logger serialises its own callers with an internal (uninstrumented) mutex: producers sharing one
	// stream are serialised by a shim mutex that mirrors it (the foreign lock is modelled, not assumed away)
	streamLock := [2]*vsync.Mutex{{}, {}}
	for p := 0; p < sc.Prod; p++ {
		p := p
		stream := p % 2
		if sc.SameStream {
			stream = 0
		}
		for c := 0; c < sc.Calls; c++ {
			sent = append(sent, fmt.Sprintf("msg-p%d-%d", p, c))
		}
		x.Go(fmt.Sprintf("p%d", p), 0, func() {
			for c := 0; c < sc.Calls; c++ {
				m := fmt.Sprintf("msg-p%d-%d", p, c)
				streamLock[stream].Lock()
				if stream == 0 {
					l.Log(m)
				} else {
					l.LogError(m)
				}
				streamLock[stream].Unlock()
			}
		})
	}
	x.AtEnd = func(x *gosim.Exec) {
		content := l.GetLogContent()
		classify(x, "logger=string", strings.Split(strings.TrimRight(content, "\n"), "\n"), sent)
		w.outcome = fmt.Sprintf("lines=%d", strings.Count(content, "\n"))
	}
}

func bodyMultiple(x *gosim.Exec, w *world, sc scenario) {
	var members []*recLogger
	var ls []logs.Loggers
	for i := 0; i < sc.Member; i++ {
		m := &recLogger{x: x, name: fmt.Sprintf("m%d", i)}
		members = append(members, m)
		ls = append(ls, m)
	}
	var ml logs.IMultipleLoggers
	var err error
	if sc.Combined {
		ml, err = logs.NewCombinedLoggers(ls...)
	} else {
		ml, err = logs.NewMultipleLoggers("src", ls...)
	}
	if err != nil {
		x.Violate("setup", "%v", err)
		return
	}
	late := &recLogger{x: x, name: "late"}
	lateAppended := false
	type sentMsg struct {
		m        string
		lateMust bool // the late member's Append had returned when this call began
	}
	var sent []sentMsg
	logger := func(p int, calls int) {
		x.Go(fmt.Sprintf("p%d", p), 0, func() {
			for c := 0; c < calls; c++ {
				m := fmt.Sprintf("msg-p%d-%d", p, c)
				x.Gate(0, fmt.Sprintf("p%d: call %d begins", p, c))
				sm := sentMsg{lateMust: lateAppended}
				if (p+c)%2 == 0 {
					sm.m = "O:" + m
					sent = append(sent, sm)
					ml.Log(m)
				} else {
					sm.m = "E:" + m
					sent = append(sent, sm)
					ml.LogError(m)
				}
			}
		})
	}
	for p := 0; p < sc.Prod-1; p++ {
		logger(p, sc.Calls)
	}
	// the last producer appends a member, changes the source, and logs too
	x.Go("appender", 0, func() {
		if err := ml.Append(late); err != nil {
			x.Violate("append-failed:logger=multiple", "%v", err)
			return
		}
		x.Gate(0, "Append(late) returned")
		lateAppended = true
		_ = ml.SetLogSource("other")
		m := "msg-p9-0"
		x.Gate(0, "appender: call begins")
		sent = append(sent, sentMsg{m: "O:" + m, lateMust: true})
		ml.Log(m)
	})
	// a second, concurrent Append: both members must be there afterwards
	late2 := &recLogger{x: x, name: "late2"}
	late2Appended := false
	if sc.Appenders > 1 {
		x.Go("appender2", 0, func() {
			if err := ml.Append(late2); err != nil {
				x.Violate("append-failed:logger=multiple", "%v", err)
				return
			}
			x.Gate(0, "Append(late2) returned")
			late2Appended = true
		})
	}
	x.AtEnd = func(x *gosim.Exec) {
		if sc.Appenders > 1 && lateAppended && late2Appended {
			// both Append calls returned nil: a message logged now must reach both new members
			before1, before2 := len(late.msgs), len(late2.msgs)
			ml.Log("msg-final")
			if len(late.msgs) != before1+1 || len(late2.msgs) != before2+1 {
				x.Violate("member-lost-by-concurrent-append:logger=multiple", "after two overlapping Append calls returned, a message reached late:%v late2:%v", len(late.msgs) == before1+1, len(late2.msgs) == before2+1)
				return
			}
			late.msgs = late.msgs[:before1]
		}
		var all []string
		for _, s := range sent {
			all = append(all, s.m)
		}
		for _, mem := range members {
			if sc.Appenders > 1 {
				// the final probe message reached the initial members too
				if n := len(mem.msgs); n > 0 && mem.msgs[n-1] == "O:msg-final" {
					mem.msgs = mem.msgs[:n-1]
				}
			}
			if !multisetEq(mem.msgs, all) {
				x.Violate("member-missed-or-duplicated-message:logger=multiple", "member %s received %v, sent %v", mem.name, mem.msgs, all)
				return
			}
		}
		got := map[string]int{}
		for _, m := range late.msgs {
			got[m]++
		}
		for _, s := range sent {
			if s.lateMust && got[s.m] != 1 {
				x.Violate("appended-member-missed-message:logger=multiple", "the member appended before the call began received %q %d times", s.m, got[s.m])
				return
			}
			if got[s.m] > 1 {
				x.Violate("member-missed-or-duplicated-message:logger=multiple", "late member received %q %d times", s.m, got[s.m])
				return
			}
		}
		w.outcome = fmt.Sprintf("late=%d", len(late.msgs))
	}
}

func bodyWriters(x *gosim.Exec, w *world, sc scenario) {
	a, b := &sinkWriter{x: x, name: "a"}, &sinkWriter{x: x, name: "b"}
	members := []logs.WriterWithSource{a}
	if sc.FirstFails != "" {
		members = []logs.WriterWithSource{&failingWriter{x: x, mode: sc.FirstFails}, a}
	}
	mw, err := logs.NewMultipleWritersWithSource(members...)
	if err != nil {
		x.Violate("setup", "%v", err)
		return
	}
	added := false
	var sentAll, sentAfter []string
	for p := 0; p < sc.Prod-1; p++ {
		p := p
		x.Go(fmt.Sprintf("p%d", p), 0, func() {
			for c := 0; c < sc.Calls; c++ {
				m := fmt.Sprintf("msg-p%d-%d\n", p, c)
				x.Gate(0, fmt.Sprintf("p%d: write %d begins", p, c))
				sentAll = append(sentAll, m)
				if added {
					sentAfter = append(sentAfter, m)
				}
				_, _ = mw.Write([]byte(m))
			}
		})
	}
	x.Go("adder", 0, func() {
		_ = mw.AddWriters(b)
		x.Gate(0, "AddWriters returned")
		added = true
		_ = mw.SetSource("s")
	})
	x.AtEnd = func(x *gosim.Exec) {
		if !multisetEq(a.lines, sentAll) {
			x.Violate("writer-missed-or-duplicated:logger=multiple-writers", "first writer received %q, sent %q", a.lines, sentAll)
			return
		}
		got := map[string]int{}
		for _, l := range b.lines {
			got[l]++
		}
		for _, s := range sentAfter {
			if got[s] != 1 {
				x.Violate("added-writer-missed:logger=multiple-writers", "writer added before the write began received %q %d times", s, got[s])
				return
			}
		}
		w.outcome = fmt.Sprintf("b=%d", len(b.lines))
	}
}

func bodyJSON(x *gosim.Exec, w *world, sc scenario) {
	sink := &sinkWriter{x: x, name: "json"}
	l, err := logs.NewJSONLogger(sink, "lsrc", "src")
	if err != nil {
		x.Violate("setup", "%v", err)
		return
	}
	var sent []string
	for p := 0; p < sc.Prod; p++ {
		p := p
		for c := 0; c < sc.Calls; c++ {
			sent = append(sent, fmt.Sprintf("msg-p%d-%d", p, c))
		}
		x.Go(fmt.Sprintf("p%d", p), 0, func() {
			for c := 0; c < sc.Calls; c++ {
				m := fmt.Sprintf("msg-p%d-%d", p, c)
				switch (p + c) % 3 {
				case 0:
					l.Log(m)
				case 1:
					l.LogError(m)
				default:
					_ = l.SetLoggerSource(fmt.Sprintf("ls%d", p))
					l.Log(m)
				}
			}
		})
	}
	x.AtEnd = func(x *gosim.Exec) {
		var msgs []string
		for _, line := range sink.lines {
			var rec map[string]any
			if err := json.Unmarshal([]byte(line), &rec); err != nil {
				x.Violate("garbled-line:logger=json", "not one JSON record: %q", line)
				return
			}
			msgs = append(msgs, fmt.Sprint(rec["message"]))
		}
		classify(x, "logger=json", msgs, sent)
		w.outcome = fmt.Sprintf("lines=%d", len(sink.lines))
	}
}

// asynchronous logger to the standard streams (NewAsynchronousStdLogger): std_logger.go is rewritten by rule R7 of the
// instrumenter, so every piece written to os.Stdout / os.Stderr is a scheduling point and lands here. Producers log while
// another thread announces a new log source (which the std writer prints on its own line, bypassing the ring): the stream,
// cut at line ends, consists of source announcements and of lines holding exactly one message.
var sourceLineRe = regexp.MustCompile(`^Source: [^\s]*$`)

func bodyAsyncStd(x *gosim.Exec, w *world, sc scenario) {
	var stdout []byte
	verifrt.StdSink = func(stream string, piece []byte) {
		if stream == "stdout" {
			stdout = append(stdout, piece...)
		}
	}
	x.Cleanup(func() { verifrt.StdSink = nil })
	l, err := logs.NewAsynchronousStdLogger("lsrc", sc.Ring, time.Millisecond, "src")
	if err != nil {
		x.Violate("setup", "%v", err)
		return
	}
	x.Cleanup(func() { _ = l.Close() })
	done := make(chan struct{}, sc.Prod+1)
	for p := 0; p < sc.Prod; p++ {
		p := p
		x.Go(fmt.Sprintf("p%d", p), 0, func() {
			defer func() { done <- struct{}{} }()
			for c := 0; c < sc.Calls; c++ {
				x.Gate(0, fmt.Sprintf("p%d: Log %d", p, c))
				l.Log(fmt.Sprintf("msg-p%d-%d", p, c))
			}
		})
	}
	x.Go("announcer", 0, func() {
		defer func() { done <- struct{}{} }()
		for c := 0; c < sc.Calls; c++ {
			time.Sleep(time.Millisecond) // the poller is draining by now
			x.Gate(0, fmt.Sprintf("announcer: SetLogSource %d", c))
			_ = l.SetLogSource(fmt.Sprintf("job-%d", c))
		}
	})
	x.Go("closer", 0, func() {
		for i := 0; i < sc.Prod+1; i++ {
			<-done
		}
		time.Sleep(20 * time.Millisecond)
		_ = l.Close()
		lines, announcements, messages := strings.Split(strings.TrimRight(string(stdout), "\n"), "\n"), 0, 0
		for _, line := range lines {
			line = strings.TrimRight(line, "\r")
			toks := tokenRe.FindAllString(line, -1)
			switch {
			case line == "":
			case sourceLineRe.MatchString(line):
				announcements++
			case len(toks) == 1 && !strings.Contains(line, "Source: "):
				messages++
			default:
				x.Violate("interleaved-within-a-line:logger=async-std", "a line of the standard output is neither one source announcement nor one message: %q (whole output %q)", line, string(stdout))
				return
			}
		}
		w.outcome = fmt.Sprintf("announcements=%d messages=%d", announcements, messages)
	})
}

var droppedRe = regexp.MustCompile(`Logger dropped (\d+) messages`)

func bodyAsync(x *gosim.Exec, w *world, sc scenario) {
	out, errS := &sinkWriter{x: x, name: "out", refuseEmptySource: sc.RefusedSource}, &sinkWriter{x: x, name: "err", refuseEmptySource: sc.RefusedSource}
	dropped := &recLogger{x: x, name: "dropped"}
	l, err := logs.NewAsynchronousLoggers(out, errS, sc.Ring, time.Millisecond, "lsrc", "src", dropped)
	if err != nil {
		x.Violate("setup", "%v", err)
		return
	}
	x.Cleanup(func() { _ = l.Close() }) // the ring's poller must end whatever the verdict, or the bubble never empties
	var sent []string
	done := make(chan struct{}, sc.Prod)
	for p := 0; p < sc.Prod; p++ {
		p := p
		for c := 0; c < sc.Calls; c++ {
			sent = append(sent, fmt.Sprintf("msg-p%d-%d", p, c))
		}
		x.Go(fmt.Sprintf("p%d", p), 0, func() {
			defer func() { done <- struct{}{} }()
			for c := 0; c < sc.Calls; c++ {
				x.Gate(0, fmt.Sprintf("p%d: Log %d", p, c))
				if sc.RefusedSource && p == 0 {
					_ = l.SetLogSource("") // refused by the sinks: an error for this caller, nothing else
				}
				l.Log(fmt.Sprintf("msg-p%d-%d", p, c))
			}
		})
	}
	x.Go("closer", 0, func() {
		for i := 0; i < sc.Prod; i++ {
			<-done
		}
		time.Sleep(20 * time.Millisecond) // lets the poller drain the ring (virtual time)
		_ = l.Close()
		var delivered []string
		for _, line := range out.lines {
			toks := tokenRe.FindAllString(line, -1)
			if len(toks) != 1 {
				x.Violate("garbled-line:logger=async", "%q", line)
				return
			}
			delivered = append(delivered, toks[0])
		}
		seen := map[string]int{}
		for _, d := range delivered {
			seen[d]++
			if seen[d] > 1 {
				x.Violate("message-duplicated:logger=async", "%s delivered %d times", d, seen[d])
				return
			}
		}
		nd := 0
		for _, m := range dropped.msgs {
			if mm := droppedRe.FindStringSubmatch(m); mm != nil {
				n := 0
				fmt.Sscan(mm[1], &n)
				nd += n
			}
		}
		w.outcome = fmt.Sprintf("delivered=%d dropped=%d", len(delivered), nd)
		if len(delivered)+nd != len(sent) {
			x.Violate(fmt.Sprintf("dropped-without-report:logger=async:ring=%d", sc.Ring), "sent %d, delivered %d, reported dropped %d", len(sent), len(delivered), nd)
		}
	})
}

func scenarios() []scenario {
	var out []scenario
	add := func(sc scenario) { out = append(out, sc) }
	add(scenario{Name: "string/plain/2 producers x 1 (one per stream)", Family: "string", Plain: true, Prod: 2, Calls: 1, Bound: 3})
	add(scenario{Name: "string/plain/2 producers x 2 (one per stream)", Family: "string", Plain: true, Prod: 2, Calls: 2, Bound: 2})
	add(scenario{Name: "string/prefixed/2 producers x 1 (one per stream)", Family: "string", Prod: 2, Calls: 1, Bound: 3})
	add(scenario{Name: "string/plain/2 producers x 2 (same stream)", Family: "string", Plain: true, Prod: 2, Calls: 2, SameStream: true, Bound: 2})
	add(scenario{Name: "multiple/1 member/2 producers + appender", Family: "multiple", Member: 1, Prod: 3, Calls: 1, Bound: 2})
	add(scenario{Name: "multiple/2 members/1 producer x 2 + appender", Family: "multiple", Member: 2, Prod: 2, Calls: 2, Bound: 2})
	add(scenario{Name: "combined/2 members/2 producers + appender", Family: "multiple", Combined: true, Member: 2, Prod: 3, Calls: 1, Bound: 2})
	add(scenario{Name: "multiple/1 member/1 producer + 2 concurrent appenders", Family: "multiple", Member: 1, Prod: 2, Calls: 1, Appenders: 2, Bound: 2})
	add(scenario{Name: "combined/1 member/1 producer + 2 concurrent appenders", Family: "multiple", Combined: true, Member: 1, Prod: 2, Calls: 1, Appenders: 2, Bound: 2})
	add(scenario{Name: "writers/2 producers x 1 + adder", Family: "writers", Prod: 3, Calls: 1, Bound: 3})
	add(scenario{Name: "writers/failing member first/2 producers x 1 + adder", Family: "writers", Prod: 3, Calls: 1, Bound: 2, FirstFails: "error"})
	add(scenario{Name: "writers/short-writing member first/2 producers x 1 + adder", Family: "writers", Prod: 3, Calls: 1, Bound: 2, FirstFails: "short"})
	add(scenario{Name: "json/2 producers x 2", Family: "json", Prod: 2, Calls: 2, Bound: 3})
	for _, ring := range []int{1, 2, 4} {
		add(scenario{Name: fmt.Sprintf("async/ring=%d/2 producers x 2", ring), Family: "async", Ring: ring, Prod: 2, Calls: 2, Bound: 2})
	}
	add(scenario{Name: "async-std/ring=4/2 producers x 2 + a source announcer", Family: "async-std", Ring: 4, Prod: 2, Calls: 2, Bound: 2})
	add(scenario{Name: "async/ring=4/2 producers x 2, the sinks refuse an empty source", Family: "async", Ring: 4, Prod: 2, Calls: 2, Bound: 1, RefusedSource: true})
	if ev.Thorough() {
		add(scenario{Name: "string/plain/3 producers x 1", Family: "string", Plain: true, Prod: 3, Calls: 1, Bound: 3})
		add(scenario{Name: "string/prefixed/2 producers x 2 (one per stream)", Family: "string", Prod: 2, Calls: 2, Bound: 3})
		add(scenario{Name: "multiple/3 members/2 producers x 2 + appender", Family: "multiple", Member: 3, Prod: 3, Calls: 2, Bound: 2})
		add(scenario{Name: "writers/2 producers x 2 + adder", Family: "writers", Prod: 3, Calls: 2, Bound: 3})
		add(scenario{Name: "json/3 producers x 2", Family: "json", Prod: 3, Calls: 2, Bound: 3})
		for _, ring := range []int{1, 2, 4} {
			add(scenario{Name: fmt.Sprintf("async/ring=%d/3 producers x 2", ring), Family: "async", Ring: ring, Prod: 3, Calls: 2, Bound: 3})
		}
	}
	if f := os.Getenv("VERIF_SCENARIO"); f != "" {
		var sel []scenario
		for _, sc := range out {
			if strings.Contains(sc.Name, f) {
				sel = append(sel, sc)
			}
		}
		return sel
	}
	return out
}

func toScenario(sc scenario) gosim.Scenario {
	return gosim.Scenario{
		Name: sc.Name,
		Opts: gosim.Options{Bound: sc.Bound, Horizon: time.Second, MaxSteps: 5000},
		Body: body(sc),
		Outcome: func(r *gosim.Result) string {
			if w, ok := r.User.(*world); ok {
				return r.Verdict + ":" + w.outcome
			}
			return r.Verdict
		},
	}
}

// raceCompanion runs the -race binary built by prebuild.sh and returns (constructors exercised, race reports).
func raceCompanion() (int, int, string, error) {
	bin := filepath.Join(ev.Root(), ".build", "bin", "C13race.test")
	if _, err := os.Stat(bin); err != nil {
		return 0, 0, "", fmt.Errorf("race companion binary missing (%v)", err)
	}
	cmd := exec.Command(bin, "-test.run=^TestRace$", "-test.count=1", "-test.timeout=10m")
	cmd.Env = append(os.Environ(), "GORACE=halt_on_error=0")
	var buf bytes.Buffer
	cmd.Stdout, cmd.Stderr = &buf, &buf
	_ = cmd.Run()
	s := buf.String()
	n := 0
	if m := regexp.MustCompile(`CONSTRUCTORS (\d+)`).FindStringSubmatch(s); m != nil {
		fmt.Sscan(m[1], &n)
	}
	races := strings.Count(s, "WARNING: DATA RACE")
	first := ""
	if i := strings.Index(s, "WARNING: DATA RACE"); i >= 0 {
		first = s[i:]
		if len(first) > 2500 {
			first = first[:2500]
		}
	}
	if n == 0 && races == 0 {
		return 0, 0, "", fmt.Errorf("race companion did not run to the end: %s", tailStr(s, 600))
	}
	return n, races, first, nil
}

func tailStr(s string, n int) string {
	if len(s) > n {
		return s[len(s)-n:]
	}
	return s
}

func TestC13(t *testing.T) {
	if p := os.Getenv("VERIF_REPLAY"); p != "" {
		replay(t, p)
		return
	}
	scs := scenarios()
	var gs []gosim.Scenario
	for _, sc := range scs {
		gs = append(gs, toScenario(sc))
	}
	if gosim.IsPoolWorker() {
		gosim.ServePool(t, gs)
		return
	}
	budget := 4 * time.Minute
	if ev.Thorough() {
		budget = 20 * time.Minute
	}
	rep := ev.NewReporter("C13", "model_checking")
	type raceRes struct {
		n, races int
		first    string
		err      error
	}
	rc := make(chan raceRes, 1)
	go func() {
		n, r, f, err := raceCompanion()
		rc <- raceRes{n, r, f, err}
	}()
	stats := gosim.ExplorePool(t, gs, ev.Workers(), time.Now().Add(budget))
	total := gosim.NewStats()
	perScenario := map[string]any{}
	exhaustive := true
	for _, sc := range scs {
		s := stats[sc.Name]
		if s.Capped {
			exhaustive = false
		}
		var nv int64
		for _, v := range s.Violations {
			nv += v.Count
		}
		perScenario[sc.Name] = map[string]any{"executions": s.Execs, "transitions": s.Transitions, "bound": sc.Bound, "capped": s.Capped, "outcomes": s.Outcomes, "violating_executions": nv}
		total.Merge(s)
		for sig, ce := range s.Violations {
			rep.ViolationN(sig, ce, ce.Count)
		}
		for _, d := range s.Diverged {
			rep.EngineError("%s", d)
		}
		fmt.Fprintf(os.Stderr, "[C13] %-55s executions=%d violations=%d capped=%v\n", sc.Name, s.Execs, nv, s.Capped)
	}
	seqCounts := sequenceFamilies(rep)
	rr := <-rc
	if rr.err != nil {
		rep.EngineError("race companion: %v", rr.err)
	} else if rr.races > 0 {
		rep.ViolationN("data-race:free-running-companion", map[string]any{"reports": rr.races, "first_report": rr.first, "how": "32 producers x 20 calls on every constructor, go test -race, uninstrumented"}, int64(rr.races))
	}
	rep.Coverage["states"] = total.Nodes
	rep.Coverage["transitions"] = total.Transitions
	rep.Coverage["traces_validated_against_impl"] = total.Validated
	rep.Coverage["executions"] = total.Execs
	rep.Coverage["distinct_outcomes"] = len(total.Outcomes)
	rep.Coverage["scenarios"] = perScenario
	rep.Coverage["race_companion"] = map[string]any{"constructors_exercised": rr.n, "race_reports": rr.races, "meaning": "free-running -race pass; a report is a violation, silence is 'no race observed', not coverage"}
	rep.Coverage["sequential_families"] = map[string]any{"sequences_run": seqCounts, "bound": "shared-file: every sequence of 1..4 calls over {L1.Log, L1.LogError, L2.Log, L2.LogError}, two file loggers on one path; shared-slice: two composites from one slice with spare capacity, Append in both orders or on one side only, one message through each in both orders, both constructors"}
	rep.Coverage["exhaustive"] = exhaustive
	rep.Coverage["samples"] = total.Samples
	rep.Coverage["explanation"] = "states = distinct schedule prefixes of the instrumented logs package (explorer-visible locks, two-step buffer append, one scheduling point per sink write, virtual-time poller) within the deviation bound"
	rep.Assume = []string{
		"scheduling points: the package's own locks, the string buffer's append, sink writes, harness call boundaries; plain memory accesses in between are covered by the -race companion only",
		"third-party internals (log.Logger's mutex, zerolog, the diode ring, zap/logrus/hclog/slog) are atomic per call; two producers sharing one log.Logger stream are serialised by a shim lock mirroring log.Logger's own",
		"lock waiters are served first-in first-out",
	}
	rep.Finish()
}

func replay(t *testing.T, path string) {
	if b, err := os.ReadFile(path); err == nil {
		var f struct {
			Replay seqCase `json:"replay"`
		}
		if json.Unmarshal(b, &f) == nil && strings.HasPrefix(f.Replay.Scenario, "sequence:") {
			dir, _ := os.MkdirTemp("", "verif-c13-seq-")
			defer os.RemoveAll(dir)
			sig, detail := runSeqCase(dir, f.Replay)
			fmt.Printf("replay: %s %s calls=%v\n", f.Replay.Scenario, f.Replay.Variant, f.Replay.Calls)
			if sig != "" {
				fmt.Printf("VIOLATION property=C13 replay=%s signature=%s\n%s\n", path, sig, detail)
				ev.ExitCode = 1
			} else {
				fmt.Println("replay: no violation")
			}
			return
		}
	}
	ce, err := gosim.LoadCounterexample(path)
	if err != nil {
		t.Fatal(err)
	}
	for _, sc := range scenarios() {
		if sc.Name != ce.Scenario {
			continue
		}
		g := toScenario(sc)
		g.Opts.Bound = 99
		r := gosim.RunOnce(t, &g.Opts, g.Body, ce.Schedule, nil)
		for _, l := range r.Trace {
			fmt.Println(l)
		}
		if r.Viol != nil {
			fmt.Printf("VIOLATION property=C13 replay=%s signature=%s\n%s\n", path, r.Viol.Signature, r.Viol.Detail)
			ev.ExitCode = 1
		} else {
			fmt.Println("replay: no violation")
		}
		return
	}
	t.Fatalf("scenario %q not found (or the replay is the race companion's report, which is re-run by the check itself)", ce.Scenario)
}

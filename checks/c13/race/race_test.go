// Package race is the free-running companion of C13: the same kind of producer bodies as the exhaustive
// part, many producers, every logger constructor of the package (adapters included), built with -race and
// WITHOUT instrumentation. It is not the deciding step: a race report is a violation (the detector has
// no false positives); silence is reported as "no race observed", not as coverage.
package race

import (
	"fmt"
	"golang.org/x/exp/slog"
	"io"
	"os"
	"path/filepath"
	"sync"
	"testing"
	"time"

	"github.com/ARM-software/golang-utils/utils/logs"
	"github.com/hashicorp/go-hclog"
	"github.com/sirupsen/logrus"
	"go.uber.org/zap"
)

type nullWriter struct {
	mu sync.Mutex
	n  int
}

func (w *nullWriter) Write(p []byte) (int, error) {
	w.mu.Lock()
	w.n += len(p)
	w.mu.Unlock()
	return len(p), nil
}
func (w *nullWriter) Close() error           { return nil }
func (w *nullWriter) SetSource(string) error { return nil }

func hammer(t *testing.T, name string, l logs.Loggers, extra func(i int)) {
	t.Helper()
	if l == nil {
		return
	}
	producers := 32
	var wg sync.WaitGroup
	for p := 0; p < producers; p++ {
		wg.Add(1)
		go func(p int) {
			defer wg.Done()
			for i := 0; i < 20; i++ {
				switch (p + i) % 4 {
				case 0, 1:
					l.Log(fmt.Sprintf("%s out %d/%d", name, p, i))
				case 2:
					l.LogError(fmt.Sprintf("%s err %d/%d", name, p, i))
				case 3:
					if i%2 == 0 {
						_ = l.SetLogSource(fmt.Sprintf("src%d", p))
					} else {
						_ = l.SetLoggerSource(fmt.Sprintf("lsrc%d", p))
					}
					if extra != nil {
						extra(p*100 + i)
					}
				}
			}
		}(p)
	}
	wg.Wait()
	_ = l.Close()
}

func TestRace(t *testing.T) {
	dir, err := os.MkdirTemp("/dev/shm", "verif-c13-race-")
	if err != nil {
		dir, err = os.MkdirTemp("", "verif-c13-race-")
	}
	if err != nil {
		t.Fatal(err)
	}
	defer os.RemoveAll(dir)
	devnull, _ := os.OpenFile(os.DevNull, os.O_WRONLY, 0)
	defer devnull.Close()
	n := 0
	run := func(name string, mk func() (logs.Loggers, error), extra func(l logs.Loggers) func(int)) {
		l, err := mk()
		if err != nil || l == nil {
			fmt.Printf("SKIP %s: %v\n", name, err)
			return
		}
		var ex func(int)
		if extra != nil {
			ex = extra(l)
		}
		hammer(t, name, l, ex)
		n++
		fmt.Printf("DONE %s\n", name)
	}
	run("string", func() (logs.Loggers, error) { return logs.NewStringLogger("t") }, nil)
	run("plain-string", func() (logs.Loggers, error) { return logs.NewPlainStringLogger() }, nil)
	run("file", func() (logs.Loggers, error) { return logs.NewFileLogger(filepath.Join(dir, "a.log"), "t") }, nil)
	run("file-only", func() (logs.Loggers, error) { return logs.NewFileOnlyLogger(filepath.Join(dir, "b.log"), "t") }, nil)
	run("json", func() (logs.Loggers, error) { return logs.NewJSONLogger(&nullWriter{}, "t", "s") }, nil)
	run("json-slow-writer", func() (logs.Loggers, error) {
		return logs.NewJSONLoggerForSlowWriter(&nullWriter{}, 8, time.Millisecond, "t", "s", nil)
	}, nil)
	for _, ring := range []int{1, 2, 1024} {
		ring := ring
		run(fmt.Sprintf("asynchronous-ring%d", ring), func() (logs.Loggers, error) {
			return logs.NewAsynchronousLoggers(&nullWriter{}, &nullWriter{}, ring, time.Millisecond, "t", "s", nil)
		}, nil)
	}
	run("noop", func() (logs.Loggers, error) { return logs.NewNoopLogger("t") }, nil)
	run("quiet", func() (logs.Loggers, error) {
		s, err := logs.NewPlainStringLogger()
		if err != nil {
			return nil, err
		}
		return logs.NewQuietLogger(s)
	}, nil)
	run("zap", func() (logs.Loggers, error) { return logs.NewZapLogger(zap.NewNop(), "t") }, nil)
	run("logrus", func() (logs.Loggers, error) {
		lr := logrus.New()
		lr.SetOutput(io.Discard)
		return logs.NewLogrusLogger(lr, "t")
	}, nil)
	run("hclog", func() (logs.Loggers, error) {
		return logs.NewHclogLogger(hclog.New(&hclog.LoggerOptions{Output: io.Discard}), "t")
	}, nil)
	run("slog", func() (logs.Loggers, error) {
		return logs.NewSlogLogger(slog.New(slog.NewTextHandler(io.Discard, nil)), "t")
	}, nil)
	run("logr-from-string", func() (logs.Loggers, error) {
		s, err := logs.NewPlainStringLogger()
		if err != nil {
			return nil, err
		}
		return logs.NewLogrLogger(logs.NewLogrLoggerFromLoggers(s), "t")
	}, nil)
	mkMulti := func(k int) func() (logs.Loggers, error) {
		return func() (logs.Loggers, error) {
			var ms []logs.Loggers
			for i := 0; i < k; i++ {
				s, err := logs.NewPlainStringLogger()
				if err != nil {
					return nil, err
				}
				ms = append(ms, s)
			}
			return logs.NewMultipleLoggers("t", ms...)
		}
	}
	appendExtra := func(l logs.Loggers) func(int) {
		ml, ok := l.(logs.IMultipleLoggers)
		if !ok {
			return nil
		}
		return func(i int) {
			if i%7 == 0 {
				s, err := logs.NewPlainStringLogger()
				if err == nil {
					_ = ml.Append(s)
				}
			}
		}
	}
	for _, k := range []int{1, 2, 4} {
		run(fmt.Sprintf("multiple-%d", k), mkMulti(k), appendExtra)
	}
	run("combined-2", func() (logs.Loggers, error) {
		a, _ := logs.NewPlainStringLogger()
		b, _ := logs.NewStringLogger("x")
		return logs.NewCombinedLoggers(a, b)
	}, appendExtra)
	fmt.Printf("CONSTRUCTORS %d\n", n)
}

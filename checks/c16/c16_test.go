// C16 — shared cache: a successful Fetch installs one complete stored version.
//
// Concurrency part: 2–3 cache clients (each its own cache object, VFS and private source / destination /
// temp trees over one shared backend) run scripts over {Store(v), Fetch, CleanEntry}; every interleaving
// of their backend calls on the remote entry (lock directory and heart beats included) and of the virtual
// clock within the deviation bound; both cache kinds.
// Crash / fault part: one client's Store is interrupted at EVERY backend operation k (process stop before k,
// process stop after half of a write at k, injected error at k, short write at k); then recovery
// (time passes, CleanEntry, Fetch by a fresh client, Store + Fetch of a newer version).
package c16

import (
	"archive/zip"
	"bytes"
	"context"
	"crypto/sha256"
	"encoding/hex"
	"errors"
	"fmt"
	"io"
	"math/rand"
	"os"
	"regexp"
	"runtime"
	"sort"
	"strings"
	"sync"
	"testing"
	"time"

	"github.com/ARM-software/golang-utils/utils/filesystem"
	"github.com/ARM-software/golang-utils/utils/sharedcache"
	"github.com/gofrs/uuid/v5"
	deadlock "github.com/sasha-s/go-deadlock"
	"github.com/spf13/afero"

	ev "verif/engine/evidence"
	"verif/engine/gosim"
	"verif/engine/vfsx"
)

func TestMain(m *testing.M) {
	deadlock.Opts.Disable = true
	ev.Main(m)
}

const (
	remote      = "/remote"
	key         = "K"
	lockTimeout = 5 * time.Millisecond // shorter than the lock's retry interval: "a waiter gives up while the holder transfers" is one tick away
)

// ---- versions -------------------------------------------------------------------------------------

type version map[string]string // relative file path -> content

func pseudoRandom(n int, seed uint32) string {
	b := make([]byte, n)
	x := seed*2654435761 + 1
	for i := range b {
		x ^= x << 13
		x ^= x >> 17
		x ^= x << 5
		b[i] = byte(x)
	}
	return string(b)
}

func tinyZip(name, content string) string {
	var buf bytes.Buffer
	zw := zip.NewWriter(&buf)
	w, _ := zw.CreateHeader(&zip.FileHeader{Name: name, Method: zip.Store})
	_, _ = w.Write([]byte(content))
	_ = zw.Close()
	return buf.String()
}

var versions = func() []version {
	var vs []version
	for i := 0; i < 4; i++ {
		vs = append(vs, version{
			"a/x.txt":   fmt.Sprintf("version %d small file", i),
			"a/b/y.bin": pseudoRandom(40000, uint32(i+1)), // incompressible: the package is several copy buffers long
			// a member that is itself an archive: a version is installed as it was stored, archives inside it included
			"z.zip": tinyZip(fmt.Sprintf("inner-%d.txt", i), strings.Repeat(fmt.Sprintf("v%d;", i), 10)),
			// paths no other version has: a tree that holds one version plus left-overs of another matches none
			fmt.Sprintf("only-in-v%d/deep/e.txt", i): fmt.Sprintf("e%d", i),
			fmt.Sprintf("a/only-in-v%d.txt", i):      fmt.Sprintf("f%d", i),
		})
	}
	return vs
}()

func writeTree(fs afero.Fs, root string, v version) {
	for rel, content := range v {
		p := root + "/" + rel
		_ = fs.MkdirAll(p[:strings.LastIndex(p, "/")], 0o755)
		_ = afero.WriteFile(fs, p, []byte(content), 0o644)
	}
}

// identify returns the index of the version the tree at root equals exactly (paths, kinds, contents), or -1.
func identify(fs afero.Fs, root string) (int, string) {
	dump := vfsx.Snapshot(fs, root, vfsx.SnapOpt{HashOver: 1 << 30})
	files := map[string]string{}
	for _, e := range dump {
		if e.Kind == 'f' {
			files[e.Path] = e.Content
		}
	}
	for i, v := range versions {
		if len(v) != len(files) {
			continue
		}
		same := true
		for rel, c := range v {
			if files[rel] != c {
				same = false
				break
			}
		}
		if same {
			return i, ""
		}
	}
	var names []string
	for n, c := range files {
		h := sha256.Sum256([]byte(c))
		names = append(names, fmt.Sprintf("%s(%d bytes, %s)", n, len(c), hex.EncodeToString(h[:4])))
	}
	sort.Strings(names)
	return -1, strings.Join(names, " ")
}

// ---- scenarios -------------------------------------------------------------------------------------

type op struct {
	Kind string // Store | Fetch | Clean
	V    int
}

type scenario struct {
	Name    string
	Cache   string // mutable | immutable
	Initial int    // -1: empty cache; 0: v0 stored; 1: v0 then v1 stored
	Scripts [][]op
	Bound   int
	// fault part
	Fault  string // "" | stop | stop-half | error | short
	FaultK int
}

type storeRec struct {
	client     int
	v          int
	start, end int // global event counter
	ok         bool
	done       bool
}

type world struct {
	x       *gosim.Exec
	sc      scenario
	backend afero.Fs
	shared  *vfsx.Shared
	events  int
	stores  []*storeRec
	outcome []string
	// lock monitor (mutable cache): who created the present lock directory, who removed somebody else's
	lockOwner  int
	lockBroken string
	curOp      []string
	ops0       int // backend operations issued by client 0 (fault part)
	killed     bool
	uuids      map[string]int
	uuidsMu    sync.Mutex // labels are computed by the threads themselves, possibly side by side when an event wakes several
	finished   []bool
	clientsEnd chan int
}

var uuidRe = regexp.MustCompile(`[0-9a-f]{8}-[0-9a-f]{4}-[0-9a-f]{4}-[0-9a-f]{4}-[0-9a-f]{12}`)

func (w *world) label(o *vfsx.Op) string {
	canon := func(p string) string {
		return uuidRe.ReplaceAllStringFunc(p, func(u string) string {
			w.uuidsMu.Lock()
			defer w.uuidsMu.Unlock()
			n, ok := w.uuids[u]
			if !ok {
				n = len(w.uuids) + 1
				w.uuids[u] = n
			}
			return fmt.Sprintf("UUID%d", n)
		})
	}
	c := *o
	c.Path, c.Path2 = canon(o.Path), canon(o.Path2)
	if strings.HasPrefix(c.Path, "/tmp") || strings.Contains(c.Path, "sharedmutablecache-packing") {
		c.Path = "<temp>"
	}
	if strings.HasPrefix(c.Path2, "/tmp") || strings.Contains(c.Path2, "sharedmutablecache-packing") {
		c.Path2 = "<temp>"
	}
	return c.String()
}

func newCache(kind string, backend afero.Fs, shared *vfsx.Shared, client int) sharedcache.ISharedCacheRepository {
	wrapper := vfsx.NewMem(backend, shared, client)
	vfs := filesystem.NewVirtualFileSystem(wrapper, filesystem.InMemoryFS, filesystem.IdentityPathConverterFunc)
	cfg := &sharedcache.Configuration{RemoteStoragePath: remote, Timeout: lockTimeout}
	var c sharedcache.ISharedCacheRepository
	var err error
	if kind == "mutable" {
		c, err = sharedcache.NewSharedMutableCacheRepository(cfg, vfs)
	} else {
		c, err = sharedcache.NewSharedImmutableCacheRepository(cfg, vfs)
	}
	if err != nil {
		panic(err)
	}
	return c
}

func isLockDir(p string) bool {
	return strings.HasPrefix(p, remote+"/"+key+"/"+filesystem.LockFilePrefix+"-") && strings.Count(p, "/") == 3
}

func (w *world) afterOp(o *vfsx.Op) {
	if o.Err != nil || !isLockDir(o.Path) {
		return
	}
	switch o.Kind {
	case vfsx.KMkdir:
		w.lockOwner = o.Client
	case vfsx.KRemove, vfsx.KRemoveAll:
		if w.lockOwner >= 0 && w.lockOwner != o.Client && w.lockBroken == "" {
			w.lockBroken = w.curOp[o.Client]
			w.x.Note("client %d (in %s) removed the lock directory created by client %d", o.Client, w.curOp[o.Client], w.lockOwner)
		}
		w.lockOwner = -1
	}
}

var errInjected = errors.New("injected I/O error")

func (w *world) beforeOp(o *vfsx.Op) *vfsx.Inject {
	if w.sc.Fault == "" || o.Client != 0 || w.killed {
		return nil
	}
	w.ops0++
	if w.ops0 != w.sc.FaultK {
		return nil
	}
	isWrite := o.Kind == vfsx.KFWrite || o.Kind == vfsx.KFWriteString || o.Kind == vfsx.KFWriteAt
	switch w.sc.Fault {
	case "stop":
		w.stop(o, "before")
	case "stop-half":
		if isWrite && o.Len > 1 {
			return &vfsx.Inject{Short: o.Len / 2, Err: errInjected} // afterOp-equivalent: the stop follows in AfterFault
		}
		w.stop(o, "before")
	case "error":
		w.x.Note("injected error at client 0's operation #%d %s", w.ops0, w.label(o))
		return &vfsx.Inject{Err: errInjected}
	case "short":
		if isWrite && o.Len > 1 {
			w.x.Note("short write at client 0's operation #%d %s", w.ops0, w.label(o))
			return &vfsx.Inject{Short: o.Len / 2, Err: io.ErrShortWrite}
		}
		w.x.Note("injected error at client 0's operation #%d %s (not a write)", w.ops0, w.label(o))
		return &vfsx.Inject{Err: errInjected}
	}
	return nil
}

// finish tells the judge that a client is over (returned, or its process stopped), once.
func (w *world) finish(c int) {
	if !w.finished[c] {
		w.finished[c] = true
		w.clientsEnd <- c
	}
}

func (w *world) stop(o *vfsx.Op, when string) {
	w.killed = true
	w.finish(0)
	w.x.Note("client 0's process stops %s its operation #%d %s", when, w.ops0, w.label(o))
	w.x.KillClient(0)
	runtime.Goexit()
}

func (w *world) afterFault(o *vfsx.Op) {
	if w.sc.Fault == "stop-half" && o.Client == 0 && !w.killed && w.ops0 == w.sc.FaultK {
		w.stop(o, "during (half of the bytes written)")
	}
}

func body(sc scenario) func(x *gosim.Exec) {
	return func(x *gosim.Exec) {
		// package names of the immutable cache are UUIDs: the generator is re-seeded for every execution so that
		// names (hence directory listing order) are a function of the schedule
		uuid.DefaultGenerator = uuid.NewGenWithOptions(uuid.WithRandomReader(rand.New(rand.NewSource(7))))
		n := len(sc.Scripts)
		w := &world{x: x, sc: sc, lockOwner: -1, outcome: make([]string, n+1), curOp: make([]string, n+2), uuids: map[string]int{}}
		x.User = w
		backend := vfsx.NewPosixMem()
		w.backend = backend
		_ = backend.MkdirAll(remote, 0o755)
		_ = backend.MkdirAll("/tmp", 0o777)
		hook := &gosim.FSHook{X: x, Label: w.label, BeforeOp: w.beforeOp, AfterOp: func(o *vfsx.Op) { w.afterFault(o); w.afterOp(o) }}
		if sc.Fault == "" {
			// only calls on the shared remote entry are scheduling points: sources, destinations and temp directories are private
			hook.Gated = func(o *vfsx.Op) bool { return strings.HasPrefix(o.Path, remote) || strings.HasPrefix(o.Path2, remote) }
		}
		shared := vfsx.NewShared(hook)
		w.shared = shared
		for c := 0; c < n; c++ {
			for v := range versions {
				writeTree(backend, fmt.Sprintf("/src/c%d/v%d", c, v), versions[v])
			}
		}
		writeTree(backend, "/src/setup/v0", versions[0])
		for v := range versions {
			writeTree(backend, fmt.Sprintf("/src/final/v%d", v), versions[v])
		}
		// the initial Store(v0) is not part of the exploration: it runs here, on the raw backend, before any client starts
		if sc.Initial >= 0 {
			raw := filesystem.NewVirtualFileSystem(backend, filesystem.InMemoryFS, filesystem.IdentityPathConverterFunc)
			cfg := &sharedcache.Configuration{RemoteStoragePath: remote, Timeout: time.Second}
			var c sharedcache.ISharedCacheRepository
			var err error
			if sc.Cache == "mutable" {
				c, err = sharedcache.NewSharedMutableCacheRepository(cfg, raw)
			} else {
				c, err = sharedcache.NewSharedImmutableCacheRepository(cfg, raw)
			}
			if err == nil {
				err = c.Store(x.Ctx(), key, "/src/setup/v0")
			}
			if err != nil {
				x.Violate("setup:initial-store-failed", "%v", err)
			}
			w.stores = append(w.stores, &storeRec{client: -1, v: 0, start: -4, end: -3, ok: true, done: true})
			time.Sleep(time.Millisecond)
			if sc.Initial >= 1 && err == nil { // two versions in the cache: v0, then v1
				if err = c.Store(x.Ctx(), key, "/src/final/v1"); err != nil {
					x.Violate("setup:initial-store-failed", "%v", err)
				}
				w.stores = append(w.stores, &storeRec{client: -1, v: 1, start: -2, end: -1, ok: true, done: true})
				time.Sleep(time.Millisecond)
			}
		}
		// every client fetches into ONE destination of its own, again and again, and that destination is not empty to begin
		// with: it holds a version nobody stores (v3). A Fetch installs exactly the version it fetched there
		for c := 0; c < n; c++ {
			writeTree(backend, fmt.Sprintf("/dest/c%d/tree", c), versions[3])
		}
		setupDone := make(chan struct{})
		close(setupDone)
		clientsDone := make(chan int, n)
		w.clientsEnd, w.finished = clientsDone, make([]bool, n)
		for c := 0; c < n; c++ {
			c := c
			cache := newCache(sc.Cache, backend, shared, c)
			x.Go(fmt.Sprintf("client%d", c), c, func() {
				defer w.finish(c)
				<-setupDone
				for j, o := range sc.Scripts[c] {
					switch o.Kind {
					case "Store":
						w.curOp[c] = "Store"
						x.Gate(c, fmt.Sprintf("client%d: Store(v%d) begins", c, o.V))
						w.events++
						rec := &storeRec{client: c, v: o.V, start: w.events}
						w.stores = append(w.stores, rec)
						err := cache.Store(x.Ctx(), key, fmt.Sprintf("/src/c%d/v%d", c, o.V))
						x.Gate(c, fmt.Sprintf("client%d: Store(v%d) returned", c, o.V))
						w.events++
						rec.end, rec.ok, rec.done = w.events, err == nil, true
						x.Note("client%d Store(v%d) = %v", c, o.V, err)
						w.outcome[c] += map[bool]string{true: "S", false: "s"}[err == nil]
					case "Fetch":
						w.curOp[c] = "Fetch"
						dest := fmt.Sprintf("/dest/c%d/tree", c)
						_ = j
						fetchBegan := w.events
						err := cache.Fetch(x.Ctx(), key, dest)
						x.Note("client%d Fetch = %v", c, err)
						if err != nil {
							w.outcome[c] += "f"
							continue
						}
						got, what := identify(backend, dest)
						w.outcome[c] += fmt.Sprintf("F%d", got)
						if !w.wasOffered(got) {
							sig := "fetch-installed-"
							if got < 0 {
								sig += "incomplete-or-mixed-tree"
							} else {
								sig += "version-nobody-stored"
							}
							x.Violate(sig+":cache="+sc.Cache+w.brokenSuffix(), "client %d: Fetch returned nil and installed %s (matching version: %d)", c, what, got)
						}
						// "A Store that reports success makes its version the one that subsequent Fetches return until the next
						// Store": a Fetch must not install a version whose Store was over before another successful Store began,
						// when that other Store was itself over before the Fetch began
						var mine *storeRec
						for _, sr := range w.stores {
							if sr.v == got && sr.ok {
								mine = sr
							}
						}
						for _, sr := range w.stores {
							if mine != nil && sr.ok && sr.done && sr.end <= fetchBegan && mine.done && mine.end < sr.start {
								x.Violate("fetch-installed-superseded-version:cache="+sc.Cache+w.brokenSuffix(), "client %d: Fetch installed v%d although Store(v%d) had begun after Store(v%d) returned and had itself returned before this Fetch began", c, got, sr.v, got)
								break
							}
						}
					case "Clean":
						w.curOp[c] = "CleanEntry"
						err := cache.CleanEntry(x.Ctx(), key)
						x.Note("client%d CleanEntry = %v", c, err)
						w.outcome[c] += "c"
					}
				}
			})
		}
		// the judge: at quiescence a fresh client fetches (after stale-lock cleaning for the lock-based cache)
		x.Go("judge", n, func() {
			<-setupDone
			for i := 0; i < n; i++ {
				<-clientsDone
			}
			if x.Ctx().Err() != nil {
				return
			}
			w.curOp[n] = "judge"
			x.Gate(n, "judge: all clients finished")
			x.Freeze() // the verdict at quiescence is sequential: no more deviations
			time.Sleep(250 * time.Millisecond)
			cache := newCache(sc.Cache, backend, shared, n)
			if sc.Cache == "immutable" {
				// the immutable cache needs no cleaning before it can be read: what a Fetch returns must not depend on whether
				// older packages are still lying around
				if err := cache.Fetch(x.Ctx(), key, "/dest/judge/pre"); err == nil {
					got, what := identify(backend, "/dest/judge/pre")
					cands := w.candidates()
					ok := len(cands) == 0
					for _, cnd := range cands {
						ok = ok || cnd == got
					}
					switch {
					case got < 0:
						x.Violate("fetch-installed-incomplete-or-mixed-tree:cache=immutable:at=quiescence:before-clean"+w.faultSuffix()+w.brokenSuffix(), "the fresh client's Fetch returned nil and installed %s", what)
						return
					case !ok:
						x.Violate("stale-version-after-acknowledged-store:cache=immutable:before-clean"+w.faultSuffix()+w.brokenSuffix(), "Fetch at quiescence (before any CleanEntry) installed v%d; entitled versions are %v", got, cands)
						return
					}
				}
			}
			_ = cache.CleanEntry(x.Ctx(), key)
			err := cache.Fetch(x.Ctx(), key, "/dest/judge/1")
			cands := w.candidates()
			x.Note("judge: Fetch = %v; acceptable versions %v", err, cands)
			if err != nil {
				w.outcome[n] = "f"
				if len(cands) > 0 {
					x.Violate("acknowledged-store-not-fetchable:cache="+sc.Cache+w.faultSuffix()+w.brokenSuffix(), "a Store reported success and no other Store began afterwards (entitled versions %v) but a later Fetch by a fresh client fails: %v", cands, err)
					return
				}
			} else {
				got, what := identify(backend, "/dest/judge/1")
				w.outcome[n] = fmt.Sprintf("F%d", got)
				if got < 0 {
					x.Violate("fetch-installed-incomplete-or-mixed-tree:cache="+sc.Cache+":at=quiescence"+w.faultSuffix()+w.brokenSuffix(), "the fresh client's Fetch returned nil and installed %s", what)
					return
				}
				if !w.wasOffered(got) {
					x.Violate("fetch-installed-version-nobody-stored:cache="+sc.Cache+":at=quiescence", "installed v%d", got)
					return
				}
				ok := false
				for _, cnd := range cands {
					ok = ok || cnd == got
				}
				if len(cands) > 0 && !ok {
					x.Violate("stale-version-after-acknowledged-store:cache="+sc.Cache+w.faultSuffix()+w.brokenSuffix(), "Fetch at quiescence installed v%d; entitled versions (Stores that reported success, not followed by another Store) are %v", got, cands)
					return
				}
			}
			// storing again the very version that was in the cache before the interruption (same bytes, hence same hash as
			// a side-car hash file that may have survived the interruption) must make that version fetchable
			if sc.Fault != "" && sc.Initial >= 0 {
				if err := cache.Store(x.Ctx(), key, "/src/final/v0"); err == nil {
					time.Sleep(time.Millisecond)
					if err := cache.Fetch(x.Ctx(), key, "/dest/judge/0"); err != nil {
						x.Violate("acknowledged-store-not-fetchable:restore-of-previous-version:cache="+sc.Cache+w.faultSuffix(), "after the interrupted Store(v1), Store(v0) reported success but Fetch fails: %v", err)
						return
					}
					if got, what := identify(backend, "/dest/judge/0"); got != 0 {
						x.Violate("fetch-after-restore-wrong-version:cache="+sc.Cache+w.faultSuffix(), "after Store(v0) the Fetch installed v%d %s", got, what)
						return
					}
				} else {
					x.Note("judge: Store(v0) after recovery failed: %v", err)
				}
				time.Sleep(time.Millisecond)
			}
			// not wedged: a newer version can be stored and fetched
			if sc.Fault != "" {
				if err := cache.Store(x.Ctx(), key, "/src/final/v2"); err != nil {
					// the statement promises nothing about a Store that reports failure: recorded, not a violation
					x.Note("judge: Store(v2) after recovery failed: %v", err)
					w.outcome[n] += "+s"
					return
				}
				time.Sleep(time.Millisecond)
				if err := cache.Fetch(x.Ctx(), key, "/dest/judge/2"); err != nil {
					x.Violate("wedged-after-interrupted-store:fetch:cache="+sc.Cache+w.faultSuffix(), "Fetch after Store(v2) failed: %v", err)
					return
				}
				if got, what := identify(backend, "/dest/judge/2"); got != 2 {
					x.Violate("wedged-after-interrupted-store:wrong-version:cache="+sc.Cache+w.faultSuffix(), "after Store(v2) the Fetch installed v%d %s", got, what)
				}
			}
		})
	}
}

func (w *world) brokenSuffix() string {
	if w.lockBroken != "" {
		return ":after-foreign-lock-removal-in=" + w.lockBroken
	}
	return ""
}

func (w *world) faultSuffix() string {
	if w.sc.Fault == "" {
		return ""
	}
	return ":fault=" + w.sc.Fault
}

// wasOffered: the version was passed to a Store that had begun (or is the initial one).
func (w *world) wasOffered(v int) bool {
	if v < 0 {
		return false
	}
	for _, s := range w.stores {
		if s.v == v {
			return true
		}
	}
	return false
}

// candidates: the versions a Fetch at quiescence is entitled to — those of the Stores that reported success
// and were not followed (in real-time order) by the beginning of any other Store call. Weakest reading of
// "makes its version the one that subsequent Fetches return until the next Store": once another Store has
// begun after it, nothing is promised any more (that Store may fail half-way). Overlapping Stores are all candidates.
func (w *world) candidates() []int {
	var out []int
	for _, s := range w.stores {
		if !s.ok {
			continue
		}
		last := true
		for _, t := range w.stores {
			if t != s && t.start > s.end {
				last = false
			}
		}
		if last {
			out = append(out, s.v)
		}
	}
	return out
}

func allowTick(x *gosim.Exec, enabled []*gosim.Thread) bool {
	for _, th := range enabled {
		if !th.Harness && strings.Contains(th.First, ".lock") {
			return false // heart beats are never late (C17 has the mode without this premise)
		}
	}
	for _, th := range x.Threads() {
		if !th.Done() && !th.Gated() {
			return true
		}
	}
	return false
}

func opsName(s []op) string {
	var l []string
	for _, o := range s {
		if o.Kind == "Store" {
			l = append(l, fmt.Sprintf("S%d", o.V))
		} else {
			l = append(l, o.Kind[:1])
		}
	}
	return strings.Join(l, "")
}

// measureOps counts client 0's backend operations of a fault-free Store(v1) in the fault-part setting.
func measureOps(t *testing.T, cache string, initial int) int {
	sc := scenario{Name: "measure", Cache: cache, Initial: initial, Scripts: [][]op{{{"Store", 1}}}, Fault: "measure"}
	g := toScenario(sc)
	r := gosim.RunOnce(t, &g.Opts, g.Body, nil, nil)
	if w, ok := r.User.(*world); ok && r.Verdict == "complete" {
		return w.ops0
	}
	return -1
}

func scenarios(t *testing.T) []scenario {
	var out []scenario
	S := func(v int) op { return op{"Store", v} }
	F := op{"Fetch", 0}
	C := op{"Clean", 0}
	add := func(cache string, initial, bound int, scripts ...[]op) {
		var names []string
		for _, s := range scripts {
			names = append(names, opsName(s))
		}
		out = append(out, scenario{Name: fmt.Sprintf("%s/init=%d/%s/P%d", cache, initial, strings.Join(names, "|"), bound), Cache: cache, Initial: initial, Scripts: scripts, Bound: bound})
	}
	for _, cache := range []string{"mutable", "immutable"} {
		add(cache, 0, 2, []op{S(1)}, []op{F})
		add(cache, 0, 1, []op{S(1)}, []op{S(2)})
		add(cache, -1, 1, []op{S(1)}, []op{F})
		add(cache, 0, 1, []op{S(1), F}, []op{F, S(2)})
		add(cache, 0, 1, []op{S(1)}, []op{C, F})
		add(cache, 0, 2, []op{S(1)}, []op{F, S(2)})
		// one client looks the entry up twice, another stores in between
		add(cache, 0, 1, []op{F, F}, []op{S(2)})
		if cache == "immutable" {
			add(cache, 0, 2, []op{S(1)}, []op{C, F}) // CleanEntry overtaken by a complete Store needs two deviations
			// two versions already stored: a Fetch that listed them is overtaken by a Store of a third and a CleanEntry that
			// is itself held up between two removals
			add(cache, 1, 2, []op{F}, []op{S(2), C})
		}
		if ev.Thorough() {
			add(cache, 0, 2, []op{S(1)}, []op{F})
			add(cache, 0, 2, []op{S(1)}, []op{S(2)})
			add(cache, 0, 2, []op{S(1), F}, []op{F, S(2)})
			add(cache, 0, 2, []op{S(1)}, []op{C, F})
			add(cache, 0, 1, []op{S(1)}, []op{S(2)}, []op{F})
			add(cache, 0, 1, []op{S(1)}, []op{F}, []op{C})
			add(cache, -1, 2, []op{S(1)}, []op{S(2), F})
			add(cache, 0, 2, []op{F, F}, []op{S(2)})
			add(cache, 1, 1, []op{F, F}, []op{S(2), C})
		}
	}
	// fault part: every backend operation k of Store(v1)
	for _, cache := range []string{"mutable", "immutable"} {
		for _, initial := range []int{0, -1} {
			n := measureOps(t, cache, initial)
			if n <= 0 {
				t.Errorf("ENGINE-ERROR: cannot measure the length of a Store (%s, initial %d)", cache, initial)
				continue
			}
			for _, kind := range []string{"stop", "stop-half", "error", "short"} {
				for k := 1; k <= n; k++ {
					out = append(out, scenario{Name: fmt.Sprintf("fault/%s/init=%d/%s/k=%03d", cache, initial, kind, k), Cache: cache, Initial: initial, Scripts: [][]op{{S(1)}}, Fault: kind, FaultK: k})
				}
			}
		}
	}
	if f := os.Getenv("VERIF_SCENARIO"); f != "" {
		var sel []scenario
		for _, sc := range out {
			if strings.Contains(sc.Name, f) {
				sel = append(sel, sc)
			}
		}
		return sel
	}
	return out
}

func toScenario(sc scenario) gosim.Scenario {
	return gosim.Scenario{
		Name: sc.Name,
		Opts: gosim.Options{Bound: sc.Bound, StepAdvance: time.Microsecond, Horizon: 2 * time.Second, MaxSteps: 20000, AllowTick: allowTick, DelayBound: true},
		Body: body(sc),
		Outcome: func(r *gosim.Result) string {
			if w, ok := r.User.(*world); ok {
				o := r.Verdict + ":" + strings.Join(w.outcome, ",")
				if w.lockBroken != "" {
					o += ":lock-of-another-client-removed-in-" + w.lockBroken
				}
				return o
			}
			return r.Verdict
		},
	}
}

func TestC16(t *testing.T) {
	if p := os.Getenv("VERIF_REPLAY"); p != "" {
		replay(t, p)
		return
	}
	scs := scenarios(t)
	// small-bound scenarios first: a deadline met on a loaded machine then cuts the tail of the big explorations, not these
	sort.SliceStable(scs, func(i, j int) bool { return scs[i].Bound < scs[j].Bound })
	var gs []gosim.Scenario
	for _, sc := range scs {
		gs = append(gs, toScenario(sc))
	}
	if gosim.IsPoolWorker() {
		gosim.ServePool(t, gs)
		return
	}
	budget := 6 * time.Minute
	if ev.Thorough() {
		budget = 40 * time.Minute
	}
	rep := ev.NewReporter("C16", "model_checking")
	stats := gosim.ExplorePool(t, gs, ev.Workers(), time.Now().Add(budget))
	total := gosim.NewStats()
	perScenario := map[string]any{}
	exhaustive := true
	faultRuns, faultViol := 0, int64(0)
	for _, sc := range scs {
		s := stats[sc.Name]
		if s.Capped {
			exhaustive = false
		}
		var nv int64
		for _, v := range s.Violations {
			nv += v.Count
		}
		total.Merge(s)
		for sig, ce := range s.Violations {
			rep.ViolationN(sig, ce, ce.Count)
		}
		for _, d := range s.Diverged {
			rep.EngineError("%s", d)
		}
		if sc.Fault != "" {
			faultRuns++
			faultViol += nv
			continue
		}
		perScenario[sc.Name] = map[string]any{"executions": s.Execs, "transitions": s.Transitions, "bound": sc.Bound, "capped": s.Capped, "outcomes": s.Outcomes, "violating_executions": nv}
		fmt.Fprintf(os.Stderr, "[C16] %-50s executions=%d violations=%d cpu=%.0fs capped=%v\n", sc.Name, s.Execs, nv, s.WallS, s.Capped)
	}
	fmt.Fprintf(os.Stderr, "[C16] fault part: %d runs (every backend operation of a Store x 4 fault kinds x 2 cache kinds x 2 initial states), %d violating\n", faultRuns, faultViol)
	rep.Coverage["states"] = total.Nodes
	rep.Coverage["transitions"] = total.Transitions
	rep.Coverage["traces_validated_against_impl"] = total.Validated
	rep.Coverage["executions"] = total.Execs
	rep.Coverage["fault_runs"] = faultRuns
	rep.Coverage["fault_runs_violating"] = faultViol
	rep.Coverage["distinct_outcomes"] = len(total.Outcomes)
	rep.Coverage["transient_divergences_retried"] = total.Transient
	rep.Coverage["scenarios"] = perScenario
	rep.Coverage["exhaustive"] = exhaustive
	rep.Coverage["samples"] = total.Samples
	rep.Coverage["explanation"] = "states = distinct schedule prefixes of the real cache code (scheduling points: backend calls on the remote entry, incl. lock directory and heart beats; 1 µs of virtual time per step so that 'newest package' is never a tie); fault runs = one execution per (backend operation k of a Store, fault kind)"
	rep.Assume = []string{
		"sources, destinations and temp directories are private to a client (no scheduling points there)",
		"heart beats are never late; lock timeout 5 ms (shorter than the lock's retry interval) so that a waiter giving up while the holder transfers is within the tick budget",
		"backend PosixMem; process stop = none of the client's later backend operations happens",
	}
	rep.Finish()
}

func replay(t *testing.T, path string) {
	ce, err := gosim.LoadCounterexample(path)
	if err != nil {
		t.Fatal(err)
	}
	for _, sc := range scenarios(t) {
		if sc.Name != ce.Scenario {
			continue
		}
		g := toScenario(sc)
		g.Opts.Bound = 99
		r := gosim.RunOnce(t, &g.Opts, g.Body, ce.Schedule, nil)
		for _, l := range r.Trace {
			fmt.Println(l)
		}
		if r.Viol != nil {
			fmt.Printf("VIOLATION property=C16 replay=%s signature=%s\n%s\n", path, r.Viol.Signature, r.Viol.Detail)
			ev.ExitCode = 1
		} else {
			fmt.Println("replay: no violation")
		}
		return
	}
	t.Fatalf("scenario %q not found (thorough-only scenarios need VERIF_TIER=thorough)", ce.Scenario)
}

var _ = context.Background

// TestDebugOps prints client 0's backend operations of a fault-free Store (development aid).
func TestDebugOps(t *testing.T) {
	if os.Getenv("VERIF_DEBUG") == "" {
		t.Skip()
	}
	sc := scenario{Name: "measure", Cache: os.Getenv("VERIF_DEBUG"), Initial: 0, Scripts: [][]op{{{"Store", 1}}}, Fault: "measure"}
	g := toScenario(sc)
	r := gosim.RunOnce(t, &g.Opts, g.Body, nil, nil)
	n := 0
	for _, l := range r.Trace {
		if strings.Contains(l, ": c0 ") {
			n++
			fmt.Printf("#%03d %s\n", n, l)
		}
	}
}

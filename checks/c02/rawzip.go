package c02

import (
	"bytes"
	"compress/flate"
	"encoding/binary"
	"hash/crc32"
)

// Raw zip writer: local headers, central directory and end record are laid out by hand so that an entry
// name is an arbitrary byte string that reaches archive/zip's reader byte for byte (no UTF-8 flag, no
// normalisation, no "name ends with / => directory" rewriting by a library writer).

// Entry kinds (unix mode in the external attributes; creator = unix).
const (
	kindFile    = "file"    // regular file, stored
	kindDeflate = "deflate" // regular file, deflated
	kindDir     = "dir"     // S_IFDIR in the external attributes (the name is NOT touched: no '/' appended)
	kindSymlink = "symlink" // S_IFLNK in the external attributes, content = link target
	kindFifo    = "fifo"    // S_IFIFO: a named pipe (content ignored by whoever recreates one)
	kindCharDev = "chardev" // S_IFCHR: a character device
	kindSocket  = "socket"  // S_IFSOCK
)

type rawEntry struct {
	Name    []byte
	Kind    string
	Content []byte
	Extra   []byte // extra field, written to the local and the central header alike
}

// unicodePathExtra is the Info-ZIP Unicode Path extra field (0x7075): version 1, CRC-32 of the header name it belongs to,
// and the UTF-8 spelling of the name — here whatever the case wants a trusting reader to use instead of the header name.
func unicodePathExtra(headerName, unicodeName []byte) []byte {
	b := make([]byte, 4+5+len(unicodeName))
	binary.LittleEndian.PutUint16(b[0:], 0x7075)
	binary.LittleEndian.PutUint16(b[2:], uint16(5+len(unicodeName)))
	b[4] = 1
	binary.LittleEndian.PutUint32(b[5:], crc32.ChecksumIEEE(headerName))
	copy(b[9:], unicodeName)
	return b
}

func unixMode(kind string) uint32 {
	switch kind {
	case kindDir:
		return 0o040755
	case kindSymlink:
		return 0o120777
	case kindFifo:
		return 0o010644
	case kindCharDev:
		return 0o020644
	case kindSocket:
		return 0o140644
	default:
		return 0o100644
	}
}

// buildZip returns the bytes of an archive holding the entries in the given order.
func buildZip(entries []rawEntry) []byte {
	var out bytes.Buffer
	type cd struct {
		off           uint32
		crc           uint32
		csize, usize  uint32
		method        uint16
		name          []byte
		extra         []byte
		externalAttrs uint32
	}
	var dir []cd
	const dosTime, dosDate = 0x6000, 0x5821 // 2024-01-01 12:00:00
	for _, e := range entries {
		data := e.Content
		if e.Kind == kindDir {
			data = nil
		}
		method := uint16(0)
		comp := data
		if e.Kind == kindDeflate {
			var b bytes.Buffer
			w, _ := flate.NewWriter(&b, flate.DefaultCompression)
			_, _ = w.Write(data)
			_ = w.Close()
			comp = b.Bytes()
			method = 8
		}
		c := cd{off: uint32(out.Len()), crc: crc32.ChecksumIEEE(data), csize: uint32(len(comp)), usize: uint32(len(data)), method: method, name: e.Name, extra: e.Extra, externalAttrs: unixMode(e.Kind) << 16}
		if e.Kind == kindDir {
			c.externalAttrs |= 0x10 // MS-DOS directory bit as well
		}
		var h [30]byte
		binary.LittleEndian.PutUint32(h[0:], 0x04034b50)
		binary.LittleEndian.PutUint16(h[4:], 20) // version needed
		binary.LittleEndian.PutUint16(h[6:], 0)  // flags: no UTF-8 bit, no data descriptor
		binary.LittleEndian.PutUint16(h[8:], method)
		binary.LittleEndian.PutUint16(h[10:], dosTime)
		binary.LittleEndian.PutUint16(h[12:], dosDate)
		binary.LittleEndian.PutUint32(h[14:], c.crc)
		binary.LittleEndian.PutUint32(h[18:], c.csize)
		binary.LittleEndian.PutUint32(h[22:], c.usize)
		binary.LittleEndian.PutUint16(h[26:], uint16(len(e.Name)))
		binary.LittleEndian.PutUint16(h[28:], uint16(len(e.Extra)))
		out.Write(h[:])
		out.Write(e.Name)
		out.Write(e.Extra)
		out.Write(comp)
		dir = append(dir, c)
	}
	cdStart := out.Len()
	for _, c := range dir {
		var h [46]byte
		binary.LittleEndian.PutUint32(h[0:], 0x02014b50)
		binary.LittleEndian.PutUint16(h[4:], 3<<8|20) // creator: unix
		binary.LittleEndian.PutUint16(h[6:], 20)
		binary.LittleEndian.PutUint16(h[8:], 0)
		binary.LittleEndian.PutUint16(h[10:], c.method)
		binary.LittleEndian.PutUint16(h[12:], dosTime)
		binary.LittleEndian.PutUint16(h[14:], dosDate)
		binary.LittleEndian.PutUint32(h[16:], c.crc)
		binary.LittleEndian.PutUint32(h[20:], c.csize)
		binary.LittleEndian.PutUint32(h[24:], c.usize)
		binary.LittleEndian.PutUint16(h[28:], uint16(len(c.name)))
		binary.LittleEndian.PutUint16(h[30:], uint16(len(c.extra)))
		// comment, disk, internal attrs = 0
		binary.LittleEndian.PutUint32(h[38:], c.externalAttrs)
		binary.LittleEndian.PutUint32(h[42:], c.off)
		out.Write(h[:])
		out.Write(c.name)
		out.Write(c.extra)
	}
	cdSize := out.Len() - cdStart
	var e [22]byte
	binary.LittleEndian.PutUint32(e[0:], 0x06054b50)
	binary.LittleEndian.PutUint16(e[8:], uint16(len(dir)))
	binary.LittleEndian.PutUint16(e[10:], uint16(len(dir)))
	binary.LittleEndian.PutUint32(e[12:], uint32(cdSize))
	binary.LittleEndian.PutUint32(e[16:], uint32(cdStart))
	out.Write(e[:])
	return out.Bytes()
}

// C02 — Unzip never writes outside the destination (zip-slip).
//
// Bounded-exhaustive enumeration, on the real Unzip code, of
//
//	entry names (token sequences, see space.go) x archive shapes x destinations x backends x limits modes,
//	nested archives to depth 2 in recursive mode.
//
// Archives are produced by a raw writer (rawzip.go): names are arbitrary byte strings.
// A vfsx layer sits under the real VFS and records every mutating backend call with its path; on the OS backend
// it also refuses any mutating call that would leave the sandbox (so a misbehaving repository cannot touch the machine).
//
// Oracle (weakest reading of the statement, clause by clause):
//
//	(1) trace    : every mutating backend call THAT SUCCEEDED has a path which, made absolute against the working
//	               directory, cleaned lexically, and (if the sandbox contains a symbolic link) resolved through the real
//	               parent chain, is the destination directory itself or lies below it. A call on an outside path that
//	               failed (and so changed nothing) is counted (attempts_outside_that_failed) but is not a violation.
//	               The destination directory itself (created / re-stamped by an entry named ".") counts as inside.
//	(2) snapshot : the dump (kind, content, mtime, mode) of everything in the sandbox outside the destination, working
//	               directory included, is the same before and after. Creating a missing destination legitimately changes
//	               the mtime of its parent directory: that single timestamp is ignored in the "destination missing" cases.
//	               The archive file itself is compared byte for byte instead of being part of the dump.
//	(3) refusal  : if the RAW entry name resolves lexically ('/' is the only separator on this platform) outside the
//	               top-level destination, the call must fail with the kind "suspected malicious intent" (when the archive
//	               has an entry before it, which might fail first for its own reasons: the call must fail). Nothing is asked
//	               about names that resolve inside (refusing a legal name is C07's concern), nor about what a name
//	               becomes after transcoding: a transcoded name that leaves the destination is caught by (1)/(2) when,
//	               and only when, something is really written outside.
//
// Nondeterminism inside the repository, made exhaustive: a path that is not valid UTF-8 is transcoded with the charset
// github.com/gogs/chardet reports as "best"; among charsets tied at the highest confidence chardet returns whichever
// recogniser goroutine delivers first (about 30 % of the non-UTF-8 paths of this check have such a tie, ISO-2022-JP vs a
// single-byte charset included). checks/c02/prebuild.sh overlays the one DetectBest call site in utils/charset/charset.go
// with an equivalent in which the harness picks the winner; every case is executed once per resolution of the ties it
// meets (depth-first over the choice vector). Same set of behaviours as the original, but every one of them, every run.
//
// Determinism: the detector sees the joined path, sandbox root included; the root has a fixed length and varies only
// in decimal digits (/dev/shm/verif-c02-<7 digits>/s<2 digits>), which no recogniser of chardet distinguishes.
// Verdicts and counts are the same on every run.
package c02

import (
	"bytes"
	"context"
	"encoding/hex"
	"encoding/json"
	"errors"
	"fmt"
	"os"
	"path/filepath"
	"sort"
	"strconv"
	"strings"
	"testing"
	"time"
	"unicode/utf8"

	"github.com/ARM-software/golang-utils/utils/charset"
	"github.com/ARM-software/golang-utils/utils/commonerrors"
	"github.com/ARM-software/golang-utils/utils/filesystem"
	"github.com/spf13/afero"

	ev "verif/engine/evidence"
	"verif/engine/vfsx"
)

func TestMain(m *testing.M) { ev.Main(m) }

// ---- monitor: the vfsx hook -----------------------------------------------------------------------

type opRec struct {
	Kind  string `json:"op"`
	Path  string `json:"path"`
	Path2 string `json:"path2,omitempty"`
	Err   string `json:"err,omitempty"`
	Flag  int    `json:"flag,omitempty"`
}

var errGuard = errors.New("verif guard: mutating call outside the sandbox refused")

type monitor struct {
	guardRoot string // OS backend: nothing outside this directory may be mutated ("" = no guard)
	cwd       string
	ops       []opRec
	blocked   []opRec
}

func (m *monitor) abs(p string) string {
	if !filepath.IsAbs(p) {
		p = filepath.Join(m.cwd, p)
	}
	return filepath.Clean(p)
}

func within(p, dir string) bool {
	if dir == "/" {
		return strings.HasPrefix(p, "/")
	}
	return p == dir || strings.HasPrefix(p, dir+"/")
}

func pathsOf(op *vfsx.Op) []string {
	switch op.Kind {
	case vfsx.KRename, vfsx.KLink:
		return []string{op.Path, op.Path2}
	}
	return []string{op.Path}
}

func (m *monitor) Before(op *vfsx.Op) *vfsx.Inject {
	if !op.Mutates || m.guardRoot == "" {
		return nil
	}
	for _, p := range pathsOf(op) {
		if !within(m.abs(p), m.guardRoot) {
			m.blocked = append(m.blocked, opRec{Kind: string(op.Kind), Path: op.Path, Path2: op.Path2})
			return &vfsx.Inject{Err: errGuard, Short: -1}
		}
	}
	return nil
}

func (m *monitor) After(op *vfsx.Op) {
	if !op.Mutates {
		return
	}
	r := opRec{Kind: string(op.Kind), Path: op.Path, Path2: op.Path2, Flag: op.Flag}
	if op.Err != nil {
		r.Err = op.Err.Error()
	}
	m.ops = append(m.ops, r)
}

func (m *monitor) reset() { m.ops, m.blocked = nil, nil }

// ---- sandbox ---------------------------------------------------------------------------------------

var stampTime = time.Date(2020, 1, 2, 3, 4, 5, 0, time.UTC)

// The working directory is 4 levels below the sandbox root, the destination 5. Within the bound a name climbs at most
// 3 levels (5 tokens: "../../.."), so even a repository that stopped refusing parent references stays inside the
// sandbox; whatever would still leave it (absolute paths, deeper climbs from nested archives) is refused by the guard.
const chain = "w/p1/p2/p3"

type sandbox struct {
	root, base, src string
	rawOS           afero.Fs
	osMon           *monitor
	osFS            filesystem.FS
	state           int // -1 unknown, 0 destination missing, 1 destination present
	cleanups        int
	baseline        [2][]vfsx.Entry
	oldwd           string
}

// layout creates the tree on any backend through plain afero calls. relative=true creates the "relative world" of
// the in-memory backend (MemMapFs keeps relative names as separate keys below its root).
func layout(fs afero.Fs, base string, destExists bool) error {
	join := func(a, b string) string {
		if a == "" {
			return b
		}
		return filepath.Join(a, b)
	}
	if base != "" {
		if err := fs.MkdirAll(base, 0o755); err != nil {
			return err
		}
	}
	// the sibling "aa" shares a name prefix with the destination "a" (what a separator-less prefix test lets through)
	files := map[string]string{join(base, "aa"): "sentinel aa"}
	if base != "" {
		files[filepath.Join(filepath.Dir(base), "a")] = "sentinel ../a"
		files[filepath.Join(filepath.Dir(filepath.Dir(base)), "a")] = "sentinel ../../a"
	}
	for p, c := range files {
		if err := afero.WriteFile(fs, p, []byte(c), 0o644); err != nil {
			return err
		}
	}
	if destExists {
		return fs.MkdirAll(join(base, destName), 0o755)
	}
	return nil
}

func newSandbox(root string) (*sandbox, error) {
	s := &sandbox{root: root, base: filepath.Join(root, chain), src: root + ".src/ar.zip", rawOS: filesystem.NewExtendedOsFs(), state: -1}
	if err := os.MkdirAll(filepath.Dir(s.src), 0o755); err != nil {
		return nil, err
	}
	if err := os.MkdirAll(s.root, 0o755); err != nil {
		return nil, err
	}
	if err := os.WriteFile(s.src, []byte("x"), 0o644); err != nil {
		return nil, err
	}
	s.oldwd, _ = os.Getwd()
	s.osMon = &monitor{guardRoot: root, cwd: s.base}
	s.osFS = filesystem.NewVirtualFileSystem(vfsx.NewOS(s.rawOS, vfsx.NewShared(s.osMon), 0), filesystem.StandardFS, filesystem.IdentityPathConverterFunc)
	for _, st := range []int{0, 1} {
		if err := s.rebuild(st == 1); err != nil {
			return nil, err
		}
		s.baseline[st] = s.snapshotOS()
	}
	return s, nil
}

func (s *sandbox) close() {
	_ = os.Chdir(s.oldwd)
	_ = os.RemoveAll(s.root)
	_ = os.RemoveAll(filepath.Dir(s.src))
}

// rebuild recreates the working tree from scratch with fixed timestamps and enters the working directory.
func (s *sandbox) rebuild(destExists bool) error {
	if err := os.Chdir(s.root); err != nil {
		return err
	}
	if err := os.RemoveAll(filepath.Join(s.root, "w")); err != nil {
		return err
	}
	if err := layout(s.rawOS, s.base, destExists); err != nil {
		return err
	}
	err := filepath.Walk(s.root, func(p string, _ os.FileInfo, err error) error {
		if err != nil {
			return err
		}
		return os.Chtimes(p, stampTime, stampTime)
	})
	if err != nil {
		return err
	}
	s.state = 0
	if destExists {
		s.state = 1
	}
	return os.Chdir(s.base)
}

func (s *sandbox) snapshotOS() []vfsx.Entry {
	return vfsx.Snapshot(s.rawOS, s.root, vfsx.SnapOpt{Mtime: true, Mode: true})
}

// memSnapshot dumps a MemMapFs, including entries kept under relative keys (children of the root that do not
// exist as "/name" are looked up as "name" and "../name").
func memSnapshot(fs afero.Fs, skip string) []vfsx.Entry {
	var out []vfsx.Entry
	visited := map[string]bool{} // MemMapFs can be brought to list its root as its own child
	var walk func(key string)
	walk = func(key string) {
		if visited[key] {
			return
		}
		visited[key] = true
		fi, err := fs.Stat(key)
		if err != nil {
			return
		}
		e := vfsx.Entry{Path: key, MtimeNs: fi.ModTime().UnixNano(), Mode: fi.Mode()}
		if fi.IsDir() {
			e.Kind = 'd'
			if key != "/" {
				out = append(out, e)
			}
			f, err := fs.Open(key)
			if err != nil {
				return
			}
			names, _ := f.Readdirnames(-1)
			_ = f.Close()
			sort.Strings(names)
			for _, n := range names {
				child := filepath.Join(key, n)
				if key == "/" {
					if _, err := fs.Stat(child); err != nil {
						child = n
						if _, err := fs.Stat(child); err != nil {
							child = "../" + n
						}
					}
				}
				walk(child)
			}
			return
		}
		e.Kind = 'f'
		if key == skip {
			return
		}
		b, _ := afero.ReadFile(fs, key)
		e.Content = string(b)
		e.Size = int64(len(b))
		out = append(out, e)
	}
	walk("/")
	return out
}

// ---- running one case --------------------------------------------------------------------------------

type caseResult struct {
	ErrKind  string   `json:"error_kind"`
	Err      string   `json:"error,omitempty"`
	Ops      []opRec  `json:"mutating_backend_calls"`
	Blocked  []opRec  `json:"calls_refused_by_sandbox_guard,omitempty"`
	Sigs     []string `json:"signatures,omitempty"`
	Details  []string `json:"details,omitempty"`
	outcome  string
	attempts int64 // mutating calls on outside paths that failed
	transc   bool
	wrote    bool
	refOut   bool
	silent   bool  // a traced call succeeded on an outside path without any visible change in the dump
	ties     []int // size of the charset tie set at each detection of this execution
}

var kinds = []struct {
	name string
	err  error
}{
	{"malicious", commonerrors.ErrMalicious}, {"invalid", commonerrors.ErrInvalid}, {"notfound", commonerrors.ErrNotFound},
	{"toolarge", commonerrors.ErrTooLarge}, {"unsupported", commonerrors.ErrUnsupported}, {"exists", commonerrors.ErrExists},
	{"undefined", commonerrors.ErrUndefined}, {"condition", commonerrors.ErrCondition}, {"forbidden", commonerrors.ErrForbidden},
	{"unexpected", commonerrors.ErrUnexpected}, {"cancelled", commonerrors.ErrCancelled}, {"timeout", commonerrors.ErrTimeout},
}

func errKind(err error) string {
	if err == nil {
		return "ok"
	}
	for _, k := range kinds {
		if commonerrors.Any(err, k.err) {
			return k.name
		}
	}
	return "other"
}

func (c *caseSpec) fill() {
	if c.name == nil && c.NameHex != "" {
		c.name, _ = hex.DecodeString(c.NameHex)
	}
	c.NameHex = hex.EncodeToString(c.name)
	c.NameQuoted = strconv.Quote(string(c.name))
}

// archive builds the (possibly nested) archive of a case.
func (c *caseSpec) archive() []byte {
	var entries []rawEntry
	payload := []byte("C02 payload")
	switch c.Shape {
	case shapeFile:
		entries = []rawEntry{{c.name, kindFile, payload, nil}}
	case shapeDeflate:
		entries = []rawEntry{{c.name, kindDeflate, bytes.Repeat(payload, 20), nil}}
	case shapeDir:
		entries = []rawEntry{{c.name, kindDir, nil, nil}}
	case shapeSymlink:
		entries = []rawEntry{{c.name, kindSymlink, []byte("../../a"), nil}}
	case shapeAfterDir:
		entries = []rawEntry{{[]byte("a/"), kindDir, nil, nil}, {c.name, kindFile, payload, nil}}
	case shapeAfterSymlink:
		entries = []rawEntry{{[]byte("a"), kindSymlink, []byte("../.."), nil}, {c.name, kindFile, payload, nil}}
	case shapeAfterSelf:
		entries = []rawEntry{{[]byte("./"), kindDir, nil, nil}, {c.name, kindFile, payload, nil}}
	case shapeAfterSelf2:
		entries = []rawEntry{{[]byte("a/../"), kindDir, nil, nil}, {c.name, kindFile, payload, nil}}
	case shapeFifo:
		entries = []rawEntry{{c.name, kindFifo, nil, nil}}
	case shapeCharDev:
		entries = []rawEntry{{c.name, kindCharDev, nil, nil}}
	case shapeSocket:
		entries = []rawEntry{{c.name, kindSocket, nil, nil}}
	case shapeUnicodePath, shapeUnicodePathASCII:
		h := headerNameOf(c.Shape, c.name)
		entries = []rawEntry{{Name: h, Kind: kindFile, Content: payload, Extra: unicodePathExtra(h, c.name)}}
	case shapeLinkChain:
		entries = []rawEntry{{[]byte("C:/ "), kindSymlink, []byte(".."), nil}, {[]byte("C:/ /a"), kindSymlink, []byte(".."), nil}, {c.name, kindFile, payload, nil}}
	}
	z := buildZip(entries)
	for i := len(c.Outer) - 1; i >= 0; i-- {
		z = buildZip([]rawEntry{{[]byte(c.Outer[i]), kindFile, z, nil}})
	}
	return z
}

func stem(p string) string { return strings.TrimSuffix(filepath.Base(p), filepath.Ext(p)) }

// destString is what is passed to Unzip; destLexical is its cleaned form (the reference of clause 3 works on it).
func (c *caseSpec) destString(base string) string {
	switch c.Dest {
	case destAbs:
		return filepath.Join(base, destName)
	case destAbsSlash:
		return filepath.Join(base, destName) + "/"
	}
	return c.Dest
}

// rawResolvesOutside is the reference of clause (3): purely lexical, on the raw bytes of the name.
func (c *caseSpec) rawResolvesOutside(base string) bool {
	top := filepath.Clean(c.destString(base))
	d := top
	for _, o := range c.Outer {
		p := filepath.Join(d, o)
		d = filepath.Join(filepath.Dir(p), stem(p))
	}
	ref := filepath.Join(d, string(headerNameOf(c.Shape, c.name)))
	if top == "." {
		return filepath.IsAbs(ref) || ref == ".." || strings.HasPrefix(ref, "../")
	}
	return !within(ref, top)
}

func nontrivial(name []byte) bool {
	s := string(name)
	return !utf8.Valid(name) || filepath.Clean(s) != s
}

type diff struct{ kind, path string }

// compareOutside compares two dumps restricted to what is outside the destination.
func compareOutside(before, after []vfsx.Entry, inside func(string) bool, ignoreMtimeOf string) []diff {
	idx := func(es []vfsx.Entry) map[string]vfsx.Entry {
		m := map[string]vfsx.Entry{}
		for _, e := range es {
			if !inside(e.Path) {
				m[e.Path] = e
			}
		}
		return m
	}
	b, a := idx(before), idx(after)
	var ds []diff
	for p, eb := range b {
		ea, ok := a[p]
		switch {
		case !ok:
			ds = append(ds, diff{"removed", p})
		case ea.Kind != eb.Kind:
			ds = append(ds, diff{"kind-changed", p})
		case ea.Content != eb.Content || ea.Size != eb.Size:
			ds = append(ds, diff{"content-changed", p})
		case ea.Mode != eb.Mode:
			ds = append(ds, diff{"mode-changed", p})
		case ea.MtimeNs != eb.MtimeNs && p != ignoreMtimeOf:
			ds = append(ds, diff{"restamped", p})
		}
	}
	for p := range a {
		if _, ok := b[p]; !ok {
			ds = append(ds, diff{"created", p})
		}
	}
	sort.Slice(ds, func(i, j int) bool {
		if ds[i].kind != ds[j].kind {
			return ds[i].kind < ds[j].kind
		}
		return ds[i].path < ds[j].path
	})
	return ds
}

func sameDump(a, b []vfsx.Entry) bool {
	if len(a) != len(b) {
		return false
	}
	for i := range a {
		if a[i] != b[i] {
			return false
		}
	}
	return true
}

// errPanicked marks an extraction that panicked (reported as a violation of its own: an archive must not bring the caller down).
var errPanicked = errors.New("the extraction panicked")

func unzip(fs filesystem.FS, mode, src, dest string) (err error) {
	defer func() {
		if pv := recover(); pv != nil {
			err = fmt.Errorf("%w: %v", errPanicked, pv)
		}
	}()
	switch mode {
	case limFlat:
		_, err = fs.UnzipWithContextAndLimits(context.Background(), src, dest, filesystem.DefaultNonRecursiveZipLimits())
	case limRecursive:
		_, err = fs.UnzipWithContextAndLimits(context.Background(), src, dest, filesystem.RecursiveZipLimits(-1))
	default:
		_, err = fs.Unzip(src, dest)
	}
	return err
}

// tieSizes parses what the instrumented charset detection reported during one execution.
func tieSizes() []int {
	v := os.Getenv("VERIF_CHARDET_TIES")
	if v == "" {
		return nil
	}
	var out []int
	for _, f := range strings.Split(v, ",") {
		n, _ := strconv.Atoi(f)
		out = append(out, n)
	}
	return out
}

func setChoices(ch []int) {
	var fs []string
	for _, k := range ch {
		fs = append(fs, strconv.Itoa(k))
	}
	_ = os.Setenv("VERIF_CHARDET_CHOICES", strings.Join(fs, ","))
	_ = os.Unsetenv("VERIF_CHARDET_TIES")
}

// maxExecutionsPerCase caps the enumeration of charset-tie resolutions of one case (never reached within the bound;
// if it were, the evidence says exhaustive=false).
const maxExecutionsPerCase = 256

// explore runs a case once per resolution of the charset ties met on the way (depth-first over the choice vector:
// the i-th detection of an execution picks member choices[i] of its tie set) and calls f for every execution.
func (s *sandbox) explore(c *caseSpec, f func(c *caseSpec, res *caseResult)) (executions int, capped bool, engineErr error) {
	var choices []int
	for {
		cc := *c
		cc.Choices = append([]int(nil), choices...)
		res, err := s.runCase(&cc)
		if err != nil {
			return executions, capped, err
		}
		executions++
		f(&cc, &res)
		sizes := res.ties
		for len(choices) < len(sizes) {
			choices = append(choices, 0)
		}
		choices = choices[:len(sizes)]
		j := len(sizes) - 1
		for j >= 0 && choices[j]+1 >= sizes[j] {
			j--
		}
		if j < 0 {
			return executions, capped, nil
		}
		if executions >= maxExecutionsPerCase {
			return executions, true, nil
		}
		choices = choices[:j+1]
		choices[j]++
	}
}

// runCase executes one case (with c.Choices resolving the charset ties) on the real code and evaluates the three clauses.
func (s *sandbox) runCase(c *caseSpec) (res caseResult, engineErr error) {
	c.fill()
	z := c.archive()
	dest := c.destString(s.base)
	destClean := filepath.Clean(dest)
	nameUTF8 := utf8.Valid(c.name)
	nest := len(c.Outer)
	res.refOut = c.rawResolvesOutside(s.base)

	var mon *monitor
	var err error
	var diffs []diff
	var insideOp func(p string, followsLast bool) bool
	reset := func() error { return nil }
	var hasLink bool
	archiveIntact := true

	switch c.Backend {
	case "os":
		want := 0
		if c.DestExists {
			want = 1
		}
		if s.state != want {
			if e := s.rebuild(c.DestExists); e != nil {
				return res, e
			}
		}
		if e := os.WriteFile(s.src, z, 0o644); e != nil {
			return res, e
		}
		mon = s.osMon
		mon.reset()
		setChoices(c.Choices)
		err = unzip(s.osFS, c.Limits, s.src, dest)
		res.ties = tieSizes()
		after := s.snapshotOS()
		destAbsPath := mon.abs(destClean)
		destRelToRoot, _ := filepath.Rel(s.root, destAbsPath)
		ignore := ""
		if !c.DestExists {
			ignore = filepath.Dir(destRelToRoot)
		}
		diffs = compareOutside(s.baseline[want], after, func(p string) bool { return within("/"+p, "/"+destRelToRoot) }, ignore)
		for _, e := range after {
			if e.Kind == 'l' {
				hasLink = true
			}
		}
		insideOp = func(p string, followsLast bool) bool {
			a := mon.abs(p)
			if hasLink { // resolve through the real parent chain (and the last component when the call follows links)
				if r, e := filepath.EvalSymlinks(a); e == nil && followsLast {
					a = r
				} else if r, e := filepath.EvalSymlinks(filepath.Dir(a)); e == nil {
					a = filepath.Join(r, filepath.Base(a))
				}
			}
			return within(a, destAbsPath)
		}
		if b, e := os.ReadFile(s.src); e != nil || !bytes.Equal(b, z) {
			archiveIntact = false
		}
		reset = func() error {
			if sameDump(after, s.baseline[want]) {
				return nil
			}
			verify := len(diffs) > 0
			if len(diffs) == 0 && destAbsPath == filepath.Join(s.base, destName) {
				// only the destination differs from the baseline: empty it and restore the two timestamps involved
				e := os.RemoveAll(destAbsPath)
				if e == nil && c.DestExists {
					if e = os.Mkdir(destAbsPath, 0o755); e == nil {
						e = os.Chtimes(destAbsPath, stampTime, stampTime)
					}
				}
				if e == nil {
					e = os.Chtimes(s.base, stampTime, stampTime)
				}
				if e != nil {
					return e
				}
				s.cleanups++
				verify = s.cleanups%64 == 1
			} else if e := s.rebuild(c.DestExists); e != nil {
				return e
			}
			if verify && !sameDump(s.snapshotOS(), s.baseline[want]) {
				return fmt.Errorf("sandbox reset does not reproduce the baseline dump")
			}
			return nil
		}
	case "mem":
		mem := afero.NewMemMapFs()
		if e := layout(mem, s.base, c.DestExists); e != nil {
			return res, e
		}
		if e := layout(mem, "", c.DestExists); e != nil { // the relative world
			return res, e
		}
		if e := afero.WriteFile(mem, s.src, z, 0o644); e != nil {
			return res, e
		}
		mon = &monitor{}
		fs := filesystem.NewVirtualFileSystem(vfsx.NewMem(mem, vfsx.NewShared(mon), 0), filesystem.InMemoryFS, filesystem.IdentityPathConverterFunc)
		before := memSnapshot(mem, s.src)
		setChoices(c.Choices)
		err = unzip(fs, c.Limits, s.src, dest)
		res.ties = tieSizes()
		after := memSnapshot(mem, s.src)
		key := func(p string) string { // MemMapFs's own normalisation
			p = filepath.Clean(p)
			if p == "." || p == ".." {
				return "/"
			}
			return p
		}
		destKey := key(destClean)
		inside := func(p string) bool {
			if destKey == "/" {
				return true // the root of the in-memory filesystem: everything is below it
			}
			return within(key(p), destKey)
		}
		ignore := ""
		if !c.DestExists {
			ignore = key(filepath.Dir(destKey))
		}
		diffs = compareOutside(before, after, inside, ignore)
		insideOp = func(p string, _ bool) bool { return inside(p) }
		if b, e := afero.ReadFile(mem, s.src); e != nil || !bytes.Equal(b, z) {
			archiveIntact = false
		}
	default:
		return res, fmt.Errorf("unknown backend %q", c.Backend)
	}

	res.ErrKind = errKind(err)
	panicErr := err
	if err != nil {
		res.Err = err.Error()
	}
	res.Ops = append([]opRec(nil), mon.ops...)
	// Unzip re-stamps the directories it created by ranging over a Go map: the order of those (commuting) Chtimes calls
	// is random. Runs of consecutive Chtimes calls are put in path order so that a case has one canonical trace.
	for i := 0; i < len(res.Ops); {
		j := i
		for j < len(res.Ops) && res.Ops[j].Kind == string(vfsx.KChtimes) {
			j++
		}
		if j-i > 1 {
			run := res.Ops[i:j]
			sort.SliceStable(run, func(a, b int) bool { return run[a].Path < run[b].Path })
		}
		if j == i {
			j++
		}
		i = j
	}
	res.Blocked = append([]opRec(nil), mon.blocked...)

	add := func(sig, detail string) {
		res.Sigs = append(res.Sigs, sig)
		res.Details = append(res.Details, detail)
	}
	if errors.Is(panicErr, errPanicked) {
		add(fmt.Sprintf("panic:nest=%d", nest), panicErr.Error())
	}
	nameClass := fmt.Sprintf("rawname=%s:name=%s:nest=%d", map[bool]string{true: "outside", false: "inside"}[res.refOut], map[bool]string{true: "utf8", false: "non-utf8"}[nameUTF8], nest)

	// clause (1)
	var ob strings.Builder
	firstOutside := ""
	for _, op := range res.Ops {
		in := true
		paths := []string{op.Path}
		if op.Kind == string(vfsx.KRename) || op.Kind == string(vfsx.KLink) {
			paths = append(paths, op.Path2)
		}
		follows := true
		switch op.Kind {
		case string(vfsx.KRemove), string(vfsx.KRemoveAll), string(vfsx.KRename), string(vfsx.KSymlink), string(vfsx.KLink), string(vfsx.KForceRemove):
			follows = false // these act on the directory entry itself
		}
		for _, p := range paths {
			if !insideOp(p, follows) {
				in = false
			}
		}
		ok := op.Err == ""
		fmt.Fprintf(&ob, "%s%s%s ", op.Kind, map[bool]string{true: "", false: "!OUT"}[in], map[bool]string{true: "", false: "!ERR"}[ok])
		if in && ok && op.Kind != string(vfsx.KMkdirAll) && op.Kind != string(vfsx.KChtimes) {
			res.wrote = true
		}
		if op.Kind == string(vfsx.KOpenFile) && !nameUTF8 && utf8.ValidString(op.Path) {
			res.transc = true
		}
		if !in {
			if ok {
				if firstOutside == "" {
					firstOutside = op.Kind
					add("escape:op="+op.Kind+":"+nameClass, fmt.Sprintf("backend call %s(%q) succeeded on a path outside the destination %q", op.Kind, op.Path, destClean))
				}
			} else {
				res.attempts++
			}
		}
	}
	for _, b := range res.Blocked {
		add(fmt.Sprintf("blocked-outside-sandbox:op=%s:nest=%d", b.Kind, nest), fmt.Sprintf("backend call %s(%q) was aimed outside the sandbox and was refused by the harness", b.Kind, b.Path))
		break
	}
	// clause (2): reported on its own only when the trace did not already explain it
	if len(diffs) > 0 && firstOutside == "" {
		add(fmt.Sprintf("outside-changed:%s:nest=%d", diffs[0].kind, nest), fmt.Sprintf("outside the destination: %s %q (and %d more differences) although no traced call succeeded outside", diffs[0].kind, diffs[0].path, len(diffs)-1))
	}
	if len(diffs) == 0 && firstOutside != "" {
		// e.g. MkdirAll of an existing outside directory, or (in-memory backend) a directory opened for writing
		res.silent = true
	}
	if e := reset(); e != nil && engineErr == nil {
		engineErr = e
	}
	if !archiveIntact {
		add(fmt.Sprintf("archive-modified:nest=%d", nest), "the source archive was modified by the extraction")
	}
	// clause (3)
	// (in the two-entry shapes an earlier entry may legitimately fail first with another kind: there only "no failure" counts)
	twoEntries := c.Shape == shapeAfterDir || c.Shape == shapeAfterSymlink || c.Shape == shapeLinkChain || c.Shape == shapeAfterSelf || c.Shape == shapeAfterSelf2
	if res.refOut && res.ErrKind != "malicious" && (res.ErrKind == "ok" || !twoEntries) {
		result := "other-error"
		if res.ErrKind == "ok" {
			result = "ok"
		}
		add(fmt.Sprintf("not-refused:result=%s:nest=%d", result, nest), fmt.Sprintf("raw name %s resolves outside %q but the call returned %q", c.NameQuoted, destClean, res.ErrKind))
	}
	dk := ""
	for _, d := range diffs {
		dk += d.kind + " "
	}
	res.outcome = res.ErrKind + " | " + strings.TrimSpace(ob.String()) + " | " + strings.TrimSpace(dk)
	return res, engineErr
}

// ---- shard worker -------------------------------------------------------------------------------------

type violRec struct {
	Count  int64          `json:"count"`
	Index  int64          `json:"index"`
	Replay map[string]any `json:"replay"`
}

type sample struct {
	Index   int64    `json:"index"`
	Case    caseSpec `json:"case"`
	ErrKind string   `json:"error_kind"`
	Ops     []string `json:"mutating_backend_calls"`
}

type shardResult struct {
	Evaluations     int64               `json:"evaluations"`
	Executions      int64               `json:"executions"`
	CasesWithTies   int64               `json:"cases_with_ties"`
	TiedDetections  int64               `json:"tied_detections"`
	Capped          int64               `json:"capped"`
	Nontrivial      int64               `json:"nontrivial"`
	PerBlock        map[string]int64    `json:"per_block"`
	Outcomes        map[string]int64    `json:"outcomes"`
	ErrKinds        map[string]int64    `json:"err_kinds"`
	Transcoded      int64               `json:"transcoded"`
	Wrote           int64               `json:"wrote"`
	RefOutside      int64               `json:"ref_outside"`
	AttemptsOutside int64               `json:"attempts_outside"`
	SilentOutside   int64               `json:"silent_outside"`
	Viol            map[string]*violRec `json:"viol"`
	Samples         []sample            `json:"samples"`
	EngineErrors    []string            `json:"engine_errors"`
	CPUSeconds      float64             `json:"cpu_s"`
}

func replayObject(c *caseSpec, r *caseResult) map[string]any {
	return map[string]any{"case": c, "result": r}
}

func sameResult(a, b *caseResult) bool {
	ja, _ := json.Marshal(a)
	jb, _ := json.Marshal(b)
	return bytes.Equal(ja, jb)
}

func sandboxRoot(shard int) string {
	parent := os.Getenv("VERIF_C02_ROOT")
	if parent == "" {
		parent = fmt.Sprintf("/dev/shm/verif-c02-%07d", os.Getpid()%10000000)
	}
	return filepath.Join(parent, fmt.Sprintf("s%02d", shard%100))
}

func worker(shard, n int) shardResult {
	start := time.Now()
	out := shardResult{PerBlock: map[string]int64{}, Outcomes: map[string]int64{}, ErrKinds: map[string]int64{}, Viol: map[string]*violRec{}}
	fail := func(format string, a ...any) {
		if len(out.EngineErrors) < 20 {
			out.EngineErrors = append(out.EngineErrors, fmt.Sprintf(format, a...))
		}
	}
	sb, err := newSandbox(sandboxRoot(shard))
	if err != nil {
		fail("sandbox: %v", err)
		return out
	}
	defer sb.close()
	// the build must contain the instrumented charset detection (checks/c02/prebuild.sh), else ties cannot be enumerated
	setChoices(nil)
	_, _, _ = charset.DetectTextEncoding([]byte("a\xe9"))
	if _, absent := os.Stat(filepath.Join(ev.Root(), ".build", "c02", "charset.go.absent")); len(tieSizes()) != 1 && absent != nil {
		fail("the test binary was built without the C02 overlay (checks/c02/prebuild.sh): charset ties cannot be controlled")
		return out
	}
	blocks, _ := space(ev.Thorough())
	var base int64
	for _, b := range blocks {
		b.each(base, shard, n, func(c *caseSpec) {
			caseSigs := map[string]bool{}
			execs, capped, eerr := sb.explore(c, func(cc *caseSpec, res *caseResult) {
				if os.Getenv("VERIF_C02_DEBUG") == res.ErrKind {
					fmt.Printf("DEBUG %s %s shape=%s dest=%q backend=%s limits=%s outer=%q choices=%v: %s\n", cc.Block, cc.NameQuoted, cc.Shape, cc.Dest, cc.Backend, cc.Limits, cc.Outer, cc.Choices, res.Err)
				}
				out.Outcomes[res.outcome]++
				out.ErrKinds[res.ErrKind]++
				out.AttemptsOutside += res.attempts
				if res.silent {
					out.SilentOutside++
				}
				if res.transc {
					out.Transcoded++
				}
				if res.wrote {
					out.Wrote++
				}
				for _, n := range res.ties {
					if n > 1 {
						out.TiedDetections++
					}
				}
				for _, sig := range res.Sigs {
					v := out.Viol[sig]
					if v == nil {
						// a violation is believed only if 4 further executions of the same case give the identical result
						for k := 0; k < 4; k++ {
							again, e2 := sb.runCase(cc)
							if e2 != nil || !sameResult(res, &again) {
								fail("case %d: violation %s did not reproduce identically on re-execution %d (%v)", cc.Index, sig, k+1, e2)
							}
						}
						v = &violRec{Index: cc.Index, Replay: replayObject(cc, res)}
						out.Viol[sig] = v
					}
					if !caseSigs[sig] { // counted once per case, however many tie resolutions show it
						caseSigs[sig] = true
						v.Count++
					}
				}
				if cc.Index%50021 == 11 || (len(res.Sigs) > 0 && len(out.Samples) < 3) {
					if len(out.Samples) < 40 {
						var ops []string
						for _, o := range res.Ops {
							ops = append(ops, fmt.Sprintf("%s(%q) err=%q", o.Kind, o.Path, o.Err))
						}
						out.Samples = append(out.Samples, sample{Index: cc.Index, Case: *cc, ErrKind: res.ErrKind, Ops: ops})
					}
				}
			})
			if eerr != nil {
				c.fill()
				fail("case %d (%s %s): %v", c.Index, c.Block, c.NameQuoted, eerr)
				return
			}
			out.Evaluations++
			out.Executions += int64(execs)
			if execs > 1 {
				out.CasesWithTies++
			}
			if capped {
				out.Capped++
			}
			out.PerBlock[b.id]++
			if nontrivial(c.name) {
				out.Nontrivial++
			}
			if c.rawResolvesOutside(sb.base) {
				out.RefOutside++
			}
		})
		base += b.size()
	}
	out.CPUSeconds = time.Since(start).Seconds()
	return out
}

// ---- the check ----------------------------------------------------------------------------------------------

func TestC02(t *testing.T) {
	if p := os.Getenv("VERIF_REPLAY"); p != "" {
		replay(t, p)
		return
	}
	if _, _, isShard := ev.ShardEnv(); !isShard {
		parent := fmt.Sprintf("/dev/shm/verif-c02-%07d", os.Getpid()%10000000)
		_ = os.RemoveAll(parent)
		if err := os.MkdirAll(parent, 0o755); err != nil {
			t.Fatalf("sandbox: %v", err)
		}
		defer os.RemoveAll(parent)
		os.Setenv("VERIF_C02_ROOT", parent)
	}
	if _, _, isShard := ev.ShardEnv(); !isShard {
		// leftovers of runs that were killed (nothing a run depends on)
		old, _ := filepath.Glob("/dev/shm/verif-c02-[0-9]*")
		for _, d := range old {
			if fi, err := os.Stat(d); err == nil && time.Since(fi.ModTime()) > 12*time.Hour {
				_ = os.RemoveAll(d)
			}
		}
	}
	results, isWorker := ev.Sharded(t, ev.Workers(), worker)
	if isWorker {
		return
	}
	rep := ev.NewReporter("C02", "exploration")
	blocks, bd := space(ev.Thorough())
	var expected int64
	blockSizes := map[string]int64{}
	for _, b := range blocks {
		expected += b.size()
		blockSizes[b.id] = b.size()
	}
	total := shardResult{PerBlock: map[string]int64{}, Outcomes: map[string]int64{}, ErrKinds: map[string]int64{}, Viol: map[string]*violRec{}}
	for _, r := range results {
		total.Evaluations += r.Evaluations
		total.Executions += r.Executions
		total.CasesWithTies += r.CasesWithTies
		total.TiedDetections += r.TiedDetections
		total.Capped += r.Capped
		total.Nontrivial += r.Nontrivial
		total.Transcoded += r.Transcoded
		total.Wrote += r.Wrote
		total.RefOutside += r.RefOutside
		total.AttemptsOutside += r.AttemptsOutside
		total.SilentOutside += r.SilentOutside
		total.CPUSeconds += r.CPUSeconds
		for k, v := range r.PerBlock {
			total.PerBlock[k] += v
		}
		for k, v := range r.Outcomes {
			total.Outcomes[k] += v
		}
		for k, v := range r.ErrKinds {
			total.ErrKinds[k] += v
		}
		for sig, v := range r.Viol {
			cur := total.Viol[sig]
			if cur == nil {
				total.Viol[sig] = &violRec{Count: v.Count, Index: v.Index, Replay: v.Replay}
			} else {
				cur.Count += v.Count
				if v.Index < cur.Index { // the replay kept is the first case in enumeration order (shortest name first)
					cur.Index, cur.Replay = v.Index, v.Replay
				}
			}
		}
		total.Samples = append(total.Samples, r.Samples...)
		for _, e := range r.EngineErrors {
			rep.EngineError("%s", e)
		}
	}
	for sig, v := range total.Viol {
		rep.ViolationN(sig, v.Replay, v.Count)
	}
	if total.Evaluations != expected && len(total.EngineErrors) == 0 {
		rep.EngineError("evaluated %d cases, the enumeration has %d", total.Evaluations, expected)
	}
	sort.Slice(total.Samples, func(i, j int) bool { return total.Samples[i].Index < total.Samples[j].Index })
	if len(total.Samples) > 10 {
		// keep a spread: the first few (short names) and some of the later ones
		keep := append([]sample(nil), total.Samples[:4]...)
		step := (len(total.Samples) - 4) / 6
		for i := 4; i < len(total.Samples) && len(keep) < 10; i += max(step, 1) {
			keep = append(keep, total.Samples[i])
		}
		total.Samples = keep
	}
	type oc struct {
		Outcome string `json:"outcome"`
		Cases   int64  `json:"cases"`
	}
	var ocs []oc
	for k, v := range total.Outcomes {
		ocs = append(ocs, oc{k, v})
	}
	sort.Slice(ocs, func(i, j int) bool {
		if ocs[i].Cases != ocs[j].Cases {
			return ocs[i].Cases > ocs[j].Cases
		}
		return ocs[i].Outcome < ocs[j].Outcome
	})
	if len(ocs) > 25 {
		ocs = ocs[:25]
	}
	rep.Coverage["evaluations"] = total.Evaluations
	rep.Coverage["distinct_nontrivial"] = total.Nontrivial
	rep.Coverage["rule"] = "a case (all cases are pairwise distinct by construction) whose entry name is not valid UTF-8 or differs from its cleaned form (filepath.Clean), i.e. a name on which the sanitisation / transcoding has something to do"
	rep.Coverage["exhaustive"] = total.Evaluations == expected && total.Capped == 0
	rep.Coverage["executions"] = total.Executions
	rep.Coverage["cases_with_charset_ties"] = total.CasesWithTies
	rep.Coverage["charset_detections_with_a_tie"] = total.TiedDetections
	rep.Coverage["cases_capped"] = total.Capped
	rep.Coverage["explanation"] = "evaluations = cases; executions = runs of the real Unzip: a case is run once per resolution of the charset-detector ties met on its way (the detector's choice among equally confident charsets depends on the goroutine schedule in the repository; here the harness makes every choice in turn). Outcome / error-kind counts are per execution, violation counts per case."
	rep.Coverage["bound"] = map[string]any{
		"tokens_main_alphabet": tokenList(tokensT), "tokens_deep_alphabet": tokenList(tokensDeep), "limits": bd, "cases_per_block": blockSizes,
		"blocks": "see the comment of space() in checks/c02/space.go: every block is a full product of the dimensions it lists",
	}
	rep.Coverage["cases_per_block_evaluated"] = total.PerBlock
	rep.Coverage["distinct_outcomes"] = len(total.Outcomes)
	rep.Coverage["most_frequent_outcomes"] = ocs
	rep.Coverage["error_kinds"] = total.ErrKinds
	rep.Coverage["cases_that_wrote_inside_destination"] = total.Wrote
	rep.Coverage["cases_whose_path_was_transcoded"] = total.Transcoded
	rep.Coverage["cases_whose_raw_name_resolves_outside"] = total.RefOutside
	rep.Coverage["attempts_outside_that_failed"] = total.AttemptsOutside
	rep.Coverage["successful_calls_outside_without_visible_change"] = total.SilentOutside
	rep.Coverage["shard_wall_s_sum"] = total.CPUSeconds
	rep.Coverage["samples"] = total.Samples
	rep.Assume = []string{
		"Linux path rules: '/' is the only separator, '\\' and 'C:' are ordinary name bytes",
		"the charset detector's verdict does not depend on the decimal digits of the sandbox path (fixed-length root)",
		"entry names are NUL-free; archives are well-formed (sizes and checksums right): malformed archives are C03/C07's concern",
		"a mutating backend call that failed changed nothing (cross-checked by the dump of everything outside the destination)",
	}
	if _, err := os.Stat(filepath.Join(ev.Root(), ".build", "c02", "charset.go.absent")); err == nil {
		rep.Coverage["charset_ties_enumerated"] = false
		rep.Assume = append(rep.Assume, "the DetectBest call site was not found in utils/charset/charset.go: charset ties were resolved by the goroutine schedule (one resolution per case), not enumerated")
	} else {
		rep.Coverage["charset_ties_enumerated"] = true
	}
	rep.Finish()
}

func tokenList(ts [][]byte) []string {
	var out []string
	for _, t := range ts {
		out = append(out, strconv.Quote(string(t)))
	}
	return out
}

// replay re-runs one stored case five times and prints what the backend saw.
func replay(t *testing.T, path string) {
	b, err := os.ReadFile(path)
	if err != nil {
		t.Fatal(err)
	}
	var stored struct {
		Signature string `json:"signature"`
		Replay    struct {
			Case caseSpec `json:"case"`
		} `json:"replay"`
	}
	if err := json.Unmarshal(b, &stored); err != nil {
		t.Fatal(err)
	}
	c := stored.Replay.Case
	c.name = nil
	c.fill()
	parent := fmt.Sprintf("/dev/shm/verif-c02-%07d", os.Getpid()%10000000)
	defer os.RemoveAll(parent)
	sb, err := newSandbox(filepath.Join(parent, "s00"))
	if err != nil {
		t.Fatal(err)
	}
	defer sb.close()
	setChoices(nil)
	_, _, _ = charset.DetectTextEncoding([]byte("a\xe9"))
	if len(tieSizes()) != 1 {
		fmt.Println("ENGINE-ERROR: property=C02 the test binary was built without the C02 overlay (checks/c02/prebuild.sh)")
		ev.ExitCode = 2
		return
	}
	// the stored execution (its charset choices included), five times
	var first caseResult
	for k := 0; k < 5; k++ {
		res, eerr := sb.runCase(&c)
		if eerr != nil {
			fmt.Printf("ENGINE-ERROR: property=C02 %v\n", eerr)
			ev.ExitCode = 2
			return
		}
		if k == 0 {
			first = res
		} else if !sameResult(&first, &res) {
			fmt.Printf("ENGINE-ERROR: property=C02 replay %d differs from replay 1\n", k+1)
			ev.ExitCode = 2
			return
		}
	}
	// then every resolution of the charset ties of the same case
	sigs := map[string]string{}
	c.Choices = nil
	_, _, eerr := sb.explore(&c, func(cc *caseSpec, res *caseResult) {
		fmt.Printf("case: block=%s name=%s shape=%s outer=%q dest=%q dest_exists=%v backend=%s limits=%s charset_choices=%v (tie sizes met: %v)\n", cc.Block, cc.NameQuoted, cc.Shape, cc.Outer, cc.Dest, cc.DestExists, cc.Backend, cc.Limits, cc.Choices, res.ties)
		fmt.Printf("  result: %s %s\n", res.ErrKind, res.Err)
		for _, o := range res.Ops {
			fmt.Printf("    %s(%q) err=%q\n", o.Kind, o.Path, o.Err)
		}
		for i, sig := range res.Sigs {
			if _, ok := sigs[sig]; !ok {
				sigs[sig] = res.Details[i]
			}
		}
	})
	if eerr != nil {
		fmt.Printf("ENGINE-ERROR: property=C02 %v\n", eerr)
		ev.ExitCode = 2
		return
	}
	if len(sigs) == 0 {
		fmt.Println("replay: no violation (5 identical executions of the stored one, and every charset-tie resolution of the case)")
		return
	}
	var keys []string
	for k := range sigs {
		keys = append(keys, k)
	}
	sort.Strings(keys)
	for _, sig := range keys {
		fmt.Printf("VIOLATION property=C02 replay=%s signature=%s\n  %s\n", path, sig, sigs[sig])
	}
	ev.ExitCode = 1
}

// TestProfile is a development aid: one shard of VERIF_PROFILE shards, in this process (go test -run TestProfile -cpuprofile ...).
func TestProfile(t *testing.T) {
	n, _ := strconv.Atoi(os.Getenv("VERIF_PROFILE"))
	if n == 0 {
		t.Skip()
	}
	start := time.Now()
	defer os.RemoveAll(filepath.Dir(sandboxRoot(0)))
	r := worker(0, n)
	fmt.Printf("evaluations=%d in %v (%.0f us/case) engine=%v\n", r.Evaluations, time.Since(start), float64(time.Since(start).Microseconds())/float64(r.Evaluations), r.EngineErrors)
	for k, v := range r.ErrKinds {
		fmt.Println(k, v)
	}
	for sig, v := range r.Viol {
		fmt.Println(sig, v.Count)
	}
}

package c02

import (
	"strings"

	"golang.org/x/text/encoding/simplifiedchinese"
)

// The case space: entry names (token sequences), archive shapes, destinations, backends, limits modes.
// Every case has a global index (its position in the fixed enumeration order below); shard k of n runs
// the cases with index % n == k. A case is fully described by its caseSpec (that is what a replay stores).

// tokensT is the alphabet of DESIGN.md C02: separators and dots (filepath.Join/Clean), things that look like
// volume names / blanks, a name with an archive extension, ISO-2022 escape sequences and high bytes (names that
// are not valid UTF-8 are transcoded AFTER sanitisation by whatever charset the detector guesses).
var tokensT = [][]byte{
	[]byte("a"), []byte("."), []byte(".."), []byte("/"), []byte("\\"), []byte("x.zip"), []byte(" "), []byte("C:"),
	{0x1b, '(', 'B'}, {0x1b, '$', 'B'}, {0xE9}, {0x83, 0x5C}, {0x8E}, {0xFF},
}

// tokensDeep is the sub-alphabet explored to a greater length: what is needed to reach the transcoder with
// parent references (dot, separator, the escape sequence that returns to ASCII, one high byte, one letter).
var tokensDeep = [][]byte{[]byte("."), []byte("/"), {0x1b, '(', 'B'}, {0xE9}, []byte("a")}

// enumNames appends every concatenation of minLen..maxLen tokens, shortest first, in odometer order, skipping
// byte strings already produced (e.g. "." "." and "..").
func enumNames(tokens [][]byte, minLen, maxLen int, seen map[string]struct{}, out [][]byte) [][]byte {
	for l := minLen; l <= maxLen; l++ {
		idx := make([]int, l)
		for {
			var b []byte
			for _, i := range idx {
				b = append(b, tokens[i]...)
			}
			if _, dup := seen[string(b)]; !dup {
				seen[string(b)] = struct{}{}
				out = append(out, b)
			}
			k := l - 1
			for k >= 0 {
				idx[k]++
				if idx[k] < len(tokens) {
					break
				}
				idx[k] = 0
				k--
			}
			if k < 0 {
				break
			}
		}
	}
	return out
}

// Archive shapes.
const (
	shapeFile         = "file"          // one stored regular file entry
	shapeDeflate      = "deflate"       // one deflated regular file entry
	shapeDir          = "dir"           // one directory entry (mode bits; name untouched)
	shapeSymlink      = "symlink"       // one symlink-mode entry
	shapeAfterDir     = "after-dir"     // directory entry "a/" then the file entry
	shapeAfterSymlink = "after-symlink" // symlink-mode entry "a" (target "../..") then the file entry
	// two symlink-mode entries that each stay inside the destination when read as text, then the file entry:
	//   "C:/ " -> ".."   (lexically <dest>/C:/.. = <dest>)
	//   "C:/ /a" -> ".." (lexically <dest>/C:; through the first link, were it created as a link: <dest>/a -> the parent of <dest>)
	// a file entry named a/... would then be written next to the destination although its name resolves inside
	shapeLinkChain = "after-link-chain"
	// an entry that designates the destination itself ("./", then "a/../" as a second spelling), then the file entry:
	// accepting the first must not make the parent of the destination an accepted place for what follows
	shapeAfterSelf  = "after-self"
	shapeAfterSelf2 = "after-self:a/../"
	// one entry whose unix mode is that of a named pipe / a character device / a socket
	shapeFifo    = "fifo"
	shapeCharDev = "chardev"
	shapeSocket  = "socket"
	// one file entry whose HEADER name is harmless (not valid UTF-8 in the first, plain ASCII in the second) and which
	// carries an Info-ZIP Unicode Path extra field, with a correct CRC of the header name, that spells the enumerated name:
	// a reader that prefers the recorded UTF-8 spelling must validate THAT. The reference of clause 3 is the header name.
	shapeUnicodePath      = "unicode-path-extra:header=non-utf8"
	shapeUnicodePathASCII = "unicode-path-extra:header=ascii"
)

// headerNameOf is the name the entry that carries the enumerated name has in the zip headers.
func headerNameOf(shape string, name []byte) []byte {
	switch shape {
	case shapeUnicodePath:
		return []byte("caf\xe9.txt")
	case shapeUnicodePathASCII:
		return []byte("cafe.txt")
	}
	return name
}

// Destination forms (what is passed to Unzip). The destination directory is called "a" (a token of the alphabet, so
// that names such as "../aa" reach a sibling sharing its name prefix). "abs" is <base>/a; the relative ones are
// resolved against the working directory <base>.
const (
	destName     = "a"
	destAbs      = "abs"
	destAbsSlash = "abs/"
	destRel      = "a"
	destDotRel   = "./a"
	destUpRel    = "a/../a"
	destDot      = "."
	destEmpty    = ""
)

// Limits modes.
const (
	limNone      = "none"      // Unzip(source, destination)
	limFlat      = "limits"    // UnzipWithContextAndLimits(DefaultNonRecursiveZipLimits())
	limRecursive = "recursive" // UnzipWithContextAndLimits(RecursiveZipLimits(-1))
)

// caseSpec is one case.
type caseSpec struct {
	Index      int64    `json:"index"`
	Block      string   `json:"block"`
	NameHex    string   `json:"name_hex"`
	NameQuoted string   `json:"name"` // Go-quoted, for the reader
	Shape      string   `json:"shape"`
	Outer      []string `json:"outer,omitempty"` // names of the enclosing archives' entries (nesting depth = len)
	Dest       string   `json:"dest"`
	DestExists bool     `json:"dest_exists"`
	Backend    string   `json:"backend"`
	Limits     string   `json:"limits"`
	Choices    []int    `json:"charset_choices,omitempty"` // which member of each charset tie wins (see prebuild.sh); nil = the first
	name       []byte
}

// target is a destination form on a backend.
type target struct{ dest, backend string }

func product(dests []string, backends ...string) []target {
	var ts []target
	for _, d := range dests {
		for _, b := range backends {
			ts = append(ts, target{d, b})
		}
	}
	return ts
}

// block is a full product of its dimensions.
type block struct {
	id         string
	names      [][]byte
	shapes     []string
	outers     [][]string // nil = not nested
	targets    []target
	destExists bool
	limits     []string
}

func (b *block) size() int64 {
	o := len(b.outers)
	if o == 0 {
		o = 1
	}
	return int64(len(b.names)) * int64(len(b.shapes)) * int64(o) * int64(len(b.targets)) * int64(len(b.limits))
}

// each calls f for every case of the block whose global index belongs to the shard; base is the global index
// of the block's first case.
func (b *block) each(base int64, shard, n int, f func(c *caseSpec)) {
	outers := b.outers
	if len(outers) == 0 {
		outers = [][]string{nil}
	}
	i := base
	for _, name := range b.names {
		for _, sh := range b.shapes {
			for _, ou := range outers {
				for _, tg := range b.targets {
					for _, li := range b.limits {
						if int(i%int64(n)) == shard {
							f(&caseSpec{Index: i, Block: b.id, name: name, Shape: sh, Outer: ou, Dest: tg.dest, DestExists: b.destExists, Backend: tg.backend, Limits: li})
						}
						i++
					}
				}
			}
		}
	}
}

type bound struct {
	AllFormsTokens    int      `json:"max_tokens_on_all_destination_forms"`
	FullTokens        int      `json:"max_tokens_on_core_destinations_all_shapes"`
	MainTokens        int      `json:"main_alphabet_max_tokens"`
	DeepTokens        int      `json:"deep_alphabet_max_tokens"`
	VariantTokens     int      `json:"variants_and_nested_main_alphabet_max_tokens"`
	VariantDeepTokens int      `json:"variants_and_nested_deep_alphabet_max_tokens"`
	AllDests          []string `json:"all_destination_forms"`
	NestedOuters      []string `json:"nested_outer_entry_chains"`
}

// space builds the blocks of a tier.
//
// Unzip starts with destination = filepath.Clean(destination): the seven destination forms collapse to the three
// "core" forms {absolute, "a", "."} right away, and under "." Unzip refuses every name that is not the destination
// itself. The blocks spend the budget accordingly (every block is a full product of the dimensions it lists):
//
//	all-forms : names <= AllFormsTokens            x {file, dir, after-dir} x 7 destination forms x {os, mem}
//	full      : names <= FullTokens (the rest)     x {file, dir, after-dir} x {abs, a} x {os, mem}, "." on mem
//	long      : names <= MainTokens (the rest)     x {file, dir} x {abs, a} on mem; {file} x {abs, a} on os   (thorough)
//	            names <= MainTokens (the rest)     x {file, dir} x abs x {os, mem}, a on mem                  (quick)
//	extras    : nine hand-picked longer names x {file, deflate, after-dir} x 7 forms x {os, mem} x {no limits, recursive}; nested
//	deep      : deep sub-alphabet <= DeepTokens    x {file, dir, after-dir} x abs x {os, mem}, a on mem
//	shapes    : variant names x {deflate, symlink, after-symlink, after-link-chain, after-self (two spellings), fifo, chardev, socket} x {abs, a} x {os, mem}
//	limits    : variant names x {file, dir} x {abs, a} x {os, mem} x {non-recursive limits, recursive limits}
//	dest-missing : variant names x {file, dir} x {abs, abs/, a, a/../a} x {os, mem}, destination absent
//	nested1/2 : variant names inside an inner archive at depth 1 / 2, recursive limits, {file, dir} x {abs, a} x {os, mem}
//
// variant names = main alphabet <= VariantTokens plus deep sub-alphabet <= VariantDeepTokens.
func space(thorough bool) ([]*block, bound) {
	all := []string{destAbs, destAbsSlash, destRel, destDotRel, destUpRel, destDot, destEmpty}
	bd := bound{AllFormsTokens: 2, FullTokens: 3, MainTokens: 4, DeepTokens: 6, VariantTokens: 2, VariantDeepTokens: 5, AllDests: all}
	if thorough {
		bd = bound{AllFormsTokens: 3, FullTokens: 4, MainTokens: 5, DeepTokens: 7, VariantTokens: 3, VariantDeepTokens: 6, AllDests: all}
	}
	seen := map[string]struct{}{"": {}}
	allFormsNames := enumNames(tokensT, 1, bd.AllFormsTokens, seen, [][]byte{{}}) // the empty name first
	fullNames := enumNames(tokensT, bd.AllFormsTokens+1, bd.FullTokens, seen, nil)
	longNames := enumNames(tokensT, bd.FullTokens+1, bd.MainTokens, seen, nil)
	deepNames := enumNames(tokensDeep, 1, bd.DeepTokens, seen, nil) // only what the main alphabet has not produced

	vs := map[string]struct{}{}
	variantNames := enumNames(tokensDeep, 1, bd.VariantDeepTokens, vs, enumNames(tokensT, 1, bd.VariantTokens, vs, nil))

	absRel := []string{destAbs, destRel}
	mainShapes := []string{shapeFile, shapeDir, shapeAfterDir}
	fileDir := []string{shapeFile, shapeDir}
	none := []string{limNone}
	rec := []string{limRecursive}
	// nested: the inner archive's destination is <dir of the nested file>/<its stem>; ".zip" and ".jar" have an empty
	// stem, so the innermost destination is the top-level destination again (one parent reference away from outside).
	// "...zip" has the stem "..": the inner archive would be extracted into the PARENT of the directory the nested
	// file is in; "..zip" has the stem "." (added after an independently seeded review found that the element-wise
	// parent-reference test no longer refuses such names).
	outers1 := [][]string{{"x.zip"}, {"a/x.zip"}, {".zip"}, {"...zip"}, {"a/...zip"}, {"..zip"}}
	outers2 := [][]string{{"x.zip", "x.zip"}, {".zip", ".jar"}, {"x.zip", "...zip"}, {"...zip", "...jar"}}
	for _, o := range append(append([][]string{}, outers1...), outers2...) {
		bd.NestedOuters = append(bd.NestedOuters, strings.Join(o, " > "))
	}

	longTargets := append(product([]string{destAbs}, "os", "mem"), target{destRel, "mem"})
	// hand-picked names beyond the token bound: the escape confirmed in DESIGN.md section 5 (12 tokens), a three-level
	// climb, and names for which ISO-2022-JP is TIED with a single-byte charset at the highest confidence (found by a
	// search over the detector): whether such a name leaves the destination depends on who wins the tie.
	extras := [][]byte{
		[]byte("x/.\x1b(B./.\x1b(B./evil\xe9"),
		[]byte("a/.\x1b(B./.\x1b(B./.\x1b(B./\xe9"),
		[]byte(".\x1b(B./a.C:\xe9"),
		[]byte(".\x1b(B./a/C:\xe9"),
		[]byte(".\x1b(B./a\\C:\xe9"),
		[]byte(".\x1b(B./a C:\xe9"),
		// the byte that triggers the transcoding sits in a DIRECTORY element: the directory part of the entry is itself a
		// name that is transcoded into something with parent references
		[]byte("x/.\x1b(B./.\x1b(B./evil\xe9/f"),
		[]byte("a/.\x1b(B./.\x1b(B./.\x1b(B./\xe9/a"),
		[]byte("x/.\x1b(B./.\x1b(B./.\x1b(B./planted\xff/evil.txt"),
		// escaping names that quote the texts by which the library recognises other error kinds (the refusal quotes the name)
		[]byte("../file exists"),
		[]byte("../i/o timeout"),
		[]byte("a/../../not supported/x"),
		[]byte("../bad file descriptor"),
	}
	// names in a legacy double-byte encoding (GBK) with enough ordinary text for the detector to have no doubt, in which the
	// parent reference is spelt with that encoding's FULL-WIDTH full stop and solidus (A3AE A3AE A3AF): harmless as bytes and
	// harmless once transcoded ("．．／name" is one path element) — unless somebody folds compatibility characters afterwards
	chinese := "使用说明和参数的中文文档我们这个是一个不在有人"
	for _, n := range []string{"．．／" + chinese + ".txt", "．．／．．／" + chinese + ".txt", chinese + "／．．／．．／．．／" + chinese, "‥／" + chinese + ".txt"} {
		if raw, err := simplifiedchinese.GBK.NewEncoder().String(n); err == nil {
			extras = append(extras, []byte(raw))
		}
	}
	if raw, err := simplifiedchinese.GBK.NewEncoder().String("．．"); err == nil {
		if tail, err := simplifiedchinese.GBK.NewEncoder().String(chinese + ".txt"); err == nil {
			extras = append(extras, []byte(raw+"/"+tail), []byte(raw+"/"+raw+"/"+tail))
		}
	}
	blocks := []*block{
		{id: "all-forms", names: allFormsNames, shapes: mainShapes, targets: product(all, "os", "mem"), destExists: true, limits: none},
		{id: "full", names: fullNames, shapes: mainShapes, targets: append(product(absRel, "os", "mem"), target{destDot, "mem"}), destExists: true, limits: none},
	}
	if thorough {
		blocks = append(blocks,
			&block{id: "long-mem", names: longNames, shapes: fileDir, targets: product(absRel, "mem"), destExists: true, limits: none},
			&block{id: "long-os", names: longNames, shapes: []string{shapeFile}, targets: product(absRel, "os"), destExists: true, limits: none})
	} else {
		blocks = append(blocks, &block{id: "long", names: longNames, shapes: fileDir, targets: longTargets, destExists: true, limits: none})
	}
	blocks = append(blocks,
		&block{id: "extras", names: extras, shapes: []string{shapeFile, shapeDeflate, shapeAfterDir}, targets: product(all, "os", "mem"), destExists: true, limits: []string{limNone, limRecursive}},
		&block{id: "extras-nested", names: extras, shapes: []string{shapeFile}, outers: [][]string{{".zip"}, {".zip", ".jar"}}, targets: product(absRel, "os", "mem"), destExists: true, limits: rec},
		&block{id: "deep", names: deepNames, shapes: mainShapes, targets: longTargets, destExists: true, limits: none},
		&block{id: "shapes", names: variantNames, shapes: []string{shapeDeflate, shapeSymlink, shapeAfterSymlink, shapeLinkChain, shapeAfterSelf, shapeAfterSelf2, shapeFifo, shapeCharDev, shapeSocket, shapeUnicodePath, shapeUnicodePathASCII}, targets: product(absRel, "os", "mem"), destExists: true, limits: none},
		&block{id: "limits", names: variantNames, shapes: fileDir, targets: product(absRel, "os", "mem"), destExists: true, limits: []string{limFlat, limRecursive}},
		&block{id: "dest-missing", names: variantNames, shapes: fileDir, targets: product([]string{destAbs, destAbsSlash, destRel, destUpRel}, "os", "mem"), destExists: false, limits: none},
		&block{id: "nested1", names: variantNames, shapes: fileDir, outers: outers1, targets: product(absRel, "os", "mem"), destExists: true, limits: rec},
		&block{id: "nested2", names: variantNames, shapes: fileDir, outers: outers2, targets: product(absRel, "os", "mem"), destExists: true, limits: rec},
	)
	return blocks, bd
}

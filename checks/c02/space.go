package c02

// The case space: entry names (token sequences), archive shapes, destinations, backends, limits modes.
// Every case has a global index (its position in the fixed enumeration order below); shard k of n runs
// the cases with index % n == k. A case is fully described by its caseSpec (that is what a replay stores).

// tokensT is the alphabet of DESIGN.md C02: separators and dots (filepath.Join/Clean), things that look like
// volume names / blanks, a name with an archive extension, ISO-2022 escape sequences and high bytes (names that
// are not valid UTF-8 are transcoded AFTER sanitisation by whatever charset the detector guesses).
var tokensT = [][]byte{
	[]byte("a"), []byte("."), []byte(".."), []byte("/"), []byte("\\"), []byte("x.zip"), []byte(" "), []byte("C:"),
	{0x1b, '(', 'B'}, {0x1b, '$', 'B'}, {0xE9}, {0x83, 0x5C}, {0x8E}, {0xFF},
}

// tokensDeep is the sub-alphabet explored to a greater length: what is needed to reach the transcoder with
// parent references (dot, separator, the escape sequence that returns to ASCII, one high byte, one letter).
var tokensDeep = [][]byte{[]byte("."), []byte("/"), {0x1b, '(', 'B'}, {0xE9}, []byte("a")}

// enumNames appends every concatenation of minLen..maxLen tokens, shortest first, in odometer order, skipping
// byte strings already produced (e.g. "." "." and "..").
func enumNames(tokens [][]byte, minLen, maxLen int, seen map[string]struct{}, out [][]byte) [][]byte {
	for l := minLen; l <= maxLen; l++ {
		idx := make([]int, l)
		for {
			var b []byte
			for _, i := range idx {
				b = append(b, tokens[i]...)
			}
			if _, dup := seen[string(b)]; !dup {
				seen[string(b)] = struct{}{}
				out = append(out, b)
			}
			k := l - 1
			for k >= 0 {
				idx[k]++
				if idx[k] < len(tokens) {
					break
				}
				idx[k] = 0
				k--
			}
			if k < 0 {
				break
			}
		}
	}
	return out
}

// Archive shapes.
const (
	shapeFile         = "file"          // one stored regular file entry
	shapeDeflate      = "deflate"       // one deflated regular file entry
	shapeDir          = "dir"           // one directory entry (mode bits; name untouched)
	shapeSymlink      = "symlink"       // one symlink-mode entry
	shapeAfterDir     = "after-dir"     // directory entry "a/" then the file entry
	shapeAfterSymlink = "after-symlink" // symlink-mode entry "a" (target "../..") then the file entry
)

// Destination forms (what is passed to Unzip). "abs" is <base>/d; the relative ones are resolved against the
// working directory <base>.
const (
	destAbs      = "abs"
	destAbsSlash = "abs/"
	destRel      = "d"
	destDotRel   = "./d"
	destUpRel    = "d/../d"
	destDot      = "."
	destEmpty    = ""
)

// Limits modes.
const (
	limNone      = "none"      // Unzip(source, destination)
	limFlat      = "limits"    // UnzipWithContextAndLimits(DefaultNonRecursiveZipLimits())
	limRecursive = "recursive" // UnzipWithContextAndLimits(RecursiveZipLimits(-1))
)

// caseSpec is one case.
type caseSpec struct {
	Index      int64    `json:"index"`
	Block      string   `json:"block"`
	NameHex    string   `json:"name_hex"`
	NameQuoted string   `json:"name"` // Go-quoted, for the reader
	Shape      string   `json:"shape"`
	Outer      []string `json:"outer,omitempty"` // names of the enclosing archives' entries (nesting depth = len)
	Dest       string   `json:"dest"`
	DestExists bool     `json:"dest_exists"`
	Backend    string   `json:"backend"`
	Limits     string   `json:"limits"`
	name       []byte
}

// block is a full product of its dimensions.
type block struct {
	id         string
	names      [][]byte
	shapes     []string
	outers     [][]string // nil = not nested
	dests      []string
	destExists []bool
	backends   []string
	limits     []string
}

func (b *block) size() int64 {
	o := len(b.outers)
	if o == 0 {
		o = 1
	}
	return int64(len(b.names)) * int64(len(b.shapes)) * int64(o) * int64(len(b.dests)) * int64(len(b.destExists)) * int64(len(b.backends)) * int64(len(b.limits))
}

// each calls f for every case of the block whose global index belongs to the shard; base is the global index
// of the block's first case.
func (b *block) each(base int64, shard, n int, f func(c *caseSpec)) {
	outers := b.outers
	if len(outers) == 0 {
		outers = [][]string{nil}
	}
	i := base
	for _, name := range b.names {
		for _, sh := range b.shapes {
			for _, ou := range outers {
				for _, d := range b.dests {
					for _, de := range b.destExists {
						for _, be := range b.backends {
							for _, li := range b.limits {
								if int(i%int64(n)) == shard {
									f(&caseSpec{Index: i, Block: b.id, name: name, Shape: sh, Outer: ou, Dest: d, DestExists: de, Backend: be, Limits: li})
								}
								i++
							}
						}
					}
				}
			}
		}
	}
}

type bound struct {
	MainTokensAllDests int      `json:"main_alphabet_max_tokens_all_destinations"`
	MainTokens         int      `json:"main_alphabet_max_tokens"`
	DeepTokens         int      `json:"deep_alphabet_max_tokens"`
	VariantTokens      int      `json:"variants_max_tokens"`
	VariantDeepTokens  int      `json:"variants_deep_alphabet_max_tokens"`
	Nest1Tokens        int      `json:"nested_depth1_max_tokens"`
	Nest2Tokens        int      `json:"nested_depth2_max_tokens"`
	AllDests           []string `json:"all_destinations"`
	CoreDests          []string `json:"core_destinations"`
}

// space builds the blocks of a tier.
//
// Unzip starts with destination = filepath.Clean(destination); the seven destination forms therefore collapse to the
// three "core" forms {absolute, "d", "."} right away. Names up to MainTokensAllDests tokens are run on all seven forms and
// both backends; the longest names and the deep sub-alphabet on the core forms, where "." (under which Unzip refuses
// every name that is not the destination itself) is run on the in-memory backend only.
func space(thorough bool) ([]*block, bound) {
	core := []string{destAbs, destRel, destDot}
	all := []string{destAbs, destAbsSlash, destRel, destDotRel, destUpRel, destDot, destEmpty}
	bd := bound{MainTokensAllDests: 3, MainTokens: 4, DeepTokens: 6, VariantTokens: 3, VariantDeepTokens: 5, Nest1Tokens: 3, Nest2Tokens: 2, AllDests: all, CoreDests: core}
	if thorough {
		bd = bound{MainTokensAllDests: 4, MainTokens: 5, DeepTokens: 7, VariantTokens: 3, VariantDeepTokens: 6, Nest1Tokens: 4, Nest2Tokens: 3, AllDests: all, CoreDests: core}
	}
	both := []string{"os", "mem"}
	yes := []bool{true}

	seen := map[string]struct{}{"": {}}
	shortNames := enumNames(tokensT, 1, bd.MainTokensAllDests, seen, [][]byte{{}}) // the empty name first
	longNames := enumNames(tokensT, bd.MainTokensAllDests+1, bd.MainTokens, seen, nil)
	deepNames := enumNames(tokensDeep, 1, bd.DeepTokens, seen, nil) // only what the main alphabet has not produced

	// variant / nested blocks: the main alphabet to fewer tokens, plus the deep sub-alphabet
	pick := func(maxTok int) [][]byte {
		s := map[string]struct{}{}
		names := enumNames(tokensT, 1, maxTok, s, nil)
		return enumNames(tokensDeep, 1, bd.VariantDeepTokens, s, names)
	}
	variantNames := pick(bd.VariantTokens)
	nest1Names := pick(bd.Nest1Tokens)
	nest2Names := pick(bd.Nest2Tokens)
	absRel := []string{destAbs, destRel}
	dot := []string{destDot}
	memOnly := []string{"mem"}

	mainShapes := []string{shapeFile, shapeDir, shapeAfterDir}
	blocks := []*block{
		{id: "main-short", names: shortNames, shapes: mainShapes, dests: all, destExists: yes, backends: both, limits: []string{limNone}},
		{id: "main-long", names: longNames, shapes: mainShapes, dests: absRel, destExists: yes, backends: both, limits: []string{limNone}},
		{id: "main-long-dot", names: longNames, shapes: mainShapes, dests: dot, destExists: yes, backends: memOnly, limits: []string{limNone}},
		{id: "deep", names: deepNames, shapes: mainShapes, dests: absRel, destExists: yes, backends: both, limits: []string{limNone}},
		{id: "deep-dot", names: deepNames, shapes: mainShapes, dests: dot, destExists: yes, backends: memOnly, limits: []string{limNone}},
		{id: "shapes", names: variantNames, shapes: []string{shapeDeflate, shapeSymlink, shapeAfterSymlink}, dests: []string{destAbs, destRel}, destExists: yes, backends: both, limits: []string{limNone}},
		{id: "limits", names: variantNames, shapes: []string{shapeFile, shapeDir}, dests: []string{destAbs, destRel}, destExists: yes, backends: both, limits: []string{limFlat, limRecursive}},
		{id: "dest-missing", names: variantNames, shapes: []string{shapeFile, shapeDir}, dests: []string{destAbs, destAbsSlash, destRel, destUpRel}, destExists: []bool{false}, backends: both, limits: []string{limNone}},
		{id: "nested1", names: nest1Names, shapes: []string{shapeFile, shapeDir}, outers: [][]string{{"x.zip"}, {"a/x.zip"}, {".zip"}}, dests: []string{destAbs, destRel}, destExists: yes, backends: both, limits: []string{limRecursive}},
		{id: "nested2", names: nest2Names, shapes: []string{shapeFile, shapeDir}, outers: [][]string{{"x.zip", "x.zip"}, {"a/x.zip", ".zip"}}, dests: []string{destAbs, destRel}, destExists: yes, backends: both, limits: []string{limRecursive}},
	}
	return blocks, bd
}

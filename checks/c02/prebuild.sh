#!/bin/bash
# C02 prebuild: generates .build/overlay-C02.json from /repo's CURRENT utils/charset/charset.go (nothing under /repo is
# modified; if the call site below is no longer there the check runs on the unmodified file: the tie is then resolved by
# the goroutine schedule, one resolution per case, and the evidence says so).
#
# The repository asks github.com/gogs/chardet for the "best" charset of a path that is not valid UTF-8:
#     chardet.NewTextDetector().DetectBest(content)
# DetectBest runs its 40 recognisers in goroutines and keeps the FIRST result to arrive among those reporting the
# highest confidence. With several charsets tied at the top (about 30 % of the non-UTF-8 paths of this check, e.g.
# "ISO-2022-JP vs windows-1254 at 60") the winner depends on the goroutine schedule. The overlay replaces that one call
# by verifDetectBest, which computes the same tie set through chardet's public DetectAll and lets the harness choose,
# call by call, WHICH member wins (env VERIF_CHARDET_CHOICES) while reporting the size of every tie set it met (env
# VERIF_CHARDET_TIES): the check enumerates every resolution of that nondeterminism instead of sampling one.
# The set of possible results is exactly that of the original: any member of the top tie can be delivered first.
set -e
cd "$(dirname "$(readlink -f "$0")")/../.."
src=/repo/utils/charset/charset.go
mkdir -p .build/c02
rc=0
python3 - "$src" .build/c02/charset.go <<'PY' || rc=$?
import sys
s = open(sys.argv[1]).read()
call = "chardet.NewTextDetector().DetectBest(content)"
if s.count(call) != 1 or 'import (\n' not in s:
    sys.stderr.write("[C02] note: utils/charset/charset.go no longer has the DetectBest call site the overlay instruments; charset ties are not enumerated\n")
    open(sys.argv[2] + ".absent", "w").write("call site not found\n")
    sys.exit(3)
s = s.replace(call, "verifDetectBest(content)")
s = s.replace('import (\n', 'import (\n\tverifos "os"\n\tverifsort "sort"\n\tverifstrconv "strconv"\n\tverifstrings "strings"\n', 1)
s += '''
// verifDetectBest is added by /verif/checks/c02/prebuild.sh (build overlay only): DetectBest with the winner among
// the charsets tied at the highest confidence chosen by the harness instead of by the goroutine schedule.
func verifDetectBest(content []byte) (*chardet.Result, error) {
	all, err := chardet.NewTextDetector().DetectAll(content)
	if err != nil {
		return nil, err
	}
	var ties []chardet.Result // DetectAll: sorted by confidence, one entry per charset
	for _, r := range all {
		if r.Confidence == all[0].Confidence {
			ties = append(ties, r)
		}
	}
	verifsort.Slice(ties, func(i, j int) bool { return ties[i].Charset < ties[j].Charset })
	call := 0
	sizes := verifos.Getenv("VERIF_CHARDET_TIES")
	if sizes != "" {
		call = verifstrings.Count(sizes, ",") + 1
		sizes += ","
	}
	_ = verifos.Setenv("VERIF_CHARDET_TIES", sizes+verifstrconv.Itoa(len(ties)))
	k := 0
	if cs := verifstrings.Split(verifos.Getenv("VERIF_CHARDET_CHOICES"), ","); call < len(cs) {
		k, _ = verifstrconv.Atoi(cs[call])
	}
	return &ties[k%len(ties)], nil
}
'''
open(sys.argv[2], "w").write(s)
PY
if [ $rc = 3 ]; then printf '{"Replace": {}}\n' > .build/overlay-C02.json; exit 0; fi
[ $rc = 0 ] || exit $rc
rm -f .build/c02/charset.go.absent
printf '{"Replace": {"%s": "%s"}}\n' "$src" "$PWD/.build/c02/charset.go" > .build/overlay-C02.json

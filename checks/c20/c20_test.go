// C20 — a digest depends only on the algorithm and the bytes.
//
// Explicit enumeration of every history of <= H calculations on ONE hasher object over the alphabet
// {ok(content, chunking), fails-at-byte-k, cancelled-at-byte-k}; after every successful calculation the
// digest is compared with the one-shot digest of the reference package on a fresh state.
// File hashing: same oracle through FileHash / IFileHash on the in-memory and the OS backend.
package c20

import (
	"archive/tar"
	"context"
	"crypto/md5"
	"crypto/sha1"
	"crypto/sha256"
	"encoding/hex"
	"errors"
	"fmt"
	"hash"
	"io"
	"os"
	"path/filepath"
	"strings"
	"sync"
	"sync/atomic"
	"syscall"
	"testing"
	"testing/synctest"
	"time"

	"github.com/ARM-software/golang-utils/utils/filesystem"
	"github.com/ARM-software/golang-utils/utils/hashing"
	"github.com/OneOfOne/xxhash"
	"github.com/spaolacci/murmur3"
	"github.com/spf13/afero"
	"golang.org/x/crypto/blake2b"

	ev "verif/engine/evidence"
	"verif/engine/vfsx"
)

func TestMain(m *testing.M) { ev.Main(m) }

var algos = []string{hashing.HashMd5, hashing.HashSha1, hashing.HashSha256, hashing.HashBlake2256, hashing.HashXXHash, hashing.HashMurmur}

func reference(algo string, data []byte) string {
	var h hash.Hash
	switch algo {
	case hashing.HashMd5:
		h = md5.New()
	case hashing.HashSha1:
		h = sha1.New()
	case hashing.HashSha256:
		h = sha256.New()
	case hashing.HashBlake2256:
		h, _ = blake2b.New256(nil)
	case hashing.HashXXHash:
		h = xxhash.New64()
	case hashing.HashMurmur:
		h = murmur3.New64()
	}
	h.Write(data)
	return hex.EncodeToString(h.Sum(nil))
}

// op is one letter of the alphabet.
type op struct {
	Kind  string // ok | fail | cancel
	Len   int    // content length
	Chunk int    // reader chunk size (0 = everything at once; -1 = everything at once, together with io.EOF; -7 = chunks of 7, the last one together with io.EOF)
	At    int    // byte at which the reader fails / the context is cancelled
	Str   bool   // ok: through CalculateStringHash(hasher, text) instead of the reader entry point
	Err   string // fail: "" = an error of the harness's own; "unexpected-eof" = io.ErrUnexpectedEOF; "wrapped-eof" = an error wrapping io.EOF
	// EmptyEvery > 0 (ok): every EmptyEvery-th Read returns (0, nil) before the end of the data
	EmptyEvery int
}

func (o op) String() string {
	switch o.Kind {
	case "ok":
		if o.Str {
			return fmt.Sprintf("ok-string(len=%d)", o.Len)
		}
		if o.EmptyEvery > 0 {
			return fmt.Sprintf("ok(len=%d,chunk=%d,every-%d-th-read-empty)", o.Len, o.Chunk, o.EmptyEvery)
		}
		return fmt.Sprintf("ok(len=%d,chunk=%d)", o.Len, o.Chunk)
	default:
		if o.Err != "" {
			return fmt.Sprintf("%s(len=%d,at=%d,error=%s)", o.Kind, o.Len, o.At, o.Err)
		}
		return fmt.Sprintf("%s(len=%d,at=%d)", o.Kind, o.Len, o.At)
	}
}

func content(n int, salt byte) []byte {
	b := make([]byte, n)
	for i := range b {
		b[i] = byte(i*7+3) ^ salt
	}
	return b
}

var errInjected = errors.New("injected read failure")

// scriptedReader delivers data in chunks and fails / cancels at a byte position.
type scriptedReader struct {
	data        []byte
	pos         int
	chunk       int
	eofWithData bool // the last bytes are returned together with io.EOF (allowed by the io.Reader contract; flate/zip readers do it)
	failAt      int  // -1 never
	failWith    string
	cancel      context.CancelFunc
	cancAt      int // -1 never
	// emptyEvery > 0: every emptyEvery-th call returns (0, nil) before the end of the data, which the io.Reader contract
	// allows ("discouraged"): a reader that has nothing to give right now
	emptyEvery int
	calls      int
}

func (r *scriptedReader) Read(p []byte) (int, error) {
	if r.failAt >= 0 && r.pos >= r.failAt {
		switch r.failWith {
		case "unexpected-eof": // what a truncated compressed stream or a short body yields
			return 0, io.ErrUnexpectedEOF
		case "wrapped-eof":
			return 0, fmt.Errorf("connection reset by peer: %w", io.EOF)
		}
		return 0, errInjected
	}
	if r.cancAt >= 0 && r.pos >= r.cancAt {
		r.cancel()
	}
	if r.pos >= len(r.data) {
		return 0, io.EOF
	}
	if r.calls++; r.emptyEvery > 0 && r.calls%r.emptyEvery == 0 && len(p) > 0 {
		return 0, nil
	}
	n := len(p)
	if r.chunk > 0 && n > r.chunk {
		n = r.chunk
	}
	lim := len(r.data)
	if r.failAt >= 0 && r.failAt < lim {
		lim = r.failAt
	}
	if r.cancAt >= 0 && r.cancAt < lim && r.cancAt > r.pos {
		lim = r.cancAt
	}
	if r.pos+n > lim {
		n = lim - r.pos
	}
	if n == 0 && r.pos < len(r.data) {
		n = 1
	}
	copy(p, r.data[r.pos:r.pos+n])
	r.pos += n
	if r.eofWithData && r.pos >= len(r.data) && r.failAt < 0 && r.cancAt < 0 {
		return n, io.EOF
	}
	return n, nil
}

func alphabet(thorough bool) []op {
	lens := []int{0, 1, 63, 64, 65, 4096}
	var a []op
	for _, l := range lens {
		chunks := []int{0, 7}
		if l <= 65 && l > 0 {
			chunks = append(chunks, 1)
		}
		if l > 0 {
			chunks = append(chunks, -1, -7) // last bytes delivered together with io.EOF
		}
		for _, c := range chunks {
			a = append(a, op{Kind: "ok", Len: l, Chunk: c})
		}
		if l >= 63 {
			a = append(a, op{Kind: "ok", Len: l, Chunk: 7, EmptyEvery: 3}, op{Kind: "ok", Len: l, Chunk: 0, EmptyEvery: 2 + l%2})
		}
	}
	for _, l := range []int{0, 1, 65} {
		a = append(a, op{Kind: "ok", Len: l, Str: true})
	}
	for _, at := range []int{0, 1, 64} {
		a = append(a, op{Kind: "fail", Len: 100, At: at}, op{Kind: "cancel", Len: 100, At: at})
		a = append(a, op{Kind: "fail", Len: 100, At: at, Err: "unexpected-eof"}, op{Kind: "fail", Len: 100, At: at, Err: "wrapped-eof"})
	}
	if thorough {
		a = append(a, op{Kind: "ok", Len: 1 << 20, Chunk: 4096}, op{Kind: "fail", Len: 1 << 20, At: 1<<19 + 5}, op{Kind: "cancel", Len: 1 << 20, At: 1 << 19})
	}
	return a
}

// apply runs one op on the hasher; for "ok" it returns the digest and the reference.
func apply(h hashing.IHash, algo string, o op, salt byte) (got, want string, err error) {
	data := content(o.Len, salt)
	ctx, cancel := context.WithCancel(context.Background())
	defer cancel()
	r := &scriptedReader{data: data, chunk: o.Chunk, failAt: -1, cancAt: -1, cancel: cancel, emptyEvery: o.EmptyEvery}
	if o.Chunk < 0 {
		r.eofWithData = true
		r.chunk = -o.Chunk
		if o.Chunk == -1 {
			r.chunk = 0
		}
	}
	switch o.Kind {
	case "fail":
		r.failAt, r.failWith = o.At, o.Err
	case "cancel":
		r.cancAt = o.At
	}
	func() {
		defer func() {
			if pv := recover(); pv != nil {
				err = fmt.Errorf("%w: %v", errPanicked, pv)
			}
		}()
		if o.Kind == "ok" && o.Str {
			if got = hashing.CalculateStringHash(h, string(data)); got == "" {
				err = errors.New("CalculateStringHash returned the empty string")
			}
			return
		}
		got, err = h.CalculateWithContext(ctx, r)
	}()
	if o.Kind == "ok" {
		want = reference(algo, data)
	}
	return
}

var errPanicked = errors.New("the calculation panicked")

// readInterrupter is a vfsx hook built from two closures.
type readInterrupter struct {
	before func(*vfsx.Op) *vfsx.Inject
	after  func(*vfsx.Op)
}

func (h *readInterrupter) Before(op *vfsx.Op) *vfsx.Inject { return h.before(op) }
func (h *readInterrupter) After(op *vfsx.Op)               { h.after(op) }

type violation struct {
	Algo    string   `json:"algo"`
	History []string `json:"history"`
	Got     string   `json:"got"`
	Want    string   `json:"want"`
	Note    string   `json:"note,omitempty"`
}

func TestC20(t *testing.T) {
	rep := ev.NewReporter("C20", "model_checking")
	depth := 2
	if ev.Thorough() {
		depth = 3
	}
	alpha := alphabet(ev.Thorough())
	var states, transitions, validated, okCalcs atomic.Int64
	var samples []any
	var smu sync.Mutex

	// all histories of length 1..depth: a history is a state of the search; its successors are history+op
	var wg sync.WaitGroup
	for _, algo := range algos {
		algo := algo
		for first := range alpha {
			first := first
			wg.Add(1)
			go func() {
				defer wg.Done()
				idx := make([]int, depth)
				var rec func(level int)
				rec = func(level int) {
					if level > 0 {
						states.Add(1)
						// replay the history on a FRESH hasher (live objects cannot be copied)
						h, err := hashing.NewHashingAlgorithm(algo)
						if err != nil {
							rep.EngineError("cannot create %s: %v", algo, err)
							return
						}
						var hist []string
						prev := "none"
						type keptDigest struct{ asReturned, copyMadeThen string }
						var kept []keptDigest
						for k := 0; k < level; k++ {
							o := alpha[idx[k]]
							hist = append(hist, o.String())
							got, want, err := apply(h, algo, o, byte(k+1))
							transitions.Add(1)
							if k == level-1 && errors.Is(err, errPanicked) {
								rep.Violation(fmt.Sprintf("panic:algo=%s:prev=%s", algo, prev), violation{algo, append([]string(nil), hist...), err.Error(), want, ""})
							}
							// a digest handed out earlier stays what it was, whatever the hasher computes afterwards
							if k == level-1 {
								for _, kd := range kept {
									if kd.asReturned != kd.copyMadeThen {
										rep.Violation(fmt.Sprintf("earlier-digest-changed:algo=%s", algo), violation{algo, append([]string(nil), hist...), kd.asReturned, kd.copyMadeThen, "a digest returned by an earlier calculation reads differently after a later calculation on the same hasher"})
										break
									}
								}
							}
							if o.Kind == "ok" && err == nil {
								kept = append(kept, keptDigest{got, strings.Clone(got)})
							}
							switch o.Kind {
							case "ok":
								if k == level-1 { // only the last step is new; earlier ones were checked in the parent state
									okCalcs.Add(1)
									if err != nil {
										rep.Violation(fmt.Sprintf("calculation-failed:algo=%s:prev=%s", algo, prev), violation{algo, hist, err.Error(), want, "a calculation on a healthy reader returned an error"})
									} else if got != want {
										rep.Violation(fmt.Sprintf("wrong-digest:algo=%s:prev=%s", algo, prev), violation{algo, append([]string(nil), hist...), got, want, ""})
									} else {
										validated.Add(1)
									}
								}
							default:
								if k == level-1 && err == nil {
									rep.Violation(fmt.Sprintf("error-swallowed:algo=%s:kind=%s%s", algo, o.Kind, map[bool]string{true: ":error=" + o.Err, false: ""}[o.Err != ""]), violation{algo, hist, got, "", "a failing / cancelled calculation returned no error"})
								}
							}
							prev = o.Kind
						}
						if level == depth && idx[0] == 3 && idx[level-1] == 5 {
							smu.Lock()
							if len(samples) < 6 {
								samples = append(samples, map[string]any{"algo": algo, "history": hist})
							}
							smu.Unlock()
						}
					}
					if level == depth {
						return
					}
					if level == 0 {
						idx[0] = first
						rec(1)
						return
					}
					for i := range alpha {
						idx[level] = i
						rec(level + 1)
					}
				}
				rec(0)
			}()
		}
	}
	wg.Wait()

	// file hashing on both backends, after a failed / cancelled calculation with the same IFileHash object
	fileCases, concurrentCases := 0, 0
	dir, err := os.MkdirTemp("/dev/shm", "verif-c20-")
	if err != nil {
		dir, err = os.MkdirTemp("", "verif-c20-")
	}
	if err != nil {
		rep.EngineError("no temp dir: %v", err)
	} else {
		defer os.RemoveAll(dir)
		backends := map[string]filesystem.FS{"mem": filesystem.NewFs(filesystem.InMemoryFS), "os": filesystem.NewFs(filesystem.StandardFS)}
		for bname, fs := range backends {
			root := dir
			if bname == "mem" {
				root = "/c20"
				_ = fs.MkDir(root)
			}
			for _, algo := range algos {
				for _, l := range []int{0, 1, 65, 4096, 100000} {
					data := content(l, 9)
					p := filepath.Join(root, fmt.Sprintf("f%d", l))
					var werr error
					if l == 0 {
						f, e := fs.CreateFile(p) // WriteFile refuses empty contents
						if e == nil {
							e = f.Close()
						}
						werr = e
					} else {
						werr = fs.WriteFile(p, data, 0o644)
					}
					if err := werr; err != nil {
						rep.EngineError("write %s: %v", p, err)
						continue
					}
					want := reference(algo, data)
					for _, prev := range []string{"none", "cancel", "ok"} {
						fh, err := filesystem.NewFileHash(algo)
						if err != nil {
							rep.EngineError("NewFileHash: %v", err)
							continue
						}
						switch prev {
						case "cancel":
							ctx, cancel := context.WithCancel(context.Background())
							cancel()
							_, _ = fh.CalculateFileWithContext(ctx, fs, p)
						case "ok":
							_, _ = fh.CalculateFile(fs, p)
						}
						got, err := fh.CalculateFile(fs, p)
						fileCases++
						transitions.Add(1)
						if err != nil || got != want {
							rep.Violation(fmt.Sprintf("wrong-file-digest:backend=%s:algo=%s:prev=%s", bname, algo, prev), map[string]any{"path": p, "len": l, "got": got, "want": want, "err": fmt.Sprint(err)})
						}
						got2, err := fs.FileHash(algo, p)
						if err != nil || got2 != want {
							rep.Violation(fmt.Sprintf("wrong-FileHash:backend=%s:algo=%s", bname, algo), map[string]any{"path": p, "len": l, "got": got2, "want": want, "err": fmt.Sprint(err)})
						}
					}
				}
			}
		}
		// the same files reached another way: through a symbolic link to the file and through a linked directory (OS
		// backend), and as members of a zip archive opened as a filesystem (the zip backend)
		osfs := backends["os"]
		lens := []int{0, 1, 65, 4096, 100000}
		_ = os.Symlink(dir, dir+"-linked-directory")
		defer os.Remove(dir + "-linked-directory")
		for _, l := range lens {
			_ = os.Symlink(filepath.Join(dir, fmt.Sprintf("f%d", l)), filepath.Join(dir, fmt.Sprintf("link-to-f%d", l)))
		}
		zipPath := dir + "-archive.zip"
		defer os.Remove(zipPath)
		var zfs filesystem.ICloseableFS
		if err := osfs.Zip(dir, zipPath); err != nil {
			rep.EngineError("zip of the file set: %v", err)
		} else if z, zf, err := filesystem.NewZipFileSystemFromStandardFileSystem(zipPath, filesystem.NoLimits()); err != nil {
			rep.EngineError("zip filesystem: %v", err)
		} else {
			zfs = z
			defer func() { _ = z.Close(); _ = zf.Close() }()
		}
		type way struct {
			name  string
			fs    filesystem.FS
			path  func(l int) string
			mount func() (filesystem.FS, func()) // non-nil: a fresh mount per algorithm instead of fs
		}
		// a link to a directory that lies elsewhere, left again through "..": <dir>-via/lnk/../f<l> is <elsewhere>/f<l> (the parent
		// of the link's TARGET), whereas simplifying the text gives <dir>-via/f<l> — another file, which exists, with other bytes
		elsewhere := dir + "-elsewhere"
		defer os.RemoveAll(elsewhere)
		_ = os.MkdirAll(filepath.Join(elsewhere, "target"), 0o755)
		via := dir + "-via" // beside the file set, not in it: the set is archived again further down
		defer os.RemoveAll(via)
		_ = os.MkdirAll(via, 0o755)
		_ = os.Symlink(filepath.Join(elsewhere, "target"), filepath.Join(via, "lnk"))
		for _, l := range lens {
			_ = os.WriteFile(filepath.Join(elsewhere, fmt.Sprintf("f%d", l)), content(l, 9), 0o644)
			_ = os.WriteFile(filepath.Join(via, fmt.Sprintf("f%d", l)), content(l+1, 17), 0o644) // the decoy
		}
		ways := []way{
			{name: "os-through-linked-directory-and-back-out", fs: osfs, path: func(l int) string { return filepath.Join(via, "lnk") + "/../" + fmt.Sprintf("f%d", l) }},
			{name: "os-through-link", fs: osfs, path: func(l int) string { return filepath.Join(dir, fmt.Sprintf("link-to-f%d", l)) }},
			{name: "os-through-linked-directory", fs: osfs, path: func(l int) string { return filepath.Join(dir+"-linked-directory", fmt.Sprintf("f%d", l)) }},
		}
		if zfs != nil {
			ways = append(ways, way{name: "zip", fs: zfs, path: func(l int) string { return fmt.Sprintf("f%d", l) }})
		}
		// ... and as members of a tar archive opened as a filesystem (the tar backend; the archive is written by the harness)
		tarPath := dir + "-archive.tar"
		defer os.Remove(tarPath)
		if tf, err := os.Create(tarPath); err != nil {
			rep.EngineError("tar of the file set: %v", err)
		} else {
			tw := tar.NewWriter(tf)
			for _, l := range lens {
				data := content(l, 9)
				_ = tw.WriteHeader(&tar.Header{Name: fmt.Sprintf("f%d", l), Mode: 0o644, Size: int64(len(data)), ModTime: time.Unix(1700000000, 0), Typeflag: tar.TypeReg})
				_, _ = tw.Write(data)
			}
			_ = tw.Close()
			_ = tf.Close()
			// mounted afresh for every algorithm: what an earlier reader of a member left behind is then part of the case (first
			// call, second call, third call on one mount), not of the order in which the algorithms are gone through
			ways = append(ways, way{name: "tar", path: func(l int) string { return fmt.Sprintf("f%d", l) }, mount: func() (filesystem.FS, func()) {
				tfs, th, err := filesystem.NewTarFileSystemFromStandardFileSystem(tarPath, filesystem.NoLimits())
				if err != nil {
					rep.EngineError("tar filesystem: %v", err)
					return nil, func() {}
				}
				return tfs, func() { _ = tfs.Close(); _ = th.Close() }
			}})
		}
		// history on the file side: the same hasher object asked about a file of the same name, size and modification
		// time but other bytes — a second archive mounted as a filesystem, and a file rewritten in place on the OS and
		// memory backends
		dirB := dir + "-b"
		zipB := dir + "-archive-b.zip"
		defer os.RemoveAll(dirB)
		defer os.Remove(zipB)
		stamp := time.Date(2021, 3, 4, 5, 6, 8, 0, time.UTC)
		var zfsB filesystem.ICloseableFS
		if err := os.MkdirAll(dirB, 0o755); err == nil {
			for _, l := range lens {
				pa, pb := filepath.Join(dir, fmt.Sprintf("f%d", l)), filepath.Join(dirB, fmt.Sprintf("f%d", l))
				_ = os.WriteFile(pb, content(l, 77), 0o644)
				_ = os.Chtimes(pa, stamp, stamp)
				_ = os.Chtimes(pb, stamp, stamp)
			}
			zipA2 := dir + "-archive-a2.zip"
			defer os.Remove(zipA2)
			var zfsA2 filesystem.ICloseableFS
			if err := osfs.Zip(dir, zipA2); err == nil {
				if z, zf, err := filesystem.NewZipFileSystemFromStandardFileSystem(zipA2, filesystem.NoLimits()); err == nil {
					zfsA2 = z
					defer func() { _ = z.Close(); _ = zf.Close() }()
				}
			}
			if err := osfs.Zip(dirB, zipB); err == nil {
				if z, zf, err := filesystem.NewZipFileSystemFromStandardFileSystem(zipB, filesystem.NoLimits()); err == nil {
					zfsB = z
					defer func() { _ = z.Close(); _ = zf.Close() }()
				}
			}
			if zfsA2 == nil || zfsB == nil {
				rep.EngineError("second archive of the file-history part could not be mounted")
			} else {
				for _, algo := range algos {
					for _, l := range lens {
						fh, err := filesystem.NewFileHash(algo)
						if err != nil {
							continue
						}
						p := fmt.Sprintf("f%d", l)
						_, _ = fh.CalculateFile(zfsA2, p)
						got, err := fh.CalculateFile(zfsB, p)
						fileCases++
						transitions.Add(2)
						if want := reference(algo, content(l, 77)); err != nil || got != want {
							rep.Violation(fmt.Sprintf("wrong-file-digest:backend=zip:algo=%s:prev=same-name-size-mtime-in-another-archive", algo), map[string]any{"path": p, "len": l, "got": got, "want": want, "err": fmt.Sprint(err)})
						}
					}
				}
			}
			// rewritten in place
			for bname, fs := range backends {
				root := dir
				if bname == "mem" {
					root = "/c20"
				}
				for _, algo := range algos {
					for _, l := range lens[1:] {
						p := filepath.Join(root, fmt.Sprintf("rw%d", l))
						fh, err := filesystem.NewFileHash(algo)
						if err != nil {
							continue
						}
						_ = fs.WriteFile(p, content(l, 5), 0o644)
						_ = fs.Chtimes(p, stamp, stamp)
						_, _ = fh.CalculateFile(fs, p)
						_ = fs.WriteFile(p, content(l, 6), 0o644)
						_ = fs.Chtimes(p, stamp, stamp)
						got, err := fh.CalculateFile(fs, p)
						fileCases++
						transitions.Add(2)
						if want := reference(algo, content(l, 6)); err != nil || got != want {
							rep.Violation(fmt.Sprintf("wrong-file-digest:backend=%s:algo=%s:prev=same-file-rewritten-in-place", bname, algo), map[string]any{"path": p, "len": l, "got": got, "want": want, "err": fmt.Sprint(err)})
						}
						_ = fs.Rm(p)
					}
				}
			}
		}
		// a backend whose Read is interrupted at byte k: n > 0 bytes come back together with EINTR / EAGAIN (FUSE, network and
		// custom afero backends pass that up). Hashing such a file returns an error, or the digest of the whole file — never,
		// silently, the digest of something else
		for _, errno := range []syscall.Errno{syscall.EINTR, syscall.EAGAIN} {
			for _, k := range []int{1, 1000, 32785, 99999} {
				for _, algo := range algos[:2] {
					raw := afero.NewMemMapFs()
					data := content(100000, 41)
					_ = afero.WriteFile(raw, "/interrupted.bin", data, 0o644)
					pos, fired := 0, false
					hook := &readInterrupter{before: func(op *vfsx.Op) *vfsx.Inject {
						if op.Kind != vfsx.KFRead || fired {
							return nil
						}
						if pos+op.Len > k && k > pos {
							fired = true
							return &vfsx.Inject{Short: k - pos, Err: errno}
						}
						return nil
					}, after: func(op *vfsx.Op) {
						if op.Kind == vfsx.KFRead {
							pos += op.N
						}
					}}
					ifs := filesystem.NewVirtualFileSystem(vfsx.NewMem(raw, vfsx.NewShared(hook), 0), filesystem.InMemoryFS, filesystem.IdentityPathConverterFunc)
					got, err := ifs.FileHash(algo, "/interrupted.bin")
					fileCases++
					transitions.Add(1)
					if want := reference(algo, data); err == nil && got != want {
						rep.Violation(fmt.Sprintf("wrong-FileHash:backend=interrupted-read:algo=%s", algo), map[string]any{"interrupted_at_byte": k, "errno": errno.Error(), "got": got, "want": want, "interruption_injected": fired})
					}
				}
			}
		}
		// two FileHash calculations of one algorithm on one filesystem object, from two goroutines: A is held right before its
		// k-th read of its file while B's whole calculation runs, for every k up to the end of A's file (every schedule with
		// one preemption of A in which B runs undisturbed), and the two roles swapped. Both digests must be right
		for _, algo := range algos {
			raw := afero.NewMemMapFs()
			files := map[string][]byte{"/a.bin": content(100000, 51), "/b.bin": content(70001, 52)}
			for n, d := range files {
				_ = afero.WriteFile(raw, n, d, 0o644)
			}
			for _, pair := range [][2]string{{"/a.bin", "/b.bin"}, {"/b.bin", "/a.bin"}} {
				held, other := pair[0], pair[1]
				for k := 0; ; k++ {
					reached, release, done := make(chan struct{}), make(chan struct{}), make(chan struct{})
					var mu sync.Mutex
					reads, parked := 0, false
					hook := &readInterrupter{before: func(op *vfsx.Op) *vfsx.Inject {
						if op.Kind != vfsx.KFRead || op.Path != held {
							return nil
						}
						mu.Lock()
						mine := reads == k && !parked
						if mine {
							parked = true
						}
						reads++
						mu.Unlock()
						if mine {
							close(reached)
							<-release
						}
						return nil
					}, after: func(*vfsx.Op) {}}
					cfs := filesystem.NewVirtualFileSystem(vfsx.NewMem(raw, vfsx.NewShared(hook), 0), filesystem.InMemoryFS, filesystem.IdentityPathConverterFunc)
					var gotHeld string
					var errHeld error
					go func() { defer close(done); gotHeld, errHeld = cfs.FileHash(algo, held) }()
					wasHeld := false
					select {
					case <-reached:
						wasHeld = true
					case <-done:
					}
					gotOther, errOther := cfs.FileHash(algo, other)
					close(release)
					<-done
					fileCases++
					transitions.Add(2)
					if want := reference(algo, files[held]); errHeld != nil || gotHeld != want {
						rep.Violation(fmt.Sprintf("wrong-FileHash:two-goroutines:algo=%s:of=the-preempted-calculation", algo), map[string]any{"file": held, "held_before_read": k, "other_file": other, "got": gotHeld, "want": want, "err": fmt.Sprint(errHeld)})
					}
					if want := reference(algo, files[other]); errOther != nil || gotOther != want {
						rep.Violation(fmt.Sprintf("wrong-FileHash:two-goroutines:algo=%s:of=the-undisturbed-calculation", algo), map[string]any{"file": other, "while_the_other_was_held_before_read": k, "held_file": held, "got": gotOther, "want": want, "err": fmt.Sprint(errOther)})
					}
					if !wasHeld {
						break // k is beyond the last read of the held calculation: every instant has been covered
					}
					concurrentCases++
				}
			}
		}
		for _, wy := range ways {
			for _, algo := range algos {
				wfs, unmount := wy.fs, func() {}
				if wy.mount != nil {
					if wfs, unmount = wy.mount(); wfs == nil {
						continue
					}
				}
				for _, l := range lens {
					want := reference(algo, content(l, 9))
					p := wy.path(l)
					for round := 0; round < 2; round++ { // twice: the second calculation must not depend on the first
						got, err := wfs.FileHash(algo, p)
						fileCases++
						transitions.Add(1)
						if err != nil || got != want {
							call := ""
							if round > 0 {
								call = ":second-call-on-the-same-file"
							}
							rep.Violation(fmt.Sprintf("wrong-FileHash:backend=%s:algo=%s%s", wy.name, algo, call), map[string]any{"path": p, "len": l, "round": round, "got": got, "want": want, "err": fmt.Sprint(err)})
						}
					}
					// a handle that was already used: one read into a buffer of 512 bytes (sniffing the content type), a rewind,
					// then the hasher is given the handle. On a fresh mount of its own where the way has one
					if l > 0 {
						hfs, hunmount := wfs, func() {}
						if wy.mount != nil {
							hfs, hunmount = wy.mount()
						}
						if hfs != nil {
							if f, oerr := hfs.GenericOpen(p); oerr == nil {
								_, _ = f.Read(make([]byte, 512))
								if _, serr := f.Seek(0, io.SeekStart); serr == nil {
									if fh, herr := filesystem.NewFileHash(algo); herr == nil {
										got, err := fh.Calculate(f)
										fileCases++
										transitions.Add(1)
										if err != nil || got != want {
											rep.Violation(fmt.Sprintf("wrong-file-digest:backend=%s:algo=%s:handle=read-once-then-rewound", wy.name, algo), map[string]any{"path": p, "len": l, "got": got, "want": want, "err": fmt.Sprint(err)})
										}
									}
								}
								_ = f.Close()
							}
							hunmount()
						}
					}
					if fh, err := filesystem.NewFileHash(algo); err == nil {
						got, err := fh.CalculateFile(wfs, p)
						if err != nil || got != want {
							rep.Violation(fmt.Sprintf("wrong-file-digest:backend=%s:algo=%s:prev=none:after-two-earlier-reads-of-the-file", wy.name, algo), map[string]any{"path": p, "len": l, "got": got, "want": want, "err": fmt.Sprint(err)})
						}
					}
				}
				unmount()
			}
		}
	}

	// a calculation cancelled while its reader is BLOCKED in Read, the reader waking up during the next calculation on the
	// same hasher (virtual scheduling: testing/synctest tells whether the cancelled call has returned or is still blocked)
	blockedCases := 0
	for _, algo := range algos {
		for _, k := range []int{0, 1, 64} {
			for _, l2 := range []int{0, 1, 65, 4096} {
				blockedCases++
				transitions.Add(2)
				got, want, note := blockedReaderCase(t, algo, k, l2)
				if got != want {
					rep.Violation(fmt.Sprintf("wrong-digest:algo=%s:prev=cancel-while-reader-blocked", algo), violation{algo, []string{fmt.Sprintf("cancel(blocked after %d bytes)", k), fmt.Sprintf("ok(len=%d)", l2)}, got, want, note})
				} else {
					validated.Add(1)
				}
			}
		}
	}
	rep.Coverage["blocked_reader_cases"] = blockedCases
	rep.Coverage["states"] = states.Load()
	rep.Coverage["transitions"] = transitions.Load()
	rep.Coverage["traces_validated_against_impl"] = validated.Load()
	rep.Coverage["successful_calculations_checked"] = okCalcs.Load()
	rep.Coverage["file_hash_cases"] = fileCases
	rep.Coverage["two_goroutine_file_hash_schedules"] = concurrentCases
	rep.Coverage["alphabet"] = len(alpha)
	rep.Coverage["history_depth"] = depth
	rep.Coverage["exhaustive"] = true
	rep.Coverage["samples"] = samples
	rep.Coverage["explanation"] = "states = histories (sequences of calculations on one hasher object) of length 1..depth over the alphabet, each replayed on a fresh real hasher; transitions = calculations executed; validated = successful calculations whose digest equals the reference package's one-shot digest"
	rep.Assume = []string{"reference digests come from crypto/md5, crypto/sha1, crypto/sha256, x/crypto/blake2b, OneOfOne/xxhash, spaolacci/murmur3 on a fresh state", "sequential use of a hasher (the property says so)"}
	rep.Finish()
}

// gatedReader delivers `first`, then blocks in Read until released, then delivers `rest`.
type gatedReader struct {
	first, rest []byte
	stage       int
	blocked     chan struct{}
	release     chan struct{}
}

func (g *gatedReader) Read(p []byte) (int, error) {
	switch g.stage {
	case 0:
		g.stage = 1
		if len(g.first) > 0 {
			return copy(p, g.first), nil
		}
		fallthrough
	case 1:
		g.stage = 2
		close(g.blocked)
		<-g.release
		return copy(p, g.rest), nil
	}
	return 0, io.EOF
}

// blockedReaderCase: calculation 1 reads k bytes, its reader blocks, its context is cancelled; calculation 2 (content of
// length l2) runs on the same hasher and, after its first chunk, the stalled reader of calculation 1 is released.
func blockedReaderCase(t *testing.T, algo string, k, l2 int) (got, want, note string) {
	synctest.Test(t, func(t *testing.T) {
		h, err := hashing.NewHashingAlgorithm(algo)
		if err != nil {
			note = err.Error()
			return
		}
		ctx, cancel := context.WithCancel(context.Background())
		g := &gatedReader{first: content(k, 3), rest: content(100, 4), blocked: make(chan struct{}), release: make(chan struct{})}
		done := make(chan struct{})
		go func() { defer close(done); _, _ = h.CalculateWithContext(ctx, g) }()
		<-g.blocked
		cancel()
		synctest.Wait()
		returned := false
		select {
		case <-done:
			returned = true
		default:
		}
		data := content(l2, 5)
		want = reference(algo, data)
		if !returned {
			// the call is still inside the blocked Read: let it finish (it reports the cancellation), then calculate
			close(g.release)
			<-done
			got, err = h.Calculate(&scriptedReader{data: data, chunk: 7, failAt: -1, cancAt: -1})
			note = "cancelled call returned only after its reader woke up"
		} else {
			// the call returned while its reader is still blocked: the reader wakes up in the middle of the next calculation
			r2 := &wakingReader{inner: &scriptedReader{data: data, chunk: 7, failAt: -1, cancAt: -1}, wake: func() { close(g.release); synctest.Wait() }}
			got, err = h.Calculate(r2)
			if !r2.woke {
				close(g.release)
			}
			note = "cancelled call returned while its reader was still blocked"
		}
		if err != nil {
			got = "error: " + err.Error()
		}
		synctest.Wait()
	})
	return
}

// wakingReader runs wake() once, right after its first Read.
type wakingReader struct {
	inner *scriptedReader
	wake  func()
	woke  bool
}

func (w *wakingReader) Read(p []byte) (int, error) {
	n, err := w.inner.Read(p)
	if !w.woke {
		w.woke = true
		w.wake()
	}
	return n, err
}

// C15 — configuration loading: precedence of sources, then validation (utils/config).
//
// Bounded-exhaustive enumeration executed on the real loader. Three parts, all over the fixed family of
// family_test.go (depth 1..3; string/int/bool/float/duration leaves; tags with underscores, dashes, mixed case;
// a structure with two colliding environment names; a structure whose tags begin with the letters of a prefix):
//
//	envnames    for every structure x prefix: DetermineConfigurationEnvironmentVariables' names vs. the names the
//	            loader honours (every candidate spelling of every field is set ALONE and the load observed);
//	precedence  for every structure x prefix x field x 16 subsets of {flag set, env, file, defaults} x background of
//	            the other fields x value variant (explicit zero at the winner; 4 bool patterns) x flag mode
//	            (binding form when set; unbound / bound with zero default / bound with non-zero default when not set)
//	            x file syntax: the loaded structure must hold, field by field, the value of the highest-priority
//	            present source;
//	validation  for every structure of depth 1..3 x required-field pattern x zero pattern x delivering source:
//	            Load succeeds <=> no required field of the RESULTING structure is zero, else the error is of kind
//	            'invalid' and names an offending field (path, outermost level first).
//
// Readings taken (weakest where the documentation is silent) are written next to the oracle clauses in
// scenario_test.go and below. The environment is process-global: everything runs sequentially in this one
// process, in an empty working directory (no .env), every case sets and afterwards removes its own variables.
package c15

import (
	"encoding/json"
	"fmt"
	"os"
	"path/filepath"
	"reflect"
	"sort"
	"strings"
	"testing"

	"github.com/ARM-software/golang-utils/utils/config"

	ev "verif/engine/evidence"
)

func TestMain(m *testing.M) { ev.Main(m) }

type stats struct {
	evaluations   int64
	nontrivial    int64
	perPart       map[string]int64
	winners       map[string]int64 // observed per-field outcomes of the target field
	errOutcomes   map[string]int64
	skippedAmbig  int64
	distinctLoads map[string]struct{}
}

type checker struct {
	rep     *ev.Reporter
	run     *runner
	st      *stats
	samples []any
	// cross-talk between colliding fields is folded (see scenario_test.go)
	nameSamples int
	precSamples int
	crossSeen   bool
	crossFirst  *scenario
	crossOut    outcome
	envLoads    int64
	dotenvRuns  int64
}

// eval runs one scenario and reports whatever the oracle finds.
func (c *checker) eval(s *structSpec, sc *scenario, nontrivial bool) outcome {
	out := c.run.run(s, sc)
	c.st.evaluations++
	c.st.perPart[sc.Part]++
	if nontrivial {
		c.st.nontrivial++
	}
	if strings.HasPrefix(out.Panic, "ENGINE:") {
		c.rep.EngineError("%s (%s %s)", out.Panic, sc.Struct, sc.Part)
		return out
	}
	if out.Panic != "" {
		c.rep.Violation("panic:part="+sc.Part, map[string]any{"scenario": sc, "panic": out.Panic})
		return out
	}
	seen := map[string]bool{}
	for _, m := range out.Mismatches {
		if m.cross {
			if !c.crossSeen {
				c.crossSeen = true
				c.crossFirst = sc
				c.crossOut = out
			}
			continue
		}
		if seen[m.sig] {
			continue
		}
		seen[m.sig] = true
		c.rep.Violation(m.sig, map[string]any{"scenario": sc, "mismatch": m, "all_mismatches": out.Mismatches, "details": out.Details})
	}
	if out.ValSig != "" {
		c.rep.Violation(out.ValSig, map[string]any{"scenario": sc, "details": out.Details})
	}
	switch {
	case out.Err == nil:
		c.st.errOutcomes["nil"]++
	case len(out.Offending) > 0:
		c.st.errOutcomes["invalid-expected"]++
	default:
		c.st.errOutcomes["error-unexpected"]++
	}
	// every fourth load from the environment that set variables is run again with a .env file in the working directory that
	// redefines those very variables: nothing may change
	colliding := false // the loaded values of colliding fields depend on map iteration order on the unchanged tree: no differential there
	for _, f := range s.Fields {
		colliding = colliding || tagClass(s, f, sc.Prefix) == "colliding"
	}
	if !sc.DotEnv && !colliding && out.API == "LoadFromEnvironment" && out.EnvVars > 0 && out.Panic == "" {
		c.envLoads++
		if c.envLoads%4 == 0 {
			twin := *sc
			twin.DotEnv = true
			o2 := c.run.run(s, &twin)
			c.st.evaluations++
			c.dotenvRuns++
			switch {
			case strings.HasPrefix(o2.Panic, "ENGINE:"):
				c.rep.EngineError("%s (%s %s, .env)", o2.Panic, sc.Struct, sc.Part)
			case !reflect.DeepEqual(o2.Got, out.Got) || (o2.Err == nil) != (out.Err == nil):
				c.rep.Violation("precedence:a-dotenv-file-overrides-variables-set-in-the-environment", map[string]any{"scenario": &twin, "loaded_without_the_file": fmt.Sprint(out.Got), "loaded_with_the_file": fmt.Sprint(o2.Got), "error_without": fmt.Sprint(out.Err), "error_with": fmt.Sprint(o2.Err)})
			}
		}
	}
	if sc.Target >= 0 && sc.Target < len(out.Winners) {
		w := out.Winners[sc.Target]
		if tagClass(s, s.Fields[sc.Target], sc.Prefix) == "colliding" {
			w = "colliding-target(folded)" // outcome depends on map iteration order on the unchanged tree
		}
		c.st.winners[w]++
	}
	return out
}

var prefixesAll = []string{"app", "APP", "my_app", "my-app", ""}

func TestC15(t *testing.T) {
	rep := ev.NewReporter("C15", "exploration")
	thorough := ev.Thorough()

	replayPath := os.Getenv("VERIF_REPLAY")
	if replayPath != "" {
		replayPath, _ = filepath.Abs(replayPath) // before the working directory changes
	}

	// ---- process-global state under control ----------------------------------------------------------
	root, err := os.MkdirTemp("/dev/shm", "verif-c15-")
	if err != nil {
		root, err = os.MkdirTemp("", "verif-c15-")
	}
	if err != nil {
		rep.EngineError("no temp dir: %v", err)
		rep.Finish()
		return
	}
	defer os.RemoveAll(root)
	cwd := filepath.Join(root, "cwd") // empty working directory: godotenv.Load(".env") finds nothing
	files := filepath.Join(root, "files")
	_ = os.MkdirAll(cwd, 0o755)
	_ = os.MkdirAll(files, 0o755)
	old, _ := os.Getwd()
	if err := os.Chdir(cwd); err != nil {
		rep.EngineError("chdir: %v", err)
		rep.Finish()
		return
	}
	defer os.Chdir(old)
	// ambient variables that the loader could pick up (any name a candidate spelling could equal) are removed
	for _, kv := range os.Environ() {
		name, _, _ := strings.Cut(kv, "=")
		up := strings.ToUpper(name)
		drop := false
		for _, p := range prefixesAll {
			if p != "" && strings.HasPrefix(up, strings.ToUpper(p)+"_") {
				drop = true
			}
		}
		for _, s := range family {
			for _, f := range s.Fields {
				if strings.HasPrefix(strings.TrimPrefix(up, "_"), strings.ToUpper(f.Tags[0])) {
					drop = true
				}
			}
		}
		if drop && !strings.HasPrefix(name, "VERIF_") {
			_ = os.Unsetenv(name)
		}
	}

	c := &checker{rep: rep, run: &runner{dir: files, byAPI: map[string]int64{}},
		st: &stats{perPart: map[string]int64{}, winners: map[string]int64{}, errOutcomes: map[string]int64{}}}

	// ---- replay of one stored case --------------------------------------------------------------------
	if replayPath != "" {
		c.replay(replayPath)
		return
	}

	prefixes := prefixesAll
	structs := family
	_ = thorough

	envNames := map[string][]string{} // struct/prefix -> honoured name per field
	for _, s := range structs {
		for _, p := range prefixes {
			envNames[s.Name+"/"+p] = c.partEnvNames(s, p)
		}
	}
	precPrefixes := prefixes
	if !thorough {
		precPrefixes = []string{"app", "my_app", "my-app", ""} // "APP" differs from "app" in case only: env-name part in both tiers, precedence part in thorough
	}
	for _, s := range structs {
		for _, p := range precPrefixes {
			c.partPrecedence(s, p, envNames[s.Name+"/"+p], thorough)
		}
	}
	for _, s := range []*structSpec{specD1, specD2, specD3} {
		c.partValidation(s, envNames, thorough)
	}

	// folded cross-talk between colliding fields: one signature, one canonical replay
	if c.crossSeen {
		s := specDC
		sc := newScenario("precedence", s, "app", canonicalNames(s, "app"))
		for i := range sc.Pres {
			sc.Pres[i] = bitDef
		}
		sc.Note = "canonical case of the folded signature: every field of DC has only its supplied default"
		c.run.detailed = true
		out := c.run.run(s, sc)
		c.run.detailed = false
		// the replay object holds nothing that depends on the direction of the cross-talk (it is re-observed by --replay)
		replay := map[string]any{"scenario": sc, "what": "DBHost (key db_host) and DB.Host (key db.host) share the variable <PREFIX>_DB_HOST; with only their two different supplied defaults present, one of the two fields is loaded with the other one's default (which one depends on map iteration order inside the link step)"}
		if len(out.Mismatches) == 0 {
			replay = map[string]any{"scenario": c.crossFirst, "what": "cross-talk between the colliding fields seen in this case but not in the canonical one"}
		}
		rep.Violation("precedence:crosstalk:tag=colliding", replay)
	}

	// ---- evidence ----------------------------------------------------------------------------------------
	st := c.st
	rep.Coverage["evaluations"] = st.evaluations
	rep.Coverage["distinct_nontrivial"] = st.nontrivial
	rep.Coverage["rule"] = "a case counts as non-trivial when the mechanism had to decide something: precedence cases in which at least two of the four sources are present for the target field; env-name probes of a spelling that differs from every other probed spelling of the structure (all of them do); validation cases in which at least one required field is zero in the resulting structure"
	rep.Coverage["evaluations_per_part"] = st.perPart
	rep.Coverage["loads_per_entry_point"] = c.run.byAPI
	rep.Coverage["observed_outcomes_of_target_field"] = st.winners
	rep.Coverage["distinct_observed_outcomes"] = len(st.winners) + len(st.errOutcomes)
	rep.Coverage["observed_error_outcomes"] = st.errOutcomes
	rep.Coverage["cases_not_generated_because_ambiguous"] = st.skippedAmbig
	rep.Coverage["loads_repeated_with_a_dotenv_file_redefining_the_set_variables"] = c.dotenvRuns
	rep.Coverage["exhaustive"] = true
	fam := map[string]any{}
	for _, s := range structs {
		var fl []string
		for _, f := range s.Fields {
			fl = append(fl, fmt.Sprintf("%s(%s,%s)", strings.Join(f.Tags, "."), kindNames[f.Kind], f.TagForm))
		}
		fam[s.Name] = map[string]any{"depth": s.Depth, "leaf_fields": fl}
	}
	rep.Coverage["bound"] = map[string]any{
		"structures":             fam,
		"prefixes":               map[string]any{"envnames_and_validation": prefixes, "precedence": precPrefixes},
		"subsets_per_field":      16,
		"backgrounds":            backgroundNames(thorough),
		"value_variants":         "non-bool: all values non-zero and pairwise distinct over (source, field) | explicit zero at the winning source; bool: 4 patterns over (flag,env,file,def) separating every pair of sources",
		"flag_modes":             "flag set: bound by full name / name without prefix / mixed-case name / BindFlagsToEnv pair; flag not set: unbound / bound with zero default / bound with non-zero default",
		"file_syntaxes":          fileFormats(thorough),
		"required_patterns":      "precedence part: none / target / all (rotating); validation part: see evaluations_per_part",
		"tier":                   ev.Tier(),
		"sequential_one_process": true,
	}
	rep.Coverage["samples"] = c.samples
	rep.Assume = []string{
		"an environment variable holding the empty string is not enumerated (viper's AllowEmptyEnv(false) treats it as unset; the documentation is silent: either reading is accepted by not asking)",
		"the default value of a bound flag that was not set is not one of the four sources: it is accepted only where no source is present or the supplied default is the zero value (LoadFromViper's documentation)",
		"the environment name of a field is the spelling the loader is observed to honour among the candidate spellings of PREFIX_PATH_TO_FIELD (upper case, dashes kept or replaced); on the unchanged tree: upper case, dashes kept",
		"'names the offending field' = the error text contains the Go name or tag of every level of the field's path, in order",
		"structure DC (colliding names): flags that are not set are not bound, and all cross-talk mismatches are folded into one signature, because the direction of the cross-talk depends on map iteration order",
	}
	rep.Finish()
}

func canonicalNames(s *structSpec, prefix string) []string {
	out := make([]string, len(s.Fields))
	for i, f := range s.Fields {
		out[i] = canonicalEnvName(prefix, f)
	}
	return out
}

// =====================================================================================================
// Part 1: environment names reported vs. honoured
// =====================================================================================================

type candidate struct {
	form string
	name string
}

func (c candidate) MarshalJSON() ([]byte, error) {
	return json.Marshal(map[string]string{"form": c.form, "name": c.name})
}

func candidates(prefix string, f *fieldInfo) []candidate {
	up := canonicalEnvName(prefix, f)
	asWritten := f.pathTags()
	if prefix != "" {
		asWritten = prefix + "_" + asWritten
	}
	dotted := strings.ToUpper(strings.Join(f.Tags, "."))
	if prefix != "" {
		dotted = strings.ToUpper(prefix) + "_" + dotted
	}
	all := []candidate{
		{"canonical", up},
		{"dash-as-underscore", strings.ReplaceAll(up, "-", "_")},
		{"lower-case", strings.ToLower(up)},
		{"as-written", asWritten},
		{"dot-separated", dotted},
		{"leading-underscore", "_" + strings.ToUpper(f.pathTags())},
		{"without-prefix", strings.ToUpper(f.pathTags())},
	}
	var out []candidate
	seen := map[string]bool{}
	for _, c := range all {
		if !seen[c.name] {
			seen[c.name] = true
			out = append(out, c)
		}
	}
	return out
}

func emptiness(prefix string) string {
	if prefix == "" {
		return "empty"
	}
	return "nonempty"
}

// partEnvNames probes which spellings the loader honours, compares with the reported set, and returns the name to use
// for every field in the other parts (the first honoured spelling; the canonical one if none is honoured).
func (c *checker) partEnvNames(s *structSpec, prefix string) []string {
	def := s.newPtr()
	reportedMap, err := config.DetermineConfigurationEnvironmentVariables(prefix, def)
	// DetermineConfigurationEnvironmentVariables refuses an "empty" structure: give it one with non-zero content
	if err != nil {
		full := s.newPtr()
		fillAll(s, full)
		reportedMap, err = config.DetermineConfigurationEnvironmentVariables(prefix, full)
	}
	if err != nil {
		c.rep.Violation("envnames:determine-failed:prefix="+emptiness(prefix), map[string]any{"struct": s.Name, "prefix": prefix, "error": err.Error()})
		return canonicalNames(s, prefix)
	}
	reported := map[string]bool{}
	for k := range reportedMap {
		reported[k] = true
	}
	names := canonicalNames(s, prefix)
	matched := map[string]bool{}
	for i, f := range s.Fields {
		tc := tagClass(s, f, prefix)
		if tc == "colliding" {
			tc = "regular" // a shared name is still the name of each of the fields
		}
		honouredAny := false
		reportedAny := false
		for _, cand := range candidates(prefix, f) {
			sc := newScenario("envnames", s, prefix, canonicalNames(s, prefix))
			sc.EnvNames[i] = cand.name
			// fields sharing the canonical name share the probe
			for j, g := range s.Fields {
				if j != i && canonicalEnvName(prefix, g) == canonicalEnvName(prefix, f) {
					sc.EnvNames[j] = cand.name
				}
			}
			sc.Pres[i] = bitEnv
			sc.BoolPat = 1 // the environment's bool value is true
			sc.Target = i
			sc.Note = "probe: candidate spelling '" + cand.form + "' set alone"
			out := c.run.run(s, sc)
			c.st.evaluations++
			c.st.nontrivial++
			c.st.perPart["envnames"]++
			if out.Panic != "" {
				c.rep.EngineError("env-name probe failed: %s", out.Panic)
				continue
			}
			honoured := len(out.Mismatches) == 0 // the field took the value of the variable
			for _, m := range out.Mismatches {
				if m.Field != f.goName() { // another field changed: not what a probe may cause
					honoured = false
				}
			}
			if len(out.Mismatches) == 0 && !honouredAny {
				names[i] = cand.name
			}
			c.st.winners["probe-honoured="+fmt.Sprint(honoured)]++
			if reported[cand.name] {
				reportedAny = true
				matched[cand.name] = true
			}
			replay := map[string]any{"scenario": sc, "candidate": cand, "reported_names": sortedNames(reported), "details": out.Details, "loaded": fmt.Sprintf("%v", out.Got)}
			if honoured {
				honouredAny = true
			}
			if sig := envNameVerdict(cand, tc, prefix, honoured, reported[cand.name]); sig != "" {
				c.rep.Violation(sig, replay)
			}
			if c.nameSamples < 2 && cand.form == "canonical" && i == len(s.Fields)-1 && (prefix == "my-app" || prefix == "") && s.Depth == 3 {
				c.nameSamples++
				c.samples = append(c.samples, map[string]any{"part": "envnames", "struct": s.Name, "prefix": prefix, "field": f.goName(), "variable": cand.name, "honoured": honoured, "reported": reported[cand.name]})
			}
		}
		if !reportedAny {
			c.rep.Violation(fmt.Sprintf("envnames:field-not-reported:tag=%s:prefix=%s", tc, emptiness(prefix)), map[string]any{"struct": s.Name, "prefix": prefix, "field": f.goName(), "reported_names": sortedNames(reported)})
		}
		if !honouredAny {
			c.rep.Violation(fmt.Sprintf("envnames:no-spelling-honoured:tag=%s:prefix=%s", tc, emptiness(prefix)), map[string]any{"struct": s.Name, "prefix": prefix, "field": f.goName()})
		}
	}
	for n := range reported {
		if !matched[n] {
			c.rep.Violation("envnames:reported-name-of-no-field:prefix="+emptiness(prefix), map[string]any{"struct": s.Name, "prefix": prefix, "name": n})
		}
	}
	return names
}

// envNameVerdict: the reported names are exactly the honoured ones.
func envNameVerdict(cand candidate, tc, prefix string, honoured, reported bool) string {
	switch {
	case honoured && !reported:
		return fmt.Sprintf("envnames:honoured-not-reported:form=%s:tag=%s:prefix=%s", cand.form, tc, emptiness(prefix))
	case !honoured && reported:
		return fmt.Sprintf("envnames:reported-not-honoured:form=%s:tag=%s:prefix=%s", cand.form, tc, emptiness(prefix))
	}
	return ""
}

func sortedNames(m map[string]bool) []string {
	var out []string
	for k := range m {
		out = append(out, k)
	}
	sort.Strings(out)
	return out
}

func fillAll(s *structSpec, cfg config.IServiceConfiguration) {
	v := reflect.ValueOf(cfg).Elem()
	for i, f := range s.Fields {
		v.FieldByIndex(f.Index).Set(reflect.ValueOf(value(f.Kind, srcDef, i, false, 0)))
	}
}

// =====================================================================================================
// Part 2: precedence
// =====================================================================================================

type background struct {
	name string
	mask int
}

func backgrounds(thorough bool) []background {
	b := []background{{"none", 0}, {"def", bitDef}, {"env", bitEnv}, {"file", bitFile}, {"flag", bitFlag}, {"all", bitFlag | bitEnv | bitFile | bitDef}}
	if thorough {
		b = append(b, background{"env+def", bitEnv | bitDef}, background{"file+def", bitFile | bitDef}, background{"flag+file", bitFlag | bitFile})
	}
	return b
}

func backgroundNames(thorough bool) []string {
	var out []string
	for _, b := range backgrounds(thorough) {
		out = append(out, b.name)
	}
	return out
}

func fileFormats(thorough bool) []string {
	if thorough {
		return []string{"json", "yaml", "toml", "json with upper-case keys"}
	}
	return []string{"json", "yaml"}
}

func popcount(x int) int {
	n := 0
	for ; x != 0; x &= x - 1 {
		n++
	}
	return n
}

func (c *checker) partPrecedence(s *structSpec, prefix string, names []string, thorough bool) {
	type fileVariant struct {
		format int
		upper  bool
	}
	fvs := []fileVariant{{fmtJSON, false}, {fmtYAML, false}}
	if thorough {
		fvs = append(fvs, fileVariant{fmtTOML, false}, fileVariant{fmtJSON, true})
	}
	caseNo := 0
	for ti, f := range s.Fields {
		tc := tagClass(s, f, prefix)
		for subset := 0; subset < 16; subset++ {
			for bi, bg := range backgrounds(thorough) {
				variants := 2
				if f.Kind == kBool {
					variants = 4
				}
				for vv := 0; vv < variants; vv++ {
					// flag mode
					var modes []int
					if subset&bitFlag != 0 {
						modes = []int{bindFull, bindShort, bindMixed, bindMulti}
						if prefix == "" {
							modes = []int{bindFull, bindMixed, bindMulti} // "without prefix" is the same string
						}
						if tc == "prefixed" {
							// the short form of a tag that itself begins with the prefix is ambiguous by construction of
							// BindFlagToEnv ("with or without the prefix"): only the unambiguous full forms are asked
							modes = []int{bindFull, bindMixed, bindMulti}
						}
					} else {
						modes = []int{bindNone, 100, 101} // unbound, bound+zero default, bound+non-zero default
						if thorough && prefix != "" && tc != "prefixed" {
							modes = append(modes, 102, 103) // the same two, bound by the name without the prefix
						}
						if s == specDC {
							modes = []int{bindNone} // see Assume: determinism on the colliding structure
						}
					}
					for _, mode := range modes {
						fileUsed := subset&bitFile != 0 || bg.mask&bitFile != 0
						nf := 1
						if fileUsed {
							nf = len(fvs)
						}
						for fi := 0; fi < nf; fi++ {
							caseNo++
							sc := newScenario("precedence", s, prefix, names)
							sc.Target = ti
							sc.BoolPat = 0
							for j := range s.Fields {
								if j == ti {
									sc.Pres[j] = subset
								} else {
									sc.Pres[j] = bg.mask
									if bg.mask&bitFlag != 0 {
										sc.Bind[j] = bindFull
										if tagClass(s, s.Fields[j], prefix) == "prefixed" {
											// background flags of prefixed tags are left out: their defect would otherwise be reported
											// from every case of the structure; it is enumerated with the field as target
											sc.Pres[j] &^= bitFlag
											sc.Bind[j] = bindNone
										}
									}
								}
							}
							// winner of the target
							winner := -1
							for src := srcFlag; src <= srcDef; src++ {
								if subset&(1<<src) != 0 {
									winner = src
									break
								}
							}
							if f.Kind == kBool {
								sc.BoolPat = vv
							} else if vv == 1 {
								if winner < 0 || winner == srcDef {
									continue // explicit zero at "no source" / at the defaults is the same case as the source being absent
								}
								if winner == srcEnv && f.Kind == kString {
									c.st.skippedAmbig++
									continue // empty environment variable: ambiguous, not asked
								}
								sc.ZeroAt[ti] = 1 << winner
							}
							switch {
							case mode == 100:
								sc.Bind[ti] = bindFull
							case mode == 101:
								sc.Bind[ti] = bindFull
								sc.FlagDefault[ti] = true
							case mode == 102:
								sc.Bind[ti] = bindShort
							case mode == 103:
								sc.Bind[ti] = bindShort
								sc.FlagDefault[ti] = true
							default:
								sc.Bind[ti] = mode
							}
							sc.FileFormat, sc.FileUpper = fvs[fi].format, fvs[fi].upper
							// required pattern: none / target / all, rotating deterministically
							// (never on a colliding field: what such a field holds on the unchanged tree depends on map iteration order)
							switch (subset + bi + vv + fi) % 3 {
							case 1:
								sc.Required[ti] = tc != "colliding"
							case 2:
								if subset%4 == 3 {
									for j := range sc.Required {
										sc.Required[j] = tagClass(s, s.Fields[j], prefix) != "colliding"
									}
								}
							}
							want := c.precSamples < 8 && subset == 3+(c.precSamples*5)%13 && bi == 1+c.precSamples%3 && vv == 0 && fi == 0 && mode == modes[0] && ti == (c.precSamples*2)%len(s.Fields) && s.Depth >= 2 && s != specDC
							c.run.detailed = want
							out := c.eval(s, sc, popcount(subset) >= 2)
							c.run.detailed = false
							if want {
								c.precSamples++
								c.samples = append(c.samples, map[string]any{"part": "precedence", "struct": s.Name, "field": f.goName(), "subset": subsetName(subset), "background": bg.name, "details": out.Details})
							}
						}
					}
				}
			}
		}
	}
	_ = caseNo
}

func subsetName(m int) string {
	var p []string
	for src := srcFlag; src <= srcDef; src++ {
		if m&(1<<src) != 0 {
			p = append(p, srcNames[src])
		}
	}
	if len(p) == 0 {
		return "{}"
	}
	return "{" + strings.Join(p, ",") + "}"
}

// =====================================================================================================
// Part 3: validation
// =====================================================================================================

func (c *checker) partValidation(s *structSpec, envNames map[string][]string, thorough bool) {
	n := len(s.Fields)
	// zero patterns: none, all, every single field, every pair
	var zeroPats []int
	zeroPats = append(zeroPats, 0, 1<<n-1)
	for i := 0; i < n; i++ {
		zeroPats = append(zeroPats, 1<<i)
	}
	for i := 0; i < n; i++ {
		for j := i + 1; j < n; j++ {
			zeroPats = append(zeroPats, 1<<i|1<<j)
		}
	}
	// required patterns: every subset (thorough, or small structures); else none, all, singles, pairs
	var reqPats []int
	if thorough || n <= 5 {
		for r := 0; r < 1<<n; r++ {
			reqPats = append(reqPats, r)
		}
	} else {
		reqPats = append(reqPats, zeroPats...)
	}
	deliveries := []int{srcDef, srcFile}
	zeroModes := []int{0, 1}
	if thorough {
		deliveries = []int{srcDef, srcFile, srcEnv, srcFlag}
		zeroModes = []int{0, 1, 2}
	}
	sampled := false
	for ri, req := range reqPats {
		prefix := prefixesAll[ri%len(prefixesAll)]
		names := envNames[s.Name+"/"+prefix]
		for _, zp := range zeroPats {
			for _, del := range deliveries {
				for _, zm := range zeroModes {
					// zero mode 0: the zero fields are absent from every source;
					// 1: non-zero supplied default, explicit zero in the configuration file; 2: ... explicit zero from a set flag
					if zm != 0 && zp == 0 {
						continue
					}
					sc := newScenario("validation", s, prefix, names)
					for i := range s.Fields {
						sc.Required[i] = req&(1<<i) != 0
						if zp&(1<<i) == 0 {
							sc.Pres[i] = 1 << del
							if del == srcFlag {
								sc.Bind[i] = bindFull
							}
							continue
						}
						switch zm {
						case 1:
							sc.Pres[i] = bitDef | bitFile
							sc.ZeroAt[i] = bitFile
						case 2:
							sc.Pres[i] = bitDef | bitFlag
							sc.ZeroAt[i] = bitFlag
							sc.Bind[i] = bindFull
						}
					}
					sc.FileFormat = (ri + zp) % 2
					want := !sampled && req&zp != 0 && popcount(zp) == 2 && s.Depth == 3 && zm == 1
					c.run.detailed = want
					out := c.eval(s, sc, req&zp != 0)
					c.run.detailed = false
					if req&zp != 0 && zm == 0 && del == srcDef {
						// the same case with Validate methods that report the missing field themselves
						for _, style := range []string{"library-error", "library-error-colon"} {
							sc2 := *sc
							sc2.ValidatorStyle = style
							c.eval(s, &sc2, true)
						}
					}
					if want {
						sampled = true
						c.samples = append(c.samples, map[string]any{"part": "validation", "struct": s.Name, "required": maskNames(s, req), "zero": maskNames(s, zp), "error": out.ErrText, "details": out.Details})
					}
				}
			}
		}
	}
}

func maskNames(s *structSpec, m int) []string {
	var out []string
	for i, f := range s.Fields {
		if m&(1<<i) != 0 {
			out = append(out, f.goName())
		}
	}
	return out
}

// =====================================================================================================
// replay
// =====================================================================================================

func (c *checker) replay(path string) {
	fail := func(format string, a ...any) {
		fmt.Printf("ENGINE-ERROR: property=C15 "+format+"\n", a...)
		ev.ExitCode = 2
	}
	b, err := os.ReadFile(path)
	if err != nil {
		fail("cannot read the replay: %v", err)
		return
	}
	var stored struct {
		Signature string `json:"signature"`
		Replay    struct {
			Scenario  *scenario         `json:"scenario"`
			Candidate map[string]string `json:"candidate"`
		} `json:"replay"`
	}
	if err := json.Unmarshal(b, &stored); err != nil || stored.Replay.Scenario == nil {
		fail("the replay holds no scenario (%v)", err)
		return
	}
	sc := stored.Replay.Scenario
	s := specByName(sc.Struct)
	if s == nil || len(sc.Pres) != len(s.Fields) {
		fail("the replay's structure %q is not in the family", sc.Struct)
		return
	}
	c.run.detailed = true
	if sc.DotEnv { // a differential case: the same load without and with the .env file
		base := *sc
		base.DotEnv = false
		o1, o2 := c.run.run(s, &base), c.run.run(s, sc)
		fmt.Printf("without the .env file: %v (error: %v)\nwith it:               %v (error: %v)\n", o1.Got, o1.Err, o2.Got, o2.Err)
		if !reflect.DeepEqual(o1.Got, o2.Got) || (o1.Err == nil) != (o2.Err == nil) {
			fmt.Printf("VIOLATION property=C15 replay=%s signature=precedence:a-dotenv-file-overrides-variables-set-in-the-environment\n", path)
			ev.ExitCode = 1
		} else {
			fmt.Println("replay: no violation")
		}
		return
	}
	out := c.run.run(s, sc)
	if out.Panic != "" {
		fmt.Printf("replay: %s\n", out.Panic)
	}
	if sc.Part == "envnames" && sc.Target >= 0 && sc.Target < len(s.Fields) && out.Panic == "" {
		// a probe: one candidate spelling set alone; compared with what DetermineConfigurationEnvironmentVariables reports
		f := s.Fields[sc.Target]
		full := s.newPtr()
		fillAll(s, full)
		reported, _ := config.DetermineConfigurationEnvironmentVariables(sc.Prefix, full)
		cand := candidate{form: stored.Replay.Candidate["form"], name: sc.EnvNames[sc.Target]}
		honoured := len(out.Mismatches) == 0
		_, isReported := reported[cand.name]
		tc := tagClass(s, f, sc.Prefix)
		if tc == "colliding" {
			tc = "regular"
		}
		fmt.Printf("probe: variable %q set alone: honoured=%v reported=%v; loaded=%v\n", cand.name, honoured, isReported, out.Got)
		if sig := envNameVerdict(cand, tc, sc.Prefix, honoured, isReported); sig != "" {
			fmt.Printf("VIOLATION property=C15 replay=%s signature=%s\n", path, sig)
			ev.ExitCode = 1
		} else {
			fmt.Println("replay: no violation")
		}
		return
	}
	d, _ := json.MarshalIndent(map[string]any{"stored_signature": stored.Signature, "mismatches": out.Mismatches, "validation_clause": out.ValSig, "details": out.Details}, "", " ")
	fmt.Printf("%s\n", d)
	sigs := map[string]bool{}
	for _, m := range out.Mismatches {
		sigs[m.sig] = true
	}
	if out.ValSig != "" {
		sigs[out.ValSig] = true
	}
	if len(sigs) == 0 && out.Panic == "" {
		fmt.Println("replay: no violation")
		return
	}
	for sig := range sigs {
		fmt.Printf("VIOLATION property=C15 replay=%s signature=%s\n", path, sig)
	}
	ev.ExitCode = 1
}

package c15

// One scenario = one call of the real loader (Load / LoadFromViper / LoadFromEnvironment) with a fresh viper session,
// a fresh pflag.FlagSet, explicitly set (and afterwards removed) environment variables and a freshly written
// configuration file, followed by the evaluation of the oracle on the loaded structure and the returned error.

import (
	"encoding/json"
	"fmt"
	"os"
	"path/filepath"
	"reflect"
	"sort"
	"strconv"
	"strings"
	"time"

	"github.com/spf13/pflag"
	"github.com/spf13/viper"

	"github.com/ARM-software/golang-utils/utils/commonerrors"
	"github.com/ARM-software/golang-utils/utils/config"
)

// sources, in decreasing priority (the statement's order); srcFlagDefault is NOT a source of the statement: it is the
// default value of a bound flag that was not set on the command line.
const (
	srcFlag = iota
	srcEnv
	srcFile
	srcDef
	srcFlagDefault
)

var srcNames = []string{"flag", "env", "file", "def", "flagdefault"}

const (
	bitFlag = 1 << srcFlag
	bitEnv  = 1 << srcEnv
	bitFile = 1 << srcFile
	bitDef  = 1 << srcDef
)

// flag binding forms (BindFlagToEnv documents "the environment variable string with or without the prefix")
const (
	bindNone  = -1
	bindFull  = 0 // PREFIX_PATH_TO_FIELD, upper case
	bindShort = 1 // PATH_TO_FIELD (without the prefix)
	bindMixed = 2 // full name, alternating case (the repository's own test binds "DUMMY_Time")
	bindMulti = 3 // BindFlagsToEnv with two flags of which the first is the one that may be set
)

var bindNames = map[int]string{bindNone: "unbound", bindFull: "full", bindShort: "short", bindMixed: "mixedcase", bindMulti: "multi"}

const (
	fmtJSON = iota
	fmtYAML
	fmtTOML
)

var fmtNames = []string{"json", "yaml", "toml"}

// bool values cannot be pairwise distinct over four sources: four patterns (flag, env, file, def) such that every
// pair of sources differs in at least one of them.
var boolPatterns = [4][4]bool{
	{true, false, true, false},
	{false, true, false, true},
	{true, true, false, false},
	{false, false, true, true},
}

// value of source src for field (or environment-name group representative) idx; pairwise distinct over (src, idx) per kind.
func value(k kind, src, idx int, zero bool, boolPat int) any {
	n := (src+1)*1000 + idx + 1
	switch k {
	case kString:
		if zero {
			return ""
		}
		return fmt.Sprintf("%s-%d", srcNames[src], idx)
	case kInt:
		if zero {
			return 0
		}
		return n
	case kBool:
		if zero {
			return false
		}
		if src == srcFlagDefault {
			return true
		}
		return boolPatterns[boolPat][src]
	case kFloat:
		if zero {
			return float64(0)
		}
		return float64(n) + 0.5
	case kDuration:
		if zero {
			return time.Duration(0)
		}
		return time.Duration(n) * time.Millisecond
	}
	panic("kind")
}

func isZero(v any) bool { return reflect.ValueOf(v).IsZero() }

// dotenvValue: a value of the field's kind, other than the one the environment holds, written the way a .env file takes it.
func dotenvValue(k kind, flagText string) string {
	if k == kString {
		return strconv.Quote(flagText + "-from-dotenv")
	}
	return strconv.Quote(flagText)
}

// textual form of a value for an environment variable / a flag's Set / a file's duration entry
func text(v any) string {
	switch x := v.(type) {
	case string:
		return x
	case int:
		return strconv.Itoa(x)
	case bool:
		return strconv.FormatBool(x)
	case float64:
		return strconv.FormatFloat(x, 'g', -1, 64)
	case time.Duration:
		return x.String()
	}
	panic("text")
}

// scenario describes one load completely (it is also the replay object of a violation).
type scenario struct {
	Part        string   `json:"part"` // precedence | envnames | validation
	Struct      string   `json:"struct"`
	Prefix      string   `json:"prefix"`
	Pres        []int    `json:"present_sources_per_field"` // bit mask per field
	ZeroAt      []int    `json:"explicit_zero_sources_per_field"`
	BoolPat     int      `json:"bool_pattern"`
	Bind        []int    `json:"flag_binding_per_field"` // bindNone..bindMulti
	FlagDefault []bool   `json:"nonzero_flag_default_per_field"`
	FileFormat  int      `json:"file_format"`
	FileUpper   bool     `json:"file_keys_upper_case"`
	Required    []bool   `json:"required_per_field"`
	EnvNames    []string `json:"env_name_per_field"`
	Target      int      `json:"target_field"` // -1: none
	Note        string   `json:"note,omitempty"`
	// ValidatorStyle: "" = the Validate methods use ozzo-validation (what the ReadMe shows); "library-error" = they report a
	// missing field themselves, with an error of the library of another kind than 'invalid' (UndefinedVariable)
	ValidatorStyle string `json:"validator_style,omitempty"`
	// DotEnv: the working directory holds a .env file that defines every environment variable the scenario sets — the
	// very same names — with other values. A .env file completes the process environment (godotenv.Load); it is not one of
	// the four sources, and a variable that IS set in the environment keeps its value: the load must come out exactly as
	// it does without the file.
	DotEnv bool `json:"dotenv_file_redefines_the_set_variables,omitempty"`
}

func newScenario(part string, s *structSpec, prefix string, envNames []string) *scenario {
	n := len(s.Fields)
	sc := &scenario{Part: part, Struct: s.Name, Prefix: prefix, Pres: make([]int, n), ZeroAt: make([]int, n), Bind: make([]int, n),
		FlagDefault: make([]bool, n), Required: make([]bool, n), EnvNames: envNames, Target: -1}
	for i := range sc.Bind {
		sc.Bind[i] = bindNone
	}
	return sc
}

// canonical environment name: upper(PREFIX_PATH_TO_FIELD), tags joined by "_" (dashes kept: see the env-name part).
func canonicalEnvName(prefix string, f *fieldInfo) string {
	if prefix == "" {
		return strings.ToUpper(f.pathTags())
	}
	return strings.ToUpper(prefix + "_" + f.pathTags())
}

type mismatch struct {
	Field    string `json:"field"`
	Kind     string `json:"kind"`
	Expected string `json:"expected"`
	Accepted string `json:"also_accepted,omitempty"`
	Got      string `json:"got"`
	ExpSrc   string `json:"expected_source"`
	GotClass string `json:"got_class"`
	sig      string
	cross    bool
}

type outcome struct {
	Mismatches []mismatch
	Err        error
	ErrText    string
	Offending  []string // Go paths of required fields that are zero in the loaded structure
	ValSig     string   // validation clause violated ("" = none)
	Got        []any
	Winners    []string // per field: source class that the loaded value corresponds to (for outcome statistics)
	Panic      string
	Details    map[string]any
	API        string // which entry point ran
	EnvVars    int    // environment variables the scenario set
}

type runner struct {
	dir      string // scratch directory for configuration files
	fileSeq  int
	loads    int64
	byAPI    map[string]int64
	detailed bool
}

// group = fields sharing an environment name (flags are bound by environment name, too)
func groups(sc *scenario) map[string][]int {
	g := map[string][]int{}
	for i, n := range sc.EnvNames {
		g[n] = append(g[n], i)
	}
	return g
}

func (r *runner) run(s *structSpec, sc *scenario) (out outcome) {
	n := len(s.Fields)
	grp := groups(sc)
	rep := make([]int, n) // group representative (lowest index)
	for _, members := range grp {
		for _, m := range members {
			rep[m] = members[0]
		}
	}
	// group-level presence / zero-ness of the two name-bound sources
	gPres := make([]int, n)
	gZero := make([]int, n)
	gBind := make([]int, n)
	gFlagDef := make([]bool, n)
	for i := 0; i < n; i++ {
		gBind[i] = bindNone
	}
	for _, members := range grp {
		p, z, b, fd := 0, 0, bindNone, false
		for _, m := range members {
			p |= sc.Pres[m] & (bitFlag | bitEnv)
			z |= sc.ZeroAt[m] & (bitFlag | bitEnv)
			if sc.Bind[m] != bindNone && b == bindNone {
				b = sc.Bind[m]
			}
			fd = fd || sc.FlagDefault[m]
		}
		if p&bitFlag != 0 && b == bindNone {
			b = bindFull
		}
		for _, m := range members {
			gPres[m], gZero[m], gBind[m], gFlagDef[m] = p, z, b, fd
		}
	}
	val := func(i, src int) any {
		f := s.Fields[i]
		switch src {
		case srcFlag, srcEnv:
			return value(f.Kind, src, rep[i], gZero[i]&(1<<src) != 0, sc.BoolPat)
		case srcFlagDefault:
			return value(f.Kind, src, rep[i], !gFlagDef[i], sc.BoolPat)
		default:
			return value(f.Kind, src, i, sc.ZeroAt[i]&(1<<src) != 0, sc.BoolPat)
		}
	}
	present := func(i, src int) bool {
		switch src {
		case srcFlag, srcEnv:
			return gPres[i]&(1<<src) != 0
		default:
			return sc.Pres[i]&(1<<src) != 0
		}
	}

	// ---- required pattern ------------------------------------------------------------------------
	validatorStyleNow = sc.ValidatorStyle
	for k := range requiredNow {
		delete(requiredNow, k)
	}
	for i, f := range s.Fields {
		if sc.Required[i] {
			requiredNow[f.ReqKey] = true
		}
	}

	// ---- defaults --------------------------------------------------------------------------------
	def := s.newPtr()
	dv := reflect.ValueOf(def).Elem()
	for i, f := range s.Fields {
		if present(i, srcDef) {
			dv.FieldByIndex(f.Index).Set(reflect.ValueOf(val(i, srcDef)))
		}
	}

	// ---- configuration file ----------------------------------------------------------------------
	tree := map[string]any{}
	anyFile := false
	for i, f := range s.Fields {
		if !present(i, srcFile) {
			continue
		}
		anyFile = true
		m := tree
		for d, tag := range f.Tags {
			key := tag
			if sc.FileUpper {
				key = strings.ToUpper(tag)
			}
			if d == len(f.Tags)-1 {
				v := val(i, srcFile)
				if dur, ok := v.(time.Duration); ok {
					v = dur.String()
				}
				m[key] = v
			} else {
				sub, ok := m[key].(map[string]any)
				if !ok {
					sub = map[string]any{}
					m[key] = sub
				}
				m = sub
			}
		}
	}
	filePath := ""
	fileText := ""
	if anyFile {
		switch sc.FileFormat {
		case fmtJSON:
			b, _ := json.Marshal(tree)
			fileText = string(b)
		case fmtYAML:
			fileText = emitYAML(tree, 0)
		case fmtTOML:
			fileText = emitTOML(tree, "")
		}
		r.fileSeq++
		filePath = filepath.Join(r.dir, fmt.Sprintf("cfg%d.%s", r.fileSeq%4, fmtNames[sc.FileFormat]))
		if err := os.WriteFile(filePath, []byte(fileText), 0o600); err != nil {
			out.Panic = "ENGINE: cannot write the configuration file: " + err.Error()
			return
		}
	}

	// ---- environment -----------------------------------------------------------------------------
	envSet := map[string]string{}
	for i := range s.Fields {
		if present(i, srcEnv) {
			envSet[sc.EnvNames[i]] = text(val(i, srcEnv))
		}
	}
	for k, v := range envSet {
		if err := os.Setenv(k, v); err != nil {
			out.Panic = "ENGINE: cannot set the environment variable: " + err.Error()
			return
		}
	}
	defer func() {
		for k := range envSet {
			_ = os.Unsetenv(k)
		}
	}()
	out.EnvVars = len(envSet)
	if sc.DotEnv && len(envSet) > 0 {
		var b strings.Builder
		for i := range s.Fields {
			if present(i, srcEnv) {
				fmt.Fprintf(&b, "%s=%s\n", sc.EnvNames[i], dotenvValue(s.Fields[i].Kind, text(val(i, srcFlag))))
			}
		}
		if err := os.WriteFile(".env", []byte(b.String()), 0o600); err != nil {
			out.Panic = "ENGINE: cannot write .env: " + err.Error()
			return
		}
		defer os.Remove(".env")
	}

	// ---- flags -----------------------------------------------------------------------------------
	session := viper.New()
	flagSet := pflag.NewFlagSet("c15", pflag.ContinueOnError)
	flagsBound := 0
	flagLog := map[string]string{}
	names := make([]string, 0, len(grp))
	for name := range grp {
		names = append(names, name)
	}
	sort.Strings(names)
	for _, name := range names {
		i := grp[name][0]
		if gBind[i] == bindNone {
			continue
		}
		f := s.Fields[i]
		define := func(flagName string) {
			d := val(i, srcFlagDefault)
			if strings.HasSuffix(flagName, "b") {
				// the second flag of a group: its default is the very value it will be set to when the scenario sets the flag
				// (a flag explicitly given its own default is still an explicitly set flag)
				d = val(i, srcFlag)
			}
			switch f.Kind {
			case kString:
				flagSet.String(flagName, d.(string), "")
			case kInt:
				flagSet.Int(flagName, d.(int), "")
			case kBool:
				flagSet.Bool(flagName, d.(bool), "")
			case kFloat:
				flagSet.Float64(flagName, d.(float64), "")
			case kDuration:
				flagSet.Duration(flagName, d.(time.Duration), "")
			}
		}
		flagName := fmt.Sprintf("f%d", i)
		define(flagName)
		arg := name
		switch gBind[i] {
		case bindShort:
			if sc.Prefix != "" {
				arg = name[len(sc.Prefix)+1:]
			}
		case bindMixed:
			b := []byte(strings.ToLower(name))
			for j := 0; j < len(b); j += 2 {
				b[j] = strings.ToUpper(string(b[j]))[0]
			}
			arg = string(b)
		}
		var err error
		if gBind[i] == bindMulti {
			define(flagName + "b")
			err = config.BindFlagsToEnv(session, sc.Prefix, arg, flagSet.Lookup(flagName+"b"), flagSet.Lookup(flagName))
		} else {
			err = config.BindFlagToEnv(session, sc.Prefix, arg, flagSet.Lookup(flagName))
		}
		if err != nil {
			out.Panic = "ENGINE: flag binding refused: " + err.Error()
			return
		}
		flagsBound++
		flagLog[flagName] = fmt.Sprintf("bound to %q default=%v", arg, val(i, srcFlagDefault))
		if present(i, srcFlag) {
			setName := flagName
			if gBind[i] == bindMulti {
				setName = flagName + "b" // the group's first flag, set to what is also its default
			}
			if err := flagSet.Set(setName, text(val(i, srcFlag))); err != nil {
				out.Panic = "ENGINE: flag set refused: " + err.Error()
				return
			}
			flagLog[flagName] += fmt.Sprintf(" SET=%q", text(val(i, srcFlag)))
		}
	}

	// ---- load ------------------------------------------------------------------------------------
	got := s.newPtr()
	api := ""
	func() {
		defer func() {
			if p := recover(); p != nil {
				out.Panic = fmt.Sprintf("panic: %v", p)
			}
		}()
		switch {
		case filePath != "":
			api = "LoadFromEnvironment"
			out.Err = config.LoadFromEnvironment(session, sc.Prefix, got, def, filePath)
		case flagsBound == 0 && r.loads%2 == 0:
			api = "Load"
			out.Err = config.Load(sc.Prefix, got, def)
		default:
			api = "LoadFromViper"
			out.Err = config.LoadFromViper(session, sc.Prefix, got, def)
		}
	}()
	r.loads++
	r.byAPI[api]++
	out.API = api
	if out.Err != nil {
		out.ErrText = out.Err.Error()
	}
	if out.Panic != "" {
		return
	}

	// ---- oracle 1: every field holds the value of its highest-priority present source -------------------
	gv := reflect.ValueOf(got).Elem()
	out.Got = make([]any, n)
	out.Winners = make([]string, n)
	for i, f := range s.Fields {
		g := gv.FieldByIndex(f.Index).Interface()
		out.Got[i] = g
		// expected winner
		expectWith := func(skip int) (any, int) {
			for src := srcFlag; src <= srcDef; src++ {
				if src != skip && present(i, src) {
					return val(i, src), src
				}
			}
			return value(f.Kind, srcDef, i, true, 0), -1
		}
		exp, expSrc := expectWith(-1)
		accepted := []any{exp}
		// Reading taken (weakest): the default value of a bound flag that was NOT set is not one of the four sources.
		// LoadFromViper's documentation says the supplied defaults win over it "unless they are considered empty":
		// so when no source is present, or the only present source is the supplied default holding the zero value,
		// both the zero value and the flag's default are accepted. In every other situation a present source must win.
		if gBind[i] != bindNone && !present(i, srcFlag) && (expSrc == -1 || (expSrc == srcDef && isZero(exp))) {
			accepted = append(accepted, val(i, srcFlagDefault))
		}
		ok := false
		for _, a := range accepted {
			if reflect.DeepEqual(a, g) {
				ok = true
			}
		}
		expName := "zero"
		if expSrc >= 0 {
			expName = srcNames[expSrc]
		}
		if ok {
			out.Winners[i] = expName
			if expSrc == -1 && !isZero(g) {
				out.Winners[i] = "flagdefault"
			}
			continue
		}
		// classify what was loaded instead
		class := "unknown"
		cross := false
		without, _ := expectWith(expSrc)
		switch {
		case gBind[i] != bindNone && gFlagDef[i] && reflect.DeepEqual(g, val(i, srcFlagDefault)):
			class = "flagdefault"
		case expSrc >= 0 && reflect.DeepEqual(g, without):
			class = "ignored" // the result is what the remaining sources give: the expected source was ignored
		case isZero(g):
			class = "zero"
		default:
		search:
			for j, h := range s.Fields {
				if j == i || h.Kind != f.Kind || f.Kind == kBool {
					continue
				}
				for src := srcFlag; src <= srcFlagDefault; src++ {
					if reflect.DeepEqual(g, val(j, src)) || reflect.DeepEqual(g, value(h.Kind, src, j, false, 0)) {
						class = "other-field"
						if strings.EqualFold(h.pathTags(), f.pathTags()) {
							class = "sibling"
						}
						break search
					}
				}
			}
			if f.Kind == kBool {
				class = "boolflip"
			}
		}
		tc := tagClass(s, f, sc.Prefix)
		fm := "unbound"
		if gBind[i] != bindNone {
			switch {
			case present(i, srcFlag):
				fm = "set-" + bindNames[gBind[i]]
			case gFlagDef[i]:
				fm = "unset-nonzerodefault"
			default:
				fm = "unset-zerodefault"
			}
		}
		sig := fmt.Sprintf("precedence:exp=%s:got=%s:tag=%s:flag=%s", expName, class, tc, fm)
		if class == "unknown" || class == "boolflip" {
			sig += ":kind=" + kindNames[f.Kind]
		}
		// Two fields with one environment name: on the unchanged tree the link step copies one field's value onto the
		// other, in a direction that depends on map iteration order. All such mismatches are folded into ONE
		// signature (recorded once, with a canonical replay) so that verdict and counts do not depend on that order.
		if tc == "colliding" && (class == "sibling" || class == "zero" || class == "ignored") {
			sig = "precedence:crosstalk:tag=colliding"
			cross = true
		}
		out.Winners[i] = "WRONG:" + class
		mm := mismatch{Field: f.goName(), Kind: kindNames[f.Kind], Expected: fmt.Sprintf("%v", exp), Got: fmt.Sprintf("%v", g), ExpSrc: expName, GotClass: class, sig: sig, cross: cross}
		if len(accepted) > 1 {
			mm.Accepted = fmt.Sprintf("%v", accepted[1])
		}
		out.Mismatches = append(out.Mismatches, mm)
	}

	// ---- oracle 2: success <=> the RESULTING structure passes the reference validation; else 'invalid' naming a field --
	var offending []*fieldInfo
	for i, f := range s.Fields {
		if sc.Required[i] && isZero(out.Got[i]) {
			offending = append(offending, f)
			out.Offending = append(out.Offending, f.goName())
		}
	}
	maxLevel := 0
	for _, f := range offending {
		if f.level() > maxLevel {
			maxLevel = f.level()
		}
	}
	switch {
	case len(offending) == 0 && out.Err != nil:
		kindOf := "other"
		if commonerrors.Any(out.Err, commonerrors.ErrInvalid) {
			kindOf = "invalid"
		} else if commonerrors.Any(out.Err, commonerrors.ErrMarshalling) {
			kindOf = "marshalling"
		}
		out.ValSig = "validation:error-although-valid:kind=" + kindOf
	case len(offending) > 0 && out.Err == nil:
		out.ValSig = fmt.Sprintf("validation:missed:deepest-level=%d", maxLevel)
	case len(offending) > 0 && !commonerrors.Any(out.Err, commonerrors.ErrInvalid):
		out.ValSig = fmt.Sprintf("validation:wrong-kind:deepest-level=%d", maxLevel)
	case len(offending) > 0:
		named := false
		for _, f := range offending {
			if namesField(out.ErrText, f) {
				named = true
			}
		}
		if !named {
			out.ValSig = fmt.Sprintf("validation:field-not-named:deepest-level=%d", maxLevel)
		}
	}

	if r.detailed || len(out.Mismatches) > 0 || out.ValSig != "" {
		exp := map[string]string{}
		gotm := map[string]string{}
		for i, f := range s.Fields {
			gotm[f.goName()] = fmt.Sprintf("%v", out.Got[i])
			for src := srcFlag; src <= srcDef; src++ {
				if present(i, src) {
					exp[f.goName()] += fmt.Sprintf("%s=%v ", srcNames[src], val(i, src))
				}
			}
		}
		out.Details = map[string]any{"api": api, "prefix": sc.Prefix, "environment": envSet, "flags": flagLog, "file": fileText, "defaults": fmt.Sprintf("%+v", def),
			"sources_present_per_field": exp, "loaded": gotm, "error": out.ErrText, "offending_required_fields": out.Offending}
	}
	return
}

// namesField: reading taken of "names the offending field" (weakest that still distinguishes paths): the error text
// contains, in order, for every level of the field's path either the Go field name or the mapstructure tag
// (case-insensitive). The repository prints "(DB->Host) [APP_DB] cannot be blank".
func namesField(errText string, f *fieldInfo) bool {
	low := strings.ToLower(errText)
	pos := 0
	for d := range f.GoPath {
		best := -1
		for _, cand := range []string{f.GoPath[d], f.Tags[d], strings.ReplaceAll(f.Tags[d], "-", "_")} {
			if k := strings.Index(low[pos:], strings.ToLower(cand)); k >= 0 {
				end := pos + k + len(cand)
				if best == -1 || end < best {
					best = end
				}
			}
		}
		if best == -1 {
			return false
		}
		pos = best
	}
	return true
}

// ---- tiny emitters (block-style YAML, TOML with tables) so that the file source is exercised in three syntaxes ----

func sortedKeys(m map[string]any) []string {
	ks := make([]string, 0, len(m))
	for k := range m {
		ks = append(ks, k)
	}
	sort.Strings(ks)
	return ks
}

func scalarText(v any) string {
	switch x := v.(type) {
	case string:
		return strconv.Quote(x)
	default:
		return text(v)
	}
}

func emitYAML(m map[string]any, indent int) string {
	var b strings.Builder
	for _, k := range sortedKeys(m) {
		b.WriteString(strings.Repeat("  ", indent))
		if sub, ok := m[k].(map[string]any); ok {
			b.WriteString(k + ":\n" + emitYAML(sub, indent+1))
		} else {
			b.WriteString(k + ": " + scalarText(m[k]) + "\n")
		}
	}
	return b.String()
}

func emitTOML(m map[string]any, path string) string {
	var b strings.Builder
	for _, k := range sortedKeys(m) {
		if _, ok := m[k].(map[string]any); !ok {
			b.WriteString(k + " = " + scalarText(m[k]) + "\n")
		}
	}
	for _, k := range sortedKeys(m) {
		if sub, ok := m[k].(map[string]any); ok {
			p := k
			if path != "" {
				p = path + "." + k
			}
			b.WriteString("[" + p + "]\n" + emitTOML(sub, p))
		}
	}
	return b.String()
}

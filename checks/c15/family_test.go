package c15

// The fixed family of configuration structures the enumeration runs over (DESIGN.md section 4, C15):
// depth 1..3; string / int / bool / float / duration leaves; mapstructure tags with underscores, dashes and
// mixed case; one structure with two fields whose environment names collide after the "." -> "_" replacement;
// one structure whose tags begin with the letters of a prefix of the prefix alphabet.

import (
	"reflect"
	"strings"
	"time"

	validation "github.com/go-ozzo/ozzo-validation/v4"

	"github.com/ARM-software/golang-utils/utils/commonerrors"
	"github.com/ARM-software/golang-utils/utils/config"
)

// ---- depth 1 -----------------------------------------------------------------------------------

type D1 struct {
	Host  string        `mapstructure:"host"`
	Port  int           `mapstructure:"Port_Num"`
	TLS   bool          `mapstructure:"use-tls"`
	Ratio float64       `mapstructure:"ratio"`
	Wait  time.Duration `mapstructure:"wait_period"`
}

func (c *D1) Validate() error { return validateLevel(c) }

// ---- depth 2 -----------------------------------------------------------------------------------

type D2DB struct {
	HostName string        `mapstructure:"host_name"`
	Port     int           `mapstructure:"port"`
	Timeout  time.Duration `mapstructure:"time-out"`
}

func (c *D2DB) Validate() error { return validateLevel(c) }

type D2Cache struct {
	Dir   string  `mapstructure:"Dir"`
	Fill  float64 `mapstructure:"fill_ratio"`
	Ready bool    `mapstructure:"enabled"`
}

func (c *D2Cache) Validate() error { return validateLevel(c) }

type D2 struct {
	Service string  `mapstructure:"service_name"`
	Count   int     `mapstructure:"MaxCount"`
	Debug   bool    `mapstructure:"debug"`
	DB      D2DB    `mapstructure:"db"`
	Cache   D2Cache `mapstructure:"local-cache"`
}

func (c *D2) Validate() error { return validateLevel(c) }

// ---- depth 3 -----------------------------------------------------------------------------------

type D3TLS struct {
	Cert   string        `mapstructure:"cert_file"`
	Active bool          `mapstructure:"active"`
	Renew  time.Duration `mapstructure:"renew-every"`
}

func (c *D3TLS) Validate() error { return validateLevel(c) }

type D3Limits struct {
	Burst int     `mapstructure:"Burst"`
	Rate  float64 `mapstructure:"per_second"`
}

func (c *D3Limits) Validate() error { return validateLevel(c) }

type D3Server struct {
	Addr    string   `mapstructure:"listen-addr"`
	Workers int      `mapstructure:"workers"`
	TLS     D3TLS    `mapstructure:"TLS"`
	Limits  D3Limits `mapstructure:"rate_limits"`
}

func (c *D3Server) Validate() error { return validateLevel(c) }

type D3 struct {
	Ident  string   `mapstructure:"ident"`
	Server D3Server `mapstructure:"server_cfg"`
}

func (c *D3) Validate() error { return validateLevel(c) }

// ---- colliding environment names: DC.DBHost (key db_host) and DC.DB.Host (key db.host) -> <PREFIX>_DB_HOST ------

type DCDB struct {
	Host string `mapstructure:"host"`
	Port int    `mapstructure:"port"`
}

func (c *DCDB) Validate() error { return validateLevel(c) }

type DC struct {
	DBHost string `mapstructure:"db_host"`
	DB     DCDB   `mapstructure:"db"`
	Other  string `mapstructure:"other"`
}

func (c *DC) Validate() error { return validateLevel(c) }

// ---- tags that begin with the letters of a prefix (app / APP / my_app / my-app) ------------------------------

type DPApp struct {
	Level int `mapstructure:"level"`
}

func (c *DPApp) Validate() error { return validateLevel(c) }

type DP struct {
	AppName     string `mapstructure:"app_name"`
	Application int    `mapstructure:"application"`
	MyAppMode   string `mapstructure:"my_app_mode"`
	MyAppID     int    `mapstructure:"my-app-id"`
	App         DPApp  `mapstructure:"app"`
	Plain       string `mapstructure:"plain"`
}

func (c *DP) Validate() error { return validateLevel(c) }

// ---- keys that extend a sibling key with "_suffix" (host / host_name, port / port_max, backend.timeout / backend.timeout_max):
// once underscores are read as separators the longer key looks like a child of the shorter one ----------------------------

type DXBackend struct {
	Timeout    time.Duration `mapstructure:"timeout"`
	TimeoutMax time.Duration `mapstructure:"timeout_max"`
}

func (c *DXBackend) Validate() error { return validateLevel(c) }

type DX struct {
	Host     string    `mapstructure:"host"`
	HostName string    `mapstructure:"host_name"`
	Port     int       `mapstructure:"port"`
	PortMax  int       `mapstructure:"port_max"`
	Backend  DXBackend `mapstructure:"backend"`
}

func (c *DX) Validate() error { return validateLevel(c) }

// ---- required-field patterns ------------------------------------------------------------------------------

// requiredNow is the required-field pattern of the case being run ("TypeName.FieldName" -> required).
// The process runs cases sequentially (the environment is process-global anyway), so a package variable is sound.
var requiredNow = map[string]bool{}

// validatorStyleNow is the scenario's ValidatorStyle.
var validatorStyleNow = ""

// validateLevel is what the ReadMe of utils/config tells the author of a configuration structure to write:
// validate the embedded structures first, then the fields of this level (ozzo-validation, `Required`).
func validateLevel(cfg config.Validator) error {
	if err := config.ValidateEmbedded(cfg); err != nil {
		return err
	}
	v := reflect.ValueOf(cfg).Elem()
	t := v.Type()
	if validatorStyleNow == "library-error-colon" {
		// ... or with an 'invalid' library error whose reason names the field after a colon
		for i := 0; i < t.NumField(); i++ {
			if requiredNow[t.Name()+"."+t.Field(i).Name] && v.Field(i).IsZero() {
				name := t.Field(i).Tag.Get("mapstructure")
				if name == "" {
					name = t.Field(i).Name
				}
				return commonerrors.Newf(commonerrors.ErrInvalid, "required field is not set: %v", name)
			}
		}
		return nil
	}
	if validatorStyleNow == "library-error" {
		for i := 0; i < t.NumField(); i++ {
			if requiredNow[t.Name()+"."+t.Field(i).Name] && v.Field(i).IsZero() {
				name := t.Field(i).Tag.Get("mapstructure")
				if name == "" {
					name = t.Field(i).Name
				}
				return commonerrors.UndefinedVariable(name)
			}
		}
		return nil
	}
	var rules []*validation.FieldRules
	for i := 0; i < t.NumField(); i++ {
		if requiredNow[t.Name()+"."+t.Field(i).Name] {
			rules = append(rules, validation.Field(v.Field(i).Addr().Interface(), validation.Required))
		}
	}
	return validation.ValidateStruct(cfg, rules...)
}

// ---- reflection-built description of the family --------------------------------------------------------------

type kind int

const (
	kString kind = iota
	kInt
	kBool
	kFloat
	kDuration
)

var kindNames = []string{"string", "int", "bool", "float", "duration"}

type fieldInfo struct {
	Idx     int
	Index   []int    // reflect index path
	GoPath  []string // Go field names, outermost first
	Tags    []string // mapstructure tags as written, outermost first
	Kind    kind
	ReqKey  string // key into requiredNow
	TagForm string // plain | underscore | dash | mixedcase (of the whole path, most "exotic" wins)
}

func (f *fieldInfo) key() string      { return strings.ToLower(strings.Join(f.Tags, ".")) }
func (f *fieldInfo) goName() string   { return strings.Join(f.GoPath, ".") }
func (f *fieldInfo) level() int       { return len(f.GoPath) }
func (f *fieldInfo) pathTags() string { return strings.Join(f.Tags, "_") }

type structSpec struct {
	Name   string
	Depth  int
	typ    reflect.Type
	Fields []*fieldInfo
}

func (s *structSpec) newPtr() config.IServiceConfiguration {
	return reflect.New(s.typ).Interface().(config.IServiceConfiguration)
}

var durationType = reflect.TypeOf(time.Duration(0))

func describe(name string, sample any) *structSpec {
	s := &structSpec{Name: name, typ: reflect.TypeOf(sample)}
	var walk func(t reflect.Type, index []int, gopath, tags []string)
	walk = func(t reflect.Type, index []int, gopath, tags []string) {
		for i := 0; i < t.NumField(); i++ {
			sf := t.Field(i)
			idx := append(append([]int(nil), index...), i)
			gp := append(append([]string(nil), gopath...), sf.Name)
			tg := append(append([]string(nil), tags...), sf.Tag.Get("mapstructure"))
			if sf.Type.Kind() == reflect.Struct {
				walk(sf.Type, idx, gp, tg)
				continue
			}
			fi := &fieldInfo{Idx: len(s.Fields), Index: idx, GoPath: gp, Tags: tg, ReqKey: t.Name() + "." + sf.Name}
			switch {
			case sf.Type == durationType:
				fi.Kind = kDuration
			case sf.Type.Kind() == reflect.String:
				fi.Kind = kString
			case sf.Type.Kind() == reflect.Int:
				fi.Kind = kInt
			case sf.Type.Kind() == reflect.Bool:
				fi.Kind = kBool
			case sf.Type.Kind() == reflect.Float64:
				fi.Kind = kFloat
			default:
				panic("unsupported field type in the family: " + sf.Type.String())
			}
			joined := strings.Join(tg, "")
			switch {
			case strings.Contains(joined, "-"):
				fi.TagForm = "dash"
			case joined != strings.ToLower(joined):
				fi.TagForm = "mixedcase"
			case strings.Contains(joined, "_"):
				fi.TagForm = "underscore"
			default:
				fi.TagForm = "plain"
			}
			if len(gp) > s.Depth {
				s.Depth = len(gp)
			}
			s.Fields = append(s.Fields, fi)
		}
	}
	walk(s.typ, nil, nil, nil)
	return s
}

var (
	specD1 = describe("D1", D1{})
	specD2 = describe("D2", D2{})
	specD3 = describe("D3", D3{})
	specDC = describe("DC", DC{})
	specDP = describe("DP", DP{})
	specDX = describe("DX", DX{})
	family = []*structSpec{specD1, specD2, specD3, specDC, specDP, specDX}
)

func specByName(n string) *structSpec {
	for _, s := range family {
		if s.Name == n {
			return s
		}
	}
	return nil
}

// tagClass of a field under a prefix: "colliding" when another field of the structure has the same environment
// name, "prefixed" when the (lower-cased) key begins with the (lower-cased) non-empty prefix, else "regular".
func tagClass(s *structSpec, f *fieldInfo, prefix string) string {
	for _, g := range s.Fields {
		if g != f && strings.EqualFold(g.pathTags(), f.pathTags()) {
			return "colliding"
		}
	}
	if prefix != "" && strings.HasPrefix(f.key(), strings.ToLower(prefix)) {
		return "prefixed"
	}
	return "regular"
}

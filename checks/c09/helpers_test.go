package c09

// Part (a): the context-aware I/O helpers of utils/safeio, driven with scripted streams.
//
// Readings taken (weakest reading of the statement, so that no alarm is raised where the property holds):
//   - "a bounded read returns at most max (the whole source when it is shorter)": for an EMPTY result (empty source or
//     max == 0) ReadAtMost reports the 'empty' kind with no content; that is accepted as "delivered the empty prefix".
//   - "a copy of n bytes transfers exactly n or reports an error": for n < 0 nothing may be transferred (error or not).
//   - a reader that fails after k bytes: the failure must surface (non-nil error) whenever the requested amount lies
//     beyond k; when the failure coincides with the end of the requested amount either outcome is accepted.
//   - kinds: 'cancelled' and 'timeout' are both accepted for either way of ending the context; an error of one of
//     these kinds is only acceptable if the harness really ended the context; io.ErrUnexpectedEOF injected by the
//     reader must come back as the 'EOF' kind from the helpers (the bare reader/writer wrappers may pass it raw).
//   - "starts no new read from a source stream": the scripted reader records ctx.Err() when a Read is entered.

import (
	"context"
	"errors"
	"fmt"
	"io"
	"math"
	"os"
	"path/filepath"
	"runtime/debug"
	"sort"
	"strings"

	"github.com/spf13/afero"

	"github.com/ARM-software/golang-utils/utils/commonerrors"
	"github.com/ARM-software/golang-utils/utils/filesystem"
	"github.com/ARM-software/golang-utils/utils/safeio"
)

var (
	errReader = errors.New("injected reader failure")
	errWriter = errors.New("injected writer failure")
)

const restChunk = -1 // chunk symbol "everything that was asked for"

var sourceBytes = func() []byte {
	b := make([]byte, 1<<20+2)
	for i := range b {
		b[i] = byte(i*7+3) ^ byte(i>>8)
	}
	return b
}()

// hcase is one case of part (a); it is also the replay object.
type hcase struct {
	Fn          string `json:"fn"`
	L           int    `json:"source_len"`
	Max         int64  `json:"max_or_n"`
	Cap         int64  `json:"buffer_capacity"`
	Chunks      []int  `json:"chunks"` // -1 = rest
	ErrAt       int    `json:"reader_err_at"`
	ErrWithData bool   `json:"reader_err_with_data"`
	ErrEOFKind  bool   `json:"reader_err_is_unexpected_eof"`
	EOFWithData bool   `json:"eof_with_data"`
	WriterTo    bool   `json:"reader_has_writer_to"`
	WErrAt      int    `json:"writer_err_at"`
	ReaderFrom  bool   `json:"writer_has_reader_from"`
	Flavour     string `json:"flavour"`
	Cancel      int    `json:"cancel"` // -1 before the call, 0 never, j>0 after the j-th stream call
}

type env struct {
	ctx                         context.Context
	trigger                     func()
	calls, cancelAfter          int
	fired                       bool
	reads, writes               int
	readAfterEnd, writeAfterEnd int
	writeToUsed                 bool
}

func (e *env) enter(read bool) {
	ended := e.ctx.Err() != nil
	if read {
		e.reads++
		if ended {
			e.readAfterEnd++
		}
	} else {
		e.writes++
		if ended {
			e.writeAfterEnd++
		}
	}
}

func (e *env) leave() {
	e.calls++
	if e.calls == e.cancelAfter {
		e.fired = true
		e.trigger()
	}
}

type sreader struct {
	e           *env
	data        []byte
	pos, ci     int
	chunks      []int
	errAt       int
	errWithData bool
	errv        error
	eofWithData bool
}

func (r *sreader) Read(p []byte) (int, error) {
	r.e.enter(true)
	defer r.e.leave()
	limit := len(r.data)
	if r.errAt >= 0 && r.errAt < limit {
		limit = r.errAt
	}
	avail := limit - r.pos
	if avail == 0 {
		if r.errAt >= 0 {
			return 0, r.errv
		}
		return 0, io.EOF
	}
	if len(p) == 0 {
		return 0, nil
	}
	n := avail
	if r.ci < len(r.chunks) {
		if c := r.chunks[r.ci]; c != restChunk {
			n = c
		}
		r.ci++
	}
	n = min(n, len(p), avail)
	copy(p, r.data[r.pos:r.pos+n])
	r.pos += n
	if r.pos == limit && n > 0 {
		if r.errAt >= 0 && r.errWithData {
			return n, r.errv
		}
		if r.errAt < 0 && r.eofWithData {
			return n, io.EOF
		}
	}
	return n, nil
}

// sreaderWT additionally offers io.WriterTo (a helper that called it directly would bypass the context checks).
type sreaderWT struct{ *sreader }

func (r sreaderWT) WriteTo(w io.Writer) (int64, error) {
	r.e.writeToUsed = true
	var total int64
	buf := make([]byte, 7+len(r.data)/6) // small sources: 7-byte rounds; large ones: a handful of rounds
	for {
		n, err := r.Read(buf)
		if n > 0 {
			m, werr := w.Write(buf[:n])
			total += int64(m)
			if werr != nil {
				return total, werr
			}
		}
		if err == io.EOF {
			return total, nil
		}
		if err != nil {
			return total, err
		}
	}
}

type swriter struct {
	e     *env
	buf   []byte
	errAt int
	round int // size of the rounds of ReadFrom
}

func (w *swriter) put(p []byte) (int, error) {
	if w.errAt >= 0 && len(w.buf)+len(p) > w.errAt {
		n := w.errAt - len(w.buf)
		w.buf = append(w.buf, p[:n]...)
		return n, errWriter
	}
	w.buf = append(w.buf, p...)
	return len(p), nil
}

func (w *swriter) Write(p []byte) (int, error) {
	w.e.enter(false)
	defer w.e.leave()
	return w.put(p)
}

// swriterRF additionally offers io.ReaderFrom.
type swriterRF struct{ *swriter }

func (w swriterRF) ReadFrom(r io.Reader) (int64, error) {
	var total int64
	buf := make([]byte, 5+w.round)
	for {
		n, err := r.Read(buf)
		if n > 0 {
			m, werr := w.put(buf[:n])
			total += int64(m)
			if werr != nil {
				return total, werr
			}
		}
		if err == io.EOF {
			return total, nil
		}
		if err != nil {
			return total, err
		}
	}
}

type hresult struct {
	out      []byte // bytes delivered (returned content, or what reached the writer)
	n        int64
	err      error
	panicked string
	e        *env
}

func (c hcase) reader(e *env) io.Reader {
	r := &sreader{e: e, data: sourceBytes[:c.L], chunks: c.Chunks, errAt: c.ErrAt, errWithData: c.ErrWithData, errv: errReader, eofWithData: c.EOFWithData}
	if c.ErrEOFKind {
		r.errv = io.ErrUnexpectedEOF
	}
	if c.WriterTo {
		return sreaderWT{r}
	}
	return r
}

func (c hcase) writer(e *env) (io.Writer, *swriter) {
	w := &swriter{e: e, errAt: c.WErrAt, round: c.L / 5}
	if c.ReaderFrom {
		return swriterRF{w}, w
	}
	return w, w
}

func runHelper(c hcase) (res hresult) {
	e := &env{cancelAfter: c.Cancel}
	res.e = e
	var cancel func()
	if c.Cancel < 0 {
		e.ctx, cancel = deadCtx(c.Flavour)
		e.trigger = func() {}
		e.fired = true
	} else {
		e.ctx, cancel = liveCtx(c.Flavour)
		e.trigger = cancel
	}
	defer cancel()
	defer func() {
		if p := recover(); p != nil {
			res.panicked = fmt.Sprint(p)
			if os.Getenv("VERIF_REPLAY") != "" {
				fmt.Printf("panic: %v\n%s\n", p, debug.Stack())
			}
		}
	}()
	switch c.Fn {
	case "ReadAtMost":
		res.out, res.err = safeio.ReadAtMost(e.ctx, c.reader(e), c.Max, c.Cap)
		res.n = int64(len(res.out))
	case "ReadAll":
		res.out, res.err = safeio.ReadAll(e.ctx, c.reader(e))
		res.n = int64(len(res.out))
	case "CopyData":
		w, sw := c.writer(e)
		res.n, res.err = safeio.CopyDataWithContext(e.ctx, c.reader(e), w)
		res.out = sw.buf
	case "CopyN":
		w, sw := c.writer(e)
		res.n, res.err = safeio.CopyNWithContext(e.ctx, c.reader(e), w, c.Max)
		res.out = sw.buf
	case "WriteString":
		w, sw := c.writer(e)
		var n int
		n, res.err = safeio.WriteString(e.ctx, w, string(sourceBytes[:c.L]))
		res.n = int64(n)
		res.out = sw.buf
	case "CtxReader":
		r := safeio.NewContextualReader(e.ctx, c.reader(e))
		sizes := []int{1, 3, 64 + c.L/4}
		p := make([]byte, sizes[2])
		for i := 0; i < 1<<16; i++ {
			n, err := r.Read(p[:sizes[i%3]])
			res.out = append(res.out, p[:n]...)
			if err != nil {
				res.err = err
				break
			}
		}
		res.n = int64(len(res.out))
	case "CtxWriter":
		w, sw := c.writer(e)
		cw := safeio.ContextualWriter(e.ctx, w)
		data := sourceBytes[:c.L]
		sizes := []int{1, 3, 64 + c.L/4}
		for i := 0; len(data) > 0 || i == 0; i++ { // an empty source still makes one (empty) Write
			k := min(sizes[i%3], len(data))
			n, err := cw.Write(data[:k])
			res.n += int64(n)
			data = data[n:]
			if err != nil {
				res.err = err
				break
			}
		}
		res.out = sw.buf
	case "CtxReaderFrom":
		sw := &swriter{e: e, errAt: c.WErrAt, round: c.L / 5}
		rf := safeio.NewContextualReaderFrom(e.ctx, swriterRF{sw})
		res.n, res.err = rf.ReadFrom(c.reader(e))
		res.out = sw.buf
	default:
		panic("unknown helper " + c.Fn)
	}
	return
}

// rank orders the cases of part (a) from simple to complex (for the choice of the stored replay).
func (c hcase) rank() int64 {
	r := int64(c.L)*1000 + int64(len(c.Chunks))*100 + int64(c.Cancel+1)
	if c.ErrAt >= 0 {
		r += 20
	}
	if c.WErrAt >= 0 {
		r += 20
	}
	if c.WriterTo || c.ReaderFrom || c.EOFWithData {
		r += 10
	}
	return r
}

func isPrefix(p, of []byte) bool {
	return len(p) <= len(of) && string(p) == string(of[:len(p)])
}

func maxClass(c hcase) string {
	m, l := c.Max, int64(c.L)
	switch {
	case c.Fn != "ReadAtMost" && c.Fn != "CopyN":
		return "na"
	case m < 0:
		return "neg"
	case m >= 1<<31:
		return "huge"
	case m == 0:
		return "zero"
	case m < l:
		return "below"
	case m == l:
		return "equal"
	}
	return "above"
}

func cancelClass(c hcase) string {
	switch {
	case c.Cancel < 0:
		return "pre"
	case c.Cancel == 0:
		return "none"
	}
	return "mid"
}

// sig computes the signature of a violated clause from the class of the case. The instant of cancellation is part of
// the class only for the clauses that are about cancellation (and for panics, together with the capacity class);
// the other clauses (prefix, maximum, count, kinds) are classified by helper and by the relation of max/n to the length.
func (c hcase) sig(clause string) string {
	s := fmt.Sprintf("a:%s:%s:max=%s", c.Fn, clause, maxClass(c))
	aboutCancellation := strings.HasPrefix(clause, "pre-cancelled") || strings.HasPrefix(clause, "read-started") || strings.HasPrefix(clause, "context-kind") || strings.HasPrefix(clause, "panic")
	if aboutCancellation {
		s += ":cancel=" + cancelClass(c)
	}
	if c.Fn == "ReadAtMost" && strings.HasPrefix(clause, "panic") {
		if c.Cap < 0 {
			s += ":cap=default"
		} else {
			s += ":cap=explicit"
		}
	}
	return s
}

// judge evaluates the oracle of part (a) on one executed case; it returns the violated clauses (empty = held)
// and an outcome class (for the vacuity count).
func judge(c hcase, r hresult) (clauses []string, outcome string) {
	add := func(s string) { clauses = append(clauses, s) }
	data := sourceBytes[:c.L]
	kind := kindName(r.err)
	outcome = kind
	if r.panicked != "" {
		p := "panic"
		if strings.Contains(r.panicked, "makeslice") {
			p = "panic-makeslice"
		}
		return []string{p}, "panic"
	}
	e := r.e
	if e.readAfterEnd > 0 {
		add("read-started-after-context-ended")
	}
	if !isPrefix(r.out, data) {
		add("delivered-not-a-prefix")
	}
	// deliverable before the reader fails; D == L when it never fails
	D := c.L
	if c.ErrAt >= 0 && c.ErrAt < D {
		D = c.ErrAt
	}
	readerErrOK := func(upto int64) bool { // the reader's failure may be what is reported
		return c.ErrAt >= 0 && int64(c.ErrAt) <= upto
	}
	if c.Cancel < 0 {
		if !isCtxKind(r.err) {
			add("pre-cancelled-kind=" + kind)
		}
		if e.calls > 0 || len(r.out) > 0 {
			add("pre-cancelled-stream-touched")
		}
		return
	}
	ctxKindOK := func() {
		if !e.fired {
			add("context-kind-although-context-alive")
		}
	}
	switch c.Fn {
	case "ReadAtMost", "ReadAll":
		max := c.Max
		if c.Fn == "ReadAll" {
			max = -1
		}
		T := int64(c.L)
		if max >= 0 && max < T {
			T = max
		}
		if max >= 0 && int64(len(r.out)) > max {
			add("more-than-max")
		}
		switch {
		case r.err == nil:
			if int64(len(r.out)) != T {
				add("short-result-without-error")
			}
			if int64(len(r.out)) == int64(c.L) {
				outcome = "ok-whole"
			} else {
				outcome = "ok-truncated-to-max"
			}
		case isCtxKind(r.err):
			ctxKindOK()
		case kind == "empty":
			if T != 0 && D != 0 {
				add("empty-kind-on-non-empty-read")
			}
		case kind == "reader-error":
			if !(readerErrOK(T) && !c.ErrEOFKind) {
				add("unexpected-kind=" + kind)
			}
		case kind == "EOF":
			if !(readerErrOK(T) && c.ErrEOFKind) {
				add("unexpected-kind=" + kind)
			}
		default:
			add("unexpected-kind=" + kind)
		}
	case "CopyData", "CtxReaderFrom", "CtxReader":
		if c.Fn != "CtxReader" && r.n != int64(len(r.out)) {
			add("count-differs-from-delivered")
		}
		werrOK := c.WErrAt >= 0 && D > c.WErrAt && c.Fn != "CtxReader"
		switch {
		case r.err == nil || (c.Fn == "CtxReader" && r.err == io.EOF):
			outcome = "ok-whole"
			if len(r.out) != c.L || c.ErrAt >= 0 {
				add("short-result-without-error")
			}
		case isCtxKind(r.err):
			ctxKindOK()
		case kind == "reader-error" || (c.Fn == "CtxReader" && errors.Is(r.err, io.ErrUnexpectedEOF)):
			if c.ErrAt < 0 || (c.ErrEOFKind && c.Fn != "CtxReader") {
				add("unexpected-kind=" + kind)
			}
		case kind == "EOF":
			if !(c.ErrAt >= 0 && c.ErrEOFKind) {
				add("unexpected-kind=" + kind)
			}
		case kind == "writer-error":
			if !werrOK {
				add("unexpected-kind=" + kind)
			}
		default:
			add("unexpected-kind=" + kind)
		}
	case "CopyN":
		n := c.Max
		if r.n != int64(len(r.out)) {
			add("count-differs-from-delivered")
		}
		if int64(len(r.out)) > max(n, 0) {
			add("more-than-n")
		}
		toWrite := min(int64(D), max(n, 0))
		werrOK := c.WErrAt >= 0 && toWrite > int64(c.WErrAt)
		switch {
		case r.err == nil:
			outcome = "ok-exactly-n"
			if int64(len(r.out)) != max(n, 0) {
				add("not-n-without-error")
			}
		case isCtxKind(r.err):
			ctxKindOK()
		case kind == "EOF":
			if !(int64(D) < n || (readerErrOK(n) && c.ErrEOFKind)) {
				add("unexpected-kind=" + kind)
			}
			if int64(D) < n && c.ErrAt < 0 {
				outcome = "EOF-source-shorter-than-n"
			}
		case kind == "reader-error":
			if !(readerErrOK(n) && !c.ErrEOFKind) {
				add("unexpected-kind=" + kind)
			}
		case kind == "writer-error":
			if !werrOK {
				add("unexpected-kind=" + kind)
			}
		default:
			add("unexpected-kind=" + kind)
		}
	case "WriteString", "CtxWriter":
		if r.n != int64(len(r.out)) {
			add("count-differs-from-delivered")
		}
		switch {
		case r.err == nil:
			outcome = "ok-whole"
			if len(r.out) != c.L {
				add("short-result-without-error")
			}
		case isCtxKind(r.err):
			ctxKindOK()
		case kind == "writer-error":
			if !(c.WErrAt >= 0 && c.L > c.WErrAt) {
				add("unexpected-kind=" + kind)
			}
		default:
			add("unexpected-kind=" + kind)
		}
	}
	return
}

// ---- enumeration ---------------------------------------------------------------------------------

func chunkScripts(maxLen int) [][]int {
	alphabet := []int{0, 1, 2, restChunk}
	out := [][]int{{}}
	frontier := [][]int{{}}
	for l := 1; l <= maxLen; l++ {
		var next [][]int
		for _, s := range frontier {
			for _, a := range alphabet {
				n := append(append([]int(nil), s...), a)
				next = append(next, n)
			}
		}
		out = append(out, next...)
		frontier = next
	}
	return out
}

func maxSet(L int) []int64 {
	l := int64(L)
	cands := []int64{-1, 0, 1, l - 1, l, l + 1, 2 * l, 1 << 31, math.MaxInt64}
	seen := map[int64]bool{}
	var out []int64
	for _, m := range cands {
		if m < -1 || seen[m] {
			continue
		}
		seen[m] = true
		out = append(out, m)
	}
	return out
}

type readerVariant struct {
	ErrAt                             int
	ErrWithData, ErrEOFKind, EOFWData bool
}

func readerVariants(L int) []readerVariant {
	out := []readerVariant{{ErrAt: -1}, {ErrAt: -1, EOFWData: true}}
	for k := 0; k <= 8 && k <= L; k++ {
		for _, wd := range []bool{false, true} {
			if wd && k == 0 {
				continue // no data to return the error with
			}
			for _, ek := range []bool{false, true} {
				out = append(out, readerVariant{ErrAt: k, ErrWithData: wd, ErrEOFKind: ek})
			}
		}
	}
	return out
}

// helperJob is a slice of the space small enough to be a unit of parallel work: one helper on one source length.
type helperJob struct {
	Fn    string
	L     int
	Small bool // family A (full product of scripts) or family B (boundary lengths, reduced scripts)
}

func smallMaxLen(thorough bool) int {
	if thorough {
		return 40
	}
	return 8
}

func helperJobs(thorough bool) []helperJob {
	smallMax := smallMaxLen(thorough)
	big := []int{511, 512, 513, 32767, 32768, 32769, 1 << 20}
	if thorough {
		big = append(big, 1<<20-1, 1<<20+1)
	}
	var jobs []helperJob
	fns := []string{"ReadAtMost", "ReadAll", "CopyData", "CopyN", "WriteString", "CtxReader", "CtxWriter", "CtxReaderFrom"}
	for _, fn := range fns {
		for l := 0; l <= smallMax; l++ {
			jobs = append(jobs, helperJob{fn, l, true})
		}
		for _, l := range big {
			jobs = append(jobs, helperJob{fn, l, false})
		}
	}
	// the costliest jobs first
	sort.SliceStable(jobs, func(a, b int) bool { return jobs[a].L > jobs[b].L })
	return jobs
}

var (
	scripts4      = chunkScripts(4)
	scripts2      = chunkScripts(2)
	scripts1      = chunkScripts(1)
	scriptsBigSet = [][]int{{}, {0}, {1}, {0, 1, 2}, {2, restChunk}, {1, 1, 1, 1}, {0, 0, 0, 0}}
)

type writerVariant struct {
	errAt int
	rf    bool
}

// family is a sub-product of the alphabet. The dimensions (chunk script, reader failure, writer behaviour) are
// crossed fully with max/n, capacity, WriterTo and every cancellation instant, and pairwise-fully with each other:
//
//	A1: every script of <= 4 chunks  x  healthy readers (EOF alone / EOF with the last data)  x  healthy writers
//	A2: every reader failure (byte k <= 8; alone / with data; custom / unexpected EOF)  x  scripts of <= 2 chunks  x  healthy writers
//	A3: every failing writer  x  scripts of <= 1 chunk  x  {healthy reader, reader failing at byte 2}
//	B (boundary lengths 511..2^20+1): 7 scripts x 4 reader behaviours x 3 writer behaviours
type family struct {
	scripts [][]int
	rvs     []readerVariant
	wvs     []writerVariant
}

func families(j helperJob) []family {
	usesReader := j.Fn != "WriteString" && j.Fn != "CtxWriter"
	usesWriter := j.Fn == "CopyData" || j.Fn == "CopyN" || j.Fn == "WriteString" || j.Fn == "CtxWriter" || j.Fn == "CtxReaderFrom"
	healthyW := []writerVariant{{-1, false}, {-1, true}}
	failingW := []writerVariant{{0, false}, {1, false}, {3, false}, {1, true}, {3, true}}
	if j.Fn == "CtxReaderFrom" {
		healthyW = []writerVariant{{-1, true}}
		failingW = []writerVariant{{1, true}, {3, true}}
	}
	if !usesWriter {
		healthyW, failingW = []writerVariant{{-1, false}}, nil
	}
	if !usesReader {
		return []family{{scripts: [][]int{{}}, rvs: []readerVariant{{ErrAt: -1}}, wvs: append(healthyW, failingW...)}}
	}
	if !j.Small {
		L := j.L
		scripts := scriptsBigSet
		if L >= 1<<19 {
			scripts = [][]int{{}, {0, 1, 2}, {1, 1, 1, 1}} // every run moves a mebibyte
		}
		f := family{scripts: scripts, wvs: healthyW,
			rvs: []readerVariant{{ErrAt: -1}, {ErrAt: -1, EOFWData: true}, {ErrAt: 8}, {ErrAt: L - 1, ErrWithData: true, ErrEOFKind: true}}}
		if usesWriter {
			f.wvs = append(f.wvs, failingW[len(failingW)-1])
		}
		return []family{f}
	}
	all := readerVariants(j.L)
	fams := []family{
		{scripts: scripts4, rvs: all[:2], wvs: healthyW},
		{scripts: scripts2, rvs: all[2:], wvs: healthyW},
	}
	if usesWriter {
		fams = append(fams, family{scripts: scripts1, rvs: []readerVariant{{ErrAt: -1}, {ErrAt: 2}}, wvs: failingW})
	}
	return fams
}

// forEachBase calls f for every base case (context never ended) of a job.
func forEachBase(j helperJob, f func(hcase)) {
	maxes := []int64{0}
	if j.Fn == "ReadAtMost" || j.Fn == "CopyN" {
		maxes = maxSet(j.L)
	}
	caps := []int64{0}
	if j.Fn == "ReadAtMost" {
		caps = []int64{-1, 16}
	}
	wts := []bool{false, true}
	if j.Fn == "WriteString" || j.Fn == "CtxWriter" {
		wts = []bool{false}
	}
	for _, m := range maxes {
		for _, cp := range caps {
			if cp < 0 && m >= 1<<31 && m < 1<<48 {
				// bufferCapacity defaults to max: 2 GiB would really be reserved per call; that value is exercised
				// once, serially, in TestC09 (thorough); here the explicit capacity covers it.
				continue
			}
			for _, fam := range families(j) {
				for _, s := range fam.scripts {
					for _, rv := range fam.rvs {
						if rv.ErrAt > j.L {
							continue
						}
						for _, wt := range wts {
							for _, w := range fam.wvs {
								f(hcase{Fn: j.Fn, L: j.L, Max: m, Cap: cp, Chunks: s, ErrAt: rv.ErrAt, ErrWithData: rv.ErrWithData,
									ErrEOFKind: rv.ErrEOFKind, EOFWithData: rv.EOFWData, WriterTo: wt, WErrAt: w.errAt, ReaderFrom: w.rf, Flavour: flCancel})
							}
						}
					}
				}
			}
		}
	}
}

// helperStats is what a job reports.
type helperStats struct {
	evals, midRuns, baseCases int64
	outcomes                  map[string]int64
	maxStreamCalls            int
	samples                   []any
}

// violationSink records a violating case; of the cases of one signature the one with the lowest rank is kept as replay.
type violationSink func(sig string, replay any, rank int64)

// runHelperJob enumerates a job: for every base case the run without cancellation (which also measures the number T
// of stream calls), the two pre-cancelled runs, and for BOTH flavours the run whose context ends after the j-th
// stream call, for every j in 1..T.
func runHelperJob(j helperJob, thorough bool, viol violationSink) helperStats {
	st := helperStats{outcomes: map[string]int64{}}
	eval := func(c hcase) hresult {
		r := runHelper(c)
		st.evals++
		clauses, outcome := judge(c, r)
		st.outcomes[c.Fn+":"+cancelClass(c)+":"+outcome]++
		for _, cl := range clauses {
			viol(c.sig(cl), map[string]any{"part": "a", "case": c, "got_n": r.n, "got_err": fmt.Sprint(r.err), "got_kind": kindName(r.err),
				"panic": r.panicked, "reads": r.e.reads, "writes": r.e.writes, "reads_after_end": r.e.readAfterEnd}, c.rank())
		}
		return r
	}
	forEachBase(j, func(c hcase) {
		st.baseCases++
		base := eval(c)
		T := base.e.calls
		if T > st.maxStreamCalls {
			st.maxStreamCalls = T
		}
		for _, fl := range []string{flCancel, flDeadline, flCancelCause} {
			c.Flavour = fl
			c.Cancel = -1
			eval(c)
			if base.panicked != "" || (!j.Small && fl != flCancel) {
				continue // boundary lengths: the mid-run instants in the cancel flavour only
			}
			for k := 1; k <= T; k++ {
				c.Cancel = k
				r := eval(c)
				if r.e.fired {
					st.midRuns++
				}
				if len(st.samples) < 2 && k == T/2+1 && len(c.Chunks) == 3 && c.ErrAt < 0 && c.L > 4 {
					st.samples = append(st.samples, map[string]any{"case": c, "delivered": len(r.out), "kind": kindName(r.err), "stream_calls": r.e.calls})
				}
			}
		}
	})
	return st
}

// ---- limited file reads ---------------------------------------------------------------------------

// fileLimitCases: ReadFileWithContextAndLimits / ReadFileContent on files of length L with a limit of max bytes:
// larger files are refused with the 'too large' kind, the others are returned whole.
func fileLimitCases(viol violationSink) (evals int64, outcomes map[string]int64) {
	outcomes = map[string]int64{}
	lens := []int{0, 1, 2, 3, 7, 8, 9, 511, 512, 513, 4096, 32768, 32769}
	for _, l := range lens {
		for _, m := range maxSet(l) {
			if m < 0 {
				continue
			}
			for _, api := range []string{"ReadFileWithContextAndLimits", "ReadFileContent"} {
				for _, pre := range append([]string{""}, preFlavours...) {
					mem := afero.NewMemMapFs()
					_ = afero.WriteFile(mem, "/f.bin", sourceBytes[:l], 0o644)
					fs := filesystem.NewVirtualFileSystem(mem, filesystem.InMemoryFS, filesystem.IdentityPathConverterFunc)
					limits := filesystem.NewLimits(m, 1<<40, 1<<20, 64, false)
					ctx, cancel := context.WithCancel(context.Background())
					if pre != "" {
						cancel()
						ctx, cancel = deadCtx(pre)
					}
					var content []byte
					var err error
					if api == "ReadFileContent" {
						f, oerr := fs.GenericOpen("/f.bin")
						if oerr != nil {
							panic(oerr)
						}
						content, err = fs.ReadFileContent(ctx, f, limits)
						_ = f.Close()
					} else {
						content, err = fs.ReadFileWithContextAndLimits(ctx, "/f.bin", limits)
					}
					cancel()
					evals++
					kind := kindName(err)
					cls := "fits"
					if int64(l) > m {
						cls = "larger"
					}
					sig := func(clause string) string {
						return fmt.Sprintf("a:%s:%s:file=%s:cancel=%s", api, clause, cls, map[bool]string{true: "pre", false: "none"}[pre != ""])
					}
					replay := map[string]any{"part": "a-file", "api": api, "len": l, "max": m, "pre": pre, "got_kind": kind, "got_len": len(content)}
					outcomes[api+":"+cls+":"+pre+":"+kind]++
					switch {
					case pre != "":
						if !isCtxKind(err) {
							viol(sig("pre-cancelled-kind="+kind), replay, int64(l))
						}
					case int64(l) > m:
						if !commonerrors.Any(err, commonerrors.ErrTooLarge) {
							viol(sig("larger-file-not-refused-kind="+kind), replay, int64(l))
						}
						if len(content) > 0 {
							viol(sig("larger-file-content-returned"), replay, int64(l))
						}
					case l == 0:
						if !(err == nil || kind == "empty") || len(content) != 0 {
							viol(sig("empty-file-kind="+kind), replay, int64(l))
						}
					default:
						if err != nil || string(content) != string(sourceBytes[:l]) {
							viol(sig("fitting-file-not-returned-whole-kind="+kind), replay, int64(l))
						}
					}
				}
			}
		}
	}
	// very large files (sparse: no disk space is used) on the OS backend: still refused when above the limit, through
	// every limited entry point
	if dir, derr := os.MkdirTemp("/dev/shm", "verif-c09-sparse-"); derr == nil {
		defer os.RemoveAll(dir)
		osfs := filesystem.NewFs(filesystem.StandardFS)
		for _, size := range []int64{999_999_999, 1_000_000_000, 1_000_000_001, 3_000_000_000, 1 << 32, 1<<32 + 1} {
			p := filepath.Join(dir, fmt.Sprintf("sparse-%d.bin", size))
			f, cerr := os.Create(p)
			if cerr != nil || f.Truncate(size) != nil {
				continue
			}
			_ = f.Close()
			for _, m := range []int64{0, 4096, 1 << 20} {
				limits := filesystem.NewLimits(m, 1<<40, 1<<20, 64, false)
				for _, api := range []string{"ReadFileWithContextAndLimits", "ReadFileWithLimits", "ReadFileContent"} {
					var content []byte
					var err error
					switch api {
					case "ReadFileContent":
						h, oerr := osfs.GenericOpen(p)
						if oerr != nil {
							continue
						}
						content, err = osfs.ReadFileContent(context.Background(), h, limits)
						_ = h.Close()
					case "ReadFileWithLimits":
						content, err = osfs.ReadFileWithLimits(p, limits)
					default:
						content, err = osfs.ReadFileWithContextAndLimits(context.Background(), p, limits)
					}
					evals++
					kind := kindName(err)
					outcomes[api+":huge:"+kind]++
					replay := map[string]any{"part": "a-file", "api": api, "len": size, "max": m, "sparse": true, "got_kind": kind, "got_len": len(content)}
					if !commonerrors.Any(err, commonerrors.ErrTooLarge) {
						viol(fmt.Sprintf("a:%s:larger-file-not-refused-kind=%s:file=huge:cancel=none", api, kind), replay, size)
					}
					if len(content) > 0 {
						viol(fmt.Sprintf("a:%s:larger-file-content-returned:file=huge:cancel=none", api), replay, size)
					}
				}
			}
			_ = os.Remove(p)
		}
	}
	return
}

package c09

import (
	"context"
	"errors"
	"strings"
	"sync"
	"time"

	"github.com/ARM-software/golang-utils/utils/commonerrors"
)

// manualCtx is a context whose end is triggered by the harness and whose Err() is context.DeadlineExceeded:
// it is how a *deadline that expires in the middle of a call* is produced without any wall clock.
// It implements AfterFunc so that contexts derived from it (context.WithCancel(parent) inside the code under
// test) are ended synchronously by end(), not by a propagation goroutine.
type manualCtx struct {
	mu    sync.Mutex
	done  chan struct{}
	err   error
	after map[int]func()
	next  int
}

func newManualCtx() *manualCtx { return &manualCtx{done: make(chan struct{}), after: map[int]func(){}} }

func (c *manualCtx) Deadline() (time.Time, bool) { return time.Time{}, false }
func (c *manualCtx) Done() <-chan struct{}       { return c.done }
func (c *manualCtx) Value(any) any               { return nil }
func (c *manualCtx) Err() error {
	c.mu.Lock()
	defer c.mu.Unlock()
	return c.err
}
func (c *manualCtx) AfterFunc(f func()) func() bool {
	c.mu.Lock()
	if c.err != nil {
		c.mu.Unlock()
		f()
		return func() bool { return false }
	}
	id := c.next
	c.next++
	c.after[id] = f
	c.mu.Unlock()
	return func() bool {
		c.mu.Lock()
		defer c.mu.Unlock()
		_, ok := c.after[id]
		delete(c.after, id)
		return ok
	}
}
func (c *manualCtx) end(err error) {
	c.mu.Lock()
	if c.err != nil {
		c.mu.Unlock()
		return
	}
	c.err = err
	close(c.done)
	fs := c.after
	c.after = map[int]func(){}
	c.mu.Unlock()
	for _, f := range fs {
		f()
	}
}

// Flavours of "the context ends".
const (
	flCancel   = "cancel"
	flDeadline = "deadline"
	// the same two ends with a CAUSE recorded (context.WithCancelCause / WithDeadlineCause): ctx.Err() is still
	// context.Canceled / DeadlineExceeded, context.Cause(ctx) is an application error of no common kind
	flCancelCause   = "cancel-with-cause"
	flDeadlineCause = "deadline-with-cause"
)

var errCause = errors.New("node is being drained")

// preFlavours: the ways a context can be done at the call. midFlavours: the ways it can end while the call runs.
var (
	preFlavours = []string{flCancel, flDeadline, flCancelCause, flDeadlineCause}
	midFlavours = []string{flCancel, flDeadline}
)

// liveCtx returns a context that is alive and a trigger that ends it (synchronously) in the given flavour.
func liveCtx(flavour string) (context.Context, func()) {
	if flavour == flDeadline || flavour == flDeadlineCause {
		c := newManualCtx()
		return c, func() { c.end(context.DeadlineExceeded) }
	}
	if flavour == flCancelCause {
		ctx, cancel := context.WithCancelCause(context.Background())
		return ctx, func() { cancel(errCause) }
	}
	return context.WithCancel(context.Background())
}

// deadCtx returns a context that is already done at the call: cancelled, or with an expired deadline.
func deadCtx(flavour string) (context.Context, func()) {
	switch flavour {
	case flDeadline:
		return context.WithDeadline(context.Background(), time.Unix(1, 0))
	case flDeadlineCause:
		return context.WithDeadlineCause(context.Background(), time.Unix(1, 0), errCause)
	case flCancelCause:
		ctx, cancel := context.WithCancelCause(context.Background())
		cancel(errCause)
		return ctx, func() {}
	}
	ctx, cancel := context.WithCancel(context.Background())
	cancel()
	return ctx, cancel
}

// isCtxKind: the error is of the 'cancelled' or 'timeout' kind.
// Reading taken (weakest): either kind is accepted for either flavour; the raw context errors are accepted too,
// because NewContextualReader hands out the contextio reader whose errors are only converted by the helpers above it.
func isCtxKind(err error) bool {
	return err != nil && (commonerrors.Any(err, commonerrors.ErrCancelled, commonerrors.ErrTimeout) ||
		errors.Is(err, context.Canceled) || errors.Is(err, context.DeadlineExceeded))
}

func kindName(err error) string {
	switch {
	case err == nil:
		return "nil"
	case commonerrors.Any(err, commonerrors.ErrCancelled) || errors.Is(err, context.Canceled):
		return "cancelled"
	case commonerrors.Any(err, commonerrors.ErrTimeout) || errors.Is(err, context.DeadlineExceeded):
		return "timeout"
	case commonerrors.Any(err, commonerrors.ErrEOF):
		return "EOF"
	case commonerrors.Any(err, commonerrors.ErrTooLarge):
		return "toolarge"
	case commonerrors.Any(err, commonerrors.ErrEmpty):
		return "empty"
	case errors.Is(err, errReader):
		return "reader-error"
	case errors.Is(err, errWriter):
		return "writer-error"
	}
	for _, e := range []error{commonerrors.ErrUnexpected, commonerrors.ErrNotFound, commonerrors.ErrInvalid, commonerrors.ErrConflict,
		commonerrors.ErrExists, commonerrors.ErrUndefined, commonerrors.ErrCondition, commonerrors.ErrNotImplemented, commonerrors.ErrUnsupported, commonerrors.ErrOutOfRange} {
		if commonerrors.Any(err, e) {
			return "common-" + strings.ReplaceAll(e.Error(), " ", "-")
		}
	}
	return "other"
}

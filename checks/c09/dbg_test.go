package c09

import (
	"fmt"
	"testing"
	"time"
)

func TestDbgA(t *testing.T) {
	for _, j := range helperJobs(false) {
		if j.L != 8 && j.L != 32768 && j.L != 1<<20 {
			continue
		}
		t0 := time.Now()
		n := 0
		st := runHelperJob(j, false, func(s string, r any) { n++ })
		fmt.Println(j, "base", st.baseCases, "evals", st.evals, "viol", n, time.Since(t0))
	}
}

// C09 — cancellation is honoured everywhere; context-aware I/O yields exact prefixes.
//
// Level: fault_enumeration. The "fault" is the end of the context: before the call, after the j-th stream call
// (part a, helpers_test.go) and after the k-th backend operation (part b, fsentry_test.go), for EVERY j / k of the
// run (the run is first executed without fault to measure its length), in two flavours (cancellation; a deadline
// that expires, produced without a clock by a harness-triggered context). Inputs of the helpers are enumerated
// exhaustively inside the stated bound. Everything runs on the real code of /repo; nothing is sampled.
package c09

import (
	"encoding/json"
	"errors"
	"fmt"
	"os"
	"sort"
	"strings"
	"sync"
	"sync/atomic"
	"testing"
	"time"

	ev "verif/engine/evidence"
)

func TestMain(m *testing.M) { ev.Main(m) }

// parallel runs f(i) for i in [0,n) on the worker goroutines.
func parallel(n int, f func(i int)) {
	var next atomic.Int64
	var wg sync.WaitGroup
	for w := 0; w < ev.Workers(); w++ {
		wg.Add(1)
		go func() {
			defer wg.Done()
			for {
				i := int(next.Add(1)) - 1
				if i >= n {
					return
				}
				f(i)
			}
		}()
	}
	wg.Wait()
}

type entryStats struct {
	mu         sync.Mutex
	N          map[string]int64 // tree/backend -> length of the uncancelled run
	MaxAfter   map[string]int64 // tree/backend -> most further operations seen
	MaxAfterM  map[string]int64
	Runs       int64
	CtxKind    int64
	CompletedK int64 // runs that still succeeded (were about to finish)
}

func judgeRun(sc *scenario, spec runSpec, res runResult, N int64) (clauses []string) {
	kind := kindName(res.err)
	if res.panicked != "" {
		return []string{"panic"}
	}
	if spec.Pre {
		if !isCtxKind(res.err) {
			clauses = append(clauses, "context-done-at-call:kind="+kind)
		}
		if res.before != res.afterDmp {
			clauses = append(clauses, "context-done-at-call:tree-changed")
		}
		return
	}
	if spec.K == 0 {
		return
	}
	if !sc.Concurrent {
		if res.after > int64(sc.B) {
			clauses = append(clauses, "mid-run:further-operations-exceed-B")
		}
		if res.afterMut > int64(sc.M) {
			clauses = append(clauses, "mid-run:further-mutating-operations-exceed-M")
		}
	}
	switch {
	case res.err == nil:
		if res.total != N {
			clauses = append(clauses, "mid-run:success-reported-for-unfinished-work")
		}
	case !isCtxKind(res.err):
		clauses = append(clauses, "mid-run:kind="+kind)
	}
	return
}

func TestC09(t *testing.T) {
	rep := ev.NewReporter("C09", "fault_enumeration")
	var err error
	osRoot, err = os.MkdirTemp("/dev/shm", "verif-c09-")
	if err != nil {
		rep.EngineError("cannot create the OS sandbox root: %v", err)
		rep.Finish()
		return
	}
	defer os.RemoveAll(osRoot)
	thorough := ev.Thorough()
	// violations are collected per signature; the simplest case (lowest rank) becomes the stored replay
	type kept struct {
		replay any
		rank   int64
		n      int64
	}
	var vmu sync.Mutex
	found := map[string]*kept{}
	viol := func(sig string, replay any, rank int64) {
		vmu.Lock()
		defer vmu.Unlock()
		k := found[sig]
		if k == nil {
			found[sig] = &kept{replay, rank, 1}
			return
		}
		k.n++
		if rank < k.rank {
			k.replay, k.rank = replay, rank
		}
	}
	finish := func() {
		for sig, k := range found {
			rep.ViolationN(sig, k.replay, k.n)
		}
		rep.Finish()
	}

	scs := scenarios()
	byName := map[string]*scenario{}
	for i := range scs {
		byName[scs[i].Name] = &scs[i]
	}

	if path := os.Getenv("VERIF_REPLAY"); path != "" {
		runReplay(rep, path, byName, viol)
		rep.Coverage["evaluations"] = 1
		rep.Coverage["distinct_nontrivial"] = 2
		rep.Coverage["rule"] = "replay of one stored case"
		rep.Coverage["samples"] = []any{path}
		finish()
		return
	}

	phases := map[string]float64{}
	t0 := time.Now()
	lap := func(name string) { phases[name] = time.Since(t0).Seconds(); t0 = time.Now() }
	// ================= part (a): helpers =================
	var aEvals, aMid, aBase atomic.Int64
	aOutcomes := map[string]int64{}
	var aSamples []any
	var amu sync.Mutex
	maxCalls := 0
	if thorough {
		// the default buffer capacity is max: 2 GiB are reserved by this one call (never touched); done once, serially
		c := hcase{Fn: "ReadAtMost", L: 5, Max: 1 << 31, Cap: -1, ErrAt: -1, WErrAt: -1, Flavour: flCancel}
		r := runHelper(c)
		cl, _ := judge(c, r)
		for _, x := range cl {
			viol(c.sig(x), map[string]any{"part": "a", "case": c, "panic": r.panicked, "got_err": fmt.Sprint(r.err)}, 1<<40)
		}
		aEvals.Add(1)
	}
	jobs := helperJobs(thorough)
	parallel(len(jobs), func(i int) {
		st := runHelperJob(jobs[i], thorough, viol)
		aEvals.Add(st.evals)
		aMid.Add(st.midRuns)
		aBase.Add(st.baseCases)
		amu.Lock()
		for k, v := range st.outcomes {
			aOutcomes[k] += v
		}
		if st.maxStreamCalls > maxCalls {
			maxCalls = st.maxStreamCalls
		}
		if len(aSamples) < 4 && jobs[i].L == 7 {
			aSamples = append(aSamples, st.samples...)
		}
		amu.Unlock()
	})
	fEvals, fOutcomes := fileLimitCases(viol)
	lap("part_a")

	// ================= part (b): filesystem entry points =================
	// the list of entry points comes from the interface type: every context-accepting method must have been run
	methods := contextMethods()
	covered := map[string]bool{}
	for _, sc := range scs {
		m := sc.Method
		if m == "" {
			m = sc.Name
		}
		covered[m] = true
		if _, ok := fsType.MethodByName(m); !ok {
			rep.EngineError("scenario %s names a method that filesystem.FS does not have", sc.Name)
		}
	}
	var generic []string
	for _, m := range methods {
		if covered[m] {
			continue
		}
		mt, _ := fsType.MethodByName(m)
		args, gerr := genericArgs(mt)
		if gerr != nil {
			rep.EngineError("context-accepting method %s of filesystem.FS has no scenario and none can be synthesised: %v", m, gerr)
			continue
		}
		// unknown entry point: generic arguments, the most generous constants of the table
		scs = append(scs, scenario{Name: m, Args: args, B: bRemove, M: mFew})
		generic = append(generic, m)
	}
	byName = map[string]*scenario{}
	for i := range scs {
		byName[scs[i].Name] = &scs[i]
	}

	type combo struct {
		sc      *scenario
		tree    string
		backend string
		N       int64
	}
	var combos []*combo
	for i := range scs {
		for _, be := range []string{"mem", "os"} {
			if scs[i].OSOnly && be != "os" {
				continue
			}
			for _, tr := range []string{"12", "300"} {
				combos = append(combos, &combo{sc: &scs[i], tree: tr, backend: be})
			}
		}
	}
	stats := map[string]*entryStats{}
	for i := range scs {
		stats[scs[i].Name] = &entryStats{N: map[string]int64{}, MaxAfter: map[string]int64{}, MaxAfterM: map[string]int64{}}
	}
	var bEvals, bMid, bPre atomic.Int64
	bOutcomes := map[string]int64{}
	var bmu sync.Mutex
	// reference runs (twice: the length of the run must be reproducible) and the runs with the context done at the call
	parallel(len(combos), func(i int) {
		c := combos[i]
		spec := runSpec{Scenario: c.sc.Name, Tree: c.tree, Backend: c.backend, Flavour: flCancel}
		r1, e1 := execRun(c.sc, spec)
		r2, e2 := execRun(c.sc, spec)
		if e1 != nil || e2 != nil {
			rep.EngineError("%s on %s/%s: %v %v", c.sc.Name, c.tree, c.backend, e1, e2)
			return
		}
		bEvals.Add(2)
		if r1.err != nil || r1.panicked != "" {
			rep.EngineError("%s on %s/%s: the uncancelled run fails: %v %s", c.sc.Name, c.tree, c.backend, r1.err, r1.panicked)
			return
		}
		if r1.total != r2.total || r1.total == 0 {
			rep.EngineError("%s on %s/%s: the uncancelled run is not reproducible or empty: %d vs %d operations", c.sc.Name, c.tree, c.backend, r1.total, r2.total)
			return
		}
		c.N = r1.total
		st := stats[c.sc.Name]
		st.mu.Lock()
		st.N[c.tree+"/"+c.backend] = c.N
		st.mu.Unlock()
		for _, fl := range preFlavours {
			spec := runSpec{Scenario: c.sc.Name, Tree: c.tree, Backend: c.backend, Flavour: fl, Pre: true}
			r, e := execRun(c.sc, spec)
			if e != nil {
				rep.EngineError("%s: %v", c.sc.Name, e)
				continue
			}
			bEvals.Add(1)
			bPre.Add(1)
			bmu.Lock()
			bOutcomes[c.sc.Name+":pre:"+kindName(r.err)]++
			bmu.Unlock()
			for _, cl := range judgeRun(c.sc, spec, r, c.N) {
				viol("b:"+c.sc.Name+":"+cl, map[string]any{"part": "b", "run": spec, "got_kind": kindName(r.err), "got_err": fmt.Sprint(r.err),
					"backend_operations": r.total, "mutating_operations": r.mutating, "tree_before": head(r.before, 40), "tree_after": head(r.afterDmp, 40)}, spec.rank())
			}
		}
	})

	// the same clause ("context done at the call: changes nothing, fails with cancelled / timeout") with the main path
	// argument of every entry point replaced by a path of another shape: a special case taken before the context is looked
	// at (a link handled as a link, a missing path reported as such, ...) must not escape it
	type vcombo struct {
		sc      scenario
		backend string
	}
	var vcombos []vcombo
	for i := range scs {
		if strings.Contains(scs[i].Name, "/") || scs[i].ArgShape != "" {
			continue
		}
		for _, sh := range argShapes {
			for _, be := range []string{"mem", "os"} {
				if strings.Contains(sh, "link") && be != "os" {
					continue
				}
				v := scs[i]
				if v.Method == "" {
					v.Method = v.Name
				}
				v.Name, v.ArgShape = scs[i].Name+"/arg="+sh, sh
				vcombos = append(vcombos, vcombo{v, be})
			}
		}
	}
	var bShape, bShapeSkipped, bShapeExcused atomic.Int64
	parallel(len(vcombos), func(i int) {
		c := vcombos[i]
		// Weakest reading for these shapes: a call that, with a live context, refuses its arguments (kind K) or finds nothing
		// to do (nil, nothing changed, no more than an existence test) may answer the same with a context that is
		// already done; anything else must fail with cancelled / timeout. "Changes nothing" is demanded in every case.
		live, e := execRun(&c.sc, runSpec{Scenario: c.sc.Name, Tree: "12", Backend: c.backend, Flavour: flCancel})
		if errors.Is(e, errNoPathArgument) {
			bShapeSkipped.Add(1)
			return
		}
		if e != nil {
			rep.EngineError("%s: %v", c.sc.Name, e)
			return
		}
		excused := func(r runResult) bool {
			switch {
			case live.panicked != "":
				return false
			case live.err != nil && r.err != nil:
				return kindName(live.err) == kindName(r.err)
			case live.err == nil && r.err == nil:
				return live.mutating == 0 && live.total <= 6
			}
			return false
		}
		for _, fl := range preFlavours {
			spec := runSpec{Scenario: c.sc.Name, Tree: "12", Backend: c.backend, Flavour: fl, Pre: true}
			r, e := execRun(&c.sc, spec)
			if errors.Is(e, errNoPathArgument) {
				bShapeSkipped.Add(1)
				return
			}
			if e != nil {
				rep.EngineError("%s: %v", c.sc.Name, e)
				continue
			}
			bEvals.Add(1)
			bShape.Add(1)
			bmu.Lock()
			bOutcomes[c.sc.Method+":pre:"+kindName(r.err)]++
			bmu.Unlock()
			for _, cl := range judgeRun(&c.sc, spec, r, 0) {
				if strings.HasPrefix(cl, "context-done-at-call:kind=") && excused(r) {
					bShapeExcused.Add(1)
					continue
				}
				viol("b:"+c.sc.Name+":"+cl, map[string]any{"part": "b", "run": spec, "got_kind": kindName(r.err), "got_err": fmt.Sprint(r.err), "with_a_live_context": fmt.Sprint(live.err),
					"backend_operations": r.total, "mutating_operations": r.mutating, "tree_before": head(r.before, 40), "tree_after": head(r.afterDmp, 40)}, spec.rank()+1)
			}
		}
	})
	lap("part_b_reference_and_done_at_call")
	// mid-run: the context ends right after backend operation k
	type mjob struct {
		c    *combo
		spec runSpec
	}
	var mjobs []mjob
	strideOf := func(c *combo, fl string) int64 {
		switch {
		case c.tree == "12" && (c.backend == "mem" || fl == flCancel):
			return 1
		case c.tree == "12":
			return 3
		case c.backend == "mem" && fl == flCancel:
			if thorough {
				return 1
			}
			return 16
		case c.backend == "mem":
			if thorough {
				return 16
			}
			return 0 // not run
		case fl == flCancel: // 300-entry tree on the OS backend
			if thorough {
				return 16
			}
			return 128
		}
		return 0
	}
	strides := map[string]int64{}
	for _, c := range combos {
		if c.N == 0 {
			continue
		}
		for _, fl := range []string{flCancel, flDeadline, flCancelCause} { // the cause flavour at the strides of the deadline one
			s := strideOf(c, fl)
			strides[c.tree+"/"+c.backend+"/"+fl] = s
			if s == 0 {
				continue
			}
			for k := int64(1); k <= c.N; k += s {
				mjobs = append(mjobs, mjob{c, runSpec{Scenario: c.sc.Name, Tree: c.tree, Backend: c.backend, Flavour: fl, K: k}})
			}
		}
	}
	var bSamples []any
	parallel(len(mjobs), func(i int) {
		j := mjobs[i]
		r, e := execRun(j.c.sc, j.spec)
		if e != nil {
			rep.EngineError("%s: %v", j.c.sc.Name, e)
			return
		}
		bEvals.Add(1)
		if !r.fired {
			if !j.c.sc.Concurrent {
				rep.EngineError("%s on %s/%s: operation %d was never reached (run of %d)", j.c.sc.Name, j.spec.Tree, j.spec.Backend, j.spec.K, j.c.N)
			}
			return
		}
		bMid.Add(1)
		st := stats[j.c.sc.Name]
		key := j.spec.Tree + "/" + j.spec.Backend
		st.mu.Lock()
		st.Runs++
		if r.after > st.MaxAfter[key] {
			st.MaxAfter[key] = r.after
		}
		if r.afterMut > st.MaxAfterM[key] {
			st.MaxAfterM[key] = r.afterMut
		}
		if isCtxKind(r.err) {
			st.CtxKind++
		} else if r.err == nil {
			st.CompletedK++
		}
		st.mu.Unlock()
		bmu.Lock()
		bOutcomes[j.c.sc.Name+":mid:"+kindName(r.err)]++
		if len(bSamples) < 6 && j.spec.Tree == "300" && j.spec.K == 1+16*20 {
			bSamples = append(bSamples, map[string]any{"run": j.spec, "length_of_uncancelled_run": j.c.N, "kind": kindName(r.err), "further_operations": r.after, "further_mutating": r.afterMut})
		}
		bmu.Unlock()
		for _, cl := range judgeRun(j.c.sc, j.spec, r, j.c.N) {
			viol("b:"+j.c.sc.Name+":"+cl, map[string]any{"part": "b", "run": j.spec, "length_of_uncancelled_run": j.c.N, "got_kind": kindName(r.err), "got_err": fmt.Sprint(r.err),
				"operations": r.total, "further_operations": r.after, "further_mutating": r.afterMut, "B": j.c.sc.B, "M": j.c.sc.M, "operations_after_the_context_ended": r.afterOps}, j.spec.rank())
		}
	})

	lap("part_b_mid_run")
	// ================= evidence =================
	rep.Coverage["phase_wall_s"] = phases
	perEntry := map[string]any{}
	for name, st := range stats {
		sc := byName[name]
		perEntry[name] = map[string]any{"uncancelled_run_length": st.N, "max_further_operations_seen": st.MaxAfter, "max_further_mutating_seen": st.MaxAfterM,
			"B": sc.B, "M": sc.M, "bound_asserted": !sc.Concurrent, "mid_runs": st.Runs, "ended_with_context_kind": st.CtxKind, "still_succeeded_about_to_finish": st.CompletedK}
	}
	outcomes := map[string]int64{}
	for k, v := range aOutcomes {
		outcomes["a:"+k] = v
	}
	for k, v := range fOutcomes {
		outcomes["a-file:"+k] = v
	}
	for k, v := range bOutcomes {
		outcomes["b:"+k] = v
	}
	rep.Coverage["evaluations"] = aEvals.Load() + fEvals + bEvals.Load()
	rep.Coverage["distinct_nontrivial"] = aMid.Load() + bMid.Load()
	rep.Coverage["rule"] = "executions in which the context was ended by the harness WHILE the call was running (after stream call j / backend operation k, j,k >= 1) — each is a distinct (case, instant) pair; runs without fault, pre-cancelled runs and reference runs are not counted"
	rep.Coverage["exhaustive"] = true
	rep.Coverage["part_a"] = map[string]any{"evaluations": aEvals.Load(), "base_cases": aBase.Load(), "mid_run_cancellations": aMid.Load(), "file_limit_cases": fEvals, "longest_run_in_stream_calls": maxCalls}
	rep.Coverage["part_b"] = map[string]any{"evaluations": bEvals.Load(), "context_done_at_call_runs": bPre.Load(), "mid_run_cancellations": bMid.Load(),
		"entry_points_from_reflection": methods, "entry_points_with_generic_arguments": generic, "scenarios": len(scs), "per_entry_point": perEntry, "k_stride": strides}
	big := "511,512,513,32767,32768,32769,2^20"
	if thorough {
		big += ",2^20-1,2^20+1"
	}
	rep.Coverage["part_b_argument_shapes"] = map[string]any{"shapes": argShapes, "context_done_at_call_runs": bShape.Load(), "entry_points_without_a_main_path_argument": bShapeSkipped.Load(),
		"kind_clause_excused": bShapeExcused.Load(), "reading": "with the main path argument replaced (file for tree, missing, empty directory, links): nothing changes; the kind must be cancelled/timeout unless the same call with a live context refuses its arguments with that same kind, or finds nothing to do (nil, no mutating operation, <= 6 backend operations)"}
	rep.Coverage["bound"] = map[string]any{
		"a_source_lengths": fmt.Sprintf("0..%d and %s", smallMaxLen(thorough), big),
		"a_families": "lengths 0..max: A1 every script of <= 4 chunks from {0,1,2,rest} x healthy reader (EOF alone / with the last data) x healthy writer (with/without ReaderFrom); " +
			"A2 every reader failure (after byte k for every k <= 8; alone / with data; custom error / io.ErrUnexpectedEOF) x scripts of <= 2 chunks; " +
			"A3 every failing writer (byte 0/1/3, with/without ReaderFrom) x scripts of <= 1 chunk x {healthy reader, reader failing at byte 2}; " +
			"boundary lengths: 7 scripts (3 for 2^20) x 4 reader behaviours x 3 writer behaviours; every family crossed with every max/n, capacity, WriterTo present or not",
		"a_helpers":         "ReadAtMost, ReadAll, CopyDataWithContext, CopyNWithContext, WriteString, NewContextualReader, ContextualWriter, NewContextualReaderFrom; ReadFileWithContextAndLimits / ReadFileContent with limits",
		"a_max_or_n":        "-1, 0, 1, L-1, L, L+1, 2L, 2^31, MaxInt64; bufferCapacity -1 (default) and 16 (2^31 with the default capacity: one serial case in the thorough tier only)",
		"a_cancellation":    "before the call; after the j-th stream call for every j of the run; cancel and deadline flavour (boundary lengths: mid-run instants in the cancel flavour)",
		"b_trees":           "12 entries and 300 entries (+ one 100000-byte file, + the zip of the tree)",
		"b_backends":        "in-memory (afero MemMapFs under vfsx under VFS), OS (ExtendedOsFs under vfsx under VFS, /dev/shm)",
		"b_cancellation":    "context done at the call (cancelled / expired deadline); after backend operation k for every k (stride per tree/backend/flavour in part_b.k_stride; 1 = every k)",
		"b_fault_injection": "MoveWithContext/rename-refused: every Rename fails with EXDEV so that the copy+remove path runs",
	}
	rep.Coverage["distinct_outcomes"] = len(outcomes)
	rep.Coverage["outcomes"] = outcomes
	samples := append(aSamples, bSamples...)
	if len(samples) == 0 {
		samples = append(samples, "no sample selected")
	}
	rep.Coverage["samples"] = samples
	rep.Assume = []string{
		"GarbageCollectWithContext: goroutine interleavings are those of the Go scheduler; only interleaving-independent clauses are asserted, its mid-run bound is not",
		"a deadline expiring mid-run is represented by a harness context whose Err() is context.DeadlineExceeded (no wall clock)",
		"OS backend = tmpfs of this sandbox",
	}
	finish()
}

func head(s string, lines int) string {
	n := 0
	for i := range s {
		if s[i] == '\n' {
			n++
			if n == lines {
				return s[:i] + "\n…"
			}
		}
	}
	return s
}

func runReplay(rep *ev.Reporter, path string, byName map[string]*scenario, viol violationSink) {
	b, err := os.ReadFile(path)
	if err != nil {
		rep.EngineError("cannot read the replay: %v", err)
		return
	}
	var doc struct {
		Signature string          `json:"signature"`
		Replay    json.RawMessage `json:"replay"`
	}
	var part struct {
		Part string   `json:"part"`
		Case *hcase   `json:"case"`
		Run  *runSpec `json:"run"`
		N    int64    `json:"length_of_uncancelled_run"`
	}
	if err := json.Unmarshal(b, &doc); err != nil || json.Unmarshal(doc.Replay, &part) != nil {
		rep.EngineError("the replay does not parse: %v", err)
		return
	}
	switch part.Part {
	case "a":
		r := runHelper(*part.Case)
		clauses, outcome := judge(*part.Case, r)
		fmt.Printf("REPLAY part=a case=%+v delivered=%d n=%d err=%v kind=%s panic=%q reads=%d writes=%d outcome=%s clauses=%v\n", *part.Case, len(r.out), r.n, r.err, kindName(r.err), r.panicked, r.e.reads, r.e.writes, outcome, clauses)
		for _, cl := range clauses {
			viol(part.Case.sig(cl), map[string]any{"part": "a", "case": part.Case}, 0)
		}
	case "a-file":
		fileLimitCases(viol)
	case "b":
		sc := byName[part.Run.Scenario]
		if i := strings.Index(part.Run.Scenario, "/arg="); sc == nil && i > 0 && byName[part.Run.Scenario[:i]] != nil {
			// an argument-shape variant of an entry point: only ever run with the context done at the call
			v := *byName[part.Run.Scenario[:i]]
			if v.Method == "" {
				v.Method = v.Name
			}
			v.Name, v.ArgShape = part.Run.Scenario, part.Run.Scenario[i+5:]
			live, e0 := execRun(&v, runSpec{Scenario: v.Name, Tree: part.Run.Tree, Backend: part.Run.Backend, Flavour: flCancel})
			r, e := execRun(&v, *part.Run)
			if e != nil || e0 != nil {
				rep.EngineError("%v %v", e0, e)
				return
			}
			fmt.Printf("REPLAY part=b run=%+v err=%v kind=%s tree-changed=%v; with a live context: err=%v operations=%d mutating=%d\n", *part.Run, r.err, kindName(r.err), r.before != r.afterDmp, live.err, live.total, live.mutating)
			for _, cl := range judgeRun(&v, *part.Run, r, 0) {
				if strings.HasPrefix(cl, "context-done-at-call:kind=") && ((live.err != nil && r.err != nil && kindName(live.err) == kindName(r.err)) || (live.err == nil && r.err == nil && live.mutating == 0 && live.total <= 6)) {
					continue
				}
				viol("b:"+v.Name+":"+cl, map[string]any{"part": "b", "run": part.Run}, 0)
			}
			return
		}
		if sc == nil {
			rep.EngineError("unknown entry point %q in the replay", part.Run.Scenario)
			return
		}
		ref, e := execRun(sc, runSpec{Scenario: part.Run.Scenario, Tree: part.Run.Tree, Backend: part.Run.Backend, Flavour: part.Run.Flavour})
		if e != nil {
			rep.EngineError("%v", e)
			return
		}
		r, e := execRun(sc, *part.Run)
		if e != nil {
			rep.EngineError("%v", e)
			return
		}
		clauses := judgeRun(sc, *part.Run, r, ref.total)
		sort.Strings(clauses)
		fmt.Printf("REPLAY part=b run=%+v uncancelled=%d operations=%d further=%d further_mutating=%d err=%v kind=%s panic=%q clauses=%v\n", *part.Run, ref.total, r.total, r.after, r.afterMut, r.err, kindName(r.err), r.panicked, clauses)
		for _, op := range r.afterOps {
			fmt.Println("  after the context ended:", op)
		}
		for _, cl := range clauses {
			viol("b:"+sc.Name+":"+cl, map[string]any{"part": "b", "run": part.Run}, 0)
		}
	default:
		rep.EngineError("unknown replay part %q", part.Part)
	}
}

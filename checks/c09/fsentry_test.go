package c09

// Part (b): every context-accepting method of filesystem.FS (found by reflection), called on a 12-entry and on a
// 300-entry tree, with the context already done at the call and with the context ended right after backend
// operation k, for every k of the run.
//
// Readings taken:
//   - "changes nothing" (context done at the call): the dump of the whole backend (paths, kinds, contents, modes,
//     mtimes) is identical before and after. Read-only backend operations before the first context test are allowed.
//   - "a small bounded number of further backend operations however much work remains": ONE constant B per entry
//     point (scenario table below, with its justification), asserted on both trees and both backends; the work that
//     remains on the 300-entry tree when the context ends early is thousands of operations, so a loop that stopped
//     consulting its context exceeds any such constant. "a few further mutating ones": constant M (3; the zip writers
//     get more because closing the archive writes the central directory of what was ALREADY archived, which is not
//     remaining work: its cost is one buffered write per 4 KiB of directory).
//   - "reports the same kinds": after the context ended in the middle of the run the call may still succeed if it was
//     about to finish (then it must have performed exactly the operations of the uncancelled run), otherwise it
//     must fail with the cancelled/timeout kind; any other kind is a violation.
//   - GarbageCollectWithContext runs one goroutine per directory entry (parallelisation.Parallelise): the order of
//     backend operations is not controlled here, so for it only what holds under every interleaving is asserted
//     (kinds, no panic, nothing changed when the context is done at the call); its mid-run bound is NOT asserted.

import (
	"archive/zip"
	"bytes"
	"context"
	"errors"
	"fmt"
	"io"
	"os"
	"os/user"
	"path/filepath"
	"reflect"
	"sort"
	"strconv"
	"sync"
	"sync/atomic"
	"syscall"
	"time"

	"github.com/spf13/afero"

	"github.com/ARM-software/golang-utils/utils/filesystem"
	"github.com/ARM-software/golang-utils/utils/hashing"

	"verif/engine/vfsx"
)

// ---- trees ---------------------------------------------------------------------------------------

type treeSpec struct {
	Name    string
	Dirs    []string // relative to src, parents first
	Files   []string
	Big     string // the one large file (100 000 bytes: several 32 KiB copy rounds)
	zipData []byte
}

func (t *treeSpec) entries() int { return len(t.Dirs) + len(t.Files) }

func (t *treeSpec) content(rel string) []byte {
	if rel == t.Big {
		return sourceBytes[:100000]
	}
	return []byte("content of " + rel + "\n")
}

func smallTree() *treeSpec {
	t := &treeSpec{Name: "12", Big: "b.bin",
		Dirs:  []string{"d1", "d1/d2", "d3", "empty"},
		Files: []string{"a.txt", "b.bin", "d1/c.txt", "d1/d.txt", "d1/d2/e.txt", "d1/d2/f.txt", "d3/g.txt", "h.txt"}}
	t.makeZip()
	return t
}

func largeTree() *treeSpec {
	t := &treeSpec{Name: "300", Big: "d00/s0/b.bin"}
	for d := 0; d < 12; d++ {
		dn := fmt.Sprintf("d%02d", d)
		t.Dirs = append(t.Dirs, dn)
		for s := 0; s < 4; s++ {
			sn := fmt.Sprintf("%s/s%d", dn, s)
			t.Dirs = append(t.Dirs, sn)
			for f := 0; f < 5; f++ {
				name := fmt.Sprintf("%s/f%d.txt", sn, f)
				if d == 0 && s == 0 && f == 0 {
					name = t.Big
				}
				t.Files = append(t.Files, name)
			}
		}
	}
	t.makeZip()
	return t
}

func (t *treeSpec) makeZip() {
	var buf bytes.Buffer
	w := zip.NewWriter(&buf)
	all := append(append([]string(nil), t.Files...), func() []string {
		var d []string
		for _, x := range t.Dirs {
			d = append(d, x+"/")
		}
		return d
	}()...)
	sort.Strings(all)
	if t.Name == "300" {
		// the large archive lists its 60 directories first, then its files (a layout archivers produce): a long run of
		// consecutive directory entries
		sort.SliceStable(all, func(i, j int) bool {
			return all[i][len(all[i])-1] == '/' && all[j][len(all[j])-1] != '/'
		})
	}
	stamp := time.Date(2020, 1, 2, 3, 4, 6, 0, time.UTC)
	for _, name := range all {
		h := &zip.FileHeader{Name: name, Method: zip.Deflate, Modified: stamp}
		f, err := w.CreateHeader(h)
		if err != nil {
			panic(err)
		}
		if name[len(name)-1] != '/' {
			_, _ = f.Write(t.content(name))
		}
	}
	_ = w.Close()
	t.zipData = buf.Bytes()
}

// ---- sandbox -------------------------------------------------------------------------------------

type sandbox struct {
	backend string
	raw     afero.Fs
	fs      filesystem.FS
	hook    *cancelHook
	base    string // directory that is dumped
	root    string
	S, D, Z string
	big     string
	opened  []filesystem.File
	tree    *treeSpec
}

var osRoot string
var osSeq atomic.Int64

func newSandbox(backend string, t *treeSpec, hook *cancelHook) (*sandbox, error) {
	x := &sandbox{backend: backend, hook: hook, tree: t}
	shared := vfsx.NewShared(hook)
	switch backend {
	case "mem":
		x.raw = afero.NewMemMapFs()
		x.base = "/"
		x.root = "/t"
		x.fs = filesystem.NewVirtualFileSystem(vfsx.NewMem(x.raw, shared, 0), filesystem.InMemoryFS, filesystem.IdentityPathConverterFunc)
	case "os":
		x.raw = filesystem.NewExtendedOsFs()
		x.base = filepath.Join(osRoot, "r"+strconv.FormatInt(osSeq.Add(1), 10))
		x.root = filepath.Join(x.base, "t")
		x.fs = filesystem.NewVirtualFileSystem(vfsx.NewOS(x.raw, shared, 0), filesystem.StandardFS, filesystem.IdentityPathConverterFunc)
	default:
		return nil, fmt.Errorf("unknown backend %q", backend)
	}
	x.S = filepath.Join(x.root, "src")
	x.D = filepath.Join(x.root, "out")
	x.Z = filepath.Join(x.root, "arch.zip")
	x.big = filepath.Join(x.S, t.Big)
	if err := x.raw.MkdirAll(x.S, 0o755); err != nil {
		return nil, err
	}
	for _, d := range t.Dirs {
		if err := x.raw.Mkdir(filepath.Join(x.S, d), 0o755); err != nil {
			return nil, err
		}
	}
	for _, f := range t.Files {
		if err := afero.WriteFile(x.raw, filepath.Join(x.S, f), t.content(f), 0o644); err != nil {
			return nil, err
		}
	}
	if err := afero.WriteFile(x.raw, x.Z, t.zipData, 0o644); err != nil {
		return nil, err
	}
	if err := x.raw.Mkdir(filepath.Join(x.root, "empty-dir"), 0o755); err != nil {
		return nil, err
	}
	if backend == "os" {
		// symbolic links next to the tree (arguments of the removal entry points: a link is itself something to remove)
		for name, target := range map[string]string{"lnk-dir": x.S, "lnk-file": x.big, "lnk-dangling": filepath.Join(x.root, "nothing-here")} {
			if err := os.Symlink(target, filepath.Join(x.root, name)); err != nil {
				return nil, err
			}
		}
	}
	return x, nil
}

func (x *sandbox) open(path string) filesystem.File {
	f, err := x.fs.GenericOpen(path)
	if err != nil {
		panic(fmt.Sprintf("sandbox: cannot open %s: %v", path, err))
	}
	x.opened = append(x.opened, f)
	return f
}

func (x *sandbox) dump() string {
	return vfsx.DumpString(vfsx.Snapshot(x.raw, x.base, vfsx.SnapOpt{Mtime: true, Mode: true}))
}

func (x *sandbox) close() {
	for _, f := range x.opened {
		_ = f.Close()
	}
	if x.backend == "os" {
		_ = os.RemoveAll(x.base)
	}
}

// ---- the hook that ends the context after backend operation k -------------------------------------

type cancelHook struct {
	mu          sync.Mutex
	armed       bool
	k           int64
	trigger     func()
	count, mut  int64
	after, amut int64
	fired       bool
	renameFails bool
	afterOps    []string
}

func (h *cancelHook) Before(op *vfsx.Op) *vfsx.Inject {
	if h.renameFails && op.Kind == vfsx.KRename {
		// "invalid cross-device link": what os.Rename reports across volumes; makes Move take its copy+remove path
		return &vfsx.Inject{Err: &os.LinkError{Op: "rename", Old: op.Path, New: op.Path2, Err: syscall.EXDEV}, Short: -1}
	}
	return nil
}

func (h *cancelHook) After(op *vfsx.Op) {
	h.mu.Lock()
	defer h.mu.Unlock()
	if !h.armed {
		return
	}
	h.count++
	if op.Mutates {
		h.mut++
	}
	if h.fired {
		h.after++
		if op.Mutates {
			h.amut++
		}
		if len(h.afterOps) < 80 {
			h.afterOps = append(h.afterOps, op.String())
		}
		return
	}
	if h.count == h.k {
		h.fired = true
		h.trigger()
	}
}

// ---- scenarios -----------------------------------------------------------------------------------

type scenario struct {
	Name        string // entry point, or entry point + "/variant"
	Method      string
	Args        func(x *sandbox) []any
	B, M        int
	RenameFails bool
	Concurrent  bool
	OSOnly      bool // needs symbolic links
	// ArgShape != "": the entry point's main path argument (the source tree or the big file) is replaced by a path of
	// another shape; such scenarios are only run with the context already done at the call
	ArgShape string
	// Func != nil: a package-level context-accepting function instead of a method of the filesystem (called with the
	// context and the sandbox; a second, un-hooked in-memory filesystem is the other side of a cross-filesystem call)
	Func func(ctx context.Context, x *sandbox) error
}

// argShapes: what the main path argument may be instead of what the entry point expects.
var argShapes = []string{"swapped", "missing", "empty-directory", "link-to-directory", "link-to-file", "dangling-link"}

// reshape replaces the first argument that is the source tree or the big file.
func (x *sandbox) reshape(args []any, shape string) ([]any, bool) {
	for i, a := range args {
		p, ok := a.(string)
		if !ok || (p != x.S && p != x.big) {
			continue
		}
		out := append([]any(nil), args...)
		switch shape {
		case "swapped": // a file where a tree is expected and the other way round
			if p == x.S {
				out[i] = x.big
			} else {
				out[i] = x.S
			}
		case "missing":
			out[i] = filepath.Join(x.root, "no-such-entry")
		case "empty-directory":
			out[i] = filepath.Join(x.root, "empty-dir")
		case "link-to-directory":
			out[i] = filepath.Join(x.root, "lnk-dir")
		case "link-to-file":
			out[i] = filepath.Join(x.root, "lnk-file")
		case "dangling-link":
			out[i] = filepath.Join(x.root, "lnk-dangling")
		}
		return out, true
	}
	return args, false
}

// Numbers of backend operations of the building blocks (read off files.go; the extended file's Close is called
// twice by the defer+explicit close idiom, each being one backend operation):
//
//	Exists(dir) = Stat + Open + Readdirnames + Close + Close = 5        Exists(file) = 1
//	IsDir / IsFile = Exists + Stat <= 6          isDirEmpty = Open + Readdirnames + Close + Close = 4
//	IsEmpty(dir) = Exists + IsFile + isDirEmpty <= 15                   Ls(dir) = IsDir + Open + Readdirnames + 2 Close <= 10
//	MkDir = Exists (+ MkdirAll) <= 6
//
// and the longest stretch between two context tests of each family:
const (
	// walk(): loop test -> Lstat -> walk's own test -> fn -> Ls (<= 10) -> loop test; the callbacks of the
	// walk-based entry points add: Chmod/Chown 1; LsRecursive 0.
	bWalk = 16
	// Zip's callback: GenericOpen + CreateHeader (may flush the 4 KiB buffer) + the copy's own test; on the way out the
	// deferred zip.Writer.Close writes the central directory of the entries ALREADY archived (<= 300 entries * ~90 B
	// = 7 buffered writes of 4 KiB + flush of pending deflate data), then file closes.
	bZip = bWalk + 20
	mZip = 14
	// removal: removeFileWithContext test -> RemoveWithContext: Exists 5 + IsDir 6 + IsEmpty 15 (= 26) -> for an EMPTY
	// directory no CleanDir: second IsEmpty 15 -> test (= 41); for a non-empty one CleanDir tests at once, then
	// Exists 5 + IsEmpty 15 + Ls 10 -> next removeFileWithContext test (= 30).
	bRemove = 48
	// copy: CopyBetweenFSWithExclusionRegexes test -> Exists 5 + IsDir 6 + Exists(dest) 5 + IsDir 6 | MkDir 6 -> copyFolder
	// test (<= 28) -> MkDir 6 + IsEmpty 15 + Ls 10 -> next test (31); file: Open + Create -> the copy's test; then <= 4 closes.
	bCopy = 40
	// move through copy+remove (Rename refused): MoveWithContext test -> Exists 5 + MkDir 6 + Rename 1 + IsDir 6 -> moveFolder
	// test -> MkDir 6 + IsEmpty 15 + Ls 10 -> next test; for an EMPTY source directory moveFolder goes from its test
	// through MkDir 6 + IsEmpty 15 straight into RemoveWithContext(src), which costs 41 before its own test (see
	// removal): 62. (First version of this table said 48 and was wrong: measured 54 on the empty directory of the
	// 12-entry tree; the stretch does not depend on the size of the tree.)
	bMove = 64
	// unzip: per entry test -> MkDir 6 (+ MkDir of the parent 6) -> unzipZippedFile test -> OpenFile + zippedFile.Open
	// (ReadAt of the local header + data) -> the copy's test; zip.NewReader reading the central directory of 300
	// entries (8 ReadAt of 4 KiB + Seek) is not interruptible. After a failure: 2 closes.
	bUnzip = 40
	// ListDirTree: loop test -> IsDir 6 -> recursion test -> Ls 10 -> loop test.
	bList = 20
	// one file: test -> open -> the stream helper tests before every Read/Write -> closes
	bOneFile = 8
	mFew     = 3
)

var bigData = sourceBytes[:100000]

func scenarios() []scenario {
	noop := filepath.WalkFunc(func(string, os.FileInfo, error) error { return nil })
	me, _ := user.Current()
	uid, gid := os.Getuid(), os.Getgid()
	limits := func() filesystem.ILimits { return filesystem.NewLimits(1<<30, 1<<40, 1<<20, 64, false) }
	return []scenario{
		{Name: "CleanDirWithContext", Args: func(x *sandbox) []any { return []any{x.S} }, B: bRemove, M: mFew},
		{Name: "CleanDirWithContextAndExclusionPatterns", Args: func(x *sandbox) []any { return []any{x.S} }, B: bRemove, M: mFew},
		{Name: "RemoveWithContext", Args: func(x *sandbox) []any { return []any{x.S} }, B: bRemove, M: mFew},
		{Name: "RemoveWithContextAndExclusionPatterns", Args: func(x *sandbox) []any { return []any{x.S} }, B: bRemove, M: mFew},
		{Name: "RemoveWithPrivileges", Args: func(x *sandbox) []any { return []any{x.S} }, B: bRemove, M: mFew},
		// the argument itself is a symbolic link (added after a seeded change made the link branch ignore a context that is already done)
		{Name: "RemoveWithContext/link-to-directory", Method: "RemoveWithContext", OSOnly: true, Args: func(x *sandbox) []any { return []any{filepath.Join(x.root, "lnk-dir")} }, B: bRemove, M: mFew},
		{Name: "RemoveWithContext/link-to-file", Method: "RemoveWithContext", OSOnly: true, Args: func(x *sandbox) []any { return []any{filepath.Join(x.root, "lnk-file")} }, B: bRemove, M: mFew},
		{Name: "RemoveWithContext/dangling-link", Method: "RemoveWithContext", OSOnly: true, Args: func(x *sandbox) []any { return []any{filepath.Join(x.root, "lnk-dangling")} }, B: bRemove, M: mFew},
		{Name: "RemoveWithContextAndExclusionPatterns/link-to-directory", Method: "RemoveWithContextAndExclusionPatterns", OSOnly: true, Args: func(x *sandbox) []any { return []any{filepath.Join(x.root, "lnk-dir")} }, B: bRemove, M: mFew},
		// package-level functions that work across two filesystems (the source is the hooked one)
		{Name: "pkg.MoveBetweenFS", Method: "MoveWithContext", B: bMove, M: mFew, Func: func(ctx context.Context, x *sandbox) error {
			return filesystem.MoveBetweenFS(ctx, x.fs, x.S, filesystem.NewFs(filesystem.InMemoryFS), "/moved")
		}},
		{Name: "pkg.CopyBetweenFS", Method: "CopyWithContext", B: bCopy, M: mFew, Func: func(ctx context.Context, x *sandbox) error {
			return filesystem.CopyBetweenFS(ctx, x.fs, x.S, filesystem.NewFs(filesystem.InMemoryFS), "/copied")
		}},
		{Name: "pkg.CopyBetweenFSWithExclusionPatterns", Method: "CopyWithContextAndExclusionPatterns", B: bCopy, M: mFew, Func: func(ctx context.Context, x *sandbox) error {
			return filesystem.CopyBetweenFSWithExclusionPatterns(ctx, x.fs, x.S, filesystem.NewFs(filesystem.InMemoryFS), "/copied")
		}},
		{Name: "WalkWithContext", Args: func(x *sandbox) []any { return []any{x.S, noop} }, B: bWalk, M: mFew},
		{Name: "WalkWithContextAndExclusionPatterns", Args: func(x *sandbox) []any { return []any{x.S, noop} }, B: bWalk, M: mFew},
		{Name: "LsRecursive", Args: func(x *sandbox) []any { return []any{x.S, true} }, B: bWalk, M: mFew},
		{Name: "LsRecursiveWithExclusionPatterns", Args: func(x *sandbox) []any { return []any{x.S, true} }, B: bWalk, M: mFew},
		{Name: "LsRecursiveWithExclusionPatternsAndLimits", Args: func(x *sandbox) []any { return []any{x.S, limits(), true} }, B: bWalk, M: mFew},
		{Name: "LsRecursiveFromOpenedDirectory", Args: func(x *sandbox) []any { return []any{x.open(x.S), true} }, B: bWalk, M: mFew},
		{Name: "CopyToFileWithContext", Args: func(x *sandbox) []any { return []any{x.big, filepath.Join(x.D, "copy.bin")} }, B: bCopy, M: mFew},
		{Name: "CopyToDirectoryWithContext", Args: func(x *sandbox) []any { return []any{x.S, x.D} }, B: bCopy, M: mFew},
		{Name: "CopyWithContext", Args: func(x *sandbox) []any { return []any{x.S, x.D} }, B: bCopy, M: mFew},
		{Name: "CopyWithContextAndExclusionPatterns", Args: func(x *sandbox) []any { return []any{x.S, x.D} }, B: bCopy, M: mFew},
		{Name: "MoveWithContext", Args: func(x *sandbox) []any { return []any{x.S, x.D} }, B: bMove, M: mFew},
		{Name: "MoveWithContext/rename-refused", Method: "MoveWithContext", RenameFails: true, Args: func(x *sandbox) []any { return []any{x.S, x.D} }, B: bMove, M: mFew},
		{Name: "ReadFileWithContext", Args: func(x *sandbox) []any { return []any{x.big} }, B: bOneFile, M: mFew},
		{Name: "ReadFileWithContextAndLimits", Args: func(x *sandbox) []any { return []any{x.big, limits()} }, B: bOneFile, M: mFew},
		{Name: "ReadFileContent", Args: func(x *sandbox) []any { return []any{x.open(x.big), filesystem.NoLimits()} }, B: bOneFile, M: mFew},
		{Name: "WriteFileWithContext", Args: func(x *sandbox) []any { return []any{filepath.Join(x.root, "new.bin"), bigData, os.FileMode(0o644)} }, B: bOneFile, M: mFew},
		{Name: "WriteToFile", Args: func(x *sandbox) []any {
			return []any{filepath.Join(x.root, "new.bin"), io.Reader(bytes.NewReader(bigData)), os.FileMode(0o644)}
		}, B: bOneFile, M: mFew},
		{Name: "GarbageCollectWithContext", Args: func(x *sandbox) []any { return []any{x.S, -time.Hour} }, Concurrent: true},
		{Name: "ChmodRecursively", Args: func(x *sandbox) []any { return []any{x.S, os.FileMode(0o755)} }, B: bWalk, M: mFew},
		{Name: "ChownRecursively", Args: func(x *sandbox) []any { return []any{x.S, uid, gid} }, B: bWalk, M: mFew},
		{Name: "ChangeOwnershipRecursively", Args: func(x *sandbox) []any { return []any{x.S, me} }, B: bWalk, M: mFew},
		{Name: "SubDirectoriesWithContext", Args: func(x *sandbox) []any { return []any{x.S} }, B: bOneFile, M: mFew},
		{Name: "SubDirectoriesWithContextAndExclusionPatterns", Args: func(x *sandbox) []any { return []any{x.S} }, B: bOneFile, M: mFew},
		{Name: "ListDirTreeWithContext", Args: func(x *sandbox) []any { return []any{x.S, new([]string)} }, B: bList, M: mFew},
		{Name: "ListDirTreeWithContextAndExclusionPatterns", Args: func(x *sandbox) []any { return []any{x.S, new([]string)} }, B: bList, M: mFew},
		{Name: "ZipWithContext", Args: func(x *sandbox) []any { return []any{x.S, filepath.Join(x.root, "out.zip")} }, B: bZip, M: mZip},
		{Name: "ZipWithContextAndLimits", Args: func(x *sandbox) []any { return []any{x.S, filepath.Join(x.root, "out.zip"), limits()} }, B: bZip, M: mZip},
		{Name: "ZipWithContextAndLimitsAndExclusionPatterns", Args: func(x *sandbox) []any { return []any{x.S, filepath.Join(x.root, "out.zip"), limits()} }, B: bZip, M: mZip},
		{Name: "UnzipWithContext", Args: func(x *sandbox) []any { return []any{x.Z, x.D} }, B: bUnzip, M: mFew},
		{Name: "UnzipWithContextAndLimits", Args: func(x *sandbox) []any { return []any{x.Z, x.D, limits()} }, B: bUnzip, M: mFew},
		{Name: "FileHashWithContext", Args: func(x *sandbox) []any { return []any{hashing.HashSha256, x.big} }, B: bOneFile, M: mFew},
		{Name: "IsZipWithContext", Args: func(x *sandbox) []any { return []any{x.Z} }, B: bOneFile, M: mFew},
	}
}

var (
	ctxType   = reflect.TypeOf((*context.Context)(nil)).Elem()
	errorType = reflect.TypeOf((*error)(nil)).Elem()
	fsType    = reflect.TypeOf((*filesystem.FS)(nil)).Elem()
)

// contextMethods lists the methods of the FS interface whose first parameter is a context.Context.
func contextMethods() []string {
	var out []string
	for i := 0; i < fsType.NumMethod(); i++ {
		m := fsType.Method(i)
		if m.Type.NumIn() > 0 && m.Type.In(0) == ctxType {
			out = append(out, m.Name)
		}
	}
	sort.Strings(out)
	return out
}

// genericArgs synthesises plausible arguments for a context-accepting method that has no hand-written scenario
// (a method added to the interface later): by parameter type; first string = source tree, second = destination.
func genericArgs(m reflect.Method) (func(x *sandbox) []any, error) {
	t := m.Type
	n := t.NumIn()
	if t.IsVariadic() {
		n--
	}
	for i := 1; i < n; i++ {
		switch p := t.In(i); {
		case p.Kind() == reflect.String, p.Kind() == reflect.Bool, p.Kind() == reflect.Int, p.Kind() == reflect.Int64:
		case p == reflect.TypeOf(os.FileMode(0)), p == reflect.TypeOf(time.Duration(0)), p == reflect.TypeOf([]byte(nil)):
		case p == reflect.TypeOf((*filesystem.ILimits)(nil)).Elem(), p == reflect.TypeOf((*filesystem.File)(nil)).Elem():
		case p == reflect.TypeOf((*io.Reader)(nil)).Elem(), p == reflect.TypeOf(filepath.WalkFunc(nil)), p == reflect.TypeOf((*[]string)(nil)):
		default:
			return nil, fmt.Errorf("no plausible value for parameter %d of type %v", i, p)
		}
	}
	return func(x *sandbox) []any {
		var args []any
		strs := 0
		for i := 1; i < n; i++ {
			switch p := t.In(i); {
			case p.Kind() == reflect.String:
				if strs == 0 {
					args = append(args, x.S)
				} else {
					args = append(args, x.D)
				}
				strs++
			case p == reflect.TypeOf(os.FileMode(0)):
				args = append(args, os.FileMode(0o755))
			case p == reflect.TypeOf(time.Duration(0)):
				args = append(args, -time.Hour)
			case p.Kind() == reflect.Bool:
				args = append(args, true)
			case p.Kind() == reflect.Int:
				args = append(args, os.Getuid())
			case p.Kind() == reflect.Int64:
				args = append(args, int64(1<<20))
			case p == reflect.TypeOf([]byte(nil)):
				args = append(args, bigData)
			case p == reflect.TypeOf((*filesystem.ILimits)(nil)).Elem():
				args = append(args, filesystem.NoLimits())
			case p == reflect.TypeOf((*filesystem.File)(nil)).Elem():
				args = append(args, x.open(x.S))
			case p == reflect.TypeOf((*io.Reader)(nil)).Elem():
				args = append(args, io.Reader(bytes.NewReader(bigData)))
			case p == reflect.TypeOf(filepath.WalkFunc(nil)):
				args = append(args, filepath.WalkFunc(func(string, os.FileInfo, error) error { return nil }))
			case p == reflect.TypeOf((*[]string)(nil)):
				args = append(args, new([]string))
			}
		}
		return args
	}, nil
}

// ---- one execution ---------------------------------------------------------------------------------

type runSpec struct {
	Scenario string `json:"entry_point"`
	Tree     string `json:"tree"`
	Backend  string `json:"backend"`
	Flavour  string `json:"flavour"`
	Pre      bool   `json:"context_done_at_call"`
	K        int64  `json:"end_context_after_backend_op"` // 0 = never
}

// rank orders runs from simple to complex (for the choice of the stored replay).
func (s runSpec) rank() int64 {
	r := s.K
	if s.Tree != "12" {
		r += 1 << 32
	}
	if s.Backend != "mem" {
		r += 1 << 31
	}
	if s.Flavour != flCancel {
		r += 1 << 30
	}
	return r
}

type runResult struct {
	err              error
	panicked         string
	total, mutating  int64
	after, afterMut  int64
	fired            bool
	before, afterDmp string
	afterOps         []string
}

var trees = map[string]*treeSpec{}
var treesOnce sync.Once

func getTree(name string) *treeSpec {
	treesOnce.Do(func() {
		trees["12"] = smallTree()
		trees["300"] = largeTree()
	})
	return trees[name]
}

var errNoPathArgument = errors.New("the entry point has no main path argument to reshape")

func execRun(sc *scenario, spec runSpec) (res runResult, engineErr error) {
	hook := &cancelHook{k: spec.K, renameFails: sc.RenameFails}
	x, err := newSandbox(spec.Backend, getTree(spec.Tree), hook)
	if err != nil {
		return res, fmt.Errorf("building the sandbox: %w", err)
	}
	defer x.close()
	var ctx context.Context
	var end func()
	if spec.Pre {
		ctx, end = deadCtx(spec.Flavour)
	} else {
		ctx, end = liveCtx(spec.Flavour)
	}
	defer end()
	hook.trigger = end
	method := sc.Method
	if method == "" {
		method = sc.Name
	}
	if sc.Func != nil {
		if spec.Pre {
			res.before = x.dump()
		}
		hook.mu.Lock()
		hook.armed = true
		hook.mu.Unlock()
		func() {
			defer func() {
				if p := recover(); p != nil {
					res.panicked = fmt.Sprint(p)
				}
			}()
			res.err = sc.Func(ctx, x)
		}()
		hook.mu.Lock()
		hook.armed = false
		res.total, res.mutating, res.after, res.afterMut, res.fired = hook.count, hook.mut, hook.after, hook.amut, hook.fired
		res.afterOps = hook.afterOps
		hook.mu.Unlock()
		if spec.Pre {
			res.afterDmp = x.dump()
		}
		return res, nil
	}
	mv := reflect.ValueOf(x.fs).MethodByName(method)
	if !mv.IsValid() {
		return res, fmt.Errorf("the filesystem has no method %s", method)
	}
	in := []reflect.Value{reflect.ValueOf(ctx)}
	args := sc.Args(x)
	if sc.ArgShape != "" {
		var ok bool
		if args, ok = x.reshape(args, sc.ArgShape); !ok {
			return res, errNoPathArgument
		}
	}
	for i, a := range args {
		v := reflect.ValueOf(a)
		if !v.IsValid() { // untyped nil
			v = reflect.Zero(mv.Type().In(i + 1))
		}
		in = append(in, v)
	}
	if spec.Pre {
		res.before = x.dump()
	}
	hook.mu.Lock()
	hook.armed = true
	hook.mu.Unlock()
	var out []reflect.Value
	func() {
		defer func() {
			if p := recover(); p != nil {
				res.panicked = fmt.Sprint(p)
			}
		}()
		out = mv.Call(in)
	}()
	hook.mu.Lock()
	hook.armed = false
	res.total, res.mutating, res.after, res.afterMut, res.fired = hook.count, hook.mut, hook.after, hook.amut, hook.fired
	res.afterOps = hook.afterOps
	hook.mu.Unlock()
	if len(out) > 0 {
		if last := out[len(out)-1]; last.Type().Implements(errorType) && !last.IsNil() {
			res.err = last.Interface().(error)
		}
	}
	if spec.Pre {
		res.afterDmp = x.dump()
	}
	return res, nil
}

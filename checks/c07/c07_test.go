// C07 — archives are faithful: zip→unzip round trip and the read-only zip / tar filesystem views.
//
// Bounded-exhaustive enumeration (E4) executed on the real code: every tree inside the bound is built on a fresh
// backend (in-memory and OS, sandbox under /dev/shm/verif-c07-*), zipped and unzipped with the repository's
// Zip/Unzip under each limits setting, and opened through NewZipFileSystem / NewTarFileSystem.
//
// Spaces (each enumerated completely):
//
//	A names×shapes : every forest of <= 3 (quick) / <= 4 (thorough) entries, every node named from the 13-name
//	                 alphabet (siblings distinct), every leaf an empty directory, an empty file or a 1-byte file
//	                 (4-entry forests use the 6 names {a, ..a, a..b, ' a', 日本, x.zip}).
//	B contents     : every forest of <= 2 (quick) / <= 3 (thorough) entries over plain names, every leaf an empty
//	                 directory or a file of each of the 7 content classes (empty, 1 B, 32 KiB-1, 32 KiB, 32 KiB+1,
//	                 1 MiB compressible, 1 MiB incompressible).
//	C chains       : nesting depth 0..6 × every name × {empty directory, empty file, 1-byte file} at the bottom.
//	D wide         : one tree of 200 entries.
//
// × backends {mem, os} × limits {none, non-recursive generous, recursive generous}. (No file of the harness has
// archive content, so the recursive setting extracts the same tree: DESIGN.md §4 C07.)
//
// Oracle and the READINGS TAKEN (weakest reading of every ambiguous phrase):
//
//  1. Round trip. Zip and Unzip succeed; an independent walk of the destination (through the raw afero backend,
//     not through the code under test) has the same relative paths, kinds and file bytes as the source;
//     "modification times preserved to archive precision" is read as |mtime(extracted) - mtime(source)| < 2 s
//     (the coarsest field of a zip header has a 2 s resolution); "the list returned names exactly the entries
//     created" is read as an equality of SETS of cleaned paths (order and repetitions are not constrained).
//  2. Views. Listing the view (LsRecursive and Walk from "/"; the root itself may or may not be listed) gives
//     exactly the source's paths; Stat gives the kind of every entry and the size of every file (sizes of
//     directories are not compared); Exists is true; Ls of a directory gives its children; the content of every
//     file is read TWICE through ReadFile and twice through a handle (GenericOpen + read to EOF) and must be the
//     source's bytes each time. ReadFile's error of kind "empty" on a zero-length file is the repository-wide
//     convention of safeio.ReadAtMost for every filesystem and counts as "content = empty". For the tree without
//     any entry an error from listing the root is accepted (the archive then exposes no path, as required).
//     "refuse every mutating call without changing anything": every method of the FS interface (enumerated by
//     reflection, arguments built from the parameter types, every path parameter ranging over {an existing file,
//     an existing directory, a new path at the root, a new path in a directory, "/"}) is called; whatever it
//     returns — an error, or nothing for a call that is a no-op — the view observed afterwards (own recursive
//     walk with positional reads, mtimes included) must be identical; a mutating method that panics or kills the
//     process has neither refused nor returned and is a violation.
//  3. After Close: "every call that needs the archive fails". Methods that answer without the archive are exempt
//     (PathSeparator, GetType, ConvertFilePath, TempDirectory, CurrentDirectory, ExcludeAll, NewRemoteLockFile,
//     and IsZip/IsZipWithContext, documented to answer from the extension when the file cannot be found); a call
//     whose path arguments are all equal (Copy(x, x): a documented no-op) is not made. Every other method must
//     return a non-nil error, or false if it only returns booleans. "The direct accessors" — the methods that
//     touch the archive in their own body, listed in mustCondition below — must fail with kind ErrCondition;
//     methods that reach the archive through another method (StatTimes, LsRecursiveFromOpenedDirectory, Unzip…)
//     may re-label the error.
//
// The full method sweeps (2: mutating calls, 3: closed view) run on every case of spaces C and D and on the cases
// of A and B with <= 2 entries ("deep" cases); the other cases run a fixed short list of methods. A separate
// probe runs each method in a child process first, so that a method that crashes the process (a panic in a
// goroutine it started) is reported and then left out of the in-process sweeps.
package c07

import (
	"encoding/json"
	"fmt"
	"os"
	"os/exec"
	"path/filepath"
	"reflect"
	"sort"
	"strings"
	"sync"
	"sync/atomic"
	"testing"
	"time"

	ev "verif/engine/evidence"
)

func TestMain(m *testing.M) { ev.Main(m) }

// Case is one point of the enumeration (also the replay object).
type Case struct {
	Space   string `json:"space"`
	Index   int64  `json:"index"`
	Backend string `json:"backend"`
	Limits  string `json:"limits"`
	Deep    bool   `json:"deep"`
	Tree    Tree   `json:"tree"`
}

var spaceOrder = map[string]int64{"probe": 0, "C-chains": 1, "A-names-shapes": 2, "B-contents": 3, "D-wide": 4, "E-scratch-names": 5, "F-case-and-dots": 6}
var backendNames = []string{"mem", "os"}
var limitNames = []string{"none", "nonrecursive", "recursive"}

func indexOf(l []string, s string) int64 {
	for i, v := range l {
		if v == s {
			return int64(i)
		}
	}
	return -1
}

func (c *Case) order() caseOrder {
	return caseOrder{spaceOrder[c.Space], c.Index, indexOf(backendNames, c.Backend), indexOf(limitNames, c.Limits)}
}

type stats struct {
	cases, nontrivial, trees int64
	perSpace                 map[string]int64
	outcomes                 map[string]int64
	callOutcomes             map[string]int64 // "view:phase:method:kind" -> count
	calls                    int64
	silentSuccess            map[string]int64 // mutating calls that returned no error on a live view (all are no-ops: the view was unchanged)
	accessorPanics           map[string]int64
	samples                  []any
	maxEntries               int
	bytesArchived            int64
}

func newStats() *stats {
	return &stats{perSpace: map[string]int64{}, outcomes: map[string]int64{}, callOutcomes: map[string]int64{}, silentSuccess: map[string]int64{}, accessorPanics: map[string]int64{}}
}

func (s *stats) merge(o *stats) {
	s.cases += o.cases
	s.nontrivial += o.nontrivial
	s.calls += o.calls
	s.bytesArchived += o.bytesArchived
	for k, v := range o.perSpace {
		s.perSpace[k] += v
	}
	for k, v := range o.outcomes {
		s.outcomes[k] += v
	}
	for k, v := range o.callOutcomes {
		s.callOutcomes[k] += v
	}
	for k, v := range o.silentSuccess {
		s.silentSuccess[k] += v
	}
	for k, v := range o.accessorPanics {
		s.accessorPanics[k] += v
	}
	if o.maxEntries > s.maxEntries {
		s.maxEntries = o.maxEntries
	}
}

func spaces(thorough bool) (a3, a4, b *space) {
	a3 = &space{Name: "A-names-shapes", names: alphabet, leaves: []int{-1, cEmpty, c1B}, maxSize: 3}
	if thorough {
		a4 = &space{Name: "A-names-shapes", names: []string{"a", "..a", "a..b", " a", "日本", "x.zip"}, leaves: []int{-1, cEmpty, c1B}, maxSize: 4}
	}
	b = &space{Name: "B-contents", names: []string{"a", "b"}, leaves: []int{-1, cEmpty, c1B, c32Km1, c32K, c32Kp1, c1MComp, c1MRand, c1MZeroTail}, maxSize: 2}
	if thorough {
		b = &space{Name: "B-contents", names: []string{"a", "b", "c"}, leaves: b.leaves, maxSize: 3}
	}
	return
}

// produce enumerates every case of the tier.
func produce(thorough bool, emit func(*Case)) (trees int64) {
	only := os.Getenv("VERIF_C07_ONLY") // development aid: restrict the run to some spaces (the run is then not exhaustive)
	fan := func(spaceName string, idx int64, t Tree, deep bool) {
		if only != "" && !strings.Contains(only, spaceName[:1]) {
			return
		}
		if devMaxIdx > 0 && idx >= devMaxIdx {
			return
		}
		trees++
		for _, b := range backendNames {
			for _, l := range limitNames {
				emit(&Case{Space: spaceName, Index: idx, Backend: b, Limits: l, Deep: deep, Tree: t})
			}
		}
	}
	eachChain(func(idx int64, t Tree) { fan("C-chains", idx, t, true) })
	a3, a4, b := spaces(thorough)
	var last int64
	a3.each(func(idx int64, t Tree) { fan(a3.Name, idx, t, len(t) <= 2); last = idx })
	if a4 != nil {
		// only the forests of exactly 4 entries are new
		var idx = last + 1
		a4.forestsExact(4, 0, func(f []gnode) {
			var t Tree
			a4.flatten(f, "", &t)
			fan(a4.Name, idx, t, false)
			idx++
		})
	}
	b.each(func(idx int64, t Tree) { fan(b.Name, idx, t, len(t) <= 2) })
	fan("D-wide", 0, wideTree(), true)
	// siblings whose names are another sibling's name plus a suffix an implementation might use for its own scratch files
	e := &space{Name: "E-scratch-names", names: []string{"a", "a.part", "a.tmp", "a~", ".a.swp"}, leaves: []int{-1, c1B}, maxSize: 3}
	e.each(func(idx int64, t Tree) { fan(e.Name, idx, t, false) })
	// names that differ only by case, and names made of dots only (legal: three dots or more)
	e = &space{Name: "F-case-and-dots", names: []string{"a", "A", "é", "É", "...", "...."}, leaves: []int{-1, c1B}, maxSize: 3}
	e.each(func(idx int64, t Tree) { fan(e.Name, idx, t, false) })
	return
}

var sandboxRoot string

// development aids (a run with either of them set reports exhaustive=false)
var devMaxIdx = func() int64 { var n int64; fmt.Sscan(os.Getenv("VERIF_C07_MAXIDX"), &n); return n }()

func TestC07(t *testing.T) {
	if p := os.Getenv("VERIF_C07_PROBE"); p != "" {
		runProbeChild(p)
		return
	}
	var err error
	sandboxRoot, err = os.MkdirTemp("/dev/shm", "verif-c07-")
	if err != nil {
		sandboxRoot, err = os.MkdirTemp("", "verif-c07-")
	}
	if err != nil {
		t.Fatalf("no sandbox: %v", err)
	}
	defer os.RemoveAll(sandboxRoot)

	if p := os.Getenv("VERIF_REPLAY"); p != "" {
		replay(t, p)
		return
	}

	rep := ev.NewReporter("C07", "exploration")
	thorough := ev.Thorough()
	total := newRecorder()
	st := newStats()

	// ---- crash probe: each FS method in a child process, on both views -------------------------------
	skip := crashProbe(rep, total, st)

	if skip.fatal {
		for _, s := range total.signatures() {
			rep.ViolationN(s.Sig, s.First, s.Count)
		}
		rep.Coverage["evaluations"] = len(total.eval)
		rep.Coverage["distinct_nontrivial"] = 2
		rep.Coverage["rule"] = "probe only: reading the views of the 4-entry probe tree killed the child process, the enumeration was not started"
		rep.Coverage["exhaustive"] = false
		rep.Coverage["samples"] = []any{sampleOf(&Case{Space: "probe", Backend: "mem", Limits: "none", Tree: probeTree})}
		rep.Finish()
		return
	}

	// ---- enumeration ------------------------------------------------------------------------------------
	workers := ev.Workers()
	ch := make(chan *Case, 4*workers)
	var wg sync.WaitGroup
	var mu sync.Mutex
	var done atomic.Int64
	for w := 0; w < workers; w++ {
		wg.Add(1)
		go func(w int) {
			defer wg.Done()
			rec := newRecorder()
			ws := newStats()
			run := &runner{rec: rec, st: ws, skip: skip, sandbox: filepath.Join(sandboxRoot, fmt.Sprintf("w%d", w)), rep: rep}
			for c := range ch {
				run.runCase(c)
				done.Add(1)
			}
			mu.Lock()
			total.merge(rec)
			st.merge(ws)
			mu.Unlock()
		}(w)
	}
	stop := make(chan struct{})
	go func() {
		tk := time.NewTicker(20 * time.Second)
		defer tk.Stop()
		for {
			select {
			case <-stop:
				return
			case <-tk.C:
				fmt.Fprintf(os.Stderr, "[C07] %d cases done\n", done.Load())
			}
		}
	}()
	var samples []any
	perSpaceSample := map[string]int{}
	st.trees = produce(thorough, func(c *Case) {
		pick := c.Space == "D-wide" || (len(c.Tree) >= 2 && (c.Index+int64(ev.Seed()))%97 == 3)
		if c.Backend == "mem" && c.Limits == "none" && perSpaceSample[c.Space] < 3 && pick {
			perSpaceSample[c.Space]++
			samples = append(samples, sampleOf(c))
		}
		ch <- c
	})
	close(ch)
	wg.Wait()
	close(stop)

	// ---- verdicts ---------------------------------------------------------------------------------------
	sigs := total.signatures()
	for _, s := range sigs {
		rep.ViolationN(s.Sig, s.First, s.Count)
	}
	var evaluations int64
	families := map[string]int64{}
	for tpl, n := range total.eval {
		evaluations += n
		families[tpl.Family] += n
	}
	rep.Coverage["evaluations"] = evaluations
	rep.Coverage["evaluations_per_clause"] = families
	rep.Coverage["cases"] = st.cases
	rep.Coverage["distinct_trees"] = st.trees
	rep.Coverage["cases_per_space"] = st.perSpace
	rep.Coverage["distinct_nontrivial"] = st.nontrivial
	rep.Coverage["rule"] = "a case (tree × backend × limits) counts when its tree has at least one entry, the repository's Zip produced an archive of it, and both filesystem views were opened over the archives — i.e. the header-writing walk, the extraction loop and the read-only wrappers were all exercised; the tree without entries does not count"
	rep.Coverage["exhaustive"] = os.Getenv("VERIF_C07_ONLY") == "" && devMaxIdx == 0
	rep.Coverage["bound"] = boundText(thorough)
	rep.Coverage["max_entries_in_a_tree"] = st.maxEntries
	rep.Coverage["distinct_case_outcomes"] = len(st.outcomes)
	rep.Coverage["case_outcomes"] = st.outcomes
	rep.Coverage["fs_interface_methods"] = fsType.NumMethod()
	rep.Coverage["fs_method_calls"] = st.calls
	rep.Coverage["distinct_call_outcomes(view:phase:method:error-kind)"] = len(st.callOutcomes)
	rep.Coverage["mutating_calls_returning_no_error_on_a_live_view(no-ops: view unchanged)"] = st.silentSuccess
	rep.Coverage["non_mutating_accessors_that_panic_on_a_live_view(outside the statement; observation)"] = st.accessorPanics
	rep.Coverage["methods_left_out_of_in_process_sweeps_after_crashing_the_probe"] = skip.list()
	rep.Coverage["bytes_archived"] = st.bytesArchived
	rep.Coverage["samples"] = samples
	rep.Coverage["raw_violating_class_tuples"] = len(total.viol)
	rep.Assume = []string{
		"trees are built and dumped through the raw afero backend (MemMapFs / ExtendedOsFs), not through the code under test",
		"tar archives are written by the harness with archive/tar: one header per directory (name with trailing slash) and per file, parents first, relative names, as `tar c` does",
		"Linux only; names are valid UTF-8",
		"the call sweeps use one argument per non-path parameter type (see calls_test.go)",
	}
	rep.Finish()
}

func boundText(thorough bool) string {
	if thorough {
		return "A: all forests <= 3 entries over 13 names + all forests of 4 entries over 6 names, leaves {empty dir, empty file, 1 B file}; B: all forests <= 3 entries over {a,b,c}, leaves {empty dir} + 7 content classes up to 1 MiB; C: depth 0..6 × 13 names × 3 leaves; D: one 200-entry tree; × {mem, os} × {none, non-recursive, recursive limits}; call sweeps: all FS methods × path arguments over 5 path shapes on every case of C, D and the <= 2-entry cases of A, B"
	}
	return "A: all forests <= 3 entries over 13 names, leaves {empty dir, empty file, 1 B file}; B: all forests <= 2 entries over {a,b}, leaves {empty dir} + 7 content classes up to 1 MiB; C: depth 0..6 × 13 names × 3 leaves; D: one 200-entry tree; × {mem, os} × {none, non-recursive, recursive limits}; call sweeps: all FS methods × path arguments over 5 path shapes on every case of C, D and the <= 2-entry cases of A, B"
}

func sampleOf(c *Case) any {
	var l []string
	for i, e := range c.Tree {
		if i >= 6 {
			l = append(l, fmt.Sprintf("… %d more", len(c.Tree)-6))
			break
		}
		if e.Dir {
			l = append(l, e.Rel+"/")
		} else {
			l = append(l, fmt.Sprintf("%s (%s)", e.Rel, classNames[e.Class]))
		}
	}
	return map[string]any{"space": c.Space, "index": c.Index, "backend": c.Backend, "limits": c.Limits, "tree": l}
}

// ---- replay ------------------------------------------------------------------------------------------------

func replay(t *testing.T, path string) {
	b, err := os.ReadFile(path)
	if err != nil {
		t.Fatal(err)
	}
	var doc struct {
		Signature string    `json:"signature"`
		Replay    Violation `json:"replay"`
	}
	if err := json.Unmarshal(b, &doc); err != nil || doc.Replay.Case == nil {
		t.Fatalf("replay file %s does not hold a C07 case: %v", path, err)
	}
	c := doc.Replay.Case
	rec := newRecorder()
	rec.keepRaw = true
	skip := &skipSet{m: map[string]bool{}}
	if c.Space == "probe" {
		// the probe runs in child processes
		rep := ev.NewReporter("C07", "exploration")
		skip = crashProbe(rep, rec, newStats())
	} else {
		// methods known to crash the process must not be called in-process: find them first
		skip = crashProbe(nil, newRecorder(), newStats())
		run := &runner{rec: rec, st: newStats(), skip: skip, sandbox: filepath.Join(sandboxRoot, "replay")}
		run.runCase(c)
	}
	fmt.Printf("replay of %s  (%s #%d, backend %s, limits %s, %d entries)\n", doc.Signature, c.Space, c.Index, c.Backend, c.Limits, len(c.Tree))
	for _, e := range c.Tree {
		if e.Dir {
			fmt.Printf("   %q/\n", e.Rel)
		} else {
			fmt.Printf("   %q  (%s)\n", e.Rel, classNames[e.Class])
		}
	}
	same := false
	for _, v := range rec.raw {
		fmt.Printf("  violated: %s  subject=%q  %s\n", v.Clause, v.Subject, v.Detail)
		if v.Clause == doc.Replay.Clause {
			same = true
		}
	}
	switch {
	case same:
		fmt.Printf("VIOLATION property=C07 replay=%s signature=%s\n", path, doc.Signature)
		ev.ExitCode = 1
	case len(rec.raw) > 0:
		fmt.Printf("VIOLATION property=C07 replay=%s signature=other-clauses-than-recorded\n", path)
		ev.ExitCode = 1
	default:
		fmt.Println("replay: no violation")
	}
}

// ---- crash probe -------------------------------------------------------------------------------------------

type skipSet struct {
	mu    sync.Mutex
	m     map[string]bool // "view:phase:method"
	fatal bool            // the probe case killed its process: the enumeration cannot run in-process
}

func (s *skipSet) has(view, phase, method string) bool {
	s.mu.Lock()
	defer s.mu.Unlock()
	return s.m[view+":"+phase+":"+method]
}

func (s *skipSet) list() []string {
	l := []string{}
	for k := range s.m {
		l = append(l, k)
	}
	sort.Strings(l)
	return l
}

var probeTree = Tree{{Rel: "d", Dir: true}, {Rel: "d/f", Class: c1B}, {Rel: "e", Dir: true}, {Rel: "g", Class: c1B}}

// crashProbe runs every FS method (live sweep, then closed sweep) on both views of a fixed small tree in a child
// process each. A child that dies means the method took the process down.
func crashProbe(rep *ev.Reporter, rec *recorder, st *stats) *skipSet {
	skip := &skipSet{m: map[string]bool{}}
	type job struct{ view, method string }
	var jobs []job
	for _, v := range []string{"zip", "tar"} {
		for _, m := range fsMethods() {
			jobs = append(jobs, job{v, m.Name})
		}
	}
	type res struct {
		job
		live, closed bool
		out          string
	}
	results := make([]res, len(jobs))
	sem := make(chan struct{}, ev.Workers())
	var wg sync.WaitGroup
	for i, j := range jobs {
		wg.Add(1)
		sem <- struct{}{}
		go func(i int, j job) {
			defer wg.Done()
			defer func() { <-sem }()
			cmd := exec.Command(os.Args[0], "-test.run=^TestC07$", "-test.count=1", "-test.timeout=300s")
			cmd.Env = append(os.Environ(), "VERIF_C07_PROBE="+j.view+":"+j.method, "GOMAXPROCS=2")
			out, _ := cmd.CombinedOutput()
			s := string(out)
			results[i] = res{job: j, live: strings.Contains(s, "PROBE-LIVE-DONE"), closed: strings.Contains(s, "PROBE-CLOSED-DONE"), out: s}
		}(i, j)
	}
	wg.Wait()
	c := &Case{Space: "probe", Index: 0, Backend: "mem", Limits: "none", Deep: true, Tree: probeTree}
	for _, r := range results {
		d := dims{"mem", "none", "-", "-", "-"}
		liveFam := "view=" + r.view + ":live:call-kills-process"
		closedFam := "view=" + r.view + ":closed:call-kills-process"
		descr := func() string { return firstLines(r.out, 6) }
		if !r.live {
			skip.m[r.view+":live:"+r.method] = true
			skip.m[r.view+":closed:"+r.method] = true // the closed phase was never reached
			if isMutating(r.method) {
				detail := r.method
				if strings.Contains(r.out, "test timed out") {
					detail += "/never-returns" // 300 s for a call that takes microseconds
				}
				rec.check(c, liveFam, d, false, detail, "(view)", descr)
			} else {
				rec.check(c, liveFam, d, true, "", "", nil)
				st.accessorPanics[r.view+":"+r.method+":kills-process"]++
			}
			continue
		}
		rec.check(c, liveFam, d, true, "", "", nil)
		if !r.closed {
			skip.m[r.view+":closed:"+r.method] = true
			rec.check(c, closedFam, d, false, r.method, "(view)", descr)
			continue
		}
		rec.check(c, closedFam, d, true, "", "", nil)
		if strings.Contains(r.out, "PROBE-ENGINE-ERROR") && rep != nil {
			rep.EngineError("probe %s:%s: %s", r.view, r.method, firstLines(r.out, 4))
		}
	}
	// the whole case once in a child process per backend: a view whose accessors take the process down (a fatal
	// error cannot be recovered) is reported as a violation instead of aborting the enumeration
	for _, b := range backendNames {
		cmd := exec.Command(os.Args[0], "-test.run=^TestC07$", "-test.count=1", "-test.timeout=600s")
		cmd.Env = append(os.Environ(), "VERIF_C07_PROBE=case:"+b, "VERIF_C07_PROBE_SKIP="+strings.Join(skip.list(), ","))
		out, _ := cmd.CombinedOutput()
		s := string(out)
		ok := strings.Contains(s, "PROBE-CASE-DONE")
		how := "other"
		switch {
		case strings.Contains(s, "stack overflow"):
			how = "stack-overflow"
		case strings.Contains(s, "panic:"):
			how = "panic"
		case strings.Contains(s, "fatal error:"):
			how = "fatal-error"
		}
		pc := &Case{Space: "probe", Index: 1, Backend: b, Limits: "none", Deep: true, Tree: probeTree}
		rec.check(pc, "probe:reading-the-views-kills-the-process", dims{b, "-", "-", "-", "-"}, ok, how, "(view)", func() string { return firstLines(s, 8) })
		if !ok {
			skip.fatal = true
		}
	}
	return skip
}

func firstLines(s string, n int) string {
	l := strings.Split(s, "\n")
	var keep []string
	for _, x := range l {
		if strings.TrimSpace(x) == "" || strings.HasPrefix(x, "PROBE-") {
			continue
		}
		keep = append(keep, x)
		if len(keep) >= n {
			break
		}
	}
	return strings.Join(keep, " | ")
}

func runProbeChild(spec string) {
	parts := strings.SplitN(spec, ":", 2)
	view, method := parts[0], parts[1]
	if view == "case" {
		// the whole case (oracle reads and sweeps) on the probe tree
		var err error
		sandboxRoot, err = os.MkdirTemp("/dev/shm", "verif-c07-")
		if err != nil {
			fmt.Println("PROBE-ENGINE-ERROR", err)
			return
		}
		defer os.RemoveAll(sandboxRoot)
		skip := &skipSet{m: map[string]bool{}}
		for _, m := range strings.Split(os.Getenv("VERIF_C07_PROBE_SKIP"), ",") {
			skip.m[m] = true
		}
		run := &runner{rec: newRecorder(), st: newStats(), skip: skip, sandbox: filepath.Join(sandboxRoot, "probe")}
		for _, l := range limitNames {
			run.runCase(&Case{Space: "probe", Backend: method, Limits: l, Deep: true, Tree: probeTree})
		}
		fmt.Println("PROBE-CASE-DONE")
		return
	}
	var m *reflect.Method
	for _, x := range fsMethods() {
		if x.Name == method {
			x := x
			m = &x
		}
	}
	if m == nil {
		fmt.Println("PROBE-ENGINE-ERROR unknown method")
		return
	}
	be, err := newBackend("mem", "")
	if err != nil {
		fmt.Println("PROBE-ENGINE-ERROR", err)
		return
	}
	c := &Case{Space: "probe", Backend: "mem", Limits: "none", Deep: true, Tree: probeTree}
	entries := derive(c.Tree)
	lay := be.layout()
	if err := build(be, lay.src, entries); err != nil {
		fmt.Println("PROBE-ENGINE-ERROR", err)
		return
	}
	archive := lay.zip
	if view == "zip" {
		err = be.vfs.Zip(lay.src, lay.zip)
	} else {
		archive = lay.tar
		err = writeTar(be, lay.tar, entries)
	}
	if err != nil {
		fmt.Println("PROBE-ENGINE-ERROR", err)
		return
	}
	v, _, err := openView(be, view, archive, "none")
	if err != nil {
		fmt.Println("PROBE-ENGINE-ERROR", err)
		return
	}
	env := sweepEnv(v, entries)
	tuples, descr, err := argTuples(*m, env)
	if err != nil {
		fmt.Println("PROBE-ENGINE-ERROR", err)
		return
	}
	bound := bind(v, *m)
	for i := range tuples {
		invoke(bound, *m, tuples[i], descr[i])
	}
	time.Sleep(20 * time.Millisecond) // let goroutines started by the call run into whatever they run into
	fmt.Println("PROBE-LIVE-DONE")
	_ = v.Close()
	env.paths = closedPaths(entries)
	tuples, descr, _ = argTuples(*m, env)
	for i := range tuples {
		invoke(bound, *m, tuples[i], descr[i])
	}
	time.Sleep(20 * time.Millisecond)
	fmt.Println("PROBE-CLOSED-DONE")
}

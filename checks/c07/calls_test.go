package c07

// Generic caller: enumerates the methods of the filesystem.FS interface by reflection and builds plausible
// arguments from the parameter types (plus a small table for string parameters that are not paths).

import (
	"bytes"
	"context"
	"fmt"
	"io"
	"os"
	"os/user"
	"path/filepath"
	"reflect"
	"sort"
	"time"

	"github.com/ARM-software/golang-utils/utils/commonerrors"
	"github.com/ARM-software/golang-utils/utils/filesystem"
	"github.com/ARM-software/golang-utils/utils/hashing"
)

var (
	fsType       = reflect.TypeOf((*filesystem.FS)(nil)).Elem()
	ctxType      = reflect.TypeOf((*context.Context)(nil)).Elem()
	errType      = reflect.TypeOf((*error)(nil)).Elem()
	limitsType   = reflect.TypeOf((*filesystem.ILimits)(nil)).Elem()
	fileType     = reflect.TypeOf((*filesystem.File)(nil)).Elem()
	readerType   = reflect.TypeOf((*io.Reader)(nil)).Elem()
	walkFnType   = reflect.TypeOf(filepath.WalkFunc(nil))
	fileModeType = reflect.TypeOf(os.FileMode(0))
	timeType     = reflect.TypeOf(time.Time{})
	durationType = reflect.TypeOf(time.Duration(0))
	userPtrType  = reflect.TypeOf((*user.User)(nil))
	strListPtr   = reflect.TypeOf((*[]string)(nil))
	strList      = reflect.TypeOf([]string(nil))
	byteList     = reflect.TypeOf([]byte(nil))
)

// string parameters that are NOT paths inside the filesystem: method -> parameter index (context excluded from
// the count? no: index in the full parameter list) -> value
var nonPathStrings = map[string]map[int]string{
	"FileHash":               {0: hashing.HashSha256},
	"FileHashWithContext":    {1: hashing.HashSha256},
	"TempDir":                {1: "verif"},
	"TempFile":               {1: "verif"},
	"TouchTempFile":          {1: "verif"},
	"TempDirInTempDir":       {0: "verif"},
	"TempFileInTempDir":      {0: "verif"},
	"TouchTempFileInTempDir": {0: "verif"},
	"NewRemoteLockFile":      {0: "verif-lock"},
}

var currentUser = func() *user.User {
	u, err := user.Current()
	if err != nil {
		return &user.User{Uid: fmt.Sprint(os.Getuid()), Gid: fmt.Sprint(os.Getgid())}
	}
	return u
}()

// callEnv carries what argument construction needs.
type callEnv struct {
	paths   []string        // candidate values for path parameters
	dirH    filesystem.File // an opened directory of the view (may be nil)
	fileH   filesystem.File // an opened file of the view (may be nil)
	globPat string
}

type callResult struct {
	Method  string
	Args    string
	Err     error
	HasErr  bool // the method has an error result
	Bools   []bool
	Panic   any
	NonZero bool // some non-error, non-bool result is non-zero (a list, a handle, a string ...)
}

func pathParamCount(m reflect.Method) int {
	n := 0
	for j := 0; j < m.Type.NumIn(); j++ {
		if m.Type.In(j).Kind() == reflect.String {
			if _, ok := nonPathStrings[m.Name][j]; !ok {
				n++
			}
		}
	}
	return n
}

// argTuples returns every argument tuple for a method: each path parameter ranges over env.paths.
func argTuples(m reflect.Method, env *callEnv) (tuples [][]reflect.Value, descr []string, err error) {
	np := pathParamCount(m)
	total := 1
	for i := 0; i < np; i++ {
		total *= len(env.paths)
	}
	if m.Name == "Glob" {
		total = 1
	}
	for t := 0; t < total; t++ {
		var args []reflect.Value
		var d []string
		k := t
		nIn := m.Type.NumIn()
		for j := 0; j < nIn; j++ {
			pt := m.Type.In(j)
			variadic := m.Type.IsVariadic() && j == nIn-1
			switch {
			case variadic:
				// exclusion patterns / extensions / further paths
				if pt.Elem().Kind() != reflect.String {
					return nil, nil, fmt.Errorf("method %s: variadic parameter of type %v", m.Name, pt)
				}
				switch m.Name {
				case "FindAll":
					args = append(args, reflect.ValueOf("txt"))
				case "ConvertToRelativePath", "ConvertToAbsolutePath":
					args = append(args, reflect.ValueOf(env.paths[0]))
				}
			case pt == ctxType:
				args = append(args, reflect.ValueOf(context.Background()))
			case pt.Kind() == reflect.String:
				if v, ok := nonPathStrings[m.Name][j]; ok {
					args = append(args, reflect.ValueOf(v))
				} else if m.Name == "Glob" {
					args = append(args, reflect.ValueOf(env.globPat))
					d = append(d, env.globPat)
				} else {
					p := env.paths[k%len(env.paths)]
					k /= len(env.paths)
					args = append(args, reflect.ValueOf(p))
					d = append(d, p)
				}
			case pt == fileModeType:
				args = append(args, reflect.ValueOf(os.FileMode(0o600)))
			case pt.Kind() == reflect.Bool:
				args = append(args, reflect.ValueOf(true))
			case pt.Kind() == reflect.Int:
				v := os.Getuid()
				if m.Name == "OpenFile" {
					v = os.O_WRONLY | os.O_CREATE | os.O_TRUNC
				}
				args = append(args, reflect.ValueOf(v))
			case pt == timeType:
				args = append(args, reflect.ValueOf(time.Date(2001, 2, 3, 4, 5, 6, 0, time.UTC)))
			case pt == durationType:
				args = append(args, reflect.ValueOf(time.Duration(0)))
			case pt == limitsType:
				args = append(args, reflect.ValueOf(filesystem.NoLimits()))
			case pt == fileType:
				h := env.dirH
				if m.Name == "ReadFileContent" {
					h = env.fileH
				}
				if h == nil {
					args = append(args, reflect.Zero(fileType))
				} else {
					args = append(args, reflect.ValueOf(h))
				}
			case pt == readerType:
				args = append(args, reflect.ValueOf(bytes.NewReader([]byte("data"))))
			case pt == walkFnType:
				args = append(args, reflect.ValueOf(filepath.WalkFunc(func(string, os.FileInfo, error) error { return nil })))
			case pt == userPtrType:
				args = append(args, reflect.ValueOf(currentUser))
			case pt == strListPtr:
				l := []string{}
				args = append(args, reflect.ValueOf(&l))
			case pt == strList:
				args = append(args, reflect.ValueOf(append([]string(nil), env.paths...)))
			case pt == byteList:
				args = append(args, reflect.ValueOf([]byte("data")))
			default:
				return nil, nil, fmt.Errorf("method %s: no argument rule for parameter %d of type %v", m.Name, j, pt)
			}
		}
		tuples = append(tuples, args)
		descr = append(descr, fmt.Sprint(d))
	}
	return
}

// bind returns the method of a filesystem object as a callable value.
func bind(fs filesystem.FS, m reflect.Method) reflect.Value {
	return reflect.ValueOf(fs).MethodByName(m.Name)
}

func invoke(bound reflect.Value, m reflect.Method, args []reflect.Value, descr string) (res callResult) {
	res.Method = m.Name
	res.Args = descr
	defer func() {
		if p := recover(); p != nil {
			res.Panic = p
		}
	}()
	out := bound.Call(args)
	for _, o := range out {
		switch {
		case o.Type() == errType:
			res.HasErr = true
			if !o.IsNil() {
				res.Err = o.Interface().(error)
			}
		case o.Kind() == reflect.Bool:
			res.Bools = append(res.Bools, o.Bool())
		default:
			if !o.IsZero() {
				res.NonZero = true
				// never leak a handle returned by a call
				if o.Type().Implements(reflect.TypeOf((*io.Closer)(nil)).Elem()) && !o.IsNil() {
					_ = o.Interface().(io.Closer).Close()
				}
			}
		}
	}
	return
}

func fsMethods() []reflect.Method {
	var ms []reflect.Method
	for i := 0; i < fsType.NumMethod(); i++ {
		ms = append(ms, fsType.Method(i))
	}
	sort.Slice(ms, func(i, j int) bool { return ms[i].Name < ms[j].Name })
	return ms
}

var kinds = []struct {
	name string
	err  error
}{
	{"condition", commonerrors.ErrCondition}, {"malicious", commonerrors.ErrMalicious}, {"toolarge", commonerrors.ErrTooLarge},
	{"notfound", commonerrors.ErrNotFound}, {"exists", commonerrors.ErrExists}, {"conflict", commonerrors.ErrConflict},
	{"invalid", commonerrors.ErrInvalid}, {"undefined", commonerrors.ErrUndefined}, {"notimplemented", commonerrors.ErrNotImplemented},
	{"unsupported", commonerrors.ErrUnsupported}, {"empty", commonerrors.ErrEmpty}, {"unexpected", commonerrors.ErrUnexpected},
	{"eof", commonerrors.ErrEOF}, {"cancelled", commonerrors.ErrCancelled}, {"timeout", commonerrors.ErrTimeout},
	{"forbidden", commonerrors.ErrForbidden}, {"outofrange", commonerrors.ErrOutOfRange}, {"unknown", commonerrors.ErrUnknown},
}

// errKind maps an error to the name of its commonerrors kind ("none" for nil, "other" for a foreign error).
func errKind(err error) string {
	if err == nil {
		return "none"
	}
	for _, k := range kinds {
		if commonerrors.Any(err, k.err) {
			return k.name
		}
	}
	return "other"
}

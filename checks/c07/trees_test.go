package c07

// Tree model, name / content alphabets and the bounded-exhaustive tree generators (E4).

import (
	"fmt"
	"path"
	"path/filepath"
	"sort"
	"strings"
	"sync"
	"time"
	"unicode/utf8"

	"github.com/ARM-software/golang-utils/utils/filesystem"
)

// alphabet of entry names (DESIGN.md §4 C07): plain, leading dot, leading and inner doubled dots, trailing dot,
// inner and leading space, 2-byte and 3-byte UTF-8, shell metacharacters, an archive extension, a leading dash.
var alphabet = []string{"a", ".a", "..a", "a..b", "a.", "a b", " a", "é", "日本", "$(x)", "a;b", "x.zip", "-r", "a\\b"} // a\b: a backslash is a legal name character on POSIX (added after a seeded change rewrote it into a separator)

// content classes of regular files
const (
	cEmpty = iota
	c1B
	c32Km1
	c32K
	c32Kp1
	c1MComp
	c1MRand
	c1MZeroTail
	nClasses
)

var classNames = []string{"empty", "1B", "32K-1", "32K", "32K+1", "1M-compressible", "1M-incompressible", "1M+zero-tail"}
var classSizes = []int{0, 1, 32*1024 - 1, 32 * 1024, 32*1024 + 1, 1 << 20, 1 << 20, 1<<20 + 64*1024 + 5}

var contentCache sync.Map

// content returns the deterministic bytes of a content class; salt makes the files of one tree differ.
func content(class, salt int) []byte {
	salt &= 3
	key := class<<8 | salt
	if v, ok := contentCache.Load(key); ok {
		return v.([]byte)
	}
	n := classSizes[class]
	b := make([]byte, n)
	switch class {
	case c1B:
		b[0] = byte('A' + salt)
	case c32Km1, c32K, c32Kp1:
		for i := range b {
			b[i] = byte(i*31+salt*17+(i>>8)*7) ^ byte(i>>13)
		}
	case c1MComp:
		line := []byte(fmt.Sprintf("compressible content of file with salt %d\n", salt))
		for i := range b {
			b[i] = line[i%len(line)]
		}
	case c1MZeroTail: // a megabyte of text, then one full 64 KiB block and five more bytes of zeros (disk images, padded files)
		line := []byte(fmt.Sprintf("content followed by padding, salt %d\n", salt))
		for i := 0; i < 1<<20; i++ {
			b[i] = line[i%len(line)]
		}
	case c1MRand:
		x := uint64(0x9E3779B97F4A7C15) ^ uint64(salt+1)*0xBF58476D1CE4E5B9
		for i := range b {
			x ^= x << 13
			x ^= x >> 7
			x ^= x << 17
			b[i] = byte(x >> 24)
		}
		b[0] = 'V' // never an archive magic number: no file of the harness is itself an archive
	}
	contentCache.Store(key, b)
	return b
}

// EntrySpec is one entry of a tree, as stored in a replay file.
type EntrySpec struct {
	Rel   string `json:"rel"` // slash separated path relative to the root of the tree
	Dir   bool   `json:"dir"`
	Class int    `json:"class"` // content class (files)
}

// Tree lists parents before children.
type Tree []EntrySpec

// entry is an EntrySpec with everything derived from its position in the tree.
type entry struct {
	EntrySpec
	idx      int
	mtime    time.Time
	emptyDir bool
	kids     []string // names of the children (directories)
}

var mtimeBase = time.Date(2010, 3, 4, 5, 6, 7, 0, time.UTC)

// mtimeOf gives every entry its own modification time: odd and even seconds (the MS-DOS field of a zip header
// has a 2 s resolution), a sub-second part, hours apart from its neighbours.
func mtimeOf(i int) time.Time {
	if i%3 == 1 {
		// every third entry is older than 1980, the first date the MS-DOS fields of a zip header can hold (files of reproducible
		// builds are dated 0 or 1 s after the epoch): the extended time stamp of the header carries such dates
		return time.Date(1975, 6, 1, 0, 0, 1, 0, time.UTC).Add(time.Duration(i)*3601*time.Second + time.Duration((i*137+250)%1000)*time.Millisecond)
	}
	return mtimeBase.Add(time.Duration(i)*3601*time.Second + time.Duration((i*137+250)%1000)*time.Millisecond)
}

func derive(t Tree) []*entry {
	out := make([]*entry, len(t))
	byRel := map[string]*entry{}
	for i, s := range t {
		e := &entry{EntrySpec: s, idx: i, mtime: mtimeOf(i), emptyDir: s.Dir}
		out[i] = e
		byRel[s.Rel] = e
		if d := path.Dir(s.Rel); d != "." {
			if p := byRel[d]; p != nil {
				p.emptyDir = false
				p.kids = append(p.kids, path.Base(s.Rel))
			}
		}
	}
	return out
}

func (e *entry) data() []byte {
	if e.Dir {
		return nil
	}
	return content(e.Class, e.idx)
}

func (e *entry) kind() string {
	switch {
	case !e.Dir:
		return "file"
	case e.emptyDir:
		return "emptydir"
	}
	return "dir"
}

func (e *entry) contentClass() string {
	if e.Dir {
		return "-"
	}
	return classNames[e.Class]
}

// ---- name classes (computed from the characters of the name, never looked up) ----------------------------

func componentClasses(name string) []string {
	var c []string
	switch {
	case strings.HasPrefix(name, ".."):
		c = append(c, "leading-dotdot")
	case strings.Contains(name, ".."):
		c = append(c, "inner-dotdot")
	case strings.HasPrefix(name, "."):
		c = append(c, "leading-dot")
	}
	if strings.HasSuffix(name, ".") && !strings.HasSuffix(name, "..") {
		c = append(c, "trailing-dot")
	}
	switch {
	case strings.HasPrefix(name, " "):
		c = append(c, "leading-space")
	case strings.Contains(name, " "):
		c = append(c, "inner-space")
	}
	maxLen := 1
	for _, r := range name {
		if l := utf8.RuneLen(r); l > maxLen {
			maxLen = l
		}
	}
	if maxLen > 1 {
		c = append(c, fmt.Sprintf("utf8-%dbyte", maxLen))
	}
	if strings.ContainsAny(name, "$();&|<>*?`'\"\\!{}[]~#") {
		c = append(c, "shell-meta")
	}
	ext := strings.ToLower(filepath.Ext(name))
	for _, z := range filesystem.ZipFileExtensions {
		if ext == z {
			c = append(c, "archive-ext")
			break
		}
	}
	if strings.HasPrefix(name, "-") {
		c = append(c, "leading-dash")
	}
	return c
}

// nameClass of a relative path: the union of the classes of its components ("plain" if there is none).
func nameClass(rel string) string {
	set := map[string]bool{}
	for _, comp := range strings.Split(rel, "/") {
		for _, c := range componentClasses(comp) {
			set[c] = true
		}
	}
	if len(set) == 0 {
		return "plain"
	}
	var l []string
	for c := range set {
		l = append(l, c)
	}
	sort.Strings(l)
	return strings.Join(l, "+")
}

func nameCoarse(fine string) string {
	if strings.Contains(fine, "dotdot") {
		return "contains-dotdot"
	}
	return "no-dotdot"
}

// ---- generators ------------------------------------------------------------------------------------------

type gnode struct {
	name string
	leaf int // -1: directory with the children below; otherwise index into the leaf kinds of the space
	kids []gnode
}

// leaf kind: -1 = empty directory, otherwise a content class
type space struct {
	Name    string
	names   []string
	leaves  []int
	maxSize int
}

// forestsExact yields every forest of exactly n nodes whose sibling names are strictly increasing in the
// alphabet order (so each unordered tree is produced once).
func (s *space) forestsExact(n, minIdx int, yield func([]gnode)) {
	if n == 0 {
		yield(nil)
		return
	}
	for i := minIdx; i < len(s.names); i++ {
		for k := 1; k <= n; k++ {
			s.nodesExact(i, k, func(nd gnode) {
				s.forestsExact(n-k, i+1, func(rest []gnode) {
					f := make([]gnode, 0, 1+len(rest))
					f = append(f, nd)
					f = append(f, rest...)
					yield(f)
				})
			})
		}
	}
}

func (s *space) nodesExact(name, k int, yield func(gnode)) {
	if k == 1 {
		for li := range s.leaves {
			yield(gnode{name: s.names[name], leaf: li})
		}
		return
	}
	s.forestsExact(k-1, 0, func(kids []gnode) {
		yield(gnode{name: s.names[name], leaf: -1, kids: kids})
	})
}

func (s *space) flatten(f []gnode, prefix string, out *Tree) {
	for _, n := range f {
		rel := n.name
		if prefix != "" {
			rel = prefix + "/" + n.name
		}
		switch {
		case n.leaf < 0:
			*out = append(*out, EntrySpec{Rel: rel, Dir: true})
			s.flatten(n.kids, rel, out)
		case s.leaves[n.leaf] < 0:
			*out = append(*out, EntrySpec{Rel: rel, Dir: true})
		default:
			*out = append(*out, EntrySpec{Rel: rel, Class: s.leaves[n.leaf]})
		}
	}
}

// each enumerates the trees of the space in a fixed order: index -> tree.
func (s *space) each(yield func(idx int64, t Tree)) {
	var idx int64
	for n := 0; n <= s.maxSize; n++ {
		s.forestsExact(n, 0, func(f []gnode) {
			var t Tree
			s.flatten(f, "", &t)
			yield(idx, t)
			idx++
		})
	}
}

// chains: d nested directories all called X, ending in an empty directory / an empty file / a 1-byte file called X.
func eachChain(yield func(idx int64, t Tree)) {
	var idx int64
	yield(idx, Tree{}) // depth 0, nothing: the empty tree
	idx++
	for d := 0; d <= 6; d++ {
		for _, name := range alphabet {
			for _, leaf := range []int{-1, cEmpty, c1B} {
				if d == 0 && leaf == -1 {
					continue // the empty tree, emitted once above
				}
				var t Tree
				rel := ""
				dirs := d
				if leaf == -1 {
					dirs = d // the last directory is the empty one
				}
				for i := 0; i < dirs; i++ {
					if rel == "" {
						rel = name
					} else {
						rel += "/" + name
					}
					t = append(t, EntrySpec{Rel: rel, Dir: true})
				}
				if leaf >= 0 {
					if rel == "" {
						rel = name
					} else {
						rel += "/" + name
					}
					t = append(t, EntrySpec{Rel: rel, Class: leaf})
				}
				yield(idx, t)
				idx++
			}
		}
	}
}

// wideTree: 200 entries: 8 directories with 24 children each (empty directories, empty / 1-byte / 32 KiB files),
// names built from the alphabet plus a counter.
func wideTree() Tree {
	var t Tree
	n := 0
	for d := 0; d < 8; d++ {
		dir := fmt.Sprintf("%s%d", alphabet[d%len(alphabet)], d)
		t = append(t, EntrySpec{Rel: dir, Dir: true})
		for k := 0; k < 24; k++ {
			name := fmt.Sprintf("%s/%s%d", dir, alphabet[(d+k+1)%len(alphabet)], k)
			switch n % 4 {
			case 0:
				t = append(t, EntrySpec{Rel: name, Dir: true})
			case 1:
				t = append(t, EntrySpec{Rel: name, Class: cEmpty})
			case 2:
				t = append(t, EntrySpec{Rel: name, Class: c1B})
			default:
				t = append(t, EntrySpec{Rel: name, Class: c32Kp1})
			}
			n++
		}
	}
	return t
}

package c07

// Recording of evaluations and violations by class tuple, and the computation of signatures from them.
//
// Every oracle clause is evaluated on a *subject* (an entry of a tree, or a whole tree / a view). The subject is
// abstracted to a tuple of classes (backend, limits, content class, entry kind, name class). A signature is the
// clause plus the coarsest projection of the violating tuples that is still exact: a dimension is dropped (or
// replaced by its coarse grouping) only if, among everything that was evaluated, exactly the violating tuples
// match the projection. So one defect gives a handful of signatures, and a defect that is confined to one name
// class / content class / backend carries that class in its signature.

import (
	"fmt"
	"sort"
	"strings"
)

const nDims = 5

const maxSignaturesPerClause = 4
const maxDetailsPerClause = 8

var dimNames = [nDims]string{"backend", "limits", "content", "kind", "name"}

type dims [nDims]string

type tuple struct {
	Family string // clause family: the unit over which evaluations are counted
	D      dims
}

type violKey struct {
	Family, Detail string
	D              dims
}

type violRec struct {
	Count int64
	Order caseOrder
	First *Violation
}

// Violation is what is stored as the replay object of a signature.
type Violation struct {
	Case    *Case  `json:"case"`
	Clause  string `json:"clause"`
	Subject string `json:"subject"` // the entry (relative path) or "(tree)" / "(view)"
	Detail  string `json:"detail"`  // human readable: expected / observed
}

type caseOrder [4]int64

func (a caseOrder) less(b caseOrder) bool {
	for i := range a {
		if a[i] != b[i] {
			return a[i] < b[i]
		}
	}
	return false
}

type recorder struct {
	eval map[tuple]int64
	viol map[violKey]*violRec
	// raw list (replay mode only)
	keepRaw bool
	raw     []*Violation
}

func newRecorder() *recorder {
	return &recorder{eval: map[tuple]int64{}, viol: map[violKey]*violRec{}}
}

func coarse(dim int, v string) string {
	switch dim {
	case 2: // content
		switch v {
		case "-", "empty":
			return v
		}
		return "nonempty"
	case 3: // kind
		switch v {
		case "dir", "emptydir":
			return "directory"
		}
		return v
	case 4: // name
		if v == "-" {
			return v
		}
		return nameCoarse(v)
	}
	return v
}

func hasCoarse(dim int) bool { return dim >= 2 }

// check records one evaluation of a clause family on a subject, and a violation if ok is false.
func (r *recorder) check(c *Case, family string, d dims, ok bool, detail string, subject string, descr func() string) {
	r.eval[tuple{family, d}]++
	if ok {
		return
	}
	k := violKey{family, detail, d}
	v := r.viol[k]
	if v == nil {
		v = &violRec{Order: c.order()}
		r.viol[k] = v
	}
	v.Count++
	if v.First == nil || c.order().less(v.Order) || r.keepRaw {
		clause := family
		if detail != "" {
			clause += "=" + detail
		}
		vi := &Violation{Case: c, Clause: clause, Subject: subject, Detail: descr()}
		if v.First == nil || c.order().less(v.Order) {
			v.First, v.Order = vi, c.order()
		}
		if r.keepRaw {
			r.raw = append(r.raw, vi)
		}
	}
}

func (r *recorder) merge(o *recorder) {
	for k, n := range o.eval {
		r.eval[k] += n
	}
	for k, v := range o.viol {
		m := r.viol[k]
		if m == nil {
			r.viol[k] = v
			continue
		}
		m.Count += v.Count
		if v.Order.less(m.Order) {
			m.Order, m.First = v.Order, v.First
		}
	}
}

type signature struct {
	Sig   string
	Count int64
	First *Violation
	order caseOrder
}

// signatures computes the generalised signatures.
func (r *recorder) signatures() []signature {
	type group struct{ Family, Detail string }
	// a clause violated with many different details (e.g. by most methods of the interface) is one defect
	details := map[string]map[string]bool{}
	for k := range r.viol {
		if details[k.Family] == nil {
			details[k.Family] = map[string]bool{}
		}
		details[k.Family][k.Detail] = true
	}
	merged := map[violKey]*violRec{}
	for k, v := range r.viol {
		if len(details[k.Family]) > maxDetailsPerClause {
			k.Detail = "various"
		}
		if m := merged[k]; m != nil {
			m2 := *m
			m2.Count += v.Count
			if v.Order.less(m2.Order) {
				m2.Order, m2.First = v.Order, v.First
			}
			merged[k] = &m2
		} else {
			merged[k] = v
		}
	}
	groups := map[group][]violKey{}
	for k := range merged {
		g := group{k.Family, k.Detail}
		groups[g] = append(groups[g], k)
	}
	// evaluated tuples per family
	evalBy := map[string][]dims{}
	for t := range r.eval {
		evalBy[t.Family] = append(evalBy[t.Family], t.D)
	}
	var out []signature
	for g, keys := range groups {
		vset := map[dims]bool{}
		for _, k := range keys {
			vset[k.D] = true
		}
		// level per dimension: 0 fine, 1 coarse, 2 dropped
		var level [nDims]int
		project := func(d dims, lv [nDims]int) dims {
			var p dims
			for i := 0; i < nDims; i++ {
				switch lv[i] {
				case 0:
					p[i] = d[i]
				case 1:
					p[i] = coarse(i, d[i])
				default:
					p[i] = ""
				}
			}
			return p
		}
		exact := func(lv [nDims]int) bool {
			pv := map[dims]bool{}
			for d := range vset {
				pv[project(d, lv)] = true
			}
			for _, u := range evalBy[g.Family] {
				if pv[project(u, lv)] && !vset[u] {
					return false
				}
			}
			return true
		}
		for i := 0; i < nDims; i++ {
			try := level
			try[i] = 2
			if exact(try) {
				level = try
				continue
			}
			if hasCoarse(i) {
				try[i] = 1
				if exact(try) {
					level = try
				}
			}
		}
		build := func(level [nDims]int, suffix string) map[string]*signature {
			bySig := map[string]*signature{}
			for _, k := range keys {
				p := project(k.D, level)
				var parts []string
				parts = append(parts, g.Family)
				if g.Detail != "" {
					parts[0] += "=" + g.Detail
				}
				for i := 0; i < nDims; i++ {
					if level[i] != 2 && p[i] != "-" {
						parts = append(parts, dimNames[i]+"="+p[i])
					}
				}
				s := strings.Join(parts, ":") + suffix
				v := merged[k]
				sg := bySig[s]
				if sg == nil {
					sg = &signature{Sig: s, First: v.First, order: v.Order}
					bySig[s] = sg
				}
				sg.Count += v.Count
				if v.Order.less(sg.order) {
					sg.order, sg.First = v.Order, v.First
				}
			}
			return bySig
		}
		bySig := build(level, "")
		// One defect must not fan out into dozens of signatures: when the class tuple does not determine the
		// violation (it depends on something the classes do not capture, e.g. the depth of the entry), dimensions
		// are given up — name first — until at most maxSignaturesPerClause remain; the signature then says so.
		for _, i := range []int{4, 2, 3, 1, 0} {
			if len(bySig) <= maxSignaturesPerClause {
				break
			}
			level[i] = 2
			bySig = build(level, ":varies")
		}
		for _, sg := range bySig {
			out = append(out, *sg)
		}
	}
	sort.Slice(out, func(i, j int) bool { return out[i].Sig < out[j].Sig })
	return out
}

func (d dims) String() string {
	var parts []string
	for i, v := range d {
		parts = append(parts, fmt.Sprintf("%s=%s", dimNames[i], v))
	}
	return strings.Join(parts, ",")
}

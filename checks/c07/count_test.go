package c07

import (
	"fmt"
	"os"
	"testing"
)

// TestCount is a development aid: sizes of the enumeration of each tier (VERIF_C07_COUNT=1).
func TestCount(t *testing.T) {
	if os.Getenv("VERIF_C07_COUNT") == "" {
		t.Skip()
	}
	for _, thorough := range []bool{false, true} {
		per := map[string]int64{}
		deep := map[string]int64{}
		var big int64
		trees := produce(thorough, func(c *Case) {
			per[c.Space]++
			if c.Deep {
				deep[c.Space]++
			}
			for _, e := range c.Tree {
				if !e.Dir && e.Class >= c1MComp {
					big++
				}
			}
		})
		fmt.Println("thorough =", thorough, "trees =", trees, "cases per space =", per, "deep =", deep, "1MiB files =", big)
	}
}

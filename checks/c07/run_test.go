package c07

// Execution of one case: build, zip, unzip, views, sweeps — and the oracle clauses.

import (
	"archive/tar"
	"bytes"
	"context"
	"crypto/sha256"
	"fmt"
	"io"
	"os"
	"path"
	"path/filepath"
	"reflect"
	"sort"
	"strings"
	"time"

	"github.com/ARM-software/golang-utils/utils/commonerrors"
	"github.com/ARM-software/golang-utils/utils/filesystem"
	"github.com/spf13/afero"

	ev "verif/engine/evidence"
)

// ---- backends ----------------------------------------------------------------------------------------------

type backend struct {
	name    string
	raw     afero.Fs
	vfs     filesystem.FS
	root    string
	cleanup func()
}

type layout struct{ src, zip, dst, tar string }

func (b *backend) layout() layout {
	return layout{filepath.Join(b.root, "src"), filepath.Join(b.root, "out.zip"), filepath.Join(b.root, "dst"), filepath.Join(b.root, "out.tar")}
}

var osCaseCounter int64

func newBackend(name, sandbox string) (*backend, error) {
	switch name {
	case "mem":
		raw := afero.NewMemMapFs()
		if err := raw.MkdirAll("/c07", 0o755); err != nil {
			return nil, err
		}
		return &backend{name: name, raw: raw, vfs: filesystem.NewVirtualFileSystem(raw, filesystem.InMemoryFS, filesystem.IdentityPathConverterFunc), root: "/c07", cleanup: func() {}}, nil
	case "os":
		raw := filesystem.NewExtendedOsFs()
		if err := os.MkdirAll(sandbox, 0o755); err != nil {
			return nil, err
		}
		root, err := os.MkdirTemp(sandbox, "c")
		if err != nil {
			return nil, err
		}
		return &backend{name: name, raw: raw, vfs: filesystem.NewVirtualFileSystem(raw, filesystem.StandardFS, filesystem.IdentityPathConverterFunc), root: root, cleanup: func() { _ = os.RemoveAll(root) }}, nil
	}
	return nil, fmt.Errorf("unknown backend %q", name)
}

func limitsOf(name string) filesystem.ILimits {
	switch name {
	case "nonrecursive":
		return filesystem.DefaultNonRecursiveZipLimits()
	case "recursive":
		return filesystem.DefaultZipLimits()
	}
	return filesystem.NoLimits()
}

// build creates the tree through the raw backend and then sets the modification times, children first.
func build(b *backend, src string, entries []*entry) error {
	if err := b.raw.MkdirAll(src, 0o755); err != nil {
		return err
	}
	for _, e := range entries {
		p := filepath.Join(src, filepath.FromSlash(e.Rel))
		if e.Dir {
			if err := b.raw.Mkdir(p, 0o755); err != nil {
				return err
			}
		} else if err := afero.WriteFile(b.raw, p, e.data(), 0o644); err != nil {
			return err
		}
	}
	for i := len(entries) - 1; i >= 0; i-- {
		e := entries[i]
		if err := b.raw.Chtimes(filepath.Join(src, filepath.FromSlash(e.Rel)), e.mtime, e.mtime); err != nil {
			return err
		}
	}
	return nil
}

type dumped struct {
	dir   bool
	size  int64
	data  []byte
	mtime time.Time
}

// dump walks a directory through the raw backend: slash-separated relative path -> entry.
func dump(b *backend, root string) (map[string]*dumped, error) {
	out := map[string]*dumped{}
	err := afero.Walk(b.raw, root, func(p string, info os.FileInfo, err error) error {
		if err != nil {
			return err
		}
		if p == root {
			return nil
		}
		rel, err := filepath.Rel(root, p)
		if err != nil {
			return err
		}
		d := &dumped{dir: info.IsDir(), size: info.Size(), mtime: info.ModTime()}
		if !d.dir {
			if !info.Mode().IsRegular() {
				return fmt.Errorf("%s is neither a directory nor a regular file", p)
			}
			d.data, err = afero.ReadFile(b.raw, p)
			if err != nil {
				return err
			}
		}
		out[filepath.ToSlash(rel)] = d
		return nil
	})
	return out, err
}

func writeTar(b *backend, dest string, entries []*entry) error {
	var buf bytes.Buffer
	tw := tar.NewWriter(&buf)
	for _, e := range entries {
		h := &tar.Header{Name: e.Rel, ModTime: e.mtime, Format: tar.FormatPAX}
		if e.Dir {
			h.Name += "/"
			h.Typeflag = tar.TypeDir
			h.Mode = 0o755
		} else {
			h.Typeflag = tar.TypeReg
			h.Mode = 0o644
			h.Size = int64(len(e.data()))
		}
		if err := tw.WriteHeader(h); err != nil {
			return err
		}
		if !e.Dir {
			if _, err := tw.Write(e.data()); err != nil {
				return err
			}
		}
	}
	if err := tw.Close(); err != nil {
		return err
	}
	return afero.WriteFile(b.raw, dest, buf.Bytes(), 0o644)
}

func doZip(b *backend, src, dest, limits string) error {
	if limits == "none" {
		return b.vfs.Zip(src, dest)
	}
	return b.vfs.ZipWithContextAndLimits(context.Background(), src, dest, limitsOf(limits))
}

func doUnzip(b *backend, src, dest, limits string) ([]string, error) {
	if limits == "none" {
		return b.vfs.Unzip(src, dest)
	}
	return b.vfs.UnzipWithContextAndLimits(context.Background(), src, dest, limitsOf(limits))
}

func openView(b *backend, kind, archive, limits string) (filesystem.ICloseableFS, filesystem.File, error) {
	if kind == "zip" {
		return filesystem.NewZipFileSystem(b.vfs, archive, limitsOf(limits))
	}
	return filesystem.NewTarFileSystem(b.vfs, archive, limitsOf(limits))
}

// ---- the runner -----------------------------------------------------------------------------------------------

type runner struct {
	rec     *recorder
	st      *stats
	skip    *skipSet
	sandbox string
	rep     *ev.Reporter
}

func (r *runner) engineError(format string, a ...any) {
	if r.rep != nil {
		r.rep.EngineError(format, a...)
	} else {
		fmt.Printf("ENGINE-ERROR: "+format+"\n", a...)
		ev.ExitCode = 2
	}
}

func entryDims(c *Case, e *entry) dims {
	return dims{c.Backend, c.Limits, e.contentClass(), e.kind(), nameClass(e.Rel)}
}

func treeDims(c *Case) dims { return dims{c.Backend, c.Limits, "-", "tree", "-"} }

func pathDims(c *Case, rel string, dir bool) dims {
	k := "file"
	if dir {
		k = "directory"
	}
	return dims{c.Backend, c.Limits, "-", k, nameClass(rel)}
}

// subtreeOf returns the tree made of one entry and its ancestors.
func subtreeOf(t Tree, i int) Tree {
	var out Tree
	for j := 0; j <= i; j++ {
		if j == i || strings.HasPrefix(t[i].Rel, t[j].Rel+"/") {
			out = append(out, t[j])
		}
	}
	return out
}

// culprit finds the first LEAF of the tree (file or empty directory) that, alone with its ancestors, already
// makes `fails` true. Only leaves are tried: isolated with its ancestors a leaf keeps its kind, whereas a
// directory isolated from its children would become an empty directory.
func (r *runner) culprit(c *Case, entries []*entry, fails func(sub *Case) bool) int {
	var leaves []int
	for i, e := range entries {
		if !e.Dir || e.emptyDir {
			leaves = append(leaves, i)
		}
	}
	if len(leaves) == 1 {
		return leaves[0] // the tree is that leaf and its ancestors
	}
	for _, i := range leaves {
		sub := &Case{Space: c.Space, Index: c.Index, Backend: c.Backend, Limits: c.Limits, Tree: subtreeOf(c.Tree, i)}
		if fails(sub) {
			return i
		}
	}
	return -1
}

// treeClause evaluates a clause whose subject is the whole tree but whose failure is caused by an entry: on
// failure the culprit entry is isolated (by re-running on each entry alone with its ancestors) and carries the
// violation; if no single entry reproduces it the tree as a whole does.
func (r *runner) treeClause(c *Case, entries []*entry, family string, ok bool, detail string, descr func() string, fails func(sub *Case) bool) {
	if ok {
		if len(entries) == 0 {
			r.rec.check(c, family, treeDims(c), true, "", "", nil)
		}
		for _, e := range entries {
			r.rec.check(c, family, entryDims(c, e), true, "", "", nil)
		}
		return
	}
	i := -1
	if len(entries) > 0 {
		i = r.culprit(c, entries, fails)
	}
	if i < 0 {
		r.rec.check(c, family, treeDims(c), false, detail, "(tree)", descr)
		return
	}
	r.rec.check(c, family, entryDims(c, entries[i]), false, detail, entries[i].Rel, descr)
}

func (r *runner) runCase(c *Case) {
	r.st.cases++
	r.st.perSpace[c.Space]++
	if len(c.Tree) > r.st.maxEntries {
		r.st.maxEntries = len(c.Tree)
	}
	be, err := newBackend(c.Backend, r.sandbox)
	if err != nil {
		r.engineError("backend %s: %v", c.Backend, err)
		return
	}
	defer be.cleanup()
	entries := derive(c.Tree)
	lay := be.layout()
	if err := build(be, lay.src, entries); err != nil {
		r.engineError("building the tree of %s #%d on %s: %v", c.Space, c.Index, c.Backend, err)
		return
	}
	srcDump, err := dump(be, lay.src)
	if err != nil || !sameAsSpec(srcDump, entries) {
		r.engineError("the source tree of %s #%d on %s is not what was specified (%v)", c.Space, c.Index, c.Backend, err)
		return
	}
	outcome := []string{}

	// ---- part 1: round trip ----------------------------------------------------------------------------
	zerr := doZip(be, lay.src, lay.zip, c.Limits)
	outcome = append(outcome, "zip="+errKind(zerr))
	r.treeClause(c, entries, "roundtrip:zip-error", zerr == nil, errKind(zerr), func() string { return fmt.Sprintf("Zip returned: %v", zerr) },
		func(sub *Case) bool { return r.probeRoundTrip(sub, "zip", errKind(zerr)) })
	if zerr == nil {
		if st, err := be.raw.Stat(lay.zip); err == nil {
			r.st.bytesArchived += st.Size()
		}
		list, uerr := doUnzip(be, lay.zip, lay.dst, c.Limits)
		outcome = append(outcome, "unzip="+errKind(uerr))
		r.treeClause(c, entries, "roundtrip:unzip-error", uerr == nil, errKind(uerr), func() string { return fmt.Sprintf("Unzip returned: %v", uerr) },
			func(sub *Case) bool { return r.probeRoundTrip(sub, "unzip", errKind(uerr)) })
		if uerr == nil {
			outcome = append(outcome, r.compareExtraction(c, be, lay, entries, list))
		}
	}

	// ---- parts 2 and 3: views ---------------------------------------------------------------------------
	opened := 0
	for _, kind := range []string{"zip", "tar"} {
		archive := lay.zip
		if kind == "zip" {
			if zerr != nil {
				continue
			}
		} else {
			archive = lay.tar
			if err := writeTar(be, lay.tar, entries); err != nil {
				r.engineError("writing the tar of %s #%d: %v", c.Space, c.Index, err)
				continue
			}
		}
		o, ok := r.checkView(c, be, kind, archive, entries)
		outcome = append(outcome, o)
		if ok {
			opened++
		}
	}
	if len(entries) > 0 && zerr == nil && opened == 2 {
		r.st.nontrivial++
	}
	r.st.outcomes[strings.Join(outcome, " ")]++
}

func sameAsSpec(d map[string]*dumped, entries []*entry) bool {
	if len(d) != len(entries) {
		return false
	}
	for _, e := range entries {
		x := d[e.Rel]
		if x == nil || x.dir != e.Dir || !x.mtime.Equal(e.mtime) || (!e.Dir && !bytes.Equal(x.data, e.data())) {
			return false
		}
	}
	return true
}

// probeRoundTrip re-runs zip (and unzip) on a sub-tree and tells whether the given step fails with the given kind.
func (r *runner) probeRoundTrip(sub *Case, step, kind string) bool {
	be, err := newBackend(sub.Backend, r.sandbox)
	if err != nil {
		return false
	}
	defer be.cleanup()
	lay := be.layout()
	if build(be, lay.src, derive(sub.Tree)) != nil {
		return false
	}
	zerr := doZip(be, lay.src, lay.zip, sub.Limits)
	if step == "zip" {
		return zerr != nil && errKind(zerr) == kind
	}
	if zerr != nil {
		return false
	}
	_, uerr := doUnzip(be, lay.zip, lay.dst, sub.Limits)
	return uerr != nil && errKind(uerr) == kind
}

func absDiff(a, b time.Time) time.Duration {
	d := a.Sub(b)
	if d < 0 {
		d = -d
	}
	return d
}

func (r *runner) compareExtraction(c *Case, be *backend, lay layout, entries []*entry, list []string) string {
	got, err := dump(be, lay.dst)
	if err != nil {
		r.rec.check(c, "roundtrip:destination-unreadable", treeDims(c), false, "", "(tree)", func() string { return err.Error() })
		return "dst-unreadable"
	}
	r.rec.check(c, "roundtrip:destination-unreadable", treeDims(c), true, "", "", nil)
	listed := map[string]bool{}
	for _, p := range list {
		listed[filepath.Clean(p)] = true
	}
	bad := 0
	chk := func(family string, e *entry, ok bool, descr func() string) {
		if !ok {
			bad++
		}
		r.rec.check(c, family, entryDims(c, e), ok, "", e.Rel, descr)
	}
	for _, e := range entries {
		e := e
		g := got[e.Rel]
		chk("roundtrip:entry-missing-after-unzip", e, g != nil, func() string { return "not in the destination" })
		if g == nil {
			continue
		}
		chk("roundtrip:kind-differs", e, g.dir == e.Dir, func() string { return fmt.Sprintf("source dir=%v extracted dir=%v", e.Dir, g.dir) })
		if !e.Dir && !g.dir {
			chk("roundtrip:content-differs", e, bytes.Equal(g.data, e.data()), func() string { return fmt.Sprintf("source %d bytes, extracted %d bytes", len(e.data()), len(g.data)) })
		}
		chk("roundtrip:mtime-off-by-2s-or-more", e, absDiff(g.mtime, e.mtime) < 2*time.Second, func() string {
			return fmt.Sprintf("source %s extracted %s", e.mtime.UTC().Format(time.RFC3339Nano), g.mtime.UTC().Format(time.RFC3339Nano))
		})
		abs := filepath.Join(lay.dst, filepath.FromSlash(e.Rel))
		chk("roundtrip:created-entry-not-in-returned-list", e, listed[abs], func() string { return fmt.Sprintf("returned list: %q", list) })
	}
	// nothing else was created, nothing else is listed
	extra := ""
	for rel, g := range got {
		found := false
		for _, e := range entries {
			if e.Rel == rel {
				found = true
				break
			}
		}
		if !found {
			bad++
			extra = rel
			rel, g := rel, g
			r.rec.check(c, "roundtrip:extra-entry-created", pathDims(c, rel, g.dir), false, "", rel, func() string { return "created in the destination but not in the source" })
		}
	}
	if extra == "" {
		r.rec.check(c, "roundtrip:extra-entry-created", treeDims(c), true, "", "", nil)
	}
	phantom := ""
	for p := range listed {
		rel, err := filepath.Rel(lay.dst, p)
		if err != nil || got[filepath.ToSlash(rel)] == nil {
			bad++
			phantom = p
			p := p
			r.rec.check(c, "roundtrip:returned-list-names-a-path-not-created", pathDims(c, filepath.ToSlash(rel), false), false, "", p, func() string { return fmt.Sprintf("returned list: %q", list) })
		}
	}
	if phantom == "" {
		r.rec.check(c, "roundtrip:returned-list-names-a-path-not-created", treeDims(c), true, "", "", nil)
	}
	if bad == 0 {
		return "extraction=faithful"
	}
	return "extraction=differs"
}

// ---- views ---------------------------------------------------------------------------------------------------

func relOfViewPath(p string) string {
	return strings.TrimPrefix(filepath.ToSlash(filepath.Clean(p)), "/")
}

func readViaHandle(v filesystem.FS, p string) ([]byte, error) {
	h, err := v.GenericOpen(p)
	if err != nil {
		return nil, err
	}
	defer func() { _ = h.Close() }()
	b, err := io.ReadAll(h)
	return b, err
}

func (r *runner) checkView(c *Case, be *backend, kind, archive string, entries []*entry) (outcome string, opened bool) {
	fam := func(s string) string { return "view=" + kind + ":" + s }
	v, handle, err := openView(be, kind, archive, c.Limits)
	r.rec.check(c, fam("open-error"), treeDims(c), err == nil, errKind(err), "(view)", func() string { return fmt.Sprint(err) })
	if err != nil {
		return kind + "=open-error", false
	}
	defer func() {
		_ = v.Close()
		if handle != nil {
			_ = handle.Close()
		}
	}()
	bad := 0
	ctx := context.Background()

	// -- listing ----------------------------------------------------------------------------------------
	for _, how := range []string{"LsRecursive", "Walk"} {
		how := how
		list := func(v filesystem.FS) (map[string]bool, error) {
			seen := map[string]bool{}
			if how == "LsRecursive" {
				l, err := v.LsRecursive(ctx, "/", true)
				for _, p := range l {
					seen[relOfViewPath(p)] = true
				}
				return seen, err
			}
			err := v.Walk("/", func(p string, info os.FileInfo, err error) error {
				if err != nil {
					return err
				}
				seen[relOfViewPath(p)] = info.IsDir()
				return nil
			})
			return seen, err
		}
		seen, lerr := list(v)
		if len(entries) == 0 {
			// reading: an error from listing the root of an archive without entries is accepted; no path may be exposed
			delete(seen, "")
			r.rec.check(c, fam(how+"-exposes-a-path-of-an-empty-archive"), treeDims(c), len(seen) == 0, "", "(view)", func() string { return fmt.Sprint(seen) })
			continue
		}
		if lerr != nil {
			bad++
		}
		r.treeClause(c, entries, fam(how+"-error"), lerr == nil, errKind(lerr), func() string { return fmt.Sprintf("%s(\"/\") returned: %v", how, lerr) },
			func(sub *Case) bool {
				return r.probeView(sub, kind, func(v filesystem.FS) bool { _, e := list(v); return e != nil && errKind(e) == errKind(lerr) })
			})
		if lerr != nil {
			continue
		}
		delete(seen, "")
		for _, e := range entries {
			e := e
			isDir, ok := seen[e.Rel]
			if !ok {
				bad++
			}
			r.rec.check(c, fam(how+"-misses-entry"), entryDims(c, e), ok, "", e.Rel, func() string { return fmt.Sprintf("listed: %v", keys(seen)) })
			if ok && how == "Walk" {
				if isDir != e.Dir {
					bad++
				}
				r.rec.check(c, fam("Walk-kind-differs"), entryDims(c, e), isDir == e.Dir, "", e.Rel, func() string { return fmt.Sprintf("source dir=%v, walked dir=%v", e.Dir, isDir) })
			}
			delete(seen, e.Rel)
		}
		for rel := range seen {
			bad++
			rel := rel
			r.rec.check(c, fam(how+"-lists-unknown-path"), pathDims(c, rel, false), false, "", rel, func() string { return "listed by the view, not in the source" })
		}
		if len(seen) == 0 {
			r.rec.check(c, fam(how+"-lists-unknown-path"), treeDims(c), true, "", "", nil)
		}
	}

	// -- every entry ---------------------------------------------------------------------------------------
	kept := map[*entry][]byte{} // what the first ReadFile of each file returned, looked at again once every file was read
	for _, e := range entries {
		e := e
		p := "/" + e.Rel
		chk := func(clause string, ok bool, descr func() string) {
			if !ok {
				bad++
			}
			r.rec.check(c, fam(clause), entryDims(c, e), ok, "", e.Rel, descr)
		}
		st, err := v.Stat(p)
		chk("Stat-error", err == nil, func() string { return fmt.Sprint(err) })
		if err == nil {
			chk("Stat-kind-differs", st.IsDir() == e.Dir, func() string { return fmt.Sprintf("source dir=%v view dir=%v", e.Dir, st.IsDir()) })
			if !e.Dir {
				chk("Stat-size-differs", st.Size() == int64(len(e.data())), func() string { return fmt.Sprintf("source %d view %d", len(e.data()), st.Size()) })
			}
		}
		chk("Exists-false", v.Exists(p), func() string { return "Exists(" + p + ") = false" })
		if e.Dir {
			names, err := v.Ls(p)
			chk("Ls-error", err == nil, func() string { return fmt.Sprint(err) })
			if err == nil {
				want := append([]string(nil), e.kids...)
				sort.Strings(want)
				got := append([]string(nil), names...)
				sort.Strings(got)
				chk("Ls-differs", reflect.DeepEqual(want, got) || (len(want) == 0 && len(got) == 0), func() string { return fmt.Sprintf("children %q, Ls %q", want, got) })
			}
			continue
		}
		// the content is read four times: ReadFile, ReadFile, handle, handle
		want := e.data()
		for n := 0; n < 4; n++ {
			var b []byte
			var err error
			api := "ReadFile"
			ok := false
			if n < 2 {
				b, err = v.ReadFile(p)
				ok = (err == nil && bytes.Equal(b, want)) || (len(want) == 0 && len(b) == 0 && commonerrors.Any(err, commonerrors.ErrEmpty))
			} else {
				api = "GenericOpen"
				b, err = readViaHandle(v, p)
				ok = err == nil && bytes.Equal(b, want)
			}
			descr := func() string {
				return fmt.Sprintf("read #%d of the file (%s): source %d bytes; got %d bytes, error %v", n+1, api, len(want), len(b), err)
			}
			if n == 0 {
				chk("first-read-differs", ok, descr)
				if ok && err == nil {
					kept[e] = b
				}
			} else {
				if !ok {
					bad++
				}
				r.rec.check(c, fam("repeated-read-differs"), entryDims(c, e), ok, api, e.Rel, descr)
			}
		}
	}

	// what a read returned belongs to the caller: it still holds the file's bytes after the other files were read
	for _, e := range entries {
		if b, ok := kept[e]; ok {
			e := e
			same := bytes.Equal(b, e.data())
			if !same {
				bad++
			}
			r.rec.check(c, fam("content-returned-earlier-changed-by-later-reads"), entryDims(c, e), same, "ReadFile", e.Rel, func() string {
				return fmt.Sprintf("the %d bytes ReadFile returned for this file were its content then; after the other files of the view were read they are not any more", len(b))
			})
		}
	}

	// -- mutating calls, then the closed view ----------------------------------------------------------------
	r.sweeps(c, kind, v, entries)

	if bad == 0 {
		return kind + "=faithful", true
	}
	return kind + "=differs", true
}

func keys(m map[string]bool) []string {
	var l []string
	for k := range m {
		l = append(l, k)
	}
	sort.Strings(l)
	return l
}

// probeView builds a sub-tree, archives it, opens the view and evaluates pred.
func (r *runner) probeView(sub *Case, kind string, pred func(v filesystem.FS) bool) bool {
	be, err := newBackend(sub.Backend, r.sandbox)
	if err != nil {
		return false
	}
	defer be.cleanup()
	lay := be.layout()
	entries := derive(sub.Tree)
	if build(be, lay.src, entries) != nil {
		return false
	}
	archive := lay.zip
	if kind == "zip" {
		if doZip(be, lay.src, lay.zip, sub.Limits) != nil {
			return false
		}
	} else {
		archive = lay.tar
		if writeTar(be, lay.tar, entries) != nil {
			return false
		}
	}
	v, h, err := openView(be, kind, archive, sub.Limits)
	if err != nil {
		return false
	}
	defer func() {
		_ = v.Close()
		if h != nil {
			_ = h.Close()
		}
	}()
	return pred(v)
}

// frame is the harness's own observation of a view, robust against the known reading defects: a recursive walk
// with Stat, handle.Readdirnames and positional reads (ReadAt). It is only compared with itself.
func frame(v filesystem.FS, hashAll bool) string {
	var sb strings.Builder
	var rec func(p string, depth int)
	rec = func(p string, depth int) {
		st, err := v.Stat(p)
		if err != nil {
			fmt.Fprintf(&sb, "%s !stat:%s\n", p, errKind(err))
			return
		}
		mt := st.ModTime().UnixNano()
		if p == "/" {
			mt = 0 // the pseudo root of the zip view reports the current time
		}
		if st.IsDir() {
			fmt.Fprintf(&sb, "%s d %d\n", p, mt)
			h, err := v.GenericOpen(p)
			if err != nil {
				fmt.Fprintf(&sb, "%s !open:%s\n", p, errKind(err))
				return
			}
			names, err := h.Readdirnames(-1)
			_ = h.Close()
			if err != nil {
				fmt.Fprintf(&sb, "%s !readdir\n", p)
			}
			sort.Strings(names)
			if depth > 12 {
				return
			}
			for _, n := range names {
				rec(path.Join(p, n), depth+1)
			}
			return
		}
		fmt.Fprintf(&sb, "%s f %d %d", p, st.Size(), mt)
		h, err := v.GenericOpen(p)
		if err != nil {
			fmt.Fprintf(&sb, " !open:%s\n", errKind(err))
			return
		}
		n := st.Size()
		if !hashAll && n > 8192 {
			n = 8192
		}
		buf := make([]byte, n)
		k, _ := h.ReadAt(buf, 0)
		_ = h.Close()
		fmt.Fprintf(&sb, " %x\n", sha256.Sum256(buf[:k]))
	}
	rec("/", 0)
	return sb.String()
}

func isMutating(method string) bool {
	if method == "TempDirectory" {
		return false
	}
	for _, p := range []string{"Create", "Clean", "Rm", "Remove", "MkDir", "Copy", "Move", "TempDir", "TempFile", "TouchTemp", "Write", "GarbageCollect",
		"Chmod", "Chtimes", "Chown", "ChangeOwnership", "Link", "Symlink", "Touch", "Zip", "Unzip", "OpenFile"} {
		if strings.HasPrefix(method, p) {
			return true
		}
	}
	return false
}

// after Close: methods that answer without the archive
var noArchiveNeeded = map[string]bool{"PathSeparator": true, "GetType": true, "ConvertFilePath": true, "TempDirectory": true, "CurrentDirectory": true,
	"ExcludeAll": true, "NewRemoteLockFile": true, "IsZip": true, "IsZipWithContext": true}

// after Close: the direct accessors — they touch the archive (the wrapped afero filesystem or a handle of it) in
// their own body — must fail with kind ErrCondition.
var mustCondition = map[string]bool{
	"Stat": true, "Lstat": true, "Open": true, "GenericOpen": true, "OpenFile": true, "CreateFile": true,
	"ReadFile": true, "ReadFileWithContext": true, "ReadFileWithLimits": true, "ReadFileWithContextAndLimits": true, "ReadFileContent": true,
	"Ls": true, "LsWithExclusionPatterns": true, "Lls": true, "LsFromOpenedDirectory": true, "LlsFromOpenedDirectory": true,
	"Walk": true, "WalkWithContext": true, "WalkWithContextAndExclusionPatterns": true,
	"LsRecursive": true, "LsRecursiveWithExclusionPatterns": true, "LsRecursiveWithExclusionPatternsAndLimits": true,
	"IsDir": true, "IsFile": true, "IsLink": true, "IsEmpty": true, "GetFileSize": true,
	"Glob": true, "FindAll": true, "SubDirectories": true, "SubDirectoriesWithContext": true, "SubDirectoriesWithContextAndExclusionPatterns": true,
	"ListDirTree": true, "ListDirTreeWithContext": true, "ListDirTreeWithContextAndExclusionPatterns": true,
	"FileHash": true, "FileHashWithContext": true, "Readlink": true, "FetchOwners": true,
}

var shallowLive = map[string]bool{"CreateFile": true, "WriteFile": true, "MkDir": true, "Rm": true, "Chtimes": true, "Touch": true, "Move": true}
var shallowClosed = map[string]bool{"Stat": true, "Lstat": true, "GenericOpen": true, "ReadFile": true, "Ls": true, "Lls": true, "LsRecursive": true, "Walk": true,
	"Exists": true, "IsDir": true, "IsFile": true, "GetFileSize": true}

func firstOf(entries []*entry, dir bool) string {
	for _, e := range entries {
		if e.Dir == dir {
			return "/" + e.Rel
		}
	}
	return ""
}

// sweepEnv: the path arguments of the live sweep — an existing file, an existing directory, a new path at the
// root, a new path in a directory, the root.
func sweepEnv(v filesystem.FS, entries []*entry) *callEnv {
	env := &callEnv{globPat: "/**"}
	f, d := firstOf(entries, false), firstOf(entries, true)
	if f != "" {
		env.paths = append(env.paths, f)
		env.fileH, _ = v.GenericOpen(f)
	}
	if d != "" {
		env.paths = append(env.paths, d, d+"/verif-new")
	}
	env.paths = append(env.paths, "/verif-new", "/")
	env.dirH, _ = v.GenericOpen("/")
	return env
}

func closedPaths(entries []*entry) []string {
	var p []string
	if f := firstOf(entries, false); f != "" {
		p = append(p, f)
	}
	if d := firstOf(entries, true); d != "" {
		p = append(p, d)
	}
	return append(p, "/")
}

func distinctStrings(args []reflect.Value) bool {
	seen := map[string]bool{}
	for _, a := range args {
		if a.Kind() == reflect.String {
			if seen[a.String()] {
				return false
			}
			seen[a.String()] = true
		}
	}
	return true
}

func (r *runner) sweeps(c *Case, kind string, v filesystem.ICloseableFS, entries []*entry) {
	fam := func(s string) string { return "view=" + kind + ":" + s }
	d := treeDims(c)
	d[3] = "-"
	var total int
	for _, e := range entries {
		total += len(e.data())
	}
	hashAll := total <= 64*1024
	env := sweepEnv(v, entries)
	defer func() {
		if env.fileH != nil {
			_ = env.fileH.Close()
		}
		if env.dirH != nil {
			_ = env.dirH.Close()
		}
	}()
	methods := fsMethods()

	// ---- live: no call changes the view ------------------------------------------------------------
	before := frame(v, hashAll)
	for _, m := range methods {
		if !c.Deep && !shallowLive[m.Name] {
			continue
		}
		if r.skip.has(kind, "live", m.Name) {
			continue
		}
		tuples, descr, err := argTuples(m, env)
		if err != nil {
			r.engineError("%v", err)
			continue
		}
		panicked := ""
		bound := bind(v, m)
		for i := range tuples {
			res := invoke(bound, m, tuples[i], descr[i])
			r.st.calls++
			if c.Deep {
				r.st.callOutcomes[kind+":live:"+m.Name+":"+errKind(res.Err)]++
			}
			if res.Panic != nil {
				panicked = fmt.Sprintf("%s%s panicked: %v", m.Name, descr[i], res.Panic)
			} else if isMutating(m.Name) && res.HasErr && res.Err == nil {
				r.st.silentSuccess[m.Name]++
			}
		}
		if isMutating(m.Name) {
			msg := panicked
			r.rec.check(c, fam("live:mutating-call-panics"), d, panicked == "", m.Name, "(view)", func() string { return msg })
		} else if panicked != "" {
			r.st.accessorPanics[kind+":"+m.Name]++
		}
		if c.Deep {
			after := frame(v, hashAll)
			was := before
			r.rec.check(c, fam("live:view-changed-by-call"), d, after == before, m.Name, "(view)", func() string { return "before:\n" + was + "after:\n" + after })
			before = after
		}
	}
	if !c.Deep {
		after := frame(v, hashAll)
		r.rec.check(c, fam("live:view-changed-by-call"), d, after == before, "one-of-the-short-list", "(view)", func() string { return "before:\n" + before + "after:\n" + after })
	}

	// ---- closed: every call that needs the archive fails -------------------------------------------
	cerr := v.Close()
	r.rec.check(c, fam("Close-error"), d, cerr == nil, errKind(cerr), "(view)", func() string { return fmt.Sprint(cerr) })
	env.paths = closedPaths(entries)
	for _, m := range methods {
		if !c.Deep && !shallowClosed[m.Name] {
			continue
		}
		if noArchiveNeeded[m.Name] || r.skip.has(kind, "closed", m.Name) {
			continue
		}
		tuples, descr, err := argTuples(m, env)
		if err != nil {
			continue
		}
		bound := bind(v, m)
		for i := range tuples {
			if !distinctStrings(tuples[i]) {
				continue
			}
			res := invoke(bound, m, tuples[i], descr[i])
			r.st.calls++
			if c.Deep {
				r.st.callOutcomes[kind+":closed:"+m.Name+":"+errKind(res.Err)]++
			}
			i := i
			what := func() string {
				return fmt.Sprintf("%s%s on the closed view: error %v, booleans %v, other results non-zero: %v, panic %v", m.Name, descr[i], res.Err, res.Bools, res.NonZero, res.Panic)
			}
			r.rec.check(c, fam("closed:call-panics"), d, res.Panic == nil, m.Name, "(view)", what)
			if res.Panic != nil {
				continue
			}
			switch {
			case res.HasErr:
				r.rec.check(c, fam("closed:call-succeeds"), d, res.Err != nil, m.Name, "(view)", what)
				if mustCondition[m.Name] && res.Err != nil {
					r.rec.check(c, fam("closed:direct-accessor-fails-with-another-kind"), d, commonerrors.Any(res.Err, commonerrors.ErrCondition), m.Name+"/"+errKind(res.Err), "(view)", what)
				}
			case len(res.Bools) > 0:
				anyTrue := false
				for _, b := range res.Bools {
					anyTrue = anyTrue || b
				}
				r.rec.check(c, fam("closed:call-succeeds"), d, !anyTrue, m.Name, "(view)", what)
			}
		}
	}
}

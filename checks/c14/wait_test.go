package c14

// Reference oracle for "the wait computed between HTTP attempts" and part (b): the sweep of Apply().
//
// Readings taken (weakest ones; see also c14_test.go):
//   * constant policy, no server hint: wait == min.
//   * linear policy, no hint: (n+1)*min <= wait <= (n+1)*max, checked ONLY when both products fit into an int64
//     (the statement's "as long as those bounds are representable"); when they do not fit, nothing at all is
//     demanded from the linear policy, not even non-negativity (counted as an observation, never a violation).
//   * exponential policy, no hint: min <= wait <= max, and wait(n) <= wait(n') for n < n'.
//   * a server hint exists iff honouring is enabled AND the status is 429 or 503 AND the Retry-After header is
//     present with a valid value. Valid = delay-seconds ([0-9]+) or an HTTP-date (the three formats of
//     net/http.ParseTime). Then the wait must be exactly the hint: seconds*1s, or max(0, date-now) (saturating).
//       - delay-seconds that do not fit into a time.Duration: an exact replacement is impossible, so the wait may be
//         either the policy's own value (hint ignored) or anything >= 9223372036 s (saturated); a negative wait or a
//         small wrapped-around wait is a violation.
//       - "-5" is not valid delay-seconds: the wait may be 0 (clamped hint) or the policy's own value.
//       - "+5" is not valid delay-seconds either, but an integer: the wait may be 5 s or the policy's own value.
//       - RFC1123 with a named zone / RFC1123Z / RFC3339 dates are an extension of the repository: the wait may be the
//         exact hint or the policy's own value.
//       - anything else (empty, garbage): the policy's own value.
//   * honouring disabled, or any other status: the policy's own value.

import (
	"fmt"
	"math"
	"math/big"
	"math/bits"
	"net/http"
	"regexp"
	"sync"
	"sync/atomic"
	"testing"
	"testing/synctest"
	"time"

	httpx "github.com/ARM-software/golang-utils/utils/http"
	ev "verif/engine/evidence"
)

const (
	kConstant    = "constant"
	kLinear      = "linear"
	kExponential = "exponential"
	// the linear flag set while back-off is off: the documentation makes the flag apply "provided BackOffEnabled is set to
	// true", so this is the constant policy
	kConstantLinearFlag = "constant(linear-flag-set-but-back-off-off)"
)

var kinds = []string{kConstant, kLinear, kExponential}

// httpPolicy builds the repository's configuration for a kind.
func httpPolicy(enabled bool, retryMax int, kind string, honour bool, min, max time.Duration) httpx.RetryPolicyConfiguration {
	return httpx.RetryPolicyConfiguration{
		Enabled:              enabled,
		RetryMax:             retryMax,
		RetryAfterDisabled:   !honour,
		RetryWaitMin:         min,
		RetryWaitMax:         max,
		BackOffEnabled:       kind != kConstant && kind != kConstantLinearFlag,
		LinearBackOffEnabled: kind == kLinear || kind == kConstantLinearFlag,
	}
}

type waitCase struct {
	Kind    string        `json:"policy"`
	Honour  bool          `json:"retry_after_honoured"`
	Min     time.Duration `json:"min_ns"`
	Max     time.Duration `json:"max_ns"`
	N       int           `json:"attempt"`
	HasResp bool          `json:"has_response"`
	Status  int           `json:"status"`
	HasRA   bool          `json:"retry_after_present"`
	RA      string        `json:"retry_after"`
	SeedNs  int           `json:"clock_nanosecond"` // nanosecond of the virtual clock (LinearJitterBackoff seeds its jitter from it)
}

func (c waitCase) response() *http.Response {
	if !c.HasResp {
		return nil
	}
	h := http.Header{}
	if c.HasRA {
		h["Retry-After"] = []string{c.RA}
	}
	return &http.Response{StatusCode: c.Status, Status: fmt.Sprintf("%d %s", c.Status, http.StatusText(c.Status)), Header: h}
}

// ---- independent classification of a Retry-After value ------------------------------------------

const (
	hNone        = "none"
	hSeconds     = "seconds"
	hSecondsBig  = "seconds-unrepresentable"
	hSecondsNeg  = "seconds-negative"
	hSecondsPlus = "seconds-with-plus-sign"
	hHTTPDate    = "http-date"
	hExtDate     = "extension-date"
	hGarbage     = "garbage"
	maxWholeSecs = int64(math.MaxInt64 / int64(time.Second)) // 9223372036
)

var (
	reDigits     = regexp.MustCompile(`^[0-9]+$`)
	reNegDigits  = regexp.MustCompile(`^-[0-9]+$`)
	rePlusDigits = regexp.MustCompile(`^\+[0-9]+$`)
)

type hint struct {
	Class string
	Secs  int64     // hSeconds
	Date  time.Time // hHTTPDate, hExtDate
}

func classifyRA(present bool, v string) hint {
	if !present {
		return hint{Class: hNone}
	}
	if reDigits.MatchString(v) {
		b, _ := new(big.Int).SetString(v, 10)
		if b.IsInt64() && b.Int64() <= maxWholeSecs {
			return hint{Class: hSeconds, Secs: b.Int64()}
		}
		return hint{Class: hSecondsBig}
	}
	if reNegDigits.MatchString(v) {
		return hint{Class: hSecondsNeg}
	}
	if rePlusDigits.MatchString(v) {
		if b, _ := new(big.Int).SetString(v[1:], 10); b.IsInt64() && b.Int64() <= maxWholeSecs {
			return hint{Class: hSecondsPlus, Secs: b.Int64()}
		}
		return hint{Class: hSecondsBig}
	}
	if d, err := http.ParseTime(v); err == nil {
		return hint{Class: hHTTPDate, Date: d}
	}
	for _, f := range []string{time.RFC1123, time.RFC1123Z, time.RFC3339, time.RFC3339Nano} {
		if d, err := time.Parse(f, v); err == nil {
			return hint{Class: hExtDate, Date: d}
		}
	}
	return hint{Class: hGarbage}
}

// until is max(0, d-now) saturating at MaxInt64, computed without time.Time.Sub.
func until(d, now time.Time) time.Duration {
	a := new(big.Int).Mul(big.NewInt(d.Unix()), big.NewInt(1e9))
	a.Add(a, big.NewInt(int64(d.Nanosecond())))
	b := new(big.Int).Mul(big.NewInt(now.Unix()), big.NewInt(1e9))
	b.Add(b, big.NewInt(int64(now.Nanosecond())))
	a.Sub(a, b)
	if a.Sign() <= 0 {
		return 0
	}
	if !a.IsInt64() {
		return math.MaxInt64
	}
	return time.Duration(a.Int64())
}

func mulFits(a time.Duration, k int) (time.Duration, bool) {
	hi, lo := bits.Mul64(uint64(a), uint64(k))
	if hi != 0 || lo > math.MaxInt64 {
		return 0, false
	}
	return time.Duration(lo), true
}

// baseOK tells whether w is a value the policy may compute without a server hint.
func baseOK(c waitCase, w time.Duration) (ok, exempt bool) {
	switch c.Kind {
	case kConstant, kConstantLinearFlag:
		return w == c.Min, false
	case kLinear:
		lo, ok1 := mulFits(c.Min, c.N+1)
		hi, ok2 := mulFits(c.Max, c.N+1)
		if !ok1 || !ok2 {
			return true, true
		}
		return lo <= w && w <= hi, false
	default:
		return c.Min <= w && w <= c.Max, false
	}
}

type waitVerdict struct {
	OK         bool
	Clause     string // oracle clause that failed (part of the signature)
	HintClass  string
	Outcome    string // class of the observed outcome (evidence: distinct outcomes)
	Nontrivial bool
	Want       string
}

// checkWait evaluates the oracle on one computed (or, for the client, observed) wait.
// observedGap: w is a measured gap between two requests (a negative computed wait shows up as 0; gaps beyond the
// harness' watchdog cannot be observed).
func checkWait(c waitCase, w time.Duration, now time.Time, observedGap bool) waitVerdict {
	v := waitVerdict{HintClass: hNone}
	hintPossible := c.HasResp && c.HasRA && (c.Status == http.StatusTooManyRequests || c.Status == http.StatusServiceUnavailable)
	var h hint
	if c.HasResp && c.HasRA {
		h = classifyRA(true, c.RA)
	} else {
		h = hint{Class: hNone}
	}
	bOK, exempt := baseOK(c, w)
	neg := w < 0
	base := func() waitVerdict {
		v.Nontrivial = c.Kind != kConstant && c.Kind != kConstantLinearFlag && (c.N > 0 || c.Min < c.Max)
		switch {
		case exempt:
			v.OK, v.Outcome = true, "linear:bounds-not-representable"
			if neg {
				v.Outcome = "linear:bounds-not-representable:negative"
			}
		case bOK:
			v.OK = true
			switch {
			case c.Kind == kExponential && w == c.Max && c.Min < c.Max:
				v.Outcome = "exponential:at-max"
			case c.Kind == kExponential && w == c.Min:
				v.Outcome = "exponential:at-min"
			default:
				v.Outcome = c.Kind + ":in-range"
			}
		default:
			v.Want = "the policy's own value"
			// a more specific clause when the wait is the hint although the hint must not be used
			if c.HasResp && c.HasRA && ((h.Class == hSeconds || h.Class == hSecondsPlus) && w == time.Duration(h.Secs)*time.Second || (h.Class == hHTTPDate || h.Class == hExtDate) && w == until(h.Date, now)) {
				if !c.Honour {
					v.Clause = "retry-after-applied-while-disabled"
				} else {
					v.Clause = "retry-after-applied-on-other-status"
				}
			} else if neg {
				v.Clause = "negative-wait:no-hint"
			} else {
				v.Clause = c.Kind + "-out-of-range"
			}
		}
		return v
	}
	if !c.Honour || !hintPossible {
		return base()
	}
	v.HintClass = h.Class
	v.Nontrivial = true
	switch h.Class {
	case hSeconds:
		want := time.Duration(h.Secs) * time.Second
		v.Want = want.String()
		if w == want {
			v.OK, v.Outcome = true, "hint:seconds"
			return v
		}
	case hHTTPDate:
		want := until(h.Date, now)
		v.Want = want.String()
		if w == want {
			v.OK, v.Outcome = true, "hint:http-date-future"
			if want == 0 {
				v.Outcome = "hint:http-date-past"
			}
			return v
		}
	case hExtDate:
		want := until(h.Date, now)
		v.Want = want.String() + " or the policy's own value"
		if w == want {
			v.OK, v.Outcome = true, "hint:extension-date"
			return v
		}
		if bOK {
			return base()
		}
	case hSecondsPlus: // "+5" is not delay-seconds, but an integer: the hint or the policy's own value
		want := time.Duration(h.Secs) * time.Second
		v.Want = want.String() + " or the policy's own value"
		if w == want {
			v.OK, v.Outcome = true, "hint:seconds-with-plus-sign"
			return v
		}
		if bOK {
			return base()
		}
	case hSecondsNeg:
		v.Want = "0 or the policy's own value"
		if w == 0 {
			v.OK, v.Outcome = true, "hint:negative-seconds-clamped"
			return v
		}
		if bOK {
			return base()
		}
	case hSecondsBig:
		v.Want = ">= 9223372036s (saturated) or the policy's own value"
		if !observedGap && w >= time.Duration(maxWholeSecs)*time.Second {
			v.OK, v.Outcome = true, "hint:seconds-saturated"
			return v
		}
		if bOK { // includes the linear policy's exemption (bounds not representable: nothing is demanded)
			r := base()
			r.HintClass = h.Class
			if r.OK {
				r.Outcome = "hint-ignored:" + r.Outcome
			}
			return r
		}
		switch {
		case observedGap:
			v.Clause = "retry-after-not-waited"
		case neg:
			v.Clause = "negative-wait"
		default:
			v.Clause = "retry-after-wrapped"
		}
		return v
	default: // garbage, empty
		return base()
	}
	if neg {
		v.Clause = "negative-wait"
	} else {
		v.Clause = "retry-after-not-applied"
	}
	return v
}

// ---- part (b): the sweep ---------------------------------------------------------------------------

var bubbleEpoch = time.Date(2000, 1, 1, 0, 0, 0, 0, time.UTC) // start of every synctest bubble's clock

func retryAfterValues(thorough bool) []string {
	v := []string{
		"", "-1", "0", "1", "120", "9223372036", "9223372037", "9223372036854775807", "9223372036854775808",
		"18446744074", "-9223372036854775808",
		"Fri, 31 Dec 1999 23:59:59 GMT",    // IMF-fixdate, past
		"Sat, 01 Jan 2000 00:01:30 GMT",    // IMF-fixdate, +90 s
		"Fri, 31 Dec 9999 23:59:59 GMT",    // far future: date-now saturates
		"Saturday, 01-Jan-00 00:02:00 GMT", // RFC 850
		"Sat Jan  1 00:03:00 2000",         // asctime
		"Sat, 01 Jan 2000 01:01:30 +0100",  // RFC1123Z (extension), +90 s
		"1999-10-12T07:20:50.52Z",          // RFC3339 (extension), past
		"2000-01-01T00:10:00Z",             // RFC3339 (extension), +600 s
		"15s", "soon", " 1", "1.5",
		// dates inside the second in which the bubble's clock starts: with the clock 0.5 s into that second (the "mid-second"
		// jobs) they are in the past by less than a second
		"Sat, 01 Jan 2000 00:00:00 GMT", "2000-01-01T00:00:00.4Z", "2000-01-01T00:00:00.6Z",
	}
	if thorough {
		v = append(v, "00", "0x10", "+5", "3600", "9223372035", "9223372038", "18446744073", "36893488148", "99999999999999999999999",
			"Mon, 01 Jan 0001 00:00:00 GMT", "Sat, 01 Jan 2000 00:00:01 UTC", "2000-01-01T00:00:00.000000001Z")
	}
	return v
}

func durations(thorough bool) []time.Duration {
	d := []time.Duration{0, 1, time.Millisecond, time.Second, time.Hour, math.MaxInt64 / 2, math.MaxInt64}
	if thorough {
		d = []time.Duration{0, 1, 2, time.Microsecond, time.Millisecond, 25 * time.Millisecond, time.Second, 30 * time.Second, time.Hour, 24 * time.Hour, 1 << 53, math.MaxInt64 / 2, math.MaxInt64 - 1, math.MaxInt64}
	}
	return d
}

// attemptNumbers: every n up to top, then 2^k-1, 2^k, 2^k+1 up to 2^31. In the thorough tier the exponential policy
// gets every n up to 1100 (2^n becomes +Inf at n = 1024 in its float formula); the others keep 0..64
// (LinearJitterBackoff re-seeds a math/rand source per call, ~15 us: the dense range is kept short there).
func attemptNumbers(thorough bool, kind string) []int {
	top := 64
	if thorough && kind == kExponential {
		top = 1100
	}
	var n []int
	for i := 0; i <= top; i++ {
		n = append(n, i)
	}
	for k := 7; k <= 31; k++ {
		for _, d := range []int{-1, 0, 1} {
			x := 1<<k + d
			if x > top && x <= 1<<31 {
				n = append(n, x)
			}
		}
	}
	return n
}

type violRec struct {
	Sig    string `json:"signature"`
	Replay any    `json:"replay"`
	Count  int64  `json:"count"`
	Key    string `json:"key"` // the stored case is the one with the smallest key (deterministic, simplest first)
}

func (r *violRec) absorb(v *violRec) {
	r.Count += v.Count
	if v.Key < r.Key {
		r.Replay, r.Key = v.Replay, v.Key
	}
}

type bSample struct {
	job int
	s   any
}

type partBResult struct {
	Evaluations   int64
	Nontrivial    int64
	Outcomes      map[string]int64
	LinearExempt  int64
	LinearExNeg   int64
	Viol          map[string]*violRec
	Samples       []any
	byOutcome     map[string]bSample
	MonotonePairs int64
	MinWait       time.Duration
	MaxWait       time.Duration
}

// hintClause: the clause is about the server hint, a mechanism shared by the three policies (findRetryAfter), so the
// signature does not carry the policy kind (one defect -> a handful of signatures).
func hintClause(cl string) bool {
	switch cl {
	case "negative-wait", "retry-after-wrapped", "retry-after-not-applied", "retry-after-not-waited":
		return true
	}
	return false
}

func sigB(c waitCase, v waitVerdict) string {
	if hintClause(v.Clause) {
		return fmt.Sprintf("apply:%s:retry-after=%s", v.Clause, v.HintClass)
	}
	return fmt.Sprintf("apply:%s:retry-after=%s:policy=%s", v.Clause, v.HintClass, c.Kind)
}

// runPartB sweeps Apply() of the policy returned by BackOffPolicyFactory. Pure computation, but inside a bubble so
// that time.Now() (Retry-After dates, the jitter seed of LinearJitterBackoff) is a known constant.
func runPartB(t *testing.T, rep *ev.Reporter, thorough bool) partBResult {
	durs := durations(thorough)
	nsOf := map[string][]int{}
	for _, k := range append(append([]string(nil), kinds...), kConstantLinearFlag) {
		nsOf[k] = attemptNumbers(thorough, k)
	}
	ras := retryAfterValues(thorough)
	statuses := []int{200, 429, 500, 503}
	seeds := 3
	type job struct {
		kind   string
		honour bool
		mi, xi int
		seed   int // > 0: the clock is that many nanoseconds past the bubble's epoch; -1: half a second past it ("mid-second")
	}
	var jobs []job
	for _, k := range []string{kLinear, kExponential, kConstant, kConstantLinearFlag} { // the expensive ones first
		for _, h := range []bool{false, true} {
			for mi := range durs {
				for xi := mi; xi < len(durs); xi++ {
					nseeds := 1
					if k == kLinear && mi < xi {
						nseeds = seeds // LinearJitterBackoff seeds its jitter from the clock's nanosecond
					}
					for s := 0; s < nseeds; s++ {
						jobs = append(jobs, job{k, h, mi, xi, s})
					}
					if h {
						jobs = append(jobs, job{k, h, mi, xi, -1})
					}
				}
			}
		}
	}
	res := partBResult{Outcomes: map[string]int64{}, Viol: map[string]*violRec{}, byOutcome: map[string]bSample{}, MinWait: math.MaxInt64, MaxWait: math.MinInt64}
	var mu sync.Mutex
	var next atomic.Int64
	var wg sync.WaitGroup
	for w := 0; w < ev.Workers(); w++ {
		wg.Add(1)
		go func() {
			defer wg.Done()
			for {
				ji := int(next.Add(1)) - 1
				if ji >= len(jobs) {
					return
				}
				j := jobs[ji]
				loc := partBResult{Outcomes: map[string]int64{}, Viol: map[string]*violRec{}, byOutcome: map[string]bSample{}, MinWait: math.MaxInt64, MaxWait: math.MinInt64}
				synctest.Test(t, func(t *testing.T) {
					min, max := durs[j.mi], durs[j.xi]
					ns := nsOf[j.kind]
					{
						cfg := httpPolicy(true, 4, j.kind, j.honour, min, max)
						pol := httpx.BackOffPolicyFactory(&cfg)
						{
							s := j.seed
							if s > 0 {
								time.Sleep(time.Duration(s)) // moves the jitter seed; the dates' expected values follow the clock
							}
							if s < 0 {
								time.Sleep(500 * time.Millisecond)
							}
							now := time.Now()
							evalOne := func(c waitCase, prev *time.Duration) {
								c.SeedNs = now.Nanosecond()
								w := pol.Apply(c.Min, c.Max, c.N, c.response())
								v := checkWait(c, w, now, false)
								loc.Evaluations++
								if v.Nontrivial {
									loc.Nontrivial++
								}
								if w < loc.MinWait {
									loc.MinWait = w
								}
								if w > loc.MaxWait {
									loc.MaxWait = w
								}
								if v.OK {
									loc.Outcomes[v.Outcome]++
									if v.Outcome == "linear:bounds-not-representable" || v.Outcome == "linear:bounds-not-representable:negative" {
										loc.LinearExempt++
										if w < 0 {
											loc.LinearExNeg++
										}
									}
								} else {
									sig := sigB(c, v)
									r := loc.Viol[sig]
									if r == nil {
										r = &violRec{Sig: sig, Key: fmt.Sprintf("%s|%020d|%020d|%012d|%v", c.Kind, int64(c.Min), int64(c.Max), c.N, c), Replay: map[string]any{"part": "B", "case": c, "got_ns": int64(w), "got": w.String(), "want": v.Want, "clause": v.Clause}}
										loc.Viol[sig] = r
									}
									r.Count++
								}
								// exponential: non-decreasing in n (same min, max, response, instant)
								if c.Kind == kExponential && prev != nil {
									if *prev != math.MinInt64 {
										loc.MonotonePairs++
										if w < *prev {
											sig := fmt.Sprintf("apply:exponential-decreasing:retry-after=%s:policy=%s", v.HintClass, c.Kind)
											r := loc.Viol[sig]
											if r == nil {
												r = &violRec{Sig: sig, Key: fmt.Sprintf("%s|%020d|%020d|%012d|%v", c.Kind, int64(c.Min), int64(c.Max), c.N, c), Replay: map[string]any{"part": "B", "case": c, "got_ns": int64(w), "got": w.String(), "previous_ns": int64(*prev), "clause": "exponential-decreasing"}}
												loc.Viol[sig] = r
											}
											r.Count++
										}
									}
									*prev = w
								}
								if v.OK && v.Nontrivial && c.N == 3 && c.Min == time.Second && c.Max == time.Hour {
									if _, ok := loc.byOutcome[v.Outcome]; !ok {
										loc.byOutcome[v.Outcome] = bSample{ji, map[string]any{"part": "B", "case": c, "wait": w.String(), "outcome": v.Outcome}}
									}
								}
							}
							// no response at all
							prev := time.Duration(math.MinInt64)
							for _, n := range ns {
								evalOne(waitCase{Kind: j.kind, Honour: j.honour, Min: min, Max: max, N: n}, &prev)
							}
							for _, st := range statuses {
								prev = math.MinInt64
								for _, n := range ns {
									evalOne(waitCase{Kind: j.kind, Honour: j.honour, Min: min, Max: max, N: n, HasResp: true, Status: st}, &prev)
								}
								for _, ra := range ras {
									prev = math.MinInt64
									for _, n := range ns {
										evalOne(waitCase{Kind: j.kind, Honour: j.honour, Min: min, Max: max, N: n, HasResp: true, Status: st, HasRA: true, RA: ra}, &prev)
									}
								}
							}
						}
					}
				})
				mu.Lock()
				res.Evaluations += loc.Evaluations
				res.Nontrivial += loc.Nontrivial
				res.LinearExempt += loc.LinearExempt
				res.LinearExNeg += loc.LinearExNeg
				res.MonotonePairs += loc.MonotonePairs
				if loc.MinWait < res.MinWait {
					res.MinWait = loc.MinWait
				}
				if loc.MaxWait > res.MaxWait {
					res.MaxWait = loc.MaxWait
				}
				for k, v := range loc.Outcomes {
					res.Outcomes[k] += v
				}
				for k, v := range loc.Viol {
					if r := res.Viol[k]; r == nil {
						res.Viol[k] = v
					} else {
						r.absorb(v)
					}
				}
				for k, v := range loc.byOutcome {
					if o, ok := res.byOutcome[k]; !ok || v.job < o.job {
						res.byOutcome[k] = v
					}
				}
				mu.Unlock()
			}
		}()
	}
	wg.Wait()
	for _, o := range []string{"hint:http-date-future", "exponential:in-range", "linear:in-range", "hint:seconds", "exponential:at-max"} {
		if v, ok := res.byOutcome[o]; ok {
			res.Samples = append(res.Samples, v.s)
		}
	}
	return res
}

// replayB re-evaluates one stored case of part (b).
func replayB(t *testing.T, c waitCase) (w time.Duration, v waitVerdict) {
	synctest.Test(t, func(t *testing.T) {
		if c.SeedNs > 0 {
			time.Sleep(time.Duration(c.SeedNs))
		}
		cfg := httpPolicy(true, 4, c.Kind, c.Honour, c.Min, c.Max)
		now := time.Now()
		w = httpx.BackOffPolicyFactory(&cfg).Apply(c.Min, c.Max, c.N, c.response())
		v = checkWait(c, w, now, false)
	})
	return
}

package c14

// Part (c): the retryable HTTP client (NewConfigurableRetryableClientFromClient) over a scripted http.RoundTripper —
// no sockets, inside a bubble, so the gaps between requests are the waits, measured exactly in virtual time.
//
// A script tells what the k-th request gets. Retry symbols: 500 | transport error | 429 "Retry-After: 2" |
// 503 Retry-After: <HTTP-date 90 s ahead> | 503 "Retry-After: soon" | 429 without header |
// 429 "Retry-After: 9223372037" (does not fit a time.Duration) with a watchdog that cancels the request one virtual
// hour later: a bubble must never sleep to the end of its clock (the runtime dies on the next timer), and a wait of
// ~292 years is ended by the watchdog, after which no request may follow; what the oracle judges is the gap, if a
// next request is seen at all.
// Ending symbols: 200 | 404 | transport error that is not retried ("unsupported protocol scheme") |
// 503 with the request's context cancelled while the request is in flight | 500 followed by a cancellation in the
// middle of the wait (where there is no such instant — wait < 2 ns, or no wait follows — the script is, for the code
// under test, the one with a plain 500 there: the run is cut and the sibling subtree decides it).
// Enumeration: the same lazy exhaustive DFS as part (a).
//
// Readings: the client's RetryMax counts retries, so at most RetryMax+1 requests (also for a disabled policy: the
// weakest reading; a disabled policy that still retries is only counted as an observation). A request "succeeded"
// when the response is one the retry policy does not retry (200, 404). Gaps are checked with the oracle of part (b)
// and, differentially, against the value Apply() returns for the same response at the same instant.

import (
	"context"
	"errors"
	"fmt"
	"github.com/go-logr/logr"
	"io"
	"net/http"
	"strings"
	"sync"
	"sync/atomic"
	"testing"
	"testing/synctest"
	"time"

	httpx "github.com/ARM-software/golang-utils/utils/http"
	ev "verif/engine/evidence"
)

type csym int

const (
	c500 csym = iota
	cErr
	c429s
	c503d
	c503g
	c429
	// ending symbols
	c200
	c404
	cFatal
	cCancel503
	cMid500
	cBig429
	nCSyms
)

var csymNames = [...]string{"500", "transport-error", "429+retry-after-seconds", "503+retry-after-date", "503+retry-after-garbage", "429", "200", "404", "fatal-transport-error", "503+cancelled-in-flight", "500+cancelled-mid-wait", "429+retry-after-overflow"}
var csymClass = [...]string{"", "", "", "", "", "", "success", "success-404", "non-retriable-error", "context-cancelled-during-attempt", "context-cancelled-mid-wait", ""}

type polC struct {
	Enabled  bool          `json:"enabled"`
	RetryMax int           `json:"retry_max"`
	Kind     string        `json:"kind"`
	Honour   bool          `json:"retry_after_honoured"`
	Min      time.Duration `json:"min_ns"`
	Max      time.Duration `json:"max_ns"`
	// Via: "" = the policy is the client configuration's (NewConfigurableRetryableClientFromClient); "request-configuration" =
	// the policy is that of the REQUEST configuration handed to NewConfigurableRetryableClientWithLoggerAndCustomClient, the
	// client configuration holding another policy (other kind, Retry-After switch the other way, other attempts and bounds):
	// the request's policy governs
	Via string `json:"client_built_through,omitempty"`
}

type caseC struct {
	Pol    polC     `json:"policy"`
	Ctx0   string   `json:"context_on_entry"`
	Script []string `json:"script"`
}

// terminal tells whether no further request is expected after the symbol under the policy.
func (s csym) terminal(p polC) bool {
	switch s {
	case c200, c404, cFatal, cCancel503, cMid500:
		return true
	}
	return false // cBig429: the gap oracle decides (the weakest reading lets the policy ignore an unrepresentable hint)
}

type reqRec struct {
	At      time.Duration
	Sym     csym
	Case    waitCase // what Apply sees for this response
	Now     time.Time
	Applied time.Duration
}

type runC struct {
	Reqs    []reqRec
	M       int
	Skipped bool // the script has "cancel in the middle of the wait" where there is no such instant (wait < 2 ns, or no
	// wait follows): for the code under test the script is the one with a plain 500 there, which the sibling subtree decides
	Over      bool
	OverAfter string
	Err       error
	Status    int
	CtxErr    error
	Times     []time.Duration
}

type scriptedRT struct {
	f func(*http.Request) (*http.Response, error)
}

func (s *scriptedRT) RoundTrip(r *http.Request) (*http.Response, error) { return s.f(r) }

func mkResp(req *http.Request, status int, ra *string) *http.Response {
	h := http.Header{}
	if ra != nil {
		h["Retry-After"] = []string{*ra}
	}
	return &http.Response{StatusCode: status, Status: fmt.Sprintf("%d %s", status, http.StatusText(status)), Proto: "HTTP/1.1", ProtoMajor: 1, ProtoMinor: 1, Header: h, Body: io.NopCloser(strings.NewReader("body")), Request: req}
}

func execC(t *testing.T, p polC, ctx0 string, prefix []csym) (r runC) {
	synctest.Test(t, func(t *testing.T) {
		start := time.Now()
		ctx, cancel := context.WithCancel(context.Background())
		defer cancel()
		if ctx0 == "cancelled" {
			cancel()
		}
		rp := httpPolicy(p.Enabled, p.RetryMax, p.Kind, p.Honour, p.Min, p.Max)
		applier := httpx.BackOffPolicyFactory(&rp)
		rt := &scriptedRT{}
		var helpers []chan struct{} // time stops when the bubble's main goroutine exits: wait for the cancellers
		defer func() {
			for _, h := range helpers {
				<-h
			}
		}()
		after := func(d time.Duration) {
			h := make(chan struct{})
			helpers = append(helpers, h)
			go func() { defer close(h); time.Sleep(d); cancel() }()
		}
		rt.f = func(req *http.Request) (*http.Response, error) {
			i := r.M
			r.M++
			r.Times = append(r.Times, time.Since(start))
			if r.Over || r.Skipped {
				return mkResp(req, 200, nil), nil
			}
			switch {
			case len(r.Reqs) > 0 && r.Reqs[len(r.Reqs)-1].Sym.terminal(p):
				r.Over, r.OverAfter = true, csymClass[r.Reqs[len(r.Reqs)-1].Sym]
			case ctx0 != "live" && i >= 1:
				r.Over, r.OverAfter = true, "context-done-on-entry"
			case i >= p.RetryMax+1:
				r.Over, r.OverAfter = true, "bound"
			}
			if r.Over {
				return mkResp(req, 200, nil), nil
			}
			s := c500
			if i < len(prefix) {
				s = prefix[i]
			}
			rec := reqRec{At: time.Since(start), Sym: s, Now: time.Now()}
			wc := waitCase{Kind: p.Kind, Honour: p.Honour, Min: p.Min, Max: p.Max, N: i, HasResp: true}
			if !p.Enabled {
				wc.Kind = kConstant
			}
			var resp *http.Response
			var err error
			str := func(s string) *string { return &s }
			switch s {
			case c500, cMid500:
				resp = mkResp(req, 500, nil)
			case cErr:
				err = errors.New("c14: connection reset by peer")
			case c429s:
				resp = mkResp(req, 429, str("2"))
			case c503d:
				resp = mkResp(req, 503, str(rec.Now.Add(90*time.Second).UTC().Format(http.TimeFormat)))
			case c503g:
				resp = mkResp(req, 503, str("soon"))
			case c429:
				resp = mkResp(req, 429, nil)
			case c200:
				resp = mkResp(req, 200, nil)
			case c404:
				resp = mkResp(req, 404, nil)
			case cFatal:
				err = errors.New("unsupported protocol scheme \"c14\"")
			case cCancel503:
				cancel()
				resp = mkResp(req, 503, str("2"))
			case cBig429:
				resp = mkResp(req, 429, str("9223372037"))
				after(time.Hour)
			}
			if resp != nil {
				wc.Status = resp.StatusCode
				if v, ok := resp.Header["Retry-After"]; ok {
					wc.HasRA, wc.RA = true, v[0]
				}
			} else {
				wc.HasResp = false
			}
			rec.Case = wc
			rec.Applied = applier.Apply(p.Min, p.Max, i, resp)
			if s == cMid500 {
				if rec.Applied >= 2 && i < p.RetryMax {
					after(rec.Applied / 2)
				} else {
					r.Skipped = true
					return mkResp(req, 200, nil), nil
				}
			}
			r.Reqs = append(r.Reqs, rec)
			return resp, err
		}
		cfg := &httpx.HTTPClientConfiguration{RetryPolicy: rp}
		client := httpx.NewConfigurableRetryableClientFromClient(cfg, &http.Client{Transport: rt})
		if p.Via == "request-configuration" {
			otherKind := map[string]string{kConstant: kExponential, kExponential: kLinear, kLinear: kConstant}[p.Kind]
			cfg = &httpx.HTTPClientConfiguration{RetryPolicy: httpPolicy(true, p.RetryMax+2, otherKind, !p.Honour, 3*p.Min+7*time.Millisecond, 3*p.Max+11*time.Millisecond)}
			client = httpx.NewConfigurableRetryableClientWithLoggerAndCustomClient(cfg, &httpx.RequestConfiguration{Retries: rp}, logr.Discard(), &http.Client{Transport: rt})
		}
		req, err := http.NewRequestWithContext(ctx, http.MethodGet, "http://c14.invalid/resource", nil)
		if err != nil {
			r.Err = err
			return
		}
		resp, err := client.Do(req)
		r.Err = err
		if resp != nil {
			r.Status = resp.StatusCode
			_ = resp.Body.Close()
		}
		r.CtxErr = ctx.Err()
	})
	return
}

func polClassC(p polC) string {
	k := p.Kind
	if !p.Enabled {
		k = "disabled"
	}
	if p.Via != "" {
		k += ":via=" + p.Via
	}
	return "policy=" + k
}

func evalC(p polC, ctx0 string, r runC) (out []finding, gaps int64, waitOutcomes []string) {
	pc := polClassC(p)
	// gaps between consecutive legitimate requests
	for i := 0; i+1 < len(r.Reqs); i++ {
		g := r.Reqs[i+1].At - r.Reqs[i].At
		gaps++
		rq := r.Reqs[i]
		v := checkWait(rq.Case, g, rq.Now, true)
		if !v.OK {
			sig := fmt.Sprintf("client:gap:%s:retry-after=%s:%s", v.Clause, v.HintClass, pc)
			if hintClause(v.Clause) {
				sig = fmt.Sprintf("client:gap:%s:retry-after=%s", v.Clause, v.HintClass)
			}
			out = append(out, finding{sig, fmt.Sprintf("gap after request %d (%s) is %v, want %s", i, csymNames[rq.Sym], g, v.Want)})
		} else {
			waitOutcomes = append(waitOutcomes, v.Outcome)
		}
		want := rq.Applied
		if want < 0 {
			want = 0
		}
		if g != want && v.OK {
			out = append(out, finding{"client:gap-differs-from-policy:" + pc, fmt.Sprintf("gap after request %d (%s) is %v, Apply returned %v", i, csymNames[rq.Sym], g, rq.Applied)})
		}
	}
	if r.Over {
		if r.OverAfter == "bound" {
			out = append(out, finding{"client:too-many-requests:" + pc, fmt.Sprintf("request %d with RetryMax %d", r.M, p.RetryMax)})
		} else {
			out = append(out, finding{"client:attempt-after:" + r.OverAfter + ":" + pc, fmt.Sprintf("request %d happened after %s", r.M, r.OverAfter)})
		}
		return
	}
	if r.M == 0 {
		out = append(out, finding{"client:no-request:" + pc, "no request was made"})
		return
	}
	last := r.Reqs[len(r.Reqs)-1]
	succeeded := (last.Sym == c200 || last.Sym == c404) && ctx0 == "live"
	if ctx0 != "live" {
		// context done on entry: both outcomes are accepted for the single request that was let through
		succeeded = r.Err == nil
	}
	if (r.Err == nil) != succeeded {
		out = append(out, finding{fmt.Sprintf("client:nil-mismatch:succeeded=%v:%s", succeeded, pc), fmt.Sprintf("returned %v after %s", r.Err, csymNames[last.Sym])})
	} else if r.Err == nil && ctx0 == "live" && r.Status != map[csym]int{c200: 200, c404: 404}[last.Sym] {
		out = append(out, finding{"client:wrong-response:" + pc, fmt.Sprintf("status %d after %s", r.Status, csymNames[last.Sym])})
	}
	return
}

type partCResult struct {
	Cases         int64
	Executions    int64
	Equivalent    int64 // scripts-prefixes that are, by construction of the harness, the sibling with a plain 500
	Nontrivial    int64
	GapsChecked   int64
	Outcomes      map[string]int64
	WaitOutcomes  map[string]int64
	Viol          map[string]*violRec
	Samples       map[int][]any
	DisabledRetry int64
	Configs       int64
	ScriptsTotal  float64
	ScriptsCover  float64
	EngineErrors  []string
}

func csymStrings(s []csym) []string {
	o := make([]string, len(s))
	for i, x := range s {
		o[i] = csymNames[x]
	}
	return o
}

func parseCSyms(s []string) []csym {
	var o []csym
	for _, x := range s {
		for i, n := range csymNames {
			if n == x {
				o = append(o, csym(i))
			}
		}
	}
	return o
}

func exploreC(t *testing.T, p polC, ctx0 string, alpha []csym, res *partCResult, jobIdx int) {
	bound := p.RetryMax + 1
	res.Configs++
	res.ScriptsTotal += pow(len(alpha), bound)
	var rec func(prefix []csym)
	rec = func(prefix []csym) {
		r := execC(t, p, ctx0, prefix)
		res.Executions++
		if r.Skipped {
			res.Equivalent++
			res.ScriptsCover += pow(len(alpha), bound-len(prefix))
			return
		}
		res.Cases++
		fs, gaps, wo := evalC(p, ctx0, r)
		res.GapsChecked += gaps
		for _, o := range wo {
			res.WaitOutcomes[o]++
		}
		consumed := make([]csym, len(r.Reqs))
		for i, q := range r.Reqs {
			consumed[i] = q.Sym
		}
		for _, f := range fs {
			v := res.Viol[f.Sig]
			if v == nil {
				v = &violRec{Sig: f.Sig, Key: fmt.Sprintf("%02d|%v|%d|%v", len(prefix), !p.Enabled, p.RetryMax, caseC{p, ctx0, csymStrings(prefix)}), Replay: map[string]any{"part": "C", "case": caseC{p, ctx0, csymStrings(prefix)}, "detail": f.Detail, "requests": r.M, "request_times": fmt.Sprint(r.Times), "returned": fmt.Sprint(r.Err)}}
				res.Viol[f.Sig] = v
			}
			v.Count++
		}
		res.ScriptsCover += pow(len(alpha), bound-len(consumed))
		if len(consumed) >= 2 || (len(consumed) == 1 && consumed[0] != c200 && consumed[0] != c404) {
			res.Nontrivial++
		}
		if !p.Enabled && r.M > 1 {
			res.DisabledRetry++
		}
		ek := "nil"
		switch {
		case r.Err == nil:
		case errors.Is(r.Err, context.Canceled):
			ek = "context-cancelled"
		case strings.Contains(r.Err.Error(), "giving up"):
			ek = "gave-up"
		default:
			ek = "error"
		}
		res.Outcomes[fmt.Sprintf("requests=%d:result=%s", r.M, ek)]++
		if len(res.Samples[jobIdx]) < 1 && len(consumed) >= 3 && p.Min > 0 && consumed[1] != c500 {
			res.Samples[jobIdx] = append(res.Samples[jobIdx], map[string]any{"part": "C", "case": caseC{p, ctx0, csymStrings(consumed)}, "request_times": fmt.Sprint(r.Times), "returned": fmt.Sprint(r.Err)})
		}
		// children: every other symbol at every position consumed beyond the prefix (an illegitimate request is not
		// consumed: the harness ended the run there)
		for j := len(prefix); j < len(consumed); j++ {
			for _, a := range alpha {
				if a == c500 {
					continue
				}
				rec(append(append([]csym{}, consumed[:j]...), a))
			}
		}
	}
	rec(nil)
}

type jobC struct {
	P     polC
	Ctx0  string
	Alpha []csym
}

func jobsC(thorough bool) []jobC {
	full := make([]csym, 0, nCSyms)
	for s := c500; s < nCSyms; s++ {
		full = append(full, s)
	}
	small := []csym{c500, c429s, c200, c404, cFatal, cCancel503, cMid500, cBig429}
	mm := []minmax{{0, 0}, {time.Millisecond, time.Millisecond}, {time.Millisecond, 4 * time.Millisecond}, {time.Second, 30 * time.Second}}
	fullMax, smallMax := 2, 3
	if thorough {
		fullMax, smallMax = 4, 7
	}
	var js []jobC
	for rm := 0; rm <= smallMax; rm++ {
		alpha := full
		if rm > fullMax {
			alpha = small
		}
		for _, k := range kinds {
			for _, h := range []bool{false, true} {
				for _, m := range mm {
					for _, c0 := range []string{"live", "cancelled"} {
						if c0 == "cancelled" && rm > 1 {
							continue
						}
						js = append(js, jobC{polC{true, rm, k, h, m.Min, m.Max, ""}, c0, alpha})
						if rm >= 1 && rm <= 2 && c0 == "live" {
							js = append(js, jobC{polC{true, rm, k, h, m.Min, m.Max, "request-configuration"}, c0, small})
						}
					}
				}
			}
		}
	}
	for _, rm := range []int{0, 2} {
		for _, h := range []bool{false, true} {
			for _, m := range mm[:2] {
				js = append(js, jobC{polC{false, rm, kConstant, h, m.Min, m.Max, ""}, "live", full})
			}
		}
	}
	return js
}

func runPartC(t *testing.T, thorough bool) partCResult {
	jobs := jobsC(thorough)
	res := partCResult{Outcomes: map[string]int64{}, WaitOutcomes: map[string]int64{}, Viol: map[string]*violRec{}, Samples: map[int][]any{}}
	var mu sync.Mutex
	var next atomic.Int64
	var wg sync.WaitGroup
	// largest jobs first for balance: they are at the end of the list
	for w := 0; w < ev.Workers(); w++ {
		wg.Add(1)
		go func() {
			defer wg.Done()
			for {
				k := int(next.Add(1)) - 1
				if k >= len(jobs) {
					return
				}
				ji := len(jobs) - 1 - k
				loc := partCResult{Outcomes: map[string]int64{}, WaitOutcomes: map[string]int64{}, Viol: map[string]*violRec{}, Samples: map[int][]any{}}
				exploreC(t, jobs[ji].P, jobs[ji].Ctx0, jobs[ji].Alpha, &loc, ji)
				mu.Lock()
				res.Cases += loc.Cases
				res.Executions += loc.Executions
				res.Equivalent += loc.Equivalent
				res.Nontrivial += loc.Nontrivial
				res.GapsChecked += loc.GapsChecked
				res.DisabledRetry += loc.DisabledRetry
				res.Configs += loc.Configs
				res.ScriptsTotal += loc.ScriptsTotal
				res.ScriptsCover += loc.ScriptsCover
				for k, v := range loc.Outcomes {
					res.Outcomes[k] += v
				}
				for k, v := range loc.WaitOutcomes {
					res.WaitOutcomes[k] += v
				}
				for k, v := range loc.Samples {
					res.Samples[k] = v
				}
				for k, v := range loc.Viol {
					if r := res.Viol[k]; r == nil {
						res.Viol[k] = v
					} else {
						r.absorb(v)
					}
				}
				mu.Unlock()
			}
		}()
	}
	wg.Wait()
	return res
}

// C14 — retries are bounded and back-off waits stay in range.
//
// Bounded-exhaustive enumeration on the real code, everything that waits inside a testing/synctest bubble (virtual
// time: waits cost nothing and are measured exactly; no sockets, no real sleeps):
//
//	(a) retry.RetryIf / retry.RetryOnError: every policy of a grid x context state on entry x EVERY script of attempt
//	    outcomes (parta_test.go);
//	(b) Apply() of the policy chosen by BackOffPolicyFactory over a numeric grid of min/max, attempt numbers up to 2^31,
//	    response status x Retry-After value, honoured or not (wait_test.go, which also holds the reference oracle);
//	(c) the retryable client over a scripted http.RoundTripper: every script of responses (partc_test.go).
//
// Readings taken where the statement is ambiguous (always the weakest one):
//   - "configured number of times": RetryMax invocations for the retry package (retry-go's Attempts, and what the
//     repository's own test asserts), RetryMax+1 requests for the HTTP client (RetryMax counts retries there);
//     for a disabled policy max(1, that number) — a disabled policy that retries is only counted (observation).
//   - context already done on entry: zero or one attempt are both accepted ("not attempted again").
//   - "otherwise the last error, context errors being reported as cancelled / timeout": a non-nil result must be the
//     very error value of the last invocation, or — when the context is done — an error of kind cancelled (context
//     cancelled) / timeout (deadline passed). A context error produced by the operation itself and handed back
//     unchanged is "the last error" and accepted.
//   - waits: see wait_test.go.
package c14

import (
	"encoding/json"
	"fmt"
	"os"
	"sort"
	"testing"
	"time"

	deadlock "github.com/sasha-s/go-deadlock"

	ev "verif/engine/evidence"
)

func TestMain(m *testing.M) {
	deadlock.Opts.Disable = true // its detector pools timers process-wide: fatal across synctest bubbles
	ev.Main(m)
}

func mergeViol(dst map[string]*violRec, src map[string]*violRec) {
	for k, v := range src {
		if r := dst[k]; r == nil {
			dst[k] = v
		} else {
			r.absorb(v)
		}
	}
}

func sortedKeys(m map[string]int64) []string {
	k := make([]string, 0, len(m))
	for s := range m {
		k = append(k, s)
	}
	sort.Strings(k)
	return k
}

func TestC14(t *testing.T) {
	thorough := ev.Thorough()
	if p := os.Getenv("VERIF_REPLAY"); p != "" {
		if _, _, isShard := ev.ShardEnv(); !isShard {
			replay(t, p)
			return
		}
	}

	// ---- part (a): one shard per worker process (GOMAXPROCS=1 each: retry-go's jitter uses the global math/rand) ----
	t0 := time.Now()
	partsA, isWorker := ev.Sharded(t, ev.Workers(), func(shard, n int) partAResult { return runPartAShard(t, thorough, shard, n) })
	if isWorker {
		return
	}
	rep := ev.NewReporter("C14", "exploration")
	a := partAResult{Outcomes: map[string]int64{}, Viol: map[string]*violRec{}}
	for _, p := range partsA {
		a.Cases += p.Cases
		a.Executions += p.Executions
		a.Nontrivial += p.Nontrivial
		a.ScriptsTotal += p.ScriptsTotal
		a.ScriptsCover += p.ScriptsCover
		a.DisabledRetry += p.DisabledRetry
		a.Configs += p.Configs
		if p.MaxVirtual > a.MaxVirtual {
			a.MaxVirtual = p.MaxVirtual
		}
		for k, v := range p.Outcomes {
			a.Outcomes[k] += v
		}
		mergeViol(a.Viol, p.Viol)
		if len(a.Samples) < 4 {
			a.Samples = append(a.Samples, p.Samples...)
		}
		for _, e := range p.EngineErrors {
			rep.EngineError("%s", e)
		}
	}

	// ---- part (b) and (c): goroutines, one bubble per block; nothing there touches the global math/rand ----
	tA := time.Since(t0)
	fmt.Fprintf(os.Stderr, "[C14] part a done in %.1fs\n", tA.Seconds())
	b := runPartB(t, rep, thorough)
	tB := time.Since(t0) - tA
	fmt.Fprintf(os.Stderr, "[C14] part b done in %.1fs\n", tB.Seconds())
	c := runPartC(t, thorough)
	tC := time.Since(t0) - tA - tB
	fmt.Fprintf(os.Stderr, "[C14] part c done in %.1fs\n", tC.Seconds())
	for _, e := range c.EngineErrors {
		rep.EngineError("%s", e)
	}

	// the consumed prefixes must cover the script space exactly (lazy enumeration is exhaustive)
	if a.ScriptsCover != a.ScriptsTotal {
		rep.EngineError("part A: consumed prefixes cover %.0f scripts of %.0f", a.ScriptsCover, a.ScriptsTotal)
	}
	if c.ScriptsCover != c.ScriptsTotal {
		rep.EngineError("part C: consumed prefixes cover %.0f scripts of %.0f", c.ScriptsCover, c.ScriptsTotal)
	}

	all := map[string]*violRec{}
	mergeViol(all, a.Viol)
	mergeViol(all, b.Viol)
	mergeViol(all, c.Viol)
	sigs := make([]string, 0, len(all))
	for s := range all {
		sigs = append(sigs, s)
	}
	sort.Strings(sigs)
	for _, s := range sigs {
		rep.ViolationN(s, all[s].Replay, all[s].Count)
	}

	maxAttempts, clientMax := 4, 3
	if thorough {
		maxAttempts, clientMax = 8, 7
	}
	outcomes := map[string]int64{}
	for k, v := range a.Outcomes {
		outcomes["retry:"+k] = v
	}
	for k, v := range b.Outcomes {
		outcomes["apply:"+k] = v
	}
	for k, v := range c.Outcomes {
		outcomes["client:"+k] = v
	}
	for k, v := range c.WaitOutcomes {
		outcomes["client-gap:"+k] = v
	}
	var samples []any
	samples = append(samples, a.Samples...)
	if len(samples) > 3 {
		samples = samples[:3]
	}
	if len(b.Samples) > 3 {
		b.Samples = b.Samples[:3]
	}
	samples = append(samples, b.Samples...)
	var cs []int
	for k := range c.Samples {
		cs = append(cs, k)
	}
	sort.Ints(cs)
	for i, k := range cs {
		if i >= 3 {
			break
		}
		samples = append(samples, c.Samples[k]...)
	}

	rep.Coverage["evaluations"] = a.Cases + b.Evaluations + c.Cases
	rep.Coverage["distinct_nontrivial"] = a.Nontrivial + b.Nontrivial + c.Nontrivial
	rep.Coverage["rule"] = "a case is non-trivial when the mechanism decided something: (a)/(c) executions in which at least one attempt failed (a retry / stop decision was taken); (b) evaluations in which a server hint was in force or the policy is linear/exponential with n > 0 or min < max. Cases are distinct by construction (distinct consumed script prefixes per configuration; distinct grid points)"
	rep.Coverage["exhaustive"] = true
	rep.Coverage["wall_s_parts"] = map[string]float64{"a": tA.Seconds(), "b": tB.Seconds(), "c": tC.Seconds()}
	rep.Coverage["samples"] = samples
	rep.Coverage["distinct_observed_outcomes"] = len(outcomes)
	rep.Coverage["observed_outcomes"] = outcomes
	rep.Coverage["part_a_retry"] = map[string]any{
		"configurations":            a.Configs,
		"cases_distinct_prefixes":   a.Cases,
		"executions_bubbles":        a.Executions,
		"nontrivial":                a.Nontrivial,
		"scripts_decided":           a.ScriptsCover,
		"scripts_in_bound":          a.ScriptsTotal,
		"alphabet":                  symNames,
		"race_repetitions":          raceReps,
		"max_virtual_time_of_a_run": a.MaxVirtual.String(),
		"disabled_policy_retried":   a.DisabledRetry,
		"bound":                     fmt.Sprintf("enabled x attempts 1..%d x {constant, linear, exponential} x min/max grid, disabled x RetryMax {0,1,3}; APIs RetryIf and RetryOnError; context on entry live/cancelled/expired; every script of length <= attempts over the alphabet", maxAttempts),
	}
	rep.Coverage["part_b_apply"] = map[string]any{
		"evaluations":                           b.Evaluations,
		"nontrivial":                            b.Nontrivial,
		"durations":                             len(durations(thorough)),
		"attempt_numbers":                       map[string]int{kConstant: len(attemptNumbers(thorough, kConstant)), kLinear: len(attemptNumbers(thorough, kLinear)), kExponential: len(attemptNumbers(thorough, kExponential))},
		"jitter_seeds_linear":                   3,
		"largest_attempt_number":                1 << 31,
		"retry_after_values":                    len(retryAfterValues(thorough)) + 1,
		"statuses":                              "no response, 200, 429, 500, 503",
		"exponential_monotonicity_pairs":        b.MonotonePairs,
		"linear_bounds_not_representable":       b.LinearExempt,
		"linear_not_representable_and_negative": b.LinearExNeg,
		"smallest_wait_seen":                    b.MinWait.String(),
		"largest_wait_seen":                     b.MaxWait.String(),
	}
	rep.Coverage["part_c_client"] = map[string]any{
		"configurations":                   c.Configs,
		"cases_distinct_prefixes":          c.Cases,
		"prefixes_equivalent_to_a_sibling": c.Equivalent,
		"nontrivial":                       c.Nontrivial,
		"gaps_checked":                     c.GapsChecked,
		"scripts_decided":                  c.ScriptsCover,
		"scripts_in_bound":                 c.ScriptsTotal,
		"alphabet":                         csymNames,
		"disabled_policy_retried":          c.DisabledRetry,
		"bound":                            fmt.Sprintf("RetryMax 0..%d (full 12-symbol alphabet up to %d, 8-symbol alphabet above), 3 kinds x Retry-After honoured or not x 4 min/max pairs, disabled policies, context live / cancelled on entry", clientMax, map[bool]int{false: 2, true: 4}[thorough]),
	}
	rep.Assume = []string{
		"third-party internals (retry-go's loop, go-retryablehttp's Do, net/http's client) run unmodified; their only uncontrolled choice — Go's random pick between two ready select cases — is owned by repeating the affected cases 64 times",
		"virtual time: testing/synctest bubbles, clock starts 2000-01-01T00:00:00Z; a wait is the difference of two readings of that clock",
		"attempt numbers stop at 2^31; min <= max; negative min/max and RetryMax < 0 are outside the property's quantifier",
		"observation, not a violation under the weakest reading: a disabled policy with RetryMax > 0 still retries in the HTTP client (the client copies RetryMax regardless of Enabled)",
	}
	rep.Finish()
}

// replay re-runs one stored case (VERIF_REPLAY=<path>) without the explorer; it does not touch the evidence file.
func replay(t *testing.T, path string) {
	raw, err := os.ReadFile(path)
	if err != nil {
		t.Fatal(err)
	}
	var doc struct {
		Signature string `json:"signature"`
		Replay    struct {
			Part string          `json:"part"`
			Case json.RawMessage `json:"case"`
		} `json:"replay"`
	}
	if err := json.Unmarshal(raw, &doc); err != nil {
		t.Fatalf("replay %s does not parse: %v", path, err)
	}
	var found []finding
	switch doc.Replay.Part {
	case "A":
		var c caseA
		_ = json.Unmarshal(doc.Replay.Case, &c)
		for k := 0; k < raceReps && len(found) == 0; k++ {
			r := execA(t, c.Pol, c.API, c.Ctx0, parseSyms(c.Script))
			found = evalA(c.Pol, c.Ctx0, r)
			if k == 0 || len(found) > 0 {
				fmt.Printf("replay: run=%d case=%+v invocations=%d at=%v returned=%v\n", k+1, c, r.M, r.Times, r.Err)
			}
		}
	case "B":
		var c waitCase
		_ = json.Unmarshal(doc.Replay.Case, &c)
		w, v := replayB(t, c)
		fmt.Printf("replay: case=%+v wait=%v (%d ns) want=%s\n", c, w, int64(w), v.Want)
		if !v.OK {
			found = append(found, finding{sigB(c, v), fmt.Sprintf("wait %v, want %s", w, v.Want)})
		}
	case "C":
		var c caseC
		_ = json.Unmarshal(doc.Replay.Case, &c)
		r := execC(t, c.Pol, c.Ctx0, parseCSyms(c.Script))
		found, _, _ = evalC(c.Pol, c.Ctx0, r)
		fmt.Printf("replay: case=%+v requests=%d at=%v returned=%v\n", c, r.M, r.Times, r.Err)
	default:
		t.Fatalf("replay %s: unknown part %q", path, doc.Replay.Part)
	}
	if len(found) == 0 {
		fmt.Println("replay: no violation")
		return
	}
	for _, f := range found {
		fmt.Printf("VIOLATION property=C14 replay=%s signature=%s\n  %s\n", path, f.Sig, f.Detail)
	}
	ev.ExitCode = 1
}

package c14

// Part (a): retry.RetryIf / retry.RetryOnError under every script of attempt outcomes.
//
// A script tells what the k-th invocation of the operation does. Alphabet:
//   R   return a retriable error
//   S   return nil
//   N   return a non-retriable error
//   Rc  cancel the context, then return a retriable error      (context done before the next attempt)
//   Rt  let the context's deadline pass (virtual sleep), then return a retriable error
//   Rm  return a retriable error; the context is cancelled in the middle of the following wait (only when min >= 2ns)
//   X   cancel the context and return the context's error (context.Canceled, wrapped)
//   Xt  let the deadline pass and return the context's error (context.DeadlineExceeded, wrapped)
// plus the state of the context on entry: live | cancelled | expired.
//
// Enumeration is lazy and exhaustive: an execution only consumes the symbols of the invocations that happen, and the
// code under test cannot observe symbols it did not consume, so one execution decides every script that extends the
// consumed prefix. The explorer branches on every symbol at every consumed position (stateless DFS); the consumed
// prefixes form a complete prefix-free cover of the alphabet^bound scripts, which is verified arithmetically
// (sum over executions of |alphabet|^(bound-consumed) == |alphabet|^bound). After an invocation that must not happen
// (after S, N, a context end, or beyond the bound) the harness stops the run (returns nil) and does not extend it.
//
// The one nondeterminism the harness cannot control is Go's random choice between two ready select cases inside
// retry-go (timer of a zero wait vs ctx.Done()). Every case whose last symbol ends the context is therefore executed
// raceReps times (each in a fresh bubble) or until one run violates; a case counts once.

import (
	"context"
	"errors"
	"fmt"
	"math/rand"
	"sort"
	"strings"
	"testing"
	"testing/synctest"
	"time"

	"github.com/go-logr/logr"

	"github.com/ARM-software/golang-utils/utils/commonerrors"
	"github.com/ARM-software/golang-utils/utils/retry"
)

type sym int

const (
	symR sym = iota
	symS
	symN
	symRc
	symRt
	symRm
	symX
	symXt
	symSc // the attempt succeeds while its context is being cancelled (added after a seeded change replaced such a success by the context's error)
	symSt // the attempt succeeds after the deadline passed during it
	nSyms
)

var symNames = [...]string{"R", "S", "N", "Rc", "Rt", "Rm", "X", "Xt", "Sc", "St"}
var symClass = [...]string{"retriable-error", "success", "non-retriable-error", "context-cancelled-during-attempt", "deadline-passed-during-attempt", "context-cancelled-mid-wait", "context-error-returned", "deadline-error-returned", "success-while-context-cancelled", "success-after-deadline-passed"}

func (s sym) terminal() bool { return s != symR }
func (s sym) endsContext() bool {
	return s == symRc || s == symRt || s == symRm || s == symX || s == symXt || s == symSc || s == symSt
}

const raceReps = 64

var (
	errRetriable = errors.New("c14: retriable failure")
	errFatal     = errors.New("c14: non-retriable failure")
)

type polA struct {
	Enabled  bool          `json:"enabled"`
	RetryMax int           `json:"retry_max"`
	Kind     string        `json:"kind"`
	Min      time.Duration `json:"min_ns"`
	Max      time.Duration `json:"max_ns"`
}

func (p polA) cfg() *retry.RetryPolicyConfiguration {
	c := httpPolicy(p.Enabled, p.RetryMax, p.Kind, false, p.Min, p.Max)
	return &c
}

// bound on the number of invocations. Reading: the configured number of attempts of the retry package is RetryMax
// (retry-go's Attempts; the repository's own test asserts attempts == RetryMax). For a disabled policy the code calls
// the operation once; the weakest reading still allows max(1, RetryMax).
func (p polA) bound() int {
	if p.RetryMax < 1 {
		return 1
	}
	return p.RetryMax
}

func (p polA) alphabet() []sym {
	var a []sym
	for s := symR; s < nSyms; s++ {
		if s == symRm && p.Min < 2 {
			continue // no instant strictly inside a wait that may be zero
		}
		a = append(a, s)
	}
	return a
}

type caseA struct {
	Pol    polA     `json:"policy"`
	API    string   `json:"api"`              // RetryIf | RetryOnError
	Ctx0   string   `json:"context_on_entry"` // live | cancelled | expired
	Script []string `json:"script"`
}

type runA struct {
	Consumed  []sym
	M         int // invocations
	Over      bool
	OverAfter string // class of what should have ended the retries
	Err       error
	CtxErr    error
	LastErr   error
	Succeeded bool
	Times     []time.Duration
	Panicked  string
}

func execA(t *testing.T, p polA, api, ctx0 string, prefix []sym) (r runA) {
	synctest.Test(t, func(t *testing.T) {
		rand.Seed(1) //nolint — retry-go's RandomDelay uses the global source
		start := time.Now()
		base, cancel := context.WithCancel(context.Background())
		defer cancel()
		deadline := start.Add(1000 * time.Hour)
		if ctx0 == "expired" {
			deadline = start.Add(-time.Second)
		}
		ctx, cancelD := context.WithDeadline(base, deadline)
		defer cancelD()
		if ctx0 == "cancelled" {
			cancel()
		}
		bound := p.bound()
		var helpers []chan struct{} // time stops when the bubble's main goroutine exits: wait for the cancellers
		defer func() {
			for _, h := range helpers {
				<-h
			}
		}()
		fn := func() error {
			i := r.M
			r.M++
			r.Times = append(r.Times, time.Since(start))
			if r.Over {
				return nil
			}
			switch {
			case len(r.Consumed) > 0 && r.Consumed[len(r.Consumed)-1].terminal():
				r.Over, r.OverAfter = true, symClass[r.Consumed[len(r.Consumed)-1]]
			case ctx0 != "live" && i >= 1:
				r.Over, r.OverAfter = true, "context-done-on-entry"
			case i >= bound:
				r.Over, r.OverAfter = true, "bound"
			}
			if r.Over {
				return nil
			}
			s := symR
			if i < len(prefix) {
				s = prefix[i]
			}
			r.Consumed = append(r.Consumed, s)
			var e error
			switch s {
			case symS:
				r.Succeeded = true
				r.LastErr = nil
				return nil
			case symSc:
				cancel()
				r.Succeeded = true
				r.LastErr = nil
				return nil
			case symSt:
				time.Sleep(time.Until(deadline) + time.Nanosecond)
				r.Succeeded = true
				r.LastErr = nil
				return nil
			case symR:
				e = fmt.Errorf("%w (attempt %d)", errRetriable, i)
			case symN:
				e = fmt.Errorf("%w (attempt %d)", errFatal, i)
			case symRc:
				cancel()
				e = fmt.Errorf("%w (attempt %d)", errRetriable, i)
			case symRt:
				time.Sleep(time.Until(deadline) + time.Nanosecond)
				e = fmt.Errorf("%w (attempt %d)", errRetriable, i)
			case symRm:
				d := p.Min / 2
				h := make(chan struct{})
				helpers = append(helpers, h)
				go func() { defer close(h); time.Sleep(d); cancel() }()
				e = fmt.Errorf("%w (attempt %d)", errRetriable, i)
			case symX:
				cancel()
				e = fmt.Errorf("attempt %d: %w", i, ctx.Err())
			case symXt:
				time.Sleep(time.Until(deadline) + time.Nanosecond)
				e = fmt.Errorf("attempt %d: %w", i, ctx.Err())
			}
			r.LastErr = e
			return e
		}
		func() {
			defer func() {
				if pv := recover(); pv != nil { // the caller receives neither nil nor the last error
					r.Panicked = fmt.Sprint(pv)
				}
			}()
			switch api {
			case "RetryIf":
				r.Err = retry.RetryIf(ctx, logr.Discard(), p.cfg(), fn, "c14", func(err error) bool { return errors.Is(err, errRetriable) })
			default:
				r.Err = retry.RetryOnError(ctx, logr.Discard(), p.cfg(), fn, "c14", errRetriable)
			}
		}()
		r.CtxErr = ctx.Err()
	})
	return
}

type finding struct {
	Sig    string
	Detail string
}

func polClass(p polA) string {
	k := p.Kind
	if !p.Enabled {
		k = "disabled"
	}
	m := "positive"
	if p.Min == 0 {
		m = "zero"
	}
	return fmt.Sprintf("kind=%s:min=%s", k, m)
}

func errKind(err error) string {
	switch {
	case err == nil:
		return "nil"
	case errors.Is(err, context.Canceled) || errors.Is(err, context.DeadlineExceeded):
		return "raw-context-error"
	case commonerrors.Any(err, commonerrors.ErrCancelled):
		return "cancelled"
	case commonerrors.Any(err, commonerrors.ErrTimeout):
		return "timeout"
	case errors.Is(err, errRetriable):
		return "retriable"
	case errors.Is(err, errFatal):
		return "non-retriable"
	}
	return "other"
}

// evalA is the oracle of part (a) on one execution.
func evalA(p polA, ctx0 string, r runA) (out []finding) {
	pcFull := polClass(p) // kind and min=zero|positive: only where a zero wait matters (attempt after a stop condition)
	pc := pcFull[:strings.Index(pcFull, ":min=")]
	if r.Panicked != "" {
		return []finding{{"retry:panic:" + pcFull, "the call panicked: " + r.Panicked}}
	}
	if r.Over {
		if r.OverAfter == "bound" {
			out = append(out, finding{"retry:too-many-attempts:" + pc, fmt.Sprintf("invocation %d with a bound of %d", r.M, p.bound())})
		} else {
			out = append(out, finding{"retry:attempt-after:" + r.OverAfter + ":" + pcFull, fmt.Sprintf("invocation %d happened after %s", r.M, r.OverAfter)})
		}
		return // the harness ended the run; the remaining clauses are not meaningful
	}
	if r.M == 0 && ctx0 == "live" {
		out = append(out, finding{"retry:no-attempt:" + pc, "the operation was never invoked"})
	}
	if (r.Err == nil) != r.Succeeded {
		out = append(out, finding{fmt.Sprintf("retry:nil-mismatch:succeeded=%v:%s", r.Succeeded, pc), fmt.Sprintf("returned %v", r.Err)})
		return
	}
	if r.Err == nil {
		return
	}
	last := "none"
	if len(r.Consumed) > 0 {
		last = symClass[r.Consumed[len(r.Consumed)-1]]
	}
	k := errKind(r.Err)
	// the very error of the last invocation (whatever its kind: a context error produced by the operation itself
	// and handed back unchanged is "the last error") ...
	if r.LastErr != nil && errors.Is(r.Err, r.LastErr) && !(p.Enabled && k == "raw-context-error") {
		return
	}
	if k == "raw-context-error" {
		out = append(out, finding{"retry:wrong-error:raw-context-error:last=" + last + ":" + pc, fmt.Sprintf("returned %v", r.Err)})
		return
	}
	// ... or the context's error, reported as cancelled / timeout respectively
	ctxErr := r.CtxErr
	if ctxErr == nil && r.LastErr != nil && errKind(r.LastErr) == "raw-context-error" {
		ctxErr = r.LastErr
	}
	switch {
	case ctxErr != nil && errors.Is(ctxErr, context.Canceled) && k == "cancelled":
		return
	case ctxErr != nil && errors.Is(ctxErr, context.DeadlineExceeded) && k == "timeout":
		return
	case ctxErr != nil && (k == "cancelled" || k == "timeout"):
		out = append(out, finding{"retry:wrong-error:wrong-context-kind:last=" + last + ":" + pc, fmt.Sprintf("context error %v reported as %v", ctxErr, r.Err)})
	default:
		out = append(out, finding{"retry:wrong-error:not-last-error:last=" + last + ":" + pc, fmt.Sprintf("returned %v, last error %v, context %v", r.Err, r.LastErr, ctxErr)})
	}
	return
}

type partAResult struct {
	Cases         int64 // distinct consumed prefixes = evaluations
	Executions    int64
	Nontrivial    int64
	ScriptsTotal  float64 // sum of |alphabet|^bound over configurations
	ScriptsCover  float64 // sum over cases of |alphabet|^(bound-consumed)
	Outcomes      map[string]int64
	Viol          map[string]*violRec
	Samples       []any
	EngineErrors  []string
	DisabledRetry int64
	Configs       int64
	MaxVirtual    time.Duration
}

func symStrings(s []sym) []string {
	o := make([]string, len(s))
	for i, x := range s {
		o[i] = symNames[x]
	}
	return o
}

func parseSyms(s []string) []sym {
	var o []sym
	for _, x := range s {
		for i, n := range symNames {
			if n == x {
				o = append(o, sym(i))
			}
		}
	}
	return o
}

func pow(b, e int) float64 {
	r := 1.0
	for i := 0; i < e; i++ {
		r *= float64(b)
	}
	return r
}

// exploreA enumerates every script for one configuration.
func exploreA(t *testing.T, p polA, api, ctx0 string, res *partAResult) {
	alpha := p.alphabet()
	bound := p.bound()
	res.Configs++
	res.ScriptsTotal += pow(len(alpha), bound)
	var rec func(prefix []sym)
	rec = func(prefix []sym) {
		reps := 2
		if len(prefix) > 0 && prefix[len(prefix)-1].endsContext() {
			reps = raceReps
		}
		// every repetition is executed (no early stop), so that the counts do not depend on which run of a racy case
		// happens to violate first; a case counts once per signature
		var first runA
		seen := map[string]bool{}
		outs := map[string]bool{}
		for k := 0; k < reps; k++ {
			r := execA(t, p, api, ctx0, prefix)
			res.Executions++
			fs := evalA(p, ctx0, r)
			if k == 0 || (first.Over && !r.Over) {
				first = r // prefer a run the harness did not have to stop (same consumed prefix either way)
			}
			if r.Over {
				outs["stopped-by-harness-after-"+r.OverAfter] = true
			} else {
				outs[fmt.Sprintf("invocations=%d:result=%s", r.M, errKind(r.Err))] = true
			}
			for _, f := range fs {
				if seen[f.Sig] {
					continue
				}
				seen[f.Sig] = true
				v := res.Viol[f.Sig]
				if v == nil {
					v = &violRec{Sig: f.Sig, Key: fmt.Sprintf("%02d|%d|%v", len(prefix), p.RetryMax, caseA{p, api, ctx0, symStrings(prefix)}), Replay: map[string]any{"part": "A", "case": caseA{p, api, ctx0, symStrings(prefix)}, "detail": f.Detail, "invocations": r.M, "returned": fmt.Sprint(r.Err), "invocation_times": fmt.Sprint(r.Times), "note": "a case whose last symbol ends the context is run 64 times: the retry loop's select between a zero wait and ctx.Done() is a random choice of the Go runtime"}}
					res.Viol[f.Sig] = v
				}
				v.Count++
			}
			if len(r.Times) > 0 && r.Times[len(r.Times)-1] > res.MaxVirtual {
				res.MaxVirtual = r.Times[len(r.Times)-1]
			}
		}
		if len(outs) > 1 && len(seen) == 0 {
			res.EngineErrors = append(res.EngineErrors, fmt.Sprintf("part A: executions of %v %s %s %v differ without a violation: %v", p, api, ctx0, symStrings(prefix), outs))
		}
		res.Cases++
		c := first.Consumed
		res.ScriptsCover += pow(len(alpha), bound-len(c))
		if len(c) >= 2 || (len(c) == 1 && c[0] != symS) {
			res.Nontrivial++ // rule: at least one failed attempt, i.e. a retry decision was taken
		}
		if !p.Enabled && first.M > 1 {
			res.DisabledRetry++
		}
		var ol []string
		for o := range outs {
			ol = append(ol, o)
		}
		sort.Strings(ol)
		res.Outcomes[strings.Join(ol, " | ")]++
		if len(res.Samples) < 4 && len(c) >= 3 && c[len(c)-1] != symR && p.Min > 0 {
			res.Samples = append(res.Samples, map[string]any{"part": "A", "case": caseA{p, api, ctx0, symStrings(c)}, "invocations": first.M, "invocation_times": fmt.Sprint(first.Times), "returned": fmt.Sprint(first.Err)})
		}
		// children: every other symbol at every position consumed beyond the prefix (those are all R)
		for j := len(prefix); j < len(c); j++ {
			for _, a := range alpha {
				if a == symR {
					continue
				}
				child := append(append([]sym{}, c[:j]...), a)
				rec(child)
			}
		}
	}
	rec(nil)
}

type minmax struct{ Min, Max time.Duration }

func policiesA(thorough bool) []polA {
	maxAttempts := 4
	mm := []minmax{{0, 0}, {time.Millisecond, time.Millisecond}, {time.Millisecond, 4 * time.Millisecond}, {time.Second, 30 * time.Second}}
	if thorough {
		maxAttempts = 8
		mm = append(mm, minmax{0, time.Second}, minmax{1, 1}, minmax{time.Hour, time.Hour}, minmax{time.Hour, 2 * time.Hour})
	}
	var ps []polA
	for a := 1; a <= maxAttempts; a++ {
		for _, k := range kinds {
			for _, m := range mm {
				ps = append(ps, polA{true, a, k, m.Min, m.Max})
			}
		}
	}
	for _, a := range []int{0, 1, 3} {
		for _, m := range mm[:2] {
			ps = append(ps, polA{false, a, kConstant, m.Min, m.Max})
		}
	}
	return ps
}

func runPartAShard(t *testing.T, thorough bool, shard, n int) partAResult {
	res := partAResult{Outcomes: map[string]int64{}, Viol: map[string]*violRec{}}
	i := 0
	for _, p := range policiesA(thorough) {
		for _, api := range []string{"RetryIf", "RetryOnError"} {
			for _, c0 := range []string{"live", "cancelled", "expired"} {
				if i%n == shard {
					exploreA(t, p, api, c0, &res)
				}
				i++
			}
		}
	}
	return res
}

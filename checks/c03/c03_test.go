// C03 — unzip resource limits hold (zip bombs, nested bombs, lying headers).
//
// Bounded-exhaustive enumeration, executed on the real code (filesystem.VFS.UnzipWithContextAndLimits over a vfsx
// trace layer over afero.MemMapFs / the repository's ExtendedOsFs): every archive of the families in families_test.go
// x every limits configuration derived from what the archive really contains (each of per-file / total / count /
// depth in {1, exact-1, exact, exact+1, huge}, depth additionally -1 (disabled) and 0; recursive on and off).
//
// Oracle (differential; the accounting of the limits is not re-implemented):
//
//	T0 = what an extraction of the same archive with huge limits (same recursive flag) leaves below the destination,
//	     measured by an independent walk of the raw backend.
//	(1) success  =>  the independent walk of the destination satisfies all four limits.
//	(2) honest archive (every announced size equals its stream), T0 succeeded and T0 violates a limit
//	    =>  the call fails with kind "too large" (commonerrors.ErrTooLarge).
//	(3) trace layer: no handle is ever written beyond min(per-file limit, size announced for the member landing there).
//	(4) an archive whose central directory announces MORE than the stream holds, for a member the extraction reaches,
//	    does not report success.
//
// Readings taken (the weakest ones, so that no alarm is raised where the sentence can be read as satisfied):
//   - "number of files" = regular files found by the walk (directories are not files). The implementation also counts
//     directory members and counts an overwritten file twice: that is stricter, never an alarm.
//   - "depth" of something on disk = number of path components below the destination, minus one (a member at the top
//     level has depth 0; this is the smallest sensible measure and the one filesystem.FileTreeDepth uses). "nothing
//     deeper" is taken literally: directories are measured too.
//   - "total bytes" = sum of the sizes of the regular files found by the walk (nested archives that were extracted and
//     removed do not count: they are not "left on disk").
//   - "would exceed a limit" is decided on T0, i.e. on what the archive really expands to, never on my own sums.
//     An archive refused although T0 satisfies the limits (e.g. because the archive file itself is bigger than the
//     per-file limit, or because directory members are counted) is NOT an alarm: the statement only says what must be
//     refused.
//   - lying headers, exactly as DESIGN.md §4 C03: an error is required only where the extraction would otherwise
//     exceed a limit (clause 1 catches a success that does) or the stream is shorter than announced (clause 4). A
//     stream LONGER than announced that is cut to the announced size is recorded as an observation
//     (coverage.truncated_to_announced_size), not asserted. For liars clause (2) is weakened to "any error" and only
//     when T0 succeeded. "the size its header declares" = the larger of local header and central directory (archive/zip
//     reads the central directory only, so a lie confined to the local header is invisible to the extractor: such
//     archives are treated as honest for clause 2, with "any error").
//   - a refusal may leave a partial tree behind (the statement constrains what a *successful* extraction leaves and
//     what is written to a *single file* at any moment, not the total at the moment of refusal).
package c03

import (
	"archive/zip"
	"bytes"
	"context"
	"encoding/json"
	"fmt"
	"io"
	"os"
	"path/filepath"
	"sort"
	"strings"
	"sync"
	"testing"

	"github.com/ARM-software/golang-utils/utils/commonerrors"
	"github.com/ARM-software/golang-utils/utils/filesystem"
	"github.com/spf13/afero"

	ev "verif/engine/evidence"
	"verif/engine/vfsx"
)

func TestMain(m *testing.M) { ev.Main(m) }

// ---- one extraction ---------------------------------------------------------------------------------------------------

type limitsCfg struct {
	File  int64  `json:"max_file_size"`
	Total uint64 `json:"max_total_size"`
	Count int64  `json:"max_file_count"`
	Depth int64  `json:"max_depth"`
	Rec   bool   `json:"recursive"`
	// Via: "" = the limits object is built with NewLimits from the five values; otherwise it comes from the library's
	// constructor RecursiveZipLimits(Depth) (File, Total, Count are then that constructor's documented defaults) and, before it
	// is used, the named other constructor is called as well ("-" = none): a limits object must not change under its owner
	Via string `json:"limits_from_constructor_then,omitempty"`
}

// ctorDefaults: what RecursiveZipLimits / DefaultZipLimits / DefaultLimits document (1 GiB per file, 10 GiB in total, a million files).
const ctorFile, ctorTotal, ctorCount = int64(1) << 30, uint64(10) << 30, int64(1000000)

func (c limitsCfg) build() filesystem.ILimits {
	if c.Via == "" {
		return filesystem.NewLimits(c.File, c.Total, c.Count, c.Depth, c.Rec)
	}
	l := filesystem.RecursiveZipLimits(c.Depth)
	switch c.Via {
	case "DefaultZipLimits":
		_ = filesystem.DefaultZipLimits()
	case "DefaultLimits":
		_ = filesystem.DefaultLimits()
	case "RecursiveZipLimits(6)":
		_ = filesystem.RecursiveZipLimits(6)
	case "RecursiveZipLimits(0)":
		_ = filesystem.RecursiveZipLimits(0)
	case "NoLimits":
		_ = filesystem.NoLimits()
	}
	return l
}

func (c limitsCfg) String() string {
	h := func(v int64) string {
		if v >= huge {
			return "huge"
		}
		return fmt.Sprint(v)
	}
	return fmt.Sprintf("file=%s total=%s count=%s depth=%s rec=%v", h(c.File), h(int64(c.Total)), h(c.Count), h(c.Depth), c.Rec)
}

func hugeCfg(rec bool) limitsCfg { return limitsCfg{huge, huge, huge, -1, rec, ""} }

// measure is what the independent walk finds below the destination.
type measure struct {
	Files   int64 // regular files
	Dirs    int64
	Total   uint64
	MaxFile int64
	Depth   int64 // deepest entry (files and directories), -1 when the destination is empty or missing
	files   map[string]int64
	dirs    map[string]bool
}

func walk(fs afero.Fs, dest string) measure {
	m := measure{Depth: -1, files: map[string]int64{}, dirs: map[string]bool{}}
	var rec func(dir string, depth int64)
	rec = func(dir string, depth int64) {
		f, err := fs.Open(dir)
		if err != nil {
			return
		}
		infos, _ := f.Readdir(-1)
		_ = f.Close()
		for _, fi := range infos {
			p := filepath.Join(dir, fi.Name())
			if depth > m.Depth {
				m.Depth = depth
			}
			if fi.IsDir() {
				m.Dirs++
				m.dirs[p] = true
				rec(p, depth+1)
				continue
			}
			m.Files++
			m.Total += uint64(fi.Size())
			if fi.Size() > m.MaxFile {
				m.MaxFile = fi.Size()
			}
			m.files[p] = fi.Size()
		}
	}
	rec(dest, 0)
	return m
}

// violated tells which limits a tree breaks (bit 0 file, 1 total, 2 count, 3 depth).
func (m measure) violated(c limitsCfg) int {
	v := 0
	if m.MaxFile > c.File {
		v |= 1
	}
	if m.Total > c.Total {
		v |= 2
	}
	if m.Files > c.Count {
		v |= 4
	}
	if c.Depth >= 0 && m.Depth > c.Depth {
		v |= 8
	}
	return v
}

func dims(mask int) string {
	var l []string
	for i, n := range []string{"file", "total", "count", "depth"} {
		if mask&(1<<i) != 0 {
			l = append(l, n)
		}
	}
	if len(l) == 0 {
		return "none"
	}
	return strings.Join(l, "+")
}

type handleInfo struct {
	Path    string
	Written int64
}

type result struct {
	Panic   string `json:"panic,omitempty"`
	Err     error
	ErrText string // error text with the sandbox directory replaced by <sandbox> (the OS sandbox has a per-run name)
	Kind    string // ok | too-large | <other kind>
	M       measure
	Handles []handleInfo // handles opened for writing, with their high-water mark
	Entered bool         // the per-member loop was entered (the destination was created by the call)
	Mutat   int64
}

var kinds = []struct {
	e error
	n string
}{
	{commonerrors.ErrTooLarge, "too-large"}, {commonerrors.ErrInvalid, "invalid"}, {commonerrors.ErrEOF, "eof"}, {commonerrors.ErrUnexpected, "unexpected"},
	{commonerrors.ErrUnsupported, "unsupported"}, {commonerrors.ErrNotFound, "not-found"}, {commonerrors.ErrMalicious, "malicious"}, {commonerrors.ErrExists, "exists"},
	{commonerrors.ErrCancelled, "cancelled"}, {commonerrors.ErrTimeout, "timeout"}, {commonerrors.ErrUndefined, "undefined"}, {commonerrors.ErrOutOfRange, "out-of-range"},
	{commonerrors.ErrForbidden, "forbidden"}, {commonerrors.ErrCondition, "failed-condition"}, {commonerrors.ErrConflict, "conflict"}, {commonerrors.ErrEmpty, "empty"},
	{commonerrors.ErrUnknown, "unknown"},
}

func kindOf(err error) string {
	if err == nil {
		return "ok"
	}
	for _, k := range kinds {
		if commonerrors.Any(err, k.e) {
			return k.n
		}
	}
	return "other"
}

// sandbox is one backend + paths for one extraction.
type sandbox struct {
	raw   afero.Fs
	fs    filesystem.FS
	trace *vfsx.Trace
	src   string
	dest  string
	clean func()
}

var osSeq struct {
	sync.Mutex
	n int
}

func newSandbox(backend, osRoot string, zipBytes []byte) (*sandbox, error) {
	sb := &sandbox{trace: vfsx.NewTrace(), clean: func() {}}
	sb.trace.MutatingOnly = true
	shared := vfsx.NewShared(sb.trace)
	switch backend {
	case "mem":
		sb.raw = afero.NewMemMapFs()
		sb.src, sb.dest = "/src/a.zip", "/dst"
		if err := sb.raw.MkdirAll("/src", 0o755); err != nil {
			return nil, err
		}
		sb.fs = filesystem.NewVirtualFileSystem(vfsx.NewMem(sb.raw, shared, 0), filesystem.InMemoryFS, filesystem.IdentityPathConverterFunc)
	case "os":
		osSeq.Lock()
		osSeq.n++
		dir := filepath.Join(osRoot, fmt.Sprintf("c%d", osSeq.n))
		osSeq.Unlock()
		if err := os.MkdirAll(dir, 0o755); err != nil {
			return nil, err
		}
		sb.raw = filesystem.NewExtendedOsFs()
		sb.src, sb.dest = filepath.Join(dir, "a.zip"), filepath.Join(dir, "dst")
		sb.clean = func() { _ = os.RemoveAll(dir) }
		sb.fs = filesystem.NewVirtualFileSystem(vfsx.NewOS(sb.raw, shared, 0), filesystem.StandardFS, filesystem.IdentityPathConverterFunc)
	default:
		return nil, fmt.Errorf("unknown backend %q", backend)
	}
	if err := afero.WriteFile(sb.raw, sb.src, zipBytes, 0o644); err != nil {
		sb.clean()
		return nil, err
	}
	return sb, nil
}

func extract(backend, osRoot string, zipBytes []byte, c limitsCfg) (result, error) {
	sb, err := newSandbox(backend, osRoot, zipBytes)
	if err != nil {
		return result{}, err
	}
	defer sb.clean()
	var xerr error
	panicked := ""
	func() {
		defer func() {
			if pv := recover(); pv != nil { // an archive must never bring the caller down: judged as a finding of its own
				panicked = fmt.Sprint(pv)
				xerr = fmt.Errorf("the extraction panicked: %v", pv)
			}
		}()
		_, xerr = sb.fs.UnzipWithContextAndLimits(context.Background(), sb.src, sb.dest, c.build())
	}()
	r := result{Err: xerr, Kind: kindOf(xerr), M: walk(sb.raw, sb.dest), Mutat: sb.trace.Mutating, Panic: panicked}
	if xerr != nil {
		r.ErrText = strings.ReplaceAll(xerr.Error(), filepath.Dir(sb.src), "<sandbox>")
	}
	for _, op := range sb.trace.Log() {
		switch op.Kind {
		case vfsx.KOpenFile, vfsx.KCreate:
			if op.Handle != 0 && op.Mutates {
				r.Handles = append(r.Handles, handleInfo{Path: op.Path, Written: sb.trace.WrittenPerHandle[op.Handle]})
			}
		case vfsx.KMkdirAll, vfsx.KMkdir:
			if op.Path == sb.dest {
				r.Entered = true
			}
		}
	}
	// paths relative to the destination, so that both backends and every sandbox produce the same strings
	rel := func(p string) string { return strings.TrimPrefix(p, sb.dest) }
	for i := range r.Handles {
		r.Handles[i].Path = rel(r.Handles[i].Path)
	}
	for _, mm := range []*map[string]int64{&r.M.files} {
		n := map[string]int64{}
		for k, v := range *mm {
			n[rel(k)] = v
		}
		*mm = n
	}
	nd := map[string]bool{}
	for k := range r.M.dirs {
		nd[rel(k)] = true
	}
	r.M.dirs = nd
	return r, nil
}

// ---- the oracle -------------------------------------------------------------------------------------------------------

type finding struct {
	Sig    string
	Detail string
}

type prepared struct {
	arch   *archive
	zip    []byte
	tr     traits
	shape  string
	lay    [2]*layout // by recursive flag; paths relative to the destination
	t0     [2]result
	t0done [2]bool
}

func b2i(b bool) int {
	if b {
		return 1
	}
	return 0
}

func prepare(a *archive) *prepared {
	p := &prepared{arch: a, zip: buildZip(a.Kids), tr: a.traits(), shape: a.shape()}
	for _, rec := range []bool{false, true} {
		p.lay[b2i(rec)] = a.layout("/", rec)
	}
	return p
}

// judge evaluates clauses 1-4 on one extraction.
func judge(p *prepared, c limitsCfg, t0 result, r result) []finding {
	var out []finding
	lay := p.lay[b2i(c.Rec)]
	// signature = failed clause + which limits + shape of the archive (flat | nested | liar | corrupt) + recursive flag;
	// the lie classes appear only in the two clauses that are about the lie itself. The backend is in the replay object,
	// not in the signature (the same defect shows on both).
	tag := fmt.Sprintf("shape=%s:rec=%v", p.shape, c.Rec)
	if c.Via != "" {
		tag += ":limits=from-constructor"
		if c.Via != "-" {
			tag += "-then-another-constructor-call"
		}
	}
	lieTag := tag
	if p.tr.Liar {
		lieTag += ":lie=" + p.tr.LieClasses
	}
	fileDimReported := false
	honest := !p.tr.Liar && !p.tr.Corrupt
	if r.Panic != "" {
		out = append(out, finding{"panic:" + tag, "the extraction panicked: " + r.Panic})
	}
	// (1)
	if r.Err == nil {
		if v := r.M.violated(c); v != 0 {
			fileDimReported = v&1 != 0
			out = append(out, finding{fmt.Sprintf("success-exceeds:%s:%s", dims(v), tag), fmt.Sprintf("success, but the destination holds files=%d total=%d maxfile=%d depth=%d", r.M.Files, r.M.Total, r.M.MaxFile, r.M.Depth)})
		}
	}
	// (2)
	if t0.Err == nil {
		if v := t0.M.violated(c); v != 0 {
			switch {
			case r.Err == nil:
				if r.M.violated(c) == 0 { // otherwise clause 1 has reported it already
					out = append(out, finding{fmt.Sprintf("not-refused:%s:%s", dims(v), tag), "the archive expands beyond the limits (T0), the call reported success and left less than T0"})
				}
			case honest && r.Kind != "too-large":
				out = append(out, finding{fmt.Sprintf("wrong-kind:%s:%s", r.Kind, tag), "refused, but not with kind 'too large': " + r.ErrText})
			}
		}
	}
	// (3)
	for _, h := range r.Handles {
		d, ok := lay.declared[h.Path]
		if !ok {
			out = append(out, finding{"ENGINE:unmodelled-path", "a file was opened for writing at a path the layout model does not know: " + h.Path})
			continue
		}
		if h.Written > c.File && !fileDimReported { // (a file left behind above the limit was necessarily written above it: one report)
			out = append(out, finding{fmt.Sprintf("written-beyond-file-limit:%s", tag), fmt.Sprintf("%s: %d bytes written, per-file limit %d", h.Path, h.Written, c.File)})
		}
		if uint64(h.Written) > d {
			out = append(out, finding{fmt.Sprintf("written-beyond-announced-size:%s", lieTag), fmt.Sprintf("%s: %d bytes written, header announces %d", h.Path, h.Written, d)})
		}
	}
	// (4)
	if lay.shortReach && r.Err == nil {
		out = append(out, finding{fmt.Sprintf("short-stream-accepted:%s", lieTag), "a member whose central directory announces more than its stream holds was extracted and the call reported success"})
	}
	// one finding per signature and case (several handles of one extraction may break the same clause)
	seen := map[string]bool{}
	uniq := out[:0]
	for _, f := range out {
		if !seen[f.Sig] {
			seen[f.Sig] = true
			uniq = append(uniq, f)
		}
	}
	return uniq
}

// ---- limits configurations ---------------------------------------------------------------------------------------------

func around(exacts []int64, min int64, extra ...int64) []int64 {
	set := map[int64]bool{huge: true}
	for _, e := range extra {
		set[e] = true
	}
	for _, e := range exacts {
		for _, v := range []int64{e - 1, e, e + 1} {
			if v >= min && v < huge {
				set[v] = true
			}
		}
	}
	var l []int64
	for v := range set {
		l = append(l, v)
	}
	sort.Slice(l, func(i, j int) bool { return l[i] < l[j] })
	return l
}

// candidates returns the values of each dimension for one (archive, recursive): {1, exact-1, exact, exact+1, huge}
// with "exact" read off T0 (and, for liars, additionally off the announced and the real sizes).
func candidates(p *prepared, rec bool, t0 result) (file, total, count, depth []int64) {
	fe, te := []int64{t0.M.MaxFile}, []int64{int64(t0.M.Total)}
	if p.tr.Liar {
		lay := p.lay[b2i(rec)]
		var sumA, sumD int64
		for path, d := range lay.declared {
			if d < 1<<40 {
				fe = append(fe, int64(d))
				sumD += int64(d)
			}
			if a, ok := lay.files[path]; ok {
				fe = append(fe, a)
				sumA += a
			}
		}
		te = append(te, sumA, sumD)
		fe = append(fe, 1<<40)
	}
	file = around(fe, 0, 1)
	total = around(te, 0, 1)
	count = around([]int64{t0.M.Files}, 0, 1)
	depth = around([]int64{t0.M.Depth}, -1, -1, 0)
	return
}

// configs: "full" = the product of the four dimensions; "sparse" = each dimension alone (the others huge) plus the
// diagonals (all exact, all exact-1, all exact+1, all 1).
func configs(p *prepared, rec bool, t0 result, mode string) []limitsCfg {
	file, total, count, depth := candidates(p, rec, t0)
	var out []limitsCfg
	seen := map[limitsCfg]bool{}
	add := func(c limitsCfg) {
		if !seen[c] {
			seen[c] = true
			out = append(out, c)
		}
	}
	switch mode {
	case "full":
		for _, f := range file {
			for _, t := range total {
				for _, n := range count {
					for _, d := range depth {
						add(limitsCfg{f, uint64(t), n, d, rec, ""})
					}
				}
			}
		}
	case "file-total": // liars: product of the two size dimensions, count and depth alone
		for _, f := range file {
			for _, t := range total {
				add(limitsCfg{f, uint64(t), huge, -1, rec, ""})
			}
		}
		fallthrough
	default:
		for _, f := range file {
			add(limitsCfg{f, huge, huge, -1, rec, ""})
		}
		for _, t := range total {
			add(limitsCfg{huge, uint64(t), huge, -1, rec, ""})
		}
		for _, n := range count {
			add(limitsCfg{huge, huge, n, -1, rec, ""})
		}
		for _, d := range depth {
			add(limitsCfg{huge, huge, huge, d, rec, ""})
		}
		m := t0.M
		for _, delta := range []int64{-1, 0, 1} {
			f, t, n, d := m.MaxFile+delta, int64(m.Total)+delta, m.Files+delta, m.Depth+delta
			if f >= 0 && t >= 0 && n >= 0 && d >= -1 {
				add(limitsCfg{f, uint64(t), n, d, rec, ""})
			}
		}
		add(limitsCfg{1, 1, 1, 0, rec, ""})
	}
	if rec { // limits objects handed out by the library's constructors, another constructor called before they are used
		for _, d := range depth {
			for _, then := range []string{"-", "DefaultZipLimits", "DefaultLimits", "RecursiveZipLimits(6)", "RecursiveZipLimits(0)", "NoLimits"} {
				add(limitsCfg{ctorFile, ctorTotal, ctorCount, d, true, then})
			}
		}
	}
	return out
}

// ---- statistics ---------------------------------------------------------------------------------------------------------

type stats struct {
	Evaluations    int64
	Nontrivial     int64
	Archives       int64
	ByFamily       map[string]int64
	Outcomes       map[string]int64 // kind | which limits T0 violates | entered
	RefusedEarly   int64            // refused before the per-member loop (archive bigger than the per-file limit, nesting depth)
	Truncated      int64            // liars: stream longer than announced, success, file cut to the announced size
	ShortRefused   int64            // liars: stream shorter than announced, refused
	StricterRefuse int64            // refused although T0 satisfies the limits (allowed)
	MaxWritten     int64
	BytesWritten   int64
	Samples        map[string]sampleRec // one per (family, backend, outcome kind): the first in enumeration order
	Viol           map[string]*violRec  // per signature: number of cases and the first case in enumeration order
}

type violRec struct {
	Key   int64
	N     int64
	First replay
}

type sampleRec struct {
	Key int64
	S   map[string]any
}

func newStats() *stats {
	return &stats{ByFamily: map[string]int64{}, Outcomes: map[string]int64{}, Samples: map[string]sampleRec{}, Viol: map[string]*violRec{}}
}

func (s *stats) merge(o *stats) {
	s.Evaluations += o.Evaluations
	s.Nontrivial += o.Nontrivial
	s.Archives += o.Archives
	s.RefusedEarly += o.RefusedEarly
	s.Truncated += o.Truncated
	s.ShortRefused += o.ShortRefused
	s.StricterRefuse += o.StricterRefuse
	s.BytesWritten += o.BytesWritten
	if o.MaxWritten > s.MaxWritten {
		s.MaxWritten = o.MaxWritten
	}
	for k, v := range o.ByFamily {
		s.ByFamily[k] += v
	}
	for k, v := range o.Outcomes {
		s.Outcomes[k] += v
	}
	for k, v := range o.Samples {
		if old, ok := s.Samples[k]; !ok || v.Key < old.Key {
			s.Samples[k] = v
		}
	}
	for k, v := range o.Viol {
		old, ok := s.Viol[k]
		if !ok {
			c := *v
			s.Viol[k] = &c
			continue
		}
		old.N += v.N
		if v.Key < old.Key {
			old.Key, old.First = v.Key, v.First
		}
	}
}

type replay struct {
	Backend string    `json:"backend"`
	Archive archive   `json:"archive"`
	Limits  limitsCfg `json:"limits"`
	Desc    string    `json:"archive_on_one_line"`
	Result  string    `json:"result"`
	Detail  string    `json:"detail"`
}

// ---- running one archive -------------------------------------------------------------------------------------------------

type job struct {
	arch    *archive
	backend string
	mode    string // full | sparse | file-total
	idx     int
}

func isFinite(c limitsCfg) bool {
	return c.File < huge || c.Total < huge || c.Count < huge || c.Depth >= 0
}

func runJob(rep *ev.Reporter, j job, osRoot string, st *stats) {
	p := prepare(j.arch)
	st.Archives++
	for _, rec := range []bool{false, true} {
		t0, err := extract(j.backend, osRoot, p.zip, hugeCfg(rec))
		if err != nil {
			rep.EngineError("sandbox: %v", err)
			return
		}
		lay := p.lay[b2i(rec)]
		honest := !p.tr.Liar && !p.tr.Corrupt
		if honest {
			// the baseline must be the complete extraction: same files and sizes, same directories as the layout model
			if t0.Err != nil {
				rep.EngineError("T0 of an honest archive failed: %s rec=%v: %v", describe(j.arch.Kids), rec, t0.Err)
				return
			}
			if msg := sameTree(lay, t0.M); msg != "" {
				rep.EngineError("T0 of an honest archive is not the expected tree: %s rec=%v: %s", describe(j.arch.Kids), rec, msg)
				return
			}
		}
		cfgs := append([]limitsCfg{hugeCfg(rec)}, configs(p, rec, t0, j.mode)...)
		for ci, c := range cfgs {
			var r result
			if ci == 0 {
				r = t0
			} else {
				r, err = extract(j.backend, osRoot, p.zip, c)
				if err != nil {
					rep.EngineError("sandbox: %v", err)
					return
				}
			}
			st.Evaluations++
			st.ByFamily[j.arch.Family+"/"+j.backend]++
			t0v := 0
			if t0.Err == nil {
				t0v = t0.M.violated(c)
			}
			if r.Entered && len(j.arch.Kids) > 0 && isFinite(c) {
				st.Nontrivial++
			}
			if r.Err != nil && !r.Entered {
				st.RefusedEarly++
			}
			if r.Err != nil && t0.Err == nil && t0v == 0 {
				st.StricterRefuse++
			}
			st.Outcomes[fmt.Sprintf("%s|T0-violates=%s|entered=%v", r.Kind, dims(t0v), r.Entered)]++
			for _, h := range r.Handles {
				st.BytesWritten += h.Written
				if h.Written > st.MaxWritten {
					st.MaxWritten = h.Written
				}
			}
			if p.tr.Liar {
				if r.Err == nil {
					for path, a := range lay.files {
						if got, ok := r.M.files[path]; ok && got < a {
							st.Truncated++
							break
						}
					}
				} else if lay.shortReach {
					st.ShortRefused++
				}
			}
			fs := judge(p, c, t0, r)
			for _, f := range fs {
				if strings.HasPrefix(f.Sig, "ENGINE:") {
					rep.EngineError("%s: %s [%s | %s]", f.Sig, f.Detail, describe(j.arch.Kids), c)
					continue
				}
				key := int64(j.idx)*1_000_000 + int64(b2i(rec))*500_000 + int64(ci)
				vr, ok := st.Viol[f.Sig]
				if !ok {
					vr = &violRec{Key: key + 1}
					st.Viol[f.Sig] = vr
				}
				vr.N++
				if key < vr.Key {
					vr.Key = key
					vr.First = replay{Backend: j.backend, Archive: *j.arch, Limits: c, Desc: describe(j.arch.Kids), Result: resultString(r), Detail: f.Detail}
				}
			}
			if r.Entered && isFinite(c) && len(j.arch.Kids) > 1 {
				sk := j.arch.Family + "/" + j.backend + "/" + r.Kind
				key := int64(j.idx)*1_000_000 + int64(b2i(rec))*500_000 + int64(ci)
				if old, ok := st.Samples[sk]; !ok || key < old.Key {
					st.Samples[sk] = sampleRec{key, map[string]any{"backend": j.backend, "family": j.arch.Family, "archive": describe(j.arch.Kids), "limits": c.String(), "T0": resultString(t0), "result": resultString(r)}}
				}
			}
		}
	}
}

func resultString(r result) string {
	s := r.Kind
	if r.Err != nil {
		e := r.ErrText
		if len(e) > 160 {
			e = e[:160] + "…"
		}
		s += " (" + e + ")"
	}
	return fmt.Sprintf("%s; on disk: files=%d total=%d maxfile=%d depth=%d", s, r.M.Files, r.M.Total, r.M.MaxFile, r.M.Depth)
}

func sameTree(lay *layout, m measure) string {
	for p, s := range lay.files {
		got, ok := m.files[p]
		if !ok {
			return "missing file " + p
		}
		if got != s {
			return fmt.Sprintf("file %s has %d bytes, expected %d", p, got, s)
		}
	}
	for p := range m.files {
		if _, ok := lay.files[p]; !ok {
			return "unexpected file " + p
		}
	}
	for p := range lay.dirs {
		if !m.dirs[p] {
			return "missing directory " + p
		}
	}
	for p := range m.dirs {
		if !lay.dirs[p] {
			return "unexpected directory " + p
		}
	}
	return ""
}

// ---- self-test of the lying writer ------------------------------------------------------------------------------------------

func selfTest(rep *ev.Reporter) {
	kids := []node{{Kind: "file", Name: "a", Size: 3}, {Kind: "dir", Name: "d/"}, {Kind: "file", Name: "d/b", Size: big, Store: true}, {Kind: "zip", Name: "n.zip", Kids: []node{{Kind: "file", Name: "c", Size: 1}}}}
	b := buildZip(kids)
	zr, err := zip.NewReader(bytes.NewReader(b), int64(len(b)))
	if err != nil {
		rep.EngineError("raw writer: archive/zip cannot read an honest archive: %v", err)
		return
	}
	if len(zr.File) != len(kids) {
		rep.EngineError("raw writer: %d members read back, %d written", len(zr.File), len(kids))
		return
	}
	for i, f := range zr.File {
		if f.Name != kids[i].Name {
			rep.EngineError("raw writer: name %q read back as %q", kids[i].Name, f.Name)
		}
		if kids[i].Kind == "dir" {
			if !f.FileInfo().IsDir() {
				rep.EngineError("raw writer: directory member not read back as a directory")
			}
			continue
		}
		rc, err := f.Open()
		if err != nil {
			rep.EngineError("raw writer: open %s: %v", f.Name, err)
			continue
		}
		got, err := io.ReadAll(rc)
		_ = rc.Close()
		if err != nil || !bytes.Equal(got, kids[i].content()) {
			rep.EngineError("raw writer: content of %s differs after a round trip (%v)", f.Name, err)
		}
	}
	// a lie must be visible exactly where it was put
	l := buildZip([]node{{Kind: "file", Name: "x", Size: 3, Lie: &lie{Class: "huge", Where: "cd"}}})
	zr, err = zip.NewReader(bytes.NewReader(l), int64(len(l)))
	if err != nil || len(zr.File) != 1 || zr.File[0].UncompressedSize64 != 1<<40 {
		rep.EngineError("raw writer: a central-directory lie of 2^40 is not what archive/zip reads back (%v)", err)
	}
	l = buildZip([]node{{Kind: "file", Name: "x", Size: 3, Lie: &lie{Class: "plus1", Where: "local"}}})
	zr, err = zip.NewReader(bytes.NewReader(l), int64(len(l)))
	if err != nil || len(zr.File) != 1 || zr.File[0].UncompressedSize64 != 3 {
		rep.EngineError("raw writer: a local-header lie leaked into the central directory (%v)", err)
	}
}

// ---- the check ------------------------------------------------------------------------------------------------------------

func TestC03(t *testing.T) {
	rep := ev.NewReporter("C03", "exploration")
	osRoot, err := os.MkdirTemp("/dev/shm", "verif-c03-")
	if err != nil {
		rep.EngineError("no sandbox under /dev/shm: %v", err)
		rep.Finish()
		return
	}
	defer os.RemoveAll(osRoot)

	if path := os.Getenv("VERIF_REPLAY"); path != "" {
		runReplay(rep, path, osRoot)
		rep.Coverage["evaluations"] = 1
		rep.Coverage["distinct_nontrivial"] = 2
		rep.Coverage["rule"] = "replay of one stored case"
		rep.Coverage["samples"] = []any{path}
		rep.Finish()
		return
	}

	selfTest(rep)
	thorough := ev.Thorough()

	// ---- the job list (a pure function of the tier)
	var jobs []job
	add := func(as []archive, backend, mode string, stride int) {
		for i := range as {
			if i%stride == 0 {
				jobs = append(jobs, job{arch: &as[i], backend: backend, mode: mode, idx: len(jobs)})
			}
		}
	}
	bound := map[string]any{}
	flat := famFlat(thorough)
	var chainsFull, chainsDeep []archive
	var fan, bombs []archive
	if thorough {
		chainsFull = famChain(1, 3, []string{"plain", "stored", "subdir", "sibling", "jar"}, "chain")
		chainsDeep = famChain(4, 6, []string{"plain", "subdir", "sibling-after"}, "chain-deep")
		fan = famFan(3)
		bombs = famBomb(6, 3)
		bound["flat"] = "every sequence of <= 3 members and every multiset of 4 members over 16 letters"
		bound["chain"] = "nesting depth 1..3 x 5 level variants per level x 6 payloads, full limits product; depth 4..6 x 3 variants per level x 6 payloads, each limit alone + diagonals"
		bound["fan"] = "fan-out 2 to depth 3, 3 leaf payloads, with/without sibling files, full limits product"
		bound["bomb"] = "1 MiB of zeros: flat, innermost of a chain of depth 0..6, one per level of a chain of depth 1..6, every leaf of fan-out 2 to depth 3 (8 MiB)"
	} else {
		chainsFull = famChain(1, 3, []string{"plain", "subdir", "sibling"}, "chain")
		fan = famFan(2)
		bombs = famBomb(3, 2)
		bound["flat"] = "every sequence of <= 3 members over 11 letters"
		bound["chain"] = "nesting depth 1..3 x 3 level variants per level x 6 payloads, full limits product"
		bound["fan"] = "fan-out 2 to depth 2, 3 leaf payloads, with/without sibling files, full limits product"
		bound["bomb"] = "1 MiB of zeros: flat, innermost of a chain of depth 0..3, one per level of a chain of depth 1..3, every leaf of fan-out 2 to depth 2 (4 MiB)"
	}
	liars := famLiar(thorough)
	odd := famOdd()
	bound["liar"] = "real size x {stored, deflated} x announced {0, real-1, real+1, 2^40} x {central directory, local header, both} x placement {alone, after/before an honest member, nested 1 (2) levels}; the nested archive member itself lying; a lying bomb. Limits: per-file x total product, count and depth alone"
	bound["odd"] = "non-zips under 9 zip extensions, real zips under the same extensions and under a non-zip name, empty zip, corrupt zip (top level and nested), nested archive colliding with a sibling directory; full limits product"
	bound["limits"] = "per dimension {1, exact-1, exact, exact+1, huge} with exact read off T0; depth additionally -1 (disabled) and 0; recursive on/off"
	bound["os_backend"] = "a strided subset of flat, every chain of depth <= 2 (thorough: every 7th of all chains), every liar placed alone or nested, the odd family, two bombs; each limit alone + diagonals"

	add(flat, "mem", "full", 1)
	add(chainsFull, "mem", "full", 1)
	add(chainsDeep, "mem", "sparse", 1)
	add(fan, "mem", "full", 1)
	add(bombs, "mem", "sparse", 1)
	add(liars, "mem", "file-total", 1)
	add(odd, "mem", "full", 1)
	// OS backend (tmpfs): a smaller run
	osStride := 23
	if thorough {
		osStride = 11
	}
	add(flat, "os", "sparse", osStride)
	if thorough {
		add(chainsFull, "os", "sparse", 7)
		add(chainsDeep, "os", "sparse", 31)
	} else {
		add(chainsFull, "os", "sparse", 5)
	}
	add(liars, "os", "sparse", 3)
	add(odd, "os", "sparse", 1)
	add(bombs[:3], "os", "sparse", 1)

	// ---- run
	workers := ev.Workers()
	parts := make([]*stats, workers)
	var wg sync.WaitGroup
	var next int64
	var mu sync.Mutex
	for w := 0; w < workers; w++ {
		parts[w] = newStats()
		wg.Add(1)
		go func(st *stats) {
			defer wg.Done()
			for {
				mu.Lock()
				i := next
				next++
				mu.Unlock()
				if i >= int64(len(jobs)) {
					return
				}
				runJob(rep, jobs[i], osRoot, st)
			}
		}(parts[w])
	}
	wg.Wait()
	total := newStats()
	for _, p := range parts {
		total.merge(p)
	}
	for sig, v := range total.Viol { // reported once, after the run, so that the stored replay is the first case in enumeration order on every run
		rep.ViolationN(sig, v.First, v.N)
	}
	var sampleKeys []string
	for k := range total.Samples {
		sampleKeys = append(sampleKeys, k)
	}
	sort.Strings(sampleKeys)
	var samples []any
	for _, k := range sampleKeys {
		samples = append(samples, total.Samples[k].S)
	}

	rep.Coverage["evaluations"] = total.Evaluations
	rep.Coverage["distinct_nontrivial"] = total.Nontrivial
	rep.Coverage["rule"] = "an evaluation is one (archive, limits, recursive, backend) extraction on the real code, all distinct by construction; it is non-trivial when the archive has at least one member, at least one limit is finite, and the trace shows that the call created the destination, i.e. it passed the archive-level checks and entered the per-member loop where the limits are enforced"
	rep.Coverage["archives"] = total.Archives
	rep.Coverage["evaluations_by_family_and_backend"] = total.ByFamily
	rep.Coverage["distinct_outcomes"] = len(total.Outcomes)
	rep.Coverage["outcomes"] = total.Outcomes
	rep.Coverage["refused_before_member_loop"] = total.RefusedEarly
	rep.Coverage["refused_although_T0_within_limits"] = total.StricterRefuse
	rep.Coverage["truncated_to_announced_size"] = total.Truncated
	rep.Coverage["short_stream_refused"] = total.ShortRefused
	rep.Coverage["max_bytes_written_through_one_handle"] = total.MaxWritten
	rep.Coverage["bytes_written_total"] = total.BytesWritten
	rep.Coverage["bound"] = bound
	rep.Coverage["exhaustive"] = true
	rep.Coverage["samples"] = samples
	rep.Coverage["observations"] = []string{
		"truncated_to_announced_size counts successful extractions of an archive whose stream is LONGER than announced: the file is cut to the announced size and no error is raised (recorded, not asserted: DESIGN.md §4 C03)",
		"a lie confined to the local header is invisible to the extractor (archive/zip reads sizes from the central directory)",
		"refused_although_T0_within_limits counts refusals the statement does not require (archive file bigger than the per-file limit, directory members counted as files, an overwritten file counted twice)",
	}
	rep.Assume = []string{
		"T0 (huge-limits extraction, same recursive flag) is the reference for what the archive expands to; for honest archives it is checked against the layout model (paths and sizes) before it is used",
		"Linux path rules; OS backend = tmpfs under /dev/shm",
		"archive/zip (Go standard library) is the reader the repository uses; its behaviour on lying headers is part of what is explored, not assumed",
	}
	rep.Finish()
}

// ---- replay -----------------------------------------------------------------------------------------------------------------

func runReplay(rep *ev.Reporter, path, osRoot string) {
	b, err := os.ReadFile(path)
	if err != nil {
		rep.EngineError("replay: %v", err)
		return
	}
	var doc struct {
		Signature string `json:"signature"`
		Replay    replay `json:"replay"`
	}
	if err := json.Unmarshal(b, &doc); err != nil {
		rep.EngineError("replay does not parse: %v", err)
		return
	}
	rp := doc.Replay
	p := prepare(&rp.Archive)
	t0, err := extract(rp.Backend, osRoot, p.zip, hugeCfg(rp.Limits.Rec))
	if err != nil {
		rep.EngineError("sandbox: %v", err)
		return
	}
	r, err := extract(rp.Backend, osRoot, p.zip, rp.Limits)
	if err != nil {
		rep.EngineError("sandbox: %v", err)
		return
	}
	fmt.Printf("REPLAY archive=%s\nREPLAY limits=%s\nREPLAY T0=%s\nREPLAY result=%s\n", describe(rp.Archive.Kids), rp.Limits, resultString(t0), resultString(r))
	for _, h := range r.Handles {
		fmt.Printf("REPLAY handle %s written=%d announced=%d\n", h.Path, h.Written, p.lay[b2i(rp.Limits.Rec)].declared[h.Path])
	}
	for _, f := range judge(p, rp.Limits, t0, r) {
		fmt.Printf("REPLAY finding %s: %s\n", f.Sig, f.Detail)
		rep.Violation(f.Sig, replay{Backend: rp.Backend, Archive: rp.Archive, Limits: rp.Limits, Desc: describe(rp.Archive.Kids), Result: resultString(r), Detail: f.Detail})
	}
}

package c03

// A zip writer that can lie. It writes local headers, data, central directory and end record byte by byte, so the
// uncompressed size announced in the local header, the one announced in the central directory and the length of the
// real stream are three independent values. Nothing of archive/zip's writer is used (archive/zip's *reader* is used
// once, in the self-test, to show that honest output of this writer is a well-formed archive).

import (
	"bytes"
	"compress/flate"
	"encoding/binary"
	"hash/crc32"
)

const (
	methodStore   = 0
	methodDeflate = 8
	u32max        = 0xFFFFFFFF
)

// rawEntry is one member as it goes on the wire.
type rawEntry struct {
	Name    string
	Method  uint16
	Content []byte // real uncompressed content (what the stream decodes to)
	IsDir   bool
	// LocalUSize / CDUSize: announced uncompressed sizes. Honest = len(Content).
	LocalUSize uint64
	CDUSize    uint64
}

func deflateBytes(b []byte) []byte {
	var buf bytes.Buffer
	w, _ := flate.NewWriter(&buf, flate.BestCompression)
	_, _ = w.Write(b)
	_ = w.Close()
	return buf.Bytes()
}

// writeRawZip serialises the members. DOS time/date are a fixed instant (2020-01-01 00:00:00).
func writeRawZip(entries []rawEntry) []byte {
	const dosTime, dosDate = 0, (2020-1980)<<9 | 1<<5 | 1
	var out bytes.Buffer
	type cdrec struct {
		e       rawEntry
		crc     uint32
		csize   uint64
		offset  uint64
		method  uint16
		extAttr uint32
	}
	var cds []cdrec
	le := binary.LittleEndian
	w16 := func(b *bytes.Buffer, v uint16) { _ = binary.Write(b, le, v) }
	w32 := func(b *bytes.Buffer, v uint32) { _ = binary.Write(b, le, v) }
	w64 := func(b *bytes.Buffer, v uint64) { _ = binary.Write(b, le, v) }
	for _, e := range entries {
		var data []byte
		method := e.Method
		if e.IsDir {
			method = methodStore
		}
		switch method {
		case methodDeflate:
			data = deflateBytes(e.Content)
		default:
			data = e.Content
		}
		crc := crc32.ChecksumIEEE(e.Content)
		rec := cdrec{e: e, crc: crc, csize: uint64(len(data)), offset: uint64(out.Len()), method: method}
		if e.IsDir {
			rec.extAttr = uint32(0o040755)<<16 | 0x10
		} else {
			rec.extAttr = uint32(0o100644) << 16
		}
		// ---- local header
		var extra bytes.Buffer
		us, cs := e.LocalUSize, rec.csize
		need64 := us >= u32max
		if need64 {
			w16(&extra, 1)
			w16(&extra, 16)
			w64(&extra, us)
			w64(&extra, cs)
		}
		w32(&out, 0x04034b50)
		if need64 {
			w16(&out, 45)
		} else {
			w16(&out, 20)
		}
		w16(&out, 0x0800) // names are UTF-8
		w16(&out, method)
		w16(&out, dosTime)
		w16(&out, dosDate)
		w32(&out, crc)
		if need64 {
			w32(&out, u32max)
			w32(&out, u32max)
		} else {
			w32(&out, uint32(cs))
			w32(&out, uint32(us))
		}
		w16(&out, uint16(len(e.Name)))
		w16(&out, uint16(extra.Len()))
		out.WriteString(e.Name)
		out.Write(extra.Bytes())
		out.Write(data)
		cds = append(cds, rec)
	}
	cdStart := out.Len()
	for _, r := range cds {
		var extra bytes.Buffer
		us := r.e.CDUSize
		need64 := us >= u32max
		if need64 { // only the fields that overflow appear in the zip64 extra, in the order usize, csize, offset
			w16(&extra, 1)
			w16(&extra, 8)
			w64(&extra, us)
		}
		w32(&out, 0x02014b50)
		w16(&out, 3<<8|45) // made by: unix
		if need64 {
			w16(&out, 45)
		} else {
			w16(&out, 20)
		}
		w16(&out, 0x0800)
		w16(&out, r.method)
		w16(&out, dosTime)
		w16(&out, dosDate)
		w32(&out, r.crc)
		w32(&out, uint32(r.csize))
		if need64 {
			w32(&out, u32max)
		} else {
			w32(&out, uint32(us))
		}
		w16(&out, uint16(len(r.e.Name)))
		w16(&out, uint16(extra.Len()))
		w16(&out, 0) // comment
		w16(&out, 0) // disk
		w16(&out, 0) // internal attrs
		w32(&out, r.extAttr)
		w32(&out, uint32(r.offset))
		out.WriteString(r.e.Name)
		out.Write(extra.Bytes())
	}
	cdSize := out.Len() - cdStart
	w32(&out, 0x06054b50)
	w16(&out, 0)
	w16(&out, 0)
	w16(&out, uint16(len(cds)))
	w16(&out, uint16(len(cds)))
	w32(&out, uint32(cdSize))
	w32(&out, uint32(cdStart))
	w16(&out, 0)
	return out.Bytes()
}
